/-
Auxiliary list-level lemmas for the interpreter invariants (C13 / C21 / C09): duplicate-freeness of
names, the insertion sorts of rows and declared outputs, the `folded_values` keys of folds, the
declared outputs of a component, `optionalVertices`, `mergeStages` and the execution-order walk.
-/
import TrustfallModel.Proofs.InterpInvDefs

namespace TF.Engine
open TF

/-! ### A. names / duplicates -/

theorem distinctNames_iff (l : List Name) : distinctNames l = true ↔ l.Nodup := by
  induction l with
  | nil => simp [distinctNames]
  | cons n rest ih => simp [distinctNames, ih, List.nodup_cons]

theorem eraseDups_of_nodup {l : List Name} (h : l.Nodup) : l.eraseDups = l := by
  induction l with
  | nil => simp
  | cons a as ih =>
    rw [List.nodup_cons] at h
    have hf : as.filter (fun b => !b == a) = as := by
      rw [List.filter_eq_self]
      intro b hb
      have : b ≠ a := fun hba => h.1 (hba ▸ hb)
      simp [this]
    rw [List.eraseDups_cons, hf, ih h.2]

theorem nodup_map_inj {α β} {f : α → β} {l : List α} (h : (l.map f).Nodup) {a b : α}
    (ha : a ∈ l) (hb : b ∈ l) (hab : f a = f b) : a = b := by
  induction l with
  | nil => cases ha
  | cons x xs ih =>
    rw [List.map_cons, List.nodup_cons] at h
    rcases List.mem_cons.1 ha with rfl | ha' <;> rcases List.mem_cons.1 hb with rfl | hb'
    · rfl
    · exact absurd (hab ▸ List.mem_map_of_mem hb') h.1
    · exact absurd (hab.symm ▸ List.mem_map_of_mem ha') h.1
    · exact ih h.2 ha' hb'

/-! ### B. insertion sort of rows and declared outputs -/

def insertName (n : Name) : List Name → List Name
  | [] => [n]
  | x :: xs => if n < x then n :: x :: xs else x :: insertName n xs

def sortNames (l : List Name) : List Name := l.foldr insertName []

theorem map_fst_insertSorted (kv : Name × Value) (r : Row) :
    (insertSorted kv r).map (·.1) = insertName kv.1 (r.map (·.1)) := by
  induction r with
  | nil => simp [insertSorted, insertName]
  | cons x xs ih =>
    simp only [insertSorted, List.map_cons, insertName]
    split <;> simp [ih]

theorem map_fst_foldr_insertSorted (all : List (Name × Value)) :
    (all.foldr insertSorted []).map (·.1) = sortNames (all.map (·.1)) := by
  induction all with
  | nil => simp [sortNames]
  | cons x xs ih =>
    simp only [List.foldr_cons, List.map_cons, sortNames, map_fst_insertSorted]
    rw [ih]; rfl

theorem map_name_insertOutSorted (o : DeclaredOutput) (r : List DeclaredOutput) :
    (insertOutSorted o r).map (·.name) = insertName o.name (r.map (·.name)) := by
  induction r with
  | nil => simp [insertOutSorted, insertName]
  | cons x xs ih =>
    simp only [insertOutSorted, List.map_cons, insertName]
    split <;> simp [ih]

theorem map_name_foldr_insertOutSorted (l : List DeclaredOutput) :
    (l.foldr insertOutSorted []).map (·.name) = sortNames (l.map (·.name)) := by
  induction l with
  | nil => simp [sortNames]
  | cons x xs ih =>
    simp only [List.foldr_cons, List.map_cons, sortNames, map_name_insertOutSorted]
    rw [ih]; rfl

theorem mem_insertSorted {kv p : Name × Value} {r : Row} :
    p ∈ insertSorted kv r ↔ p = kv ∨ p ∈ r := by
  induction r with
  | nil => simp [insertSorted]
  | cons x xs ih =>
    simp only [insertSorted]
    split
    · simp
    · simp only [List.mem_cons, ih]
      constructor
      · rintro (h | h | h) <;> simp [h]
      · rintro (h | h | h) <;> simp [h]

theorem mem_foldr_insertSorted {all : List (Name × Value)} {p} :
    p ∈ all.foldr insertSorted [] ↔ p ∈ all := by
  induction all with
  | nil => simp
  | cons x xs ih => simp [mem_insertSorted, ih]

theorem mem_insertOutSorted {o p : DeclaredOutput} {r : List DeclaredOutput} :
    p ∈ insertOutSorted o r ↔ p = o ∨ p ∈ r := by
  induction r with
  | nil => simp [insertOutSorted]
  | cons x xs ih =>
    simp only [insertOutSorted]
    split
    · simp
    · simp only [List.mem_cons, ih]
      constructor
      · rintro (h | h | h) <;> simp [h]
      · rintro (h | h | h) <;> simp [h]

theorem mem_foldr_insertOutSorted {l : List DeclaredOutput} {o} :
    o ∈ l.foldr insertOutSorted [] ↔ o ∈ l := by
  induction l with
  | nil => simp
  | cons x xs ih => simp [mem_insertOutSorted, ih]

/-! ### C. keys of folds -/

theorem nestedKeysFolds_eq : (fs : List Fold) → nestedKeysFolds fs = fs.flatMap keysOfFold
  | [] => by simp [nestedKeysFolds]
  | (.mk eid _ _ _ _ comp _ fouts _) :: fs => by
    rw [nestedKeysFolds, nestedKeysFolds_eq fs]
    simp [keysOfFold, Fold.eid, Fold.fouts, Fold.component, List.flatMap_cons]

theorem nestedKeys_eq (c : Component) : nestedKeys c = c.folds.flatMap keysOfFold := by
  cases c with
  | mk r vs es fs os => rw [nestedKeys, nestedKeysFolds_eq]; rfl

/-! ### D. declared outputs -/

def prefixTy (pre : List Bool) (o : DeclaredOutput) : DeclaredOutput :=
  { o with ty := ⟨o.ty.base, pre ++ o.ty.nulls⟩ }

theorem outputType_append (vid : Vid) (ty : QTy) (opt : List Vid) (pre x : List Bool) :
    outputType vid ty opt (pre ++ x) = ⟨(outputType vid ty opt x).base, pre ++ (outputType vid ty opt x).nulls⟩ := by
  simp [outputType]

mutual
theorem declaredOutputs_prefix_gen : (c : Component) → (pre x : List Bool) →
    declaredOutputs c (pre ++ x) = (declaredOutputs c x).map (prefixTy pre)
  | .mk _ _ edges folds outputs, pre, x => by
    simp only [declaredOutputs, List.map_append, List.map_map]
    rw [declaredOutputsFolds_prefix_gen folds _ pre x]
    congr 1
    apply List.map_congr_left
    intro o _
    simp [prefixTy, outputType]
theorem declaredOutputsFolds_prefix_gen : (fs : List Fold) → (opt : List Vid) → (pre x : List Bool) →
    declaredOutputsFolds fs opt (pre ++ x) = (declaredOutputsFolds fs opt x).map (prefixTy pre)
  | [], _, _, _ => by simp [declaredOutputsFolds]
  | (.mk _ fromVid toVid _ _ comp _ fouts _) :: fs, opt, pre, x => by
    simp only [declaredOutputsFolds, List.map_append, List.map_map]
    rw [declaredOutputsFolds_prefix_gen fs opt pre x, List.append_assoc pre,
      declaredOutputs_prefix_gen comp pre]
    congr 2
    apply List.map_congr_left
    intro o _
    simp [prefixTy, outputType]
end

theorem declaredOutputs_prefix (c : Component) (pre : List Bool) :
    declaredOutputs c pre = (declaredOutputs c []).map (prefixTy pre) := by
  simpa using declaredOutputs_prefix_gen c pre []

theorem declaredOutputsFolds_prefix (fs : List Fold) (opt : List Vid) (pre : List Bool) :
    declaredOutputsFolds fs opt pre = (declaredOutputsFolds fs opt []).map (prefixTy pre) := by
  simpa using declaredOutputsFolds_prefix_gen fs opt pre []

theorem declaredOutputsFolds_append (a b : List Fold) (opt pre) :
    declaredOutputsFolds (a ++ b) opt pre =
      declaredOutputsFolds a opt pre ++ declaredOutputsFolds b opt pre := by
  induction a with
  | nil => simp [declaredOutputsFolds]
  | cons f fs ih =>
    cases f
    simp [declaredOutputsFolds, ih]

theorem declaredOutputs_eq (c : Component) (pre) :
    declaredOutputs c pre =
      (c.outputs.map fun o =>
        (⟨o.name, outputType o.vid o.ty (optionalVertices c.edges) pre, o.vid⟩ : DeclaredOutput)) ++
        declaredOutputsFolds c.folds (optionalVertices c.edges) pre := by
  cases c; simp [declaredOutputs, Component.outputs, Component.edges, Component.folds]

theorem declaredOutputsFolds_single (f : Fold) (opt pre) :
    declaredOutputsFolds [f] opt pre =
      (f.fouts.map fun n => (⟨n, outputType f.fromVid intNonNull opt pre, f.toVid⟩ : DeclaredOutput)) ++
        declaredOutputs f.component (pre ++ [opt.contains f.fromVid]) := by
  cases f
  simp [declaredOutputsFolds, Fold.fouts, Fold.fromVid, Fold.toVid, Fold.component]

mutual
theorem declaredOutputs_names : (c : Component) → (pre : List Bool) →
    (declaredOutputs c pre).map (·.name) =
      c.outputs.map (·.name) ++ (c.folds.flatMap keysOfFold).map (·.2)
  | .mk _ _ edges folds outputs, pre => by
    simp only [declaredOutputs, List.map_append, List.map_map, Component.outputs, Component.folds]
    rw [declaredOutputsFolds_names folds]
    congr 1
theorem declaredOutputsFolds_names : (fs : List Fold) → (opt : List Vid) → (pre : List Bool) →
    (declaredOutputsFolds fs opt pre).map (·.name) = (fs.flatMap keysOfFold).map (·.2)
  | [], _, _ => by simp [declaredOutputsFolds]
  | (.mk eid fromVid toVid _ _ comp _ fouts _) :: fs, opt, pre => by
    simp only [declaredOutputsFolds, List.map_append, List.map_map, List.flatMap_cons]
    rw [declaredOutputsFolds_names fs opt pre, declaredOutputs_names comp]
    simp [keysOfFold, Fold.eid, Fold.fouts, Fold.component, nestedKeys_eq, Function.comp_def]
end

/-! ### E. optionalVertices -/

theorem optionalVertices_snoc (es : List IREdge) (e : IREdge) :
    optionalVertices (es ++ [e]) =
      if e.optional || (optionalVertices es).contains e.fromVid then optionalVertices es ++ [e.toVid]
      else optionalVertices es := by
  simp [optionalVertices, List.foldl_append]

theorem optionalVertices_mono (es es' : List IREdge) {x : Vid} (h : x ∈ optionalVertices es) :
    x ∈ optionalVertices (es ++ es') := by
  induction es' generalizing es with
  | nil => simpa using h
  | cons e l ih =>
    have : es ++ e :: l = (es ++ [e]) ++ l := by simp
    rw [this]
    apply ih
    rw [optionalVertices_snoc]
    split
    · exact List.mem_append_left _ h
    · exact h

/-! ### F. mergeStages keeps the two lists in order -/

def Stage.edge? : Stage → Option IREdge
  | .edge e => some e
  | .fold _ => none

def Stage.fold? : Stage → Option Fold
  | .fold f => some f
  | .edge _ => none

@[simp] theorem Stage.edge?_edge (e : IREdge) : (Stage.edge e).edge? = some e := rfl
@[simp] theorem Stage.edge?_fold (f : Fold) : (Stage.fold f).edge? = none := rfl
@[simp] theorem Stage.fold?_fold (f : Fold) : (Stage.fold f).fold? = some f := rfl
@[simp] theorem Stage.fold?_edge (e : IREdge) : (Stage.edge e).fold? = none := rfl

theorem filterMap_edge?_cons_edge (e : IREdge) (l : List Stage) :
    (Stage.edge e :: l).filterMap Stage.edge? = e :: l.filterMap Stage.edge? := rfl
theorem filterMap_edge?_cons_fold (f : Fold) (l : List Stage) :
    (Stage.fold f :: l).filterMap Stage.edge? = l.filterMap Stage.edge? := rfl
theorem filterMap_fold?_cons_fold (f : Fold) (l : List Stage) :
    (Stage.fold f :: l).filterMap Stage.fold? = f :: l.filterMap Stage.fold? := rfl
theorem filterMap_fold?_cons_edge (e : IREdge) (l : List Stage) :
    (Stage.edge e :: l).filterMap Stage.fold? = l.filterMap Stage.fold? := rfl

theorem filterMap_edge?_map_edge (es : List IREdge) :
    (es.map Stage.edge).filterMap Stage.edge? = es := by
  induction es with
  | nil => rfl
  | cons e es ih => rw [List.map_cons, filterMap_edge?_cons_edge, ih]
theorem filterMap_edge?_map_fold (fs : List Fold) :
    (fs.map Stage.fold).filterMap Stage.edge? = [] := by
  induction fs with
  | nil => rfl
  | cons f fs ih => rw [List.map_cons, filterMap_edge?_cons_fold, ih]
theorem filterMap_fold?_map_fold (fs : List Fold) :
    (fs.map Stage.fold).filterMap Stage.fold? = fs := by
  induction fs with
  | nil => rfl
  | cons f fs ih => rw [List.map_cons, filterMap_fold?_cons_fold, ih]
theorem filterMap_fold?_map_edge (es : List IREdge) :
    (es.map Stage.edge).filterMap Stage.fold? = [] := by
  induction es with
  | nil => rfl
  | cons e es ih => rw [List.map_cons, filterMap_fold?_cons_edge, ih]

theorem R.map_eq_ok {α β} {f : α → β} {r : R α} {b : β} (h : r.map f = .ok b) :
    ∃ a, r = .ok a ∧ b = f a := by
  cases r <;> simp [R.map] at h
  exact ⟨_, rfl, h.symm⟩

theorem mergeStages_both {es fs k st} (h : mergeStages es fs k = .ok st) :
    st.filterMap Stage.edge? = es ∧ st.filterMap Stage.fold? = fs := by
  have hnil : ∀ (fs : List Fold) (k : Nat) (st : List Stage), mergeStages [] fs k = .ok st →
      st.filterMap Stage.edge? = [] ∧ st.filterMap Stage.fold? = fs := by
    intro fs k st h
    simp only [mergeStages, R.ok.injEq] at h; subst h
    exact ⟨filterMap_edge?_map_fold _, filterMap_fold?_map_fold _⟩
  have hnil' : ∀ (e : IREdge) (es : List IREdge) (k : Nat) (st : List Stage),
      mergeStages (e :: es) [] k = .ok st →
      st.filterMap Stage.edge? = e :: es ∧ st.filterMap Stage.fold? = [] := by
    intro e es k st h
    simp only [mergeStages, R.ok.injEq] at h; subst h
    exact ⟨filterMap_edge?_map_edge _, filterMap_fold?_map_edge _⟩
  induction k generalizing es fs st with
  | zero =>
    cases es with
    | nil => exact hnil _ _ _ h
    | cons e es =>
      cases fs with
      | nil => exact hnil' _ _ _ _ h
      | cons f fs => simp [mergeStages] at h
  | succ k ih =>
    cases es with
    | nil => exact hnil _ _ _ h
    | cons e es =>
      cases fs with
      | nil => exact hnil' _ _ _ _ h
      | cons f fs =>
        simp only [mergeStages] at h
        split at h
        · obtain ⟨a, ha, rfl⟩ := R.map_eq_ok h
          have := ih ha
          rw [filterMap_edge?_cons_edge, filterMap_fold?_cons_edge, this.1, this.2]
          exact ⟨rfl, rfl⟩
        · split at h
          · obtain ⟨a, ha, rfl⟩ := R.map_eq_ok h
            have := ih ha
            rw [filterMap_edge?_cons_fold, filterMap_fold?_cons_fold, this.1, this.2]
            exact ⟨rfl, rfl⟩
          · cases h

theorem mergeStages_edges {es fs k st} (h : mergeStages es fs k = .ok st) :
    st.filterMap Stage.edge? = es := (mergeStages_both h).1

theorem mergeStages_folds {es fs k st} (h : mergeStages es fs k = .ok st) :
    st.filterMap Stage.fold? = fs := (mergeStages_both h).2

theorem run_foldsDone (st : WState) (stages : List Stage) :
    (st.run stages).foldsDone = st.foldsDone ++ stages.filterMap Stage.fold? := by
  induction stages generalizing st with
  | nil => simp [WState.run]
  | cons s rest ih =>
    have : st.run (s :: rest) = (st.after s).run rest := rfl
    rw [this, ih]
    cases s <;> simp [WState.after, WState.afterEdge, WState.afterFold, filterMap_fold?_cons_edge]

theorem run_edgesDone (st : WState) (stages : List Stage) :
    (st.run stages).edgesDone = st.edgesDone ++ stages.filterMap Stage.edge? := by
  induction stages generalizing st with
  | nil => simp [WState.run]
  | cons s rest ih =>
    have : st.run (s :: rest) = (st.after s).run rest := rfl
    rw [this, ih]
    cases s <;> simp [WState.after, WState.afterEdge, WState.afterFold, filterMap_edge?_cons_fold]

theorem run_recorded (st : WState) (stages : List Stage) :
    (st.run stages).recorded = st.recorded ++ (stages.filterMap Stage.edge?).map (·.toVid) := by
  induction stages generalizing st with
  | nil => simp [WState.run]
  | cons s rest ih =>
    have : st.run (s :: rest) = (st.after s).run rest := rfl
    rw [this, ih]
    cases s <;> simp [WState.after, WState.afterEdge, WState.afterFold, filterMap_edge?_cons_fold]

theorem stagesOf_final {comp : Component} {stages} (h : stagesOf comp = some stages) :
    ((WState.init comp.root).run stages).foldsDone = comp.folds ∧
      ((WState.init comp.root).run stages).edgesDone = comp.edges := by
  unfold stagesOf at h
  split at h
  · rename_i l hl
    cases h
    rw [run_foldsDone, run_edgesDone, mergeStages_edges hl, mergeStages_folds hl]
    simp [WState.init]
  · cases h

/-! ### G. allComps -/

theorem allComps_here {p chain} {c : Component} (h : allComps p chain c = true) :
    p chain c = true := by
  cases c
  simp only [allComps, Bool.and_eq_true] at h
  exact h.1

theorem allCompsF_mem {p chain} {fs : List Fold} (h : allCompsF p chain fs = true) {f : Fold}
    (hf : f ∈ fs) : allComps p (f.imports ++ chain) f.component = true := by
  induction fs with
  | nil => cases hf
  | cons g rest ih =>
    cases g
    simp only [allCompsF, Bool.and_eq_true] at h
    rcases List.mem_cons.1 hf with rfl | hf'
    · exact h.1
    · exact ih h.2 hf'

theorem allComps_fold {p chain} {c : Component} (h : allComps p chain c = true) {f : Fold}
    (hf : f ∈ c.folds) : allComps p (f.imports ++ chain) f.component = true := by
  cases c
  simp only [allComps, Bool.and_eq_true] at h
  exact allCompsF_mem h.2 hf

end TF.Engine
