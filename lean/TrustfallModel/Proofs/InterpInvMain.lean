/-
The invariant result in the form the property files use: under the decidable hypotheses, running
the model under the plain table adapter is the same computation as under the contract-checking
adapter, it fails only at a known site in the presence of a known trigger, and its rows are typed.
-/
import TrustfallModel.Proofs.InterpInvRefine
import TrustfallModel.Proofs.InterpInv

namespace TF.Engine
open TF
open TF.Frontend (SchemaView)

/-- the analysed world of one execution, with the guard `G` -/
def worldOf (S : SchemaView) (D : Data) (ir : IRQuery) (args : List (Name × Value)) (G : Prop)
    (hconf : Conforms S D = true) (hargs : ArgsOK ir args = true) : World where
  S := S
  D := D
  args := args
  vars := ir.variables
  G := G
  conf := hconf
  hargs := fun _ _ hm => argsOK_arg hargs hm

theorem knownSite_not_contract {s : String} (h : knownSite s = true) : isContractSite s = false := by
  simp only [knownSite, Bool.or_eq_true, beq_iff_eq] at h
  rcases h with rfl | rfl <;> decide +kernel

/-- What the invariant proof gives about an execution under the plain table adapter: the result
is the same as under the contract-checking adapter, for which `interpret_safe` holds. -/
theorem exec_safe (S : SchemaView) (D : Data) (ir : IRQuery) (args : List (Name × Value)) (G : Prop)
    (hwf : WFq ir = true) (hso : SchemaOK S ir = true) (hargs : ArgsOK ir args = true)
    (hconf : Conforms S D = true) (hnt : G → NoKnownTrigger D ir args = true) :
    interpret (Env.checked S D args) ir = interpret (Env.ofData D args) ir ∧
    Safe G (fun rows => ∀ r ∈ rows, RowOK ir.rootComponent r) (interpret (Env.ofData D args) ir) := by
  have hs := interpret_safe (worldOf S D ir args G hconf hargs) ir rfl hwf hso hnt
  have hr := interpret_checked_refines S D args ir
  have heq : interpret (Env.checked S D args) ir = interpret (Env.ofData D args) ir := by
    rcases hr with h | ⟨s, h, hc⟩
    · exact h
    · have hs' : Safe G _ (interpret (Env.checked S D args) ir) := hs
      rw [h] at hs'
      have := knownSite_not_contract hs'.1
      rw [hc] at this; cases this
  exact ⟨heq, heq ▸ hs⟩


end TF.Engine
