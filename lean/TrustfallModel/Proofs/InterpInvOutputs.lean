/-
Invariant preservation, part 6: the state at the end of a component, the typing of output cells, and
the values a fold contributes to `folded_values` (`foldOutputs`): exactly the fold's keys, each value
valid for the declared output of that name (one list level per fold, `null` instead of a list when
the fold does not exist, `null` elements for non-existent inner folds).
-/
import TrustfallModel.Proofs.InterpInvFold

namespace TF.Engine
open TF
open TF.Frontend (SchemaView EdgeInfo ParamDecl TypeInfo)

/-! ### the state at the end of a component, outputs -/

def finalState (comp : Component) : WState :=
  match stagesOf comp with
  | some stages => (WState.init comp.root).run stages
  | none => WState.init comp.root

theorem finalState_done {vars : List (Name × QTy)} {chain : List FieldRef} {comp : Component}
    (h : wfLocal vars chain comp = true) :
    (finalState comp).foldsDone = comp.folds ∧ (finalState comp).edgesDone = comp.edges := by
  unfold wfLocal at h
  unfold finalState
  cases hr : comp.vertex? comp.root with
  | none => simp [hr] at h
  | some rootV =>
    cases hs : stagesOf comp with
    | none => simp [hr, hs] at h
    | some stages => exact stagesOf_final hs

theorem wfLocal_outputs {vars : List (Name × QTy)} {chain : List FieldRef} {comp : Component}
    (h : wfLocal vars chain comp = true) :
    (∀ o ∈ comp.outputs, (comp.vertex? o.vid).isSome = true ∧ o.vid ∈ (finalState comp).recorded) ∧
    (comp.outputs.map (·.name) ++ (comp.folds.flatMap keysOfFold).map (·.2)).Nodup := by
  have hd := finalState_done h
  unfold wfLocal at h
  unfold finalState at hd ⊢
  cases hr : comp.vertex? comp.root with
  | none => simp [hr] at h
  | some rootV =>
    cases hs : stagesOf comp with
    | none => simp [hr, hs] at h
    | some stages =>
      simp only [hr, hs, Bool.and_eq_true, List.all_eq_true, List.contains_eq_mem,
        decide_eq_true_eq] at h hd ⊢
      refine ⟨fun o ho => h.2.1 o ho, ?_⟩
      have := (distinctNames_iff _).mp h.2.2
      rw [hd.1] at this
      exact this

theorem outputTyped_of {W : World} {chain : List FieldRef} {comp : Component}
    (h : soLocal W.S chain comp = true) {o : OutputDef} (ho : o ∈ comp.outputs) :
    outputTyped W.S comp o = true := by
  simp only [soLocal, Bool.and_eq_true, List.all_eq_true] at h
  exact h.2 o ho

/-- the flags of a declared output type below the fold levels -/
def innerNulls (o : OutputDef) (opt : List Vid) : List Bool :=
  (outputType o.vid o.ty opt []).nulls

theorem outputType_pre (vid : Vid) (ty : QTy) (opt : List Vid) (pre : List Bool) :
    outputType vid ty opt pre = ⟨ty.base, pre ++ (outputType vid ty opt []).nulls⟩ := by
  simp [outputType]

/-- One output cell: the property fetch honours the contract and its value is valid for the
declared type (below the fold levels). -/
theorem outputCell (W : World) {chain : List FieldRef} {comp : Component}
    (hwf : wfLocal W.vars chain comp = true) (hso : soLocal W.S chain comp = true)
    {o : OutputDef} (ho : o ∈ comp.outputs) {vs : List (Vid × Option VertexId)}
    (hv : VertsOK W comp (finalState comp) vs) :
    ∃ vx v, comp.vertex? o.vid = some vx ∧ lookupV vs o.vid = some v ∧
      W.env.adapter.prop o.vid vx.typeName o.field v = .ok (W.D.propOpt v o.field) ∧
      (∃ b rest, innerNulls o (optionalVertices comp.edges) = b :: rest) ∧
      validNulls (innerNulls o (optionalVertices comp.edges)) o.ty.base (W.D.propOpt v o.field) = true := by
  obtain ⟨hsome, hrec⟩ := (wfLocal_outputs hwf).1 o ho
  cases hvx : comp.vertex? o.vid with
  | none => simp [hvx] at hsome
  | some vx =>
    have hot := outputTyped_of hso ho
    simp only [outputTyped, hvx, Bool.and_eq_true] at hot
    have hp := optQTy_beq hot.1
    rw [← hv.keys] at hrec
    obtain ⟨v, hlv⟩ := lookupV_of_mem hrec
    have hact : activeOK W.D v vx.typeName = true := by
      cases v with
      | none => rfl
      | some x =>
        obtain ⟨vx', hvx', hinst⟩ := hv.inst _ x hlv
        rw [hvx] at hvx'; cases hvx'
        simpa [activeOK] using hinst
    have hvt := isVertexType_of_vertexTyped (vertexTyped_of hso hvx)
    refine ⟨vx, v, rfl, hlv, checked_prop hvt (by simp [hp]) hact, ?_, ?_⟩
    · unfold innerNulls outputType
      cases hn : o.ty.nulls with
      | nil => simp [hn] at hot
      | cons b rest =>
        simp only [List.nil_append]
        split
        · exact ⟨true, rest, rfl⟩
        · exact ⟨b, rest, rfl⟩
    · unfold innerNulls outputType
      cases hn : o.ty.nulls with
      | nil => simp [hn] at hot
      | cons b rest =>
        simp only [List.nil_append]
        cases v with
        | none =>
          have hopt := hv.opt _ hlv
          rw [(finalState_done hwf).2] at hopt
          have hc : (optionalVertices comp.edges).contains o.vid = true := by simpa using hopt
          rw [if_pos hc]
          simp [Data.propOpt, validNulls]
        | some x =>
          have hval := propOpt_valid hact hp x rfl
          simp only [validQ, hn] at hval
          split
          · exact validNulls_nullable_top hval
          · exact hval


/-! ### the outputs of a fold -/

theorem declared_count_mem (f : Fold) (opt : List Vid) {n : Name} (hn : n ∈ f.fouts) :
    (⟨n, outputType f.fromVid intNonNull opt [], f.toVid⟩ : DeclaredOutput) ∈
      declaredOutputsFolds [f] opt [] := by
  rw [declaredOutputsFolds_single]
  exact List.mem_append_left _ (List.mem_map.mpr ⟨n, hn, rfl⟩)

theorem declared_own_mem (f : Fold) (opt : List Vid) {o : OutputDef} (ho : o ∈ f.component.outputs) :
    (⟨o.name, outputType o.vid o.ty (optionalVertices f.component.edges) [opt.contains f.fromVid],
      o.vid⟩ : DeclaredOutput) ∈ declaredOutputsFolds [f] opt [] := by
  rw [declaredOutputsFolds_single, declaredOutputs_eq]
  exact List.mem_append_right _ (List.mem_append_left _ (List.mem_map.mpr ⟨o, ho, rfl⟩))

theorem declared_nested_mem (f : Fold) (opt : List Vid) {d0 : DeclaredOutput}
    (hd : d0 ∈ declaredOutputsFolds f.component.folds (optionalVertices f.component.edges) []) :
    prefixTy [opt.contains f.fromVid] d0 ∈ declaredOutputsFolds [f] opt [] := by
  rw [declaredOutputsFolds_single, declaredOutputs_eq, declaredOutputsFolds_prefix]
  exact List.mem_append_right _ (List.mem_append_right _ (List.mem_map.mpr ⟨d0, hd, rfl⟩))

theorem declaredFolds_nulls_ne : ∀ (fs : List Fold) (opt : List Vid) (pre : List Bool),
    ∀ d ∈ declaredOutputsFolds fs opt pre, ∃ b rest, d.ty.nulls = b :: rest := by
  intro fs
  induction fs with
  | nil => intro opt pre d hd; simp [declaredOutputsFolds] at hd
  | cons f fs ih =>
    intro opt pre d hd
    have : declaredOutputsFolds (f :: fs) opt pre =
        declaredOutputsFolds [f] opt pre ++ declaredOutputsFolds fs opt pre :=
      declaredOutputsFolds_append [f] fs opt pre
    rw [this, List.mem_append] at hd
    rcases hd with hd | hd
    · rw [declaredOutputsFolds_single, List.mem_append] at hd
      rcases hd with hd | hd
      · obtain ⟨n, _, rfl⟩ := List.mem_map.mp hd
        simp only [outputType, intNonNull]
        cases pre with
        | nil => split <;> simp
        | cons p ps => exact ⟨p, _, rfl⟩
      · rw [declaredOutputs_prefix] at hd
        obtain ⟨d0, _, rfl⟩ := List.mem_map.mp hd
        simp only [prefixTy]
        cases pre with
        | nil => exact ⟨_, _, rfl⟩
        | cons p ps => exact ⟨p, _, rfl⟩
    · exact ih opt pre d hd

theorem lookupFolded_some {l : List ((Eid × Name) × Option Value)} {k : Eid × Name}
    {ov : Option Value} (h : lookupFolded l k = some ov) : ∃ p ∈ l, p.1 = k ∧ p.2 = ov := by
  unfold lookupFolded at h
  simp only [Option.map_eq_some_iff] at h
  obtain ⟨p, hp, hov⟩ := h
  refine ⟨p, List.mem_of_find?_eq_some hp, ?_, hov⟩
  have := List.find?_some hp
  simp only [Bool.and_eq_true, beq_iff_eq] at this
  exact Prod.ext this.1 this.2

/-- what `compute_fold` knows about the elements of a fold -/
structure ElemOK (W : World) (fc : Component) (c : Ctx) : Prop where
  verts : VertsOK W fc (finalState fc) c.vertices
  folded : FoldedOK fc fc.folds c.foldedValues

theorem foldOutputColumn_safe (W : World) {chain : List FieldRef} {fc : Component}
    (hwf : wfLocal W.vars chain fc = true) (hso : soLocal W.S chain fc = true)
    {o : OutputDef} (ho : o ∈ fc.outputs) (es : List Ctx) (hes : ∀ c ∈ es, ElemOK W fc c) :
    Safe W.G (fun vals => ∀ val ∈ vals,
        validNulls (innerNulls o (optionalVertices fc.edges)) o.ty.base val = true)
      (foldOutputColumn W.env fc o es) := by
  unfold foldOutputColumn
  obtain ⟨hsome, _⟩ := (wfLocal_outputs hwf).1 o ho
  cases hvx : fc.vertex? o.vid with
  | none => simp [hvx] at hsome
  | some vx =>
    simp only [typeOf_ok hvx, R.bind_ok']
    refine Safe.mapR (P := fun c => c ∈ es) ?_ (fun x hx => hx)
    intro c _ hc
    obtain ⟨vx', v, hvx', hlv, hcall, _, hval⟩ := outputCell W hwf hso ho (hes c hc).verts
    rw [hvx] at hvx'; cases hvx'
    simp only [vertexAt?_eq, hlv, hcall, Safe.ok_iff]
    exact hval


/-- the post-condition of `foldOutputs`: exactly the fold's keys, each value valid for a declared
output of that name -/
def NewsOK (f : Fold) (opt : List Vid) (news : List ((Eid × Name) × Option Value)) : Prop :=
  news.map (·.1) = keysOfFold f ∧
  ∀ p ∈ news, ∃ d ∈ declaredOutputsFolds [f] opt [], d.name = p.1.2 ∧
    validQ d.ty (p.2.getD .null) = true

theorem count_valid (f : Fold) (opt : List Vid) (elems : Option (List Ctx))
    (hnone : elems = none → opt.contains f.fromVid = true) :
    validQ (outputType f.fromVid intNonNull opt [])
      ((elems.map fun es => Value.uint64 (UInt64.ofNat es.length)).getD .null) = true := by
  simp only [outputType, intNonNull, validQ, List.nil_append]
  cases elems with
  | none =>
    simp only [hnone rfl, if_true, Option.map_none, Option.getD_none]
    simp [validNulls]
  | some es =>
    simp only [Option.map_some, Option.getD_some]
    split <;> simp [validNulls]

theorem nested_elem_valid {W : World} {chain : List FieldRef} {fc : Component}
    (hwf : wfLocal W.vars chain fc = true) {d0 : DeclaredOutput}
    (hd0 : d0 ∈ declaredOutputsFolds fc.folds (optionalVertices fc.edges) [])
    {k : Eid × Name} (hk : d0.name = k.2) {c : Ctx} (hc : ElemOK W fc c) {ov : Option Value}
    (hl : lookupFolded c.foldedValues k = some ov) :
    validNulls d0.ty.nulls d0.ty.base (ov.getD .null) = true := by
  obtain ⟨p, hp, hpk, hpv⟩ := lookupFolded_some hl
  obtain ⟨d', hd', hname, hval⟩ := hc.folded.typed p hp
  have hnd : ((declaredOutputsFolds fc.folds (optionalVertices fc.edges) []).map (·.name)).Nodup := by
    rw [declaredOutputsFolds_names]
    exact (List.nodup_append.mp (wfLocal_outputs hwf).2).2.1
  have : d' = d0 := nodup_map_inj hnd hd' hd0 (by rw [hname, hpk, hk])
  subst this
  rw [hpv] at hval
  exact hval

theorem foldOutputs_safe (W : World) {chain' : List FieldRef} {f : Fold} {opt : List Vid}
    (hwf : wfLocal W.vars chain' f.component = true) (hso : soLocal W.S chain' f.component = true)
    (elems : Option (List Ctx))
    (helems : ∀ es, elems = some es → ∀ c ∈ es, ElemOK W f.component c)
    (hnone : elems = none → opt.contains f.fromVid = true) :
    Safe W.G (NewsOK f opt) (foldOutputs W.env f elems) := by
  -- the three groups of keys, in the default (empty / non-existent fold) shape
  have hcount : ∀ p ∈ (f.fouts.map fun n =>
      (((f.eid, n), elems.map fun es => Value.uint64 (UInt64.ofNat es.length)) :
        (Eid × Name) × Option Value)),
      ∃ d ∈ declaredOutputsFolds [f] opt [], d.name = p.1.2 ∧ validQ d.ty (p.2.getD .null) = true := by
    intro p hp
    obtain ⟨n, hn, rfl⟩ := List.mem_map.mp hp
    exact ⟨_, declared_count_mem f opt hn, rfl, count_valid f opt elems hnone⟩
  have hdefault : ∀ (bs : List Bool) (base : Name) (b' : Bool) (rest : List Bool),
      (∀ es, elems ≠ some es) ∨ True →
      validNulls (opt.contains f.fromVid :: b' :: rest) base
        ((elems.map fun _ => Value.list []).getD .null) = true := by
    intro _ base b' rest _
    cases elems with
    | none =>
      rw [hnone rfl]
      simp [validNulls]
    | some es =>
      simp only [Option.map_some, Option.getD_some]
      exact validNulls_list_intro (by simp)
  have hnames := declaredOutputsFolds_names f.component.folds (optionalVertices f.component.edges) []
  unfold foldOutputs
  split
  · -- a non-empty fold
    rename_i e0 erest
    have hes := helems _ rfl
    simp only [R.bind_eq_bind, R.pure_eq_ok]
    refine Safe.bind (Safe.mapR_rel (P := fun o => o ∈ f.component.outputs)
      (Rel := fun o (p : (Eid × Name) × Option Value) => p.1 = (f.eid, o.name) ∧
        ∃ d ∈ declaredOutputsFolds [f] opt [], d.name = p.1.2 ∧ validQ d.ty (p.2.getD .null) = true)
      ?_ (fun x hx => hx)) ?_
    · intro o _ ho
      refine Safe.bind (foldOutputColumn_safe W hwf hso ho (e0 :: erest) hes) ?_
      intro vals hvals
      simp only [Safe.ok_iff]
      refine ⟨by first | rfl | trivial, _, declared_own_mem f opt ho, rfl, ?_⟩
      obtain ⟨_, _, _, _, _, ⟨b', rest, hin⟩, _⟩ := outputCell W hwf hso ho (hes e0 (by simp)).verts
      simp only [Option.getD_some, validQ]
      rw [outputType_pre]
      unfold innerNulls at hin hvals
      simp only [List.singleton_append, hin] at hvals ⊢
      exact validNulls_list_intro hvals
    · intro own hown
      simp only [Safe.ok_iff, NewsOK]
      refine ⟨?_, ?_⟩
      · simp only [List.map_append, List.map_map, keysOfFold]
        have h1 : own.map (·.1) = f.component.outputs.map fun o => (f.eid, o.name) :=
          (ListRel.map_eq hown (f := fun o => (f.eid, o.name)) (g := (·.1))
            (fun a b hr => hr.1.symm)).symm
        rw [h1, nestedKeys_eq, ← (hes e0 (by simp)).folded.keys]
        simp [Function.comp_def]
      · intro p hp
        simp only [List.mem_append] at hp
        rcases hp with (hp | hp) | hp
        · exact hcount p hp
        · obtain ⟨o, _, hr⟩ := hown.mem_right hp
          exact hr.2
        · obtain ⟨k, hk, rfl⟩ := List.mem_map.mp hp
          have hk' : k ∈ f.component.folds.flatMap keysOfFold := by
            rw [← (hes e0 (by simp)).folded.keys]; exact hk
          have : k.2 ∈ (declaredOutputsFolds f.component.folds
              (optionalVertices f.component.edges) []).map (·.name) := by
            rw [hnames]; exact List.mem_map.mpr ⟨k, hk', rfl⟩
          obtain ⟨d0, hd0, hd0n⟩ := List.mem_map.mp this
          refine ⟨_, declared_nested_mem f opt hd0, by simpa [prefixTy] using hd0n, ?_⟩
          obtain ⟨b', rest, hnn⟩ := declaredFolds_nulls_ne _ _ _ d0 hd0
          simp only [Option.getD_some, validQ, prefixTy, List.singleton_append, hnn]
          apply validNulls_list_intro
          intro x hx
          obtain ⟨c, hc, hx'⟩ := List.mem_filterMap.mp hx
          cases hl : lookupFolded c.foldedValues k with
          | none => simp [hl] at hx'
          | some ov =>
            simp only [hl, Option.map_some, Option.some.injEq] at hx'
            subst hx'
            have := nested_elem_valid hwf hd0 hd0n (hes c hc) hl
            rwa [hnn] at this
  · -- an empty or non-existent fold: defaults
    simp only [Safe.ok_iff, NewsOK]
    refine ⟨?_, ?_⟩
    · simp [keysOfFold, Function.comp_def]
    · intro p hp
      simp only [List.mem_append] at hp
      rcases hp with (hp | hp) | hp
      · exact hcount p hp
      · obtain ⟨o, ho, rfl⟩ := List.mem_map.mp hp
        refine ⟨_, declared_own_mem f opt ho, rfl, ?_⟩
        have hot := outputTyped_of hso ho
        simp only [validQ]
        rw [outputType_pre]
        have : ∃ b' rest, (outputType o.vid o.ty (optionalVertices f.component.edges) []).nulls
            = b' :: rest := by
          cases hvx : f.component.vertex? o.vid with
          | none => simp [outputTyped, hvx] at hot
          | some vx =>
            simp only [outputTyped, hvx, Bool.and_eq_true] at hot
            simp only [outputType, List.nil_append]
            cases hn : o.ty.nulls with
            | nil => simp [hn] at hot
            | cons b0 rest => split <;> exact ⟨_, _, rfl⟩
        obtain ⟨b', rest, hin⟩ := this
        simp only [List.singleton_append, hin]
        exact hdefault [] _ b' rest (Or.inr trivial)
      · obtain ⟨k, hk, rfl⟩ := List.mem_map.mp hp
        have hk' : k ∈ f.component.folds.flatMap keysOfFold := by
          rw [← nestedKeys_eq]; exact hk
        have : k.2 ∈ (declaredOutputsFolds f.component.folds
            (optionalVertices f.component.edges) []).map (·.name) := by
          rw [hnames]; exact List.mem_map.mpr ⟨k, hk', rfl⟩
        obtain ⟨d0, hd0, hd0n⟩ := List.mem_map.mp this
        refine ⟨_, declared_nested_mem f opt hd0, by simpa [prefixTy] using hd0n, ?_⟩
        obtain ⟨b', rest, hnn⟩ := declaredFolds_nulls_ne _ _ _ d0 hd0
        simp only [validQ, prefixTy, List.singleton_append, hnn]
        exact hdefault [] _ b' rest (Or.inr trivial)


end TF.Engine
