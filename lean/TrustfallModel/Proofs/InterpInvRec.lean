/-
Invariant preservation, part 3: `expand_recursive_edge` (piggy-backed contexts, implicit coercion
between levels, suspend / unsuspend balance).
-/
import TrustfallModel.Proofs.InterpInvEdge

namespace TF.Engine
open TF
open TF.Frontend (SchemaView EdgeInfo ParamDecl TypeInfo)

/-- State of a context inside a recursion from vertex `F` whose recorded value is `fv`: when `F`
does not exist the context is inactive with the `None` pushed by the first step on top of its
suspended stack; otherwise it is at an instance of the edge's endpoint type, or suspended with such
an instance on top. -/
def RecState (W : World) (et : Name) (fv : Option (Option VertexId)) (c : Ctx) : Prop :=
  match fv with
  | some none => c.active = none ∧ c.suspended.head? = some none
  | some (some _) =>
    (∃ x, c.active = some x ∧ instOf W.D x et = true) ∨
    (c.active = none ∧ ∃ x, c.suspended.head? = some (some x) ∧ instOf W.D x et = true)
  | none => False

structure RecOK (W : World) (comp : Component) (chain : List FieldRef) (st : WState) (F : Vid)
    (et : Name) (c : Ctx) : Prop where
  core : CtxCore W comp chain st c
  state : RecState W et (lookupV c.vertices F) c

def PCtx.top : PCtx → Ctx
  | .mk c _ => c

theorem unpack_mk (c : Ctx) (piggy : List PCtx) : unpack (.mk c piggy) = unpackList piggy ++ [c] := by
  simp [unpack]

theorem mem_unpackList {x : Ctx} {ps : List PCtx} :
    x ∈ unpackList ps ↔ ∃ p ∈ ps, x ∈ unpack p := by
  induction ps with
  | nil => simp [unpackList]
  | cons p ps ih => simp [unpackList, ih]

theorem top_mem_unpack (p : PCtx) : p.top ∈ unpack p := by
  cases p with
  | mk c piggy => simp [unpack_mk, PCtx.top]

theorem RecOK.ensureSuspended {W : World} {comp : Component} {chain : List FieldRef} {st : WState}
    {F : Vid} {et : Name} {c : Ctx} (h : RecOK W comp chain st F et c) :
    RecOK W comp chain st F et c.ensureSuspended := by
  unfold Ctx.ensureSuspended
  cases hact : c.active with
  | none => simpa [hact] using h
  | some x =>
    simp only
    refine ⟨h.core.congr rfl rfl rfl rfl rfl, ?_⟩
    have hs := h.state
    simp only at hs ⊢
    unfold RecState at hs ⊢
    cases hfv : lookupV c.vertices F with
    | none => simp [hfv] at hs
    | some fv =>
      cases fv with
      | none => simp [hfv, hact] at hs
      | some y =>
        simp only [hfv, hact] at hs ⊢
        rcases hs with ⟨x', hx', hi⟩ | ⟨hn, _⟩
        · cases hx'
          exact Or.inr ⟨by simp, x, by simp, hi⟩
        · cases hn

theorem RecOK.moveTo {W : World} {comp : Component} {chain : List FieldRef} {st : WState}
    {F : Vid} {et : Name} {c : Ctx} (h : RecOK W comp chain st F et c)
    (hy : ∃ x, lookupV c.vertices F = some (some x)) {n : VertexId} (hn : instOf W.D n et = true) :
    RecOK W comp chain st F et { c with active := some n } := by
  refine ⟨h.core.congr rfl rfl rfl rfl rfl, ?_⟩
  obtain ⟨x, hx⟩ := hy
  simp only [RecState, hx]
  exact Or.inl ⟨n, rfl, hn⟩

theorem mem_unpackList_leaves {α : Type} {x : Ctx} {g : α → Ctx} {l : List α} :
    x ∈ unpackList (l.map fun m => PCtx.mk (g m) []) ↔ ∃ m ∈ l, x = g m := by
  induction l with
  | nil => simp [unpackList]
  | cons m l ih => simp [unpackList, unpack_mk, ih]

/-- members of one element's expansion -/
theorem mem_unpack_recExpandOne {ns : List VertexId} {c : Ctx} {piggy : List PCtx} {x : Ctx}
    (hx : x ∈ unpackList (recExpandOne ns (.mk c piggy))) :
    x ∈ unpackList piggy ∨ x = c ∨ x = c.ensureSuspended ∨ ∃ n ∈ ns, x = { c with active := some n } := by
  cases ns with
  | nil =>
    simp only [recExpandOne, unpackList, unpack_mk, List.append_nil, List.mem_append,
      List.mem_singleton] at hx
    rcases hx with h | h
    · exact Or.inl h
    · exact Or.inr (Or.inl h)
  | cons n rest =>
    simp only [recExpandOne, unpackList, unpack_mk, List.append_nil, List.mem_append,
      List.mem_singleton, mem_unpackList_leaves] at hx
    rcases hx with ((h | h) | h) | ⟨m, hm, h⟩
    · exact Or.inl h
    · exact Or.inr (Or.inr (Or.inl h))
    · exact Or.inr (Or.inr (Or.inr ⟨n, by simp, by simpa [Ctx.splitTo] using h⟩))
    · exact Or.inr (Or.inr (Or.inr ⟨m, by simp [hm], by simpa [Ctx.splitTo] using h⟩))

def RecInv (W : World) (comp : Component) (chain : List FieldRef) (st : WState) (F : Vid)
    (et : Name) (ps : List PCtx) : Prop :=
  ∀ x ∈ unpackList ps, RecOK W comp chain st F et x

theorem recExpandLevel_safe (W : World) {comp : Component} {chain : List FieldRef} {st : WState}
    {e : IREdge} {et callT : Name}
    (hdecl : edgeDeclOK W.S callT e.name et e.params = true)
    (ps : List PCtx) (hinv : RecInv W comp chain st e.fromVid et ps)
    (htop : ∀ p ∈ ps, activeOK W.D p.top.active callT = true) :
    Safe W.G (fun out => RecInv W comp chain st e.fromVid et out)
      (recExpandLevel W.env e callT ps) := by
  unfold recExpandLevel
  refine Safe.mono (Safe.flatMapR (P := fun p => p ∈ ps)
    (Q := fun y => ∀ x ∈ unpack y, RecOK W comp chain st e.fromVid et x) ?_ (fun x hx => hx)) ?_
  · intro p _ hp
    cases p with
    | mk c piggy =>
      have hact : activeOK W.D c.active callT = true := htop _ hp
      simp only [R.bind_eq_bind, R.pure_eq_ok, checked_nbrs hdecl hact, R.bind_ok', Safe.ok_iff]
      have hall : ∀ x ∈ unpack (PCtx.mk c piggy), RecOK W comp chain st e.fromVid et x :=
        fun x hx => hinv x (mem_unpackList.mpr ⟨_, hp, hx⟩)
      have hc : RecOK W comp chain st e.fromVid et c := hall c (by simp [unpack_mk])
      intro y hy x hx
      have hx' : x ∈ unpackList (recExpandOne (W.D.nbrsOpt c.active e.name e.params) (.mk c piggy)) :=
        mem_unpackList.mpr ⟨y, hy, hx⟩
      rcases mem_unpack_recExpandOne hx' with h | rfl | rfl | ⟨n, hn, rfl⟩
      · exact hall x (by simp [unpack_mk, h])
      · exact hc
      · exact hc.ensureSuspended
      · -- a neighbour: the active vertex exists, so `F` exists
        cases hca : c.active with
        | none => simp [hca, Data.nbrsOpt] at hn
        | some a =>
          have ha : instOf W.D a callT = true := by simpa [activeOK, hca] using hact
          have hni : instOf W.D n et = true := by
            rw [hca] at hn
            exact nbrs_inst hdecl ha n hn
          have hs := hc.state
          unfold RecState at hs
          cases hfv : lookupV c.vertices e.fromVid with
          | none => simp [hfv] at hs
          | some fv =>
            cases fv with
            | none => simp [hfv, hca] at hs
            | some y0 => exact hc.moveTo ⟨y0, hfv⟩ hni
  · intro out hout x hx
    obtain ⟨p, hp, hxp⟩ := mem_unpackList.mp hx
    exact hout p hp x hxp

theorem recCoerceLevel_safe (W : World) {comp : Component} {chain : List FieldRef} {st : WState}
    {e : IREdge} {et t : Name} (hco : coercionOK W.S et t = true)
    (ps : List PCtx) (hinv : RecInv W comp chain st e.fromVid et ps) :
    Safe W.G (fun out => RecInv W comp chain st e.fromVid et out ∧
        ∀ p ∈ out, activeOK W.D p.top.active t = true)
      (recCoerceLevel W.env e et t ps) := by
  unfold recCoerceLevel
  refine Safe.mono (Safe.mapR (P := fun p => p ∈ ps)
    (Q := fun y => (∀ x ∈ unpack y, RecOK W comp chain st e.fromVid et x) ∧
      activeOK W.D y.top.active t = true) ?_ (fun x hx => hx)) ?_
  · intro p _ hp
    cases p with
    | mk c piggy =>
      have hall : ∀ x ∈ unpack (PCtx.mk c piggy), RecOK W comp chain st e.fromVid et x :=
        fun x hx => hinv x (mem_unpackList.mpr ⟨_, hp, hx⟩)
      have hc : RecOK W comp chain st e.fromVid et c := hall c (by simp [unpack_mk])
      have hact : activeOK W.D c.active et = true := by
        have hs := hc.state
        unfold RecState at hs
        cases hca : c.active with
        | none => rfl
        | some a =>
          cases hfv : lookupV c.vertices e.fromVid with
          | none => simp [hfv] at hs
          | some fv =>
            cases fv with
            | none => simp [hfv, hca] at hs
            | some y0 =>
              simp only [hfv, hca] at hs
              rcases hs with ⟨x, hx, hi⟩ | ⟨hn, _⟩
              · cases hx; simpa [activeOK] using hi
              · cases hn
      simp only [R.bind_eq_bind, R.pure_eq_ok]
      rw [checked_coerce hco hact]
      cases hca : c.active with
      | none =>
        simp only [adapter_coerce_none, R.bind_ok', Safe.ok_iff, Bool.false_eq_true, if_false]
        have hes : c.ensureSuspended = c := by simp [Ctx.ensureSuspended, hca]
        rw [hes]
        exact ⟨hall, by simp [PCtx.top, hca, activeOK]⟩
      | some a =>
        have ha : instOf W.D a et = true := by simpa [activeOK, hca] using hact
        simp only [adapter_coerce_some, R.bind_ok', Safe.ok_iff, isA_of_instOf ha]
        split
        · rename_i hcan
          exact ⟨hall, by simpa [PCtx.top, hca, activeOK] using hcan⟩
        · refine ⟨?_, by simp [PCtx.top, Ctx.ensureSuspended, hca, activeOK]⟩
          intro x hx
          simp only [unpack_mk, List.mem_append, List.mem_singleton] at hx
          rcases hx with h | rfl
          · exact hall x (by simp [unpack_mk, h])
          · exact hc.ensureSuspended
  · intro out hout
    refine ⟨?_, fun p hp => (hout p hp).2⟩
    intro x hx
    obtain ⟨p, hp, hxp⟩ := mem_unpackList.mp hx
    exact (hout p hp).1 x hxp

/-- the top of an element in the recursion is at an instance of the endpoint type, or inactive -/
theorem RecInv.top_active {W : World} {comp : Component} {chain : List FieldRef} {st : WState}
    {F : Vid} {et : Name} {ps : List PCtx} (hinv : RecInv W comp chain st F et ps) :
    ∀ p ∈ ps, activeOK W.D p.top.active et = true := by
  intro p hp
  have hc := hinv p.top (mem_unpackList.mpr ⟨p, hp, top_mem_unpack p⟩)
  have hs := hc.state
  unfold RecState at hs
  cases hca : p.top.active with
  | none => rfl
  | some a =>
    cases hfv : lookupV p.top.vertices F with
    | none => simp [hfv] at hs
    | some fv =>
      cases fv with
      | none => simp [hfv, hca] at hs
      | some y0 =>
        simp only [hfv, hca] at hs
        rcases hs with ⟨x, hx, hi⟩ | ⟨hn, _⟩
        · cases hx; simpa [activeOK] using hi
        · cases hn

theorem recLevels_safe (W : World) {comp : Component} {chain : List FieldRef} {st : WState}
    {e : IREdge} {et : Name} {coerceTo : Option Name}
    (hdecl : edgeDeclOK W.S (coerceTo.getD et) e.name et e.params = true)
    (hco : ∀ t, coerceTo = some t → coercionOK W.S et t = true)
    (k : Nat) (ps : List PCtx) (hinv : RecInv W comp chain st e.fromVid et ps) :
    Safe W.G (fun out => RecInv W comp chain st e.fromVid et out)
      (recLevels W.env e et (coerceTo.getD et) coerceTo k ps) := by
  induction k generalizing ps with
  | zero => simpa [recLevels] using hinv
  | succ k ih =>
    simp only [recLevels]
    cases hct : coerceTo with
    | none =>
      simp only [R.bind_ok']
      subst hct
      refine Safe.bind (recExpandLevel_safe W hdecl ps hinv hinv.top_active) ?_
      intro ps' hinv'
      exact ih ps' hinv'
    | some t =>
      subst hct
      simp only
      refine Safe.bind (recCoerceLevel_safe W (hco t rfl) ps hinv) ?_
      intro ps1 h1
      refine Safe.bind (recExpandLevel_safe W hdecl ps1 h1.1 h1.2) ?_
      intro ps' hinv'
      exact ih ps' hinv'


/-! ### the whole recursive expansion -/

theorem anc_none {W : World} {comp : Component} {st : WState} {vs : List (Vid × Option VertexId)}
    (h : VertsOK W comp st vs) {F : Vid} (hF : lookupV vs F = some none) :
    ∀ (k : Nat) (a : Vid), ancOrSelf st.edgesDone F k a = true → lookupV vs a = some none := by
  intro k
  induction k with
  | zero =>
    intro a ha
    simp only [ancOrSelf, beq_iff_eq] at ha
    subst ha; exact hF
  | succ k ih =>
    intro a ha
    simp only [ancOrSelf, Bool.or_eq_true, beq_iff_eq, List.any_eq_true, Bool.and_eq_true] at ha
    rcases ha with rfl | ⟨e', he', hto, hanc⟩
    · exact hF
    · subst hto
      exact h.noneClosed e' he' (ih _ hanc)

theorem ensureUnsuspended_safe {W : World} {comp : Component} {chain : List FieldRef} {st : WState}
    {e : IREdge} {et : Name} {x : Ctx} (hx : RecOK W comp chain st e.fromVid et x) :
    Safe W.G (fun c' => CtxCore W comp chain st c' ∧ NewActive W e et c' c'.active)
      x.ensureUnsuspended := by
  have hs := hx.state
  unfold RecState at hs
  unfold Ctx.ensureUnsuspended
  cases hfv : lookupV x.vertices e.fromVid with
  | none => simp [hfv] at hs
  | some fv =>
    cases fv with
    | none =>
      simp only [hfv] at hs
      obtain ⟨hact, hsus⟩ := hs
      simp only [hact]
      cases hsl : x.suspended with
      | nil => simp [hsl] at hsus
      | cons top rest =>
        simp only [hsl, List.head?_cons, Option.some.injEq] at hsus
        subst hsus
        simp only [Safe.ok_iff]
        exact ⟨hx.core.congr rfl rfl rfl rfl rfl, rfl, fun _ => Or.inl hfv, fun _ => rfl⟩
    | some y0 =>
      simp only [hfv] at hs
      rcases hs with ⟨a, ha, hi⟩ | ⟨hact, a, hsus, hi⟩
      · simp only [ha, Safe.ok_iff]
        refine ⟨hx.core, by simpa [activeOK] using hi, (fun h => by cases h), fun h => ?_⟩
        rw [hfv] at h; cases h
      · simp only [hact]
        cases hsl : x.suspended with
        | nil => simp [hsl] at hsus
        | cons top rest =>
          simp only [hsl, List.head?_cons, Option.some.injEq] at hsus
          subst hsus
          simp only [Safe.ok_iff]
          refine ⟨hx.core.congr rfl rfl rfl rfl rfl, by simpa [activeOK] using hi,
            (fun h => by cases h), fun h => ?_⟩
          rw [hfv] at h; cases h

theorem expandRecursive_safe (W : World) {comp : Component} {chain : List FieldRef} {st : WState}
    {e : IREdge} {r : Recursive} {fromV toV : IRVertex}
    (hfromV : comp.vertex? e.fromVid = some fromV)
    (hdecl1 : edgeDeclOK W.S fromV.typeName e.name toV.preType e.params = true)
    (hsub : W.S.subOrEq toV.preType fromV.typeName = true)
    (hdecl2 : edgeDeclOK W.S (r.coerceTo.getD toV.preType) e.name toV.preType e.params = true)
    (hco : ∀ t, r.coerceTo = some t → coercionOK W.S toV.preType t = true)
    (hrec : e.fromVid ∈ st.recorded)
    (hanc : ancOrSelf st.edgesDone e.fromVid st.edgesDone.length st.active = true)
    (ctxs : List Ctx) (hc : ∀ c ∈ ctxs, CtxOK W comp chain st c) :
    Safe W.G (fun out => ∀ c' ∈ out, CtxCore W comp chain st c' ∧
        NewActive W e toV.preType c' c'.active)
      (expandRecursive W.env e r fromV toV ctxs) := by
  unfold expandRecursive
  refine Safe.bind (P := fun init => ∀ c1 ∈ init, RecOK W comp chain st e.fromVid toV.preType c1 ∧
      activeOK W.D c1.active fromV.typeName = true) ?_ ?_
  · refine Safe.mapR (P := fun c => c ∈ ctxs) ?_ (fun x hx => hx)
    intro c _ hcm
    have hok := hc c hcm
    have hrec' := hrec
    rw [← hok.verts.keys] at hrec'
    obtain ⟨v, hv⟩ := lookupV_of_mem hrec'
    unfold recInit
    cases hact : c.active with
    | none =>
      simp only [Option.isNone_none, if_true]
      have hact' := @activate_ok ⟨none, c.vertices, c.values, none :: c.suspended, c.foldCounts,
        c.foldedValues, c.importedTags⟩ e.fromVid v hv
      rw [hact']
      simp only [Safe.ok_iff]
      refine ⟨⟨hok.toCtxCore.congr rfl rfl rfl rfl rfl, ?_⟩, ?_⟩
      · simp only [RecState, hv]
        cases v with
        | none => exact ⟨rfl, rfl⟩
        | some x =>
          obtain ⟨vx, hvx, hinst⟩ := hok.verts.inst _ x hv
          rw [hfromV] at hvx; cases hvx
          exact Or.inl ⟨x, rfl, instOf_super hinst hsub⟩
      · cases v with
        | none => rfl
        | some x =>
          obtain ⟨vx, hvx, hinst⟩ := hok.verts.inst _ x hv
          rw [hfromV] at hvx; cases hvx
          simpa [activeOK] using hinst
    | some a =>
      simp only [Option.isNone_some, Bool.false_eq_true, if_false]
      rw [activate_ok hv]
      simp only [Safe.ok_iff]
      cases v with
      | none =>
        -- the source does not exist, but the context is active: excluded by the ancestor discipline
        have := anc_none hok.verts hv _ _ hanc
        rw [hok.act, hact] at this
        cases this
      | some x =>
        obtain ⟨vx, hvx, hinst⟩ := hok.verts.inst _ x hv
        rw [hfromV] at hvx; cases hvx
        refine ⟨⟨hok.toCtxCore.congr rfl rfl rfl rfl rfl, ?_⟩, by simpa [activeOK] using hinst⟩
        simp only [RecState, hv]
        exact Or.inl ⟨x, rfl, instOf_super hinst hsub⟩
  · intro init hinit
    unfold recFinish
    have het : toV.coercedFrom.getD toV.typeName = toV.preType := rfl
    simp only [het]
    have hinv0 : RecInv W comp chain st e.fromVid toV.preType (init.map fun c => PCtx.mk c []) := by
      intro x hx
      obtain ⟨c, hcm, hxc⟩ := (mem_unpackList_leaves (g := fun c => c)).mp hx
      have hxc' : x = c := hxc
      rw [hxc']
      exact (hinit c hcm).1
    have htop0 : ∀ p ∈ (init.map fun c => PCtx.mk c []), activeOK W.D p.top.active fromV.typeName = true := by
      intro p hp
      obtain ⟨c, hcm, rfl⟩ := List.mem_map.mp hp
      exact (hinit c hcm).2
    refine Safe.bind (recExpandLevel_safe W hdecl1 _ hinv0 htop0) ?_
    intro level1 h1
    refine Safe.bind (recLevels_safe W hdecl2 hco (r.depth - 1) level1 h1) ?_
    intro final hfin
    refine Safe.mapR (P := fun x => x ∈ unpackList final) ?_ (fun x hx => hx)
    intro x _ hx
    exact ensureUnsuspended_safe (hfin x hx)

end TF.Engine
