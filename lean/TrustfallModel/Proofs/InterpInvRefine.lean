/-
Refinement of the interpreter along the adapter: when every adapter call of `e1` either answers
exactly like the corresponding call of `e2` or fails with a `contract:` panic, then the whole
interpreter under `e1` either gives exactly the result it gives under `e2`, or fails with a
`contract:` panic.  Instance: the contract-checking adapter `checkedAdapter S D` against the plain
table adapter `D.adapter`.
-/
import TrustfallModel.Proofs.InterpInvSafe

namespace TF.Engine
open TF

/-- `r1` is `r2`, or a contract panic. -/
def Refines {α : Type} (r1 r2 : R α) : Prop := r1 = r2 ∨ ∃ s, r1 = .panic s ∧ isContractSite s = true

/-- two environments that differ only in the adapter, the first one's adapter refining the second's call by call -/
structure EnvRefines (e1 e2 : Env) : Prop where
  args : e1.args = e2.args
  regex : e1.regex = e2.regex
  useLimits : e1.useLimits = e2.useLimits
  start : ∀ edge ps vid, Refines (e1.adapter.start edge ps vid) (e2.adapter.start edge ps vid)
  prop : ∀ vid t f v, Refines (e1.adapter.prop vid t f v) (e2.adapter.prop vid t f v)
  nbrs : ∀ eid t e ps v, Refines (e1.adapter.nbrs eid t e ps v) (e2.adapter.nbrs eid t e ps v)
  coerce : ∀ vid t to v, Refines (e1.adapter.coerce vid t to v) (e2.adapter.coerce vid t to v)

namespace Refines
variable {α β : Type}

theorem refl (r : R α) : Refines r r := Or.inl rfl

theorem of_eq {r1 r2 : R α} (h : r1 = r2) : Refines r1 r2 := Or.inl h

theorem contract {s : String} (r2 : R α) (h : isContractSite s = true) : Refines (.panic s) r2 :=
  Or.inr ⟨s, rfl, h⟩

theorem bind {r1 r2 : R α} {f1 f2 : α → R β} (h : Refines r1 r2)
    (hf : ∀ a, Refines (f1 a) (f2 a)) : Refines (r1.bind f1) (r2.bind f2) := by
  rcases h with h | ⟨s, h, hs⟩
  · subst h
    cases r1 with
    | ok a => exact hf a
    | panic s => exact refl _
    | fuel => exact refl _
  · subst h
    exact contract _ hs

theorem map {r1 r2 : R α} (f : α → β) (h : Refines r1 r2) : Refines (r1.map f) (r2.map f) := by
  rcases h with h | ⟨s, h, hs⟩
  · subst h; exact refl _
  · subst h; exact contract _ hs

end Refines

theorem mapR_eq_bind {α β : Type} (f : α → R β) (x : α) (xs : List α) :
    mapR f (x :: xs) = (f x).bind fun y => (mapR f xs).bind fun ys => .ok (y :: ys) := by
  simp only [mapR]
  cases f x <;> simp
  cases mapR f xs <;> simp

theorem filterMapR_eq_bind {α β : Type} (f : α → R (Option β)) (x : α) (xs : List α) :
    filterMapR f (x :: xs) = (f x).bind fun y => (filterMapR f xs).bind fun ys =>
      .ok (match y with | some b => b :: ys | none => ys) := by
  simp only [filterMapR]
  cases f x <;> simp
  cases filterMapR f xs <;> simp
  rename_i o _
  cases o <;> rfl

theorem flatMapR_eq_bind {α β : Type} (f : α → R (List β)) (x : α) (xs : List α) :
    flatMapR f (x :: xs) = (f x).bind fun ys => (flatMapR f xs).bind fun zs => .ok (ys ++ zs) := by
  simp only [flatMapR]
  cases f x <;> simp
  cases flatMapR f xs <;> simp

theorem Refines.mapR {α β : Type} {f1 f2 : α → R β} (h : ∀ x, Refines (f1 x) (f2 x))
    (l : List α) : Refines (mapR f1 l) (mapR f2 l) := by
  induction l with
  | nil => exact Refines.refl _
  | cons x xs ih =>
    rw [mapR_eq_bind, mapR_eq_bind]
    exact Refines.bind (h x) fun y => Refines.bind ih fun ys => Refines.refl _

theorem Refines.filterMapR {α β : Type} {f1 f2 : α → R (Option β)} (h : ∀ x, Refines (f1 x) (f2 x))
    (l : List α) : Refines (filterMapR f1 l) (filterMapR f2 l) := by
  induction l with
  | nil => exact Refines.refl _
  | cons x xs ih =>
    rw [filterMapR_eq_bind, filterMapR_eq_bind]
    exact Refines.bind (h x) fun y => Refines.bind ih fun ys => Refines.refl _

theorem Refines.flatMapR {α β : Type} {f1 f2 : α → R (List β)} (h : ∀ x, Refines (f1 x) (f2 x))
    (l : List α) : Refines (flatMapR f1 l) (flatMapR f2 l) := by
  induction l with
  | nil => exact Refines.refl _
  | cons x xs ih =>
    rw [flatMapR_eq_bind, flatMapR_eq_bind]
    exact Refines.bind (h x) fun y => Refines.bind ih fun ys => Refines.refl _

/-! ### one lemma per interpreter function -/

section
variable {e1 e2 : Env} (h : EnvRefines e1 e2)
include h

theorem EnvRefines.arg_eq (n : Name) : e1.arg n = e2.arg n := by
  unfold Env.arg; rw [h.args]

theorem coerceIfNeeded_refines (v : IRVertex) (ctxs : List Ctx) :
    Refines (coerceIfNeeded e1 v ctxs) (coerceIfNeeded e2 v ctxs) := by
  unfold coerceIfNeeded
  split
  · exact .refl _
  · simp only [R.bind_eq_bind, R.pure_eq_ok]
    exact Refines.filterMapR (fun c => Refines.bind (h.coerce ..) fun _ => .refl _) _

theorem computeLocalField_refines (vid : Vid) (t f : Name) (ctxs : List Ctx) :
    Refines (computeLocalField e1 vid t f ctxs) (computeLocalField e2 vid t f ctxs) := by
  unfold computeLocalField
  simp only [R.bind_eq_bind, R.pure_eq_ok]
  exact Refines.mapR (fun c => Refines.bind (h.prop ..) fun _ => .refl _) _

theorem tagValue_refines (comp : Component) (cur : Vid) (r : FieldRef) (c : Ctx) :
    Refines (tagValue e1 comp cur r c) (tagValue e2 comp cur r c) := by
  unfold tagValue
  split
  · split
    · simp only [R.bind_eq_bind, R.pure_eq_ok]
      exact Refines.bind (.refl _) fun t => Refines.bind (h.prop ..) fun _ => .refl _
    · split
      · split
        · simp only [R.bind_eq_bind, R.pure_eq_ok]
          exact Refines.bind (h.prop ..) fun _ => .refl _
        · exact .refl _
      · exact .refl _
  · exact .refl _

theorem applyFilter_refines (comp : Component) (cur : Vid) (f : IRFilter) (ctxs : List Ctx) :
    Refines (applyFilter e1 comp cur f ctxs) (applyFilter e2 comp cur f ctxs) := by
  unfold applyFilter
  rw [h.regex]
  simp only [h.arg_eq]
  split
  · exact .refl _
  · exact .refl _
  · simp only [R.bind_eq_bind, R.pure_eq_ok]
    exact Refines.filterMapR (fun c => Refines.bind (tagValue_refines h ..) fun _ => .refl _) _
  · exact .refl _

theorem applyLocalFieldFilter_refines (comp : Component) (vid : Vid) (f : IRFilter) (ctxs : List Ctx) :
    Refines (applyLocalFieldFilter e1 comp vid f ctxs) (applyLocalFieldFilter e2 comp vid f ctxs) := by
  unfold applyLocalFieldFilter
  split
  · exact Refines.bind (.refl _) fun t =>
      Refines.bind (computeLocalField_refines h ..) fun _ => applyFilter_refines h ..
  · exact .refl _

theorem applyLocalFilters_refines (comp : Component) (vid : Vid) (fs : List IRFilter) (ctxs : List Ctx) :
    Refines (applyLocalFilters e1 comp vid fs ctxs) (applyLocalFilters e2 comp vid fs ctxs) := by
  induction fs generalizing ctxs with
  | nil => exact .refl _
  | cons f fs ih =>
    simp only [applyLocalFilters]
    exact Refines.bind (applyLocalFieldFilter_refines h ..) fun c => ih c

theorem enterVertex_refines (comp : Component) (v : IRVertex) (ctxs : List Ctx) :
    Refines (enterVertex e1 comp v ctxs) (enterVertex e2 comp v ctxs) := by
  unfold enterVertex
  exact Refines.bind (coerceIfNeeded_refines h ..) fun _ =>
    Refines.bind (applyLocalFilters_refines h ..) fun _ => .refl _

theorem expandNonRecursive_refines (t : Name) (e : IREdge) (ctxs : List Ctx) :
    Refines (expandNonRecursive e1 t e ctxs) (expandNonRecursive e2 t e ctxs) := by
  unfold expandNonRecursive
  simp only [R.bind_eq_bind, R.pure_eq_ok]
  exact Refines.flatMapR (fun c => Refines.bind (.refl _) fun _ =>
    Refines.bind (h.nbrs ..) fun _ => .refl _) _

theorem recExpandLevel_refines (e : IREdge) (t : Name) (ps : List PCtx) :
    Refines (recExpandLevel e1 e t ps) (recExpandLevel e2 e t ps) := by
  unfold recExpandLevel
  simp only [R.bind_eq_bind, R.pure_eq_ok]
  refine Refines.flatMapR (fun p => ?_) _
  cases p with
  | mk c piggy => exact Refines.bind (h.nbrs ..) fun _ => .refl _

theorem recCoerceLevel_refines (e : IREdge) (t to : Name) (ps : List PCtx) :
    Refines (recCoerceLevel e1 e t to ps) (recCoerceLevel e2 e t to ps) := by
  unfold recCoerceLevel
  simp only [R.bind_eq_bind, R.pure_eq_ok]
  refine Refines.mapR (fun p => ?_) _
  cases p with
  | mk c piggy => exact Refines.bind (h.coerce ..) fun _ => .refl _

theorem recLevels_refines (e : IREdge) (et rf : Name) (ct : Option Name) (k : Nat) (ps : List PCtx) :
    Refines (recLevels e1 e et rf ct k ps) (recLevels e2 e et rf ct k ps) := by
  induction k generalizing ps with
  | zero => exact .refl _
  | succ k ih =>
    simp only [recLevels]
    refine Refines.bind ?_ fun ps' => Refines.bind (recExpandLevel_refines h ..) fun ps'' => ih ps''
    cases ct with
    | none => exact .refl _
    | some t => exact recCoerceLevel_refines h ..

theorem recFinish_refines (e : IREdge) (r : Recursive) (fromV toV : IRVertex) (init : List Ctx) :
    Refines (recFinish e1 e r fromV toV init) (recFinish e2 e r fromV toV init) := by
  unfold recFinish
  exact Refines.bind (recExpandLevel_refines h ..) fun _ =>
    Refines.bind (recLevels_refines h ..) fun _ => .refl _

theorem expandRecursive_refines (e : IREdge) (r : Recursive) (fromV toV : IRVertex) (ctxs : List Ctx) :
    Refines (expandRecursive e1 e r fromV toV ctxs) (expandRecursive e2 e r fromV toV ctxs) := by
  unfold expandRecursive
  exact Refines.bind (.refl _) fun _ => recFinish_refines h ..

theorem expandEdge_refines (comp : Component) (e : IREdge) (ctxs : List Ctx) :
    Refines (expandEdge e1 comp e ctxs) (expandEdge e2 comp e ctxs) := by
  unfold expandEdge
  split
  · refine Refines.bind ?_ fun _ => enterVertex_refines h ..
    cases e.recursive with
    | none => exact expandNonRecursive_refines h ..
    | some r => exact expandRecursive_refines h ..
  · exact .refl _

theorem maxLimitOf_eq (f : IRFilter) : maxLimitOf e1 f = maxLimitOf e2 f := by
  unfold maxLimitOf
  simp only [h.arg_eq]

theorem maxFoldLimit_eq (fs : List IRFilter) (acc : Option Nat) :
    maxFoldLimit e1 fs acc = maxFoldLimit e2 fs acc := by
  induction fs generalizing acc with
  | nil => rfl
  | cons f fs ih => simp only [maxFoldLimit, maxLimitOf_eq h, ih]

theorem minLimitOf_eq (f : IRFilter) : minLimitOf e1 f = minLimitOf e2 f := by
  unfold minLimitOf
  simp only [h.arg_eq]

theorem minFoldLimit_eq (fs : List IRFilter) (acc : Option Nat) :
    minFoldLimit e1 fs acc = minFoldLimit e2 fs acc := by
  induction fs generalizing acc with
  | nil => rfl
  | cons f fs ih => simp only [minFoldLimit, minLimitOf_eq h, ih]

theorem effectiveMinLimit_eq (parent : Component) (fold : Fold) :
    effectiveMinLimit e1 parent fold = effectiveMinLimit e2 parent fold := by
  unfold effectiveMinLimit
  simp only [minFoldLimit_eq h]

theorem foldLimits_eq (parent : Component) (fold : Fold) :
    foldLimits e1 parent fold = foldLimits e2 parent fold := by
  unfold foldLimits
  simp only [h.useLimits, maxFoldLimit_eq h, effectiveMinLimit_eq h]


theorem importTag_refines (parent : Component) (r : FieldRef) (c : Ctx) :
    Refines (importTag e1 parent r c) (importTag e2 parent r c) := by
  unfold importTag
  split
  · split
    · exact .refl _
    · simp only [R.bind_eq_bind, R.pure_eq_ok]
      exact Refines.bind (.refl _) fun _ => Refines.bind (h.prop ..) fun _ => .refl _
  · exact .refl _

theorem importTags_refines (parent : Component) (rs : List FieldRef) (c : Ctx) :
    Refines (importTags e1 parent rs c) (importTags e2 parent rs c) := by
  induction rs generalizing c with
  | nil => exact .refl _
  | cons r rs ih =>
    simp only [importTags]
    exact Refines.bind (importTag_refines h ..) fun c' => ih c'

theorem applyPostFilter_refines (parent : Component) (fold : Fold) (f : IRFilter) (c : Ctx) :
    Refines (applyPostFilter e1 parent fold f c) (applyPostFilter e2 parent fold f c) := by
  unfold applyPostFilter
  split
  · simp only [R.bind_eq_bind, R.pure_eq_ok]
    exact Refines.bind (applyFilter_refines h ..) fun _ => .refl _
  · simp only [R.bind_eq_bind, R.pure_eq_ok]
    exact Refines.bind (applyFilter_refines h ..) fun _ => .refl _
  · exact .refl _

theorem applyPostFilters_refines (parent : Component) (fold : Fold) (fs : List IRFilter) (c : Ctx) :
    Refines (applyPostFilters e1 parent fold fs c) (applyPostFilters e2 parent fold fs c) := by
  induction fs generalizing c with
  | nil => exact .refl _
  | cons f fs ih =>
    simp only [applyPostFilters, R.bind_eq_bind, R.pure_eq_ok]
    refine Refines.bind (applyPostFilter_refines h ..) fun o => ?_
    cases o with
    | none => exact .refl _
    | some c' => exact ih c'

theorem foldOutputColumn_refines (comp : Component) (o : OutputDef) (es : List Ctx) :
    Refines (foldOutputColumn e1 comp o es) (foldOutputColumn e2 comp o es) := by
  unfold foldOutputColumn
  refine Refines.bind (.refl _) fun t => Refines.mapR (fun c => ?_) _
  split
  · exact h.prop ..
  · exact .refl _

theorem foldOutputs_refines (fold : Fold) (elems : Option (List Ctx)) :
    Refines (foldOutputs e1 fold elems) (foldOutputs e2 fold elems) := by
  unfold foldOutputs
  split
  · simp only [R.bind_eq_bind, R.pure_eq_ok]
    refine Refines.bind (Refines.mapR (fun o => ?_) _) fun _ => .refl _
    exact Refines.bind (foldOutputColumn_refines h ..) fun _ => .refl _
  · exact .refl _

theorem foldFinish_refines (parent : Component) (fold : Fold) (lim : Option Nat × Option Nat)
    (c : Ctx) (computed : List Ctx) :
    Refines (foldFinish e1 parent fold lim c computed) (foldFinish e2 parent fold lim c computed) := by
  unfold foldFinish
  have tail : ∀ c3o : Option Ctx, ∀ elems : Option (List Ctx),
      Refines
        (match c3o with
          | some c3 => (foldOutputs e1 fold elems).bind fun news =>
              (mergeFolded c3 news).bind fun c4 => R.ok (some c4)
          | none => R.ok none)
        (match c3o with
          | some c3 => (foldOutputs e2 fold elems).bind fun news =>
              (mergeFolded c3 news).bind fun c4 => R.ok (some c4)
          | none => R.ok none) := by
    intro c3o elems
    cases c3o with
    | none => exact .refl _
    | some c3 => exact Refines.bind (foldOutputs_refines h ..) fun _ => .refl _
  split
  · exact .refl _
  · dsimp only
    split
    · exact .refl _
    · split
      · exact .refl _
      · simp only [R.bind_eq_bind, R.pure_eq_ok]
        exact Refines.bind (.refl _) fun c2 =>
          Refines.bind (applyPostFilters_refines h ..) fun o => tail o _

/-! ### the mutual block, by induction on the fuel -/

theorem foldOne_refines (k : Nat)
    (ih : ∀ comp ctxs, Refines (computeComponent e1 k comp ctxs) (computeComponent e2 k comp ctxs))
    (parent : Component) (fold : Fold) (t : Name) (lim : Option Nat × Option Nat) (c : Ctx) :
    Refines (foldOne e1 k parent fold t lim c) (foldOne e2 k parent fold t lim c) := by
  simp only [foldOne]
  exact Refines.bind (h.nbrs ..) fun ns => Refines.bind (ih ..) fun _ => foldFinish_refines h ..

theorem computeFold_refines (k : Nat)
    (ih : ∀ comp ctxs, Refines (computeComponent e1 k comp ctxs) (computeComponent e2 k comp ctxs))
    (parent : Component) (fold : Fold) (ctxs : List Ctx) :
    Refines (computeFold e1 k parent fold ctxs) (computeFold e2 k parent fold ctxs) := by
  simp only [computeFold]
  cases parent.vertex? fold.fromVid with
  | none => exact .refl _
  | some fromV =>
    simp only [foldLimits_eq h]
    exact Refines.bind (Refines.mapR (fun c => importTags_refines h ..) _) fun _ =>
      Refines.bind (.refl _) fun _ => Refines.bind (.refl _) fun lim =>
        Refines.filterMapR (fun c => foldOne_refines h k ih ..) _

theorem runStages_refines (k : Nat)
    (ih : ∀ comp ctxs, Refines (computeComponent e1 k comp ctxs) (computeComponent e2 k comp ctxs))
    (comp : Component) (stages : List Stage) (visited : List Vid) (ctxs : List Ctx) :
    Refines (runStages e1 k comp stages visited ctxs) (runStages e2 k comp stages visited ctxs) := by
  induction stages generalizing visited ctxs with
  | nil => simp only [runStages]; exact .refl _
  | cons st rest ihs =>
    cases st with
    | edge e =>
      simp only [runStages]
      exact Refines.bind (.refl _) fun v' => Refines.bind (expandEdge_refines h ..) fun c' => ihs v' c'
    | fold f =>
      simp only [runStages]
      exact Refines.bind (.refl _) fun v' =>
        Refines.bind (computeFold_refines h k ih ..) fun c' => ihs v' c'

theorem computeComponent_refines (k : Nat) (comp : Component) (ctxs : List Ctx) :
    Refines (computeComponent e1 k comp ctxs) (computeComponent e2 k comp ctxs) := by
  induction k generalizing comp ctxs with
  | zero => simp only [computeComponent]; exact .refl _
  | succ k ih =>
    simp only [computeComponent]
    cases comp.vertex? comp.root with
    | none => exact .refl _
    | some rootV =>
      exact Refines.bind (enterVertex_refines h ..) fun _ => Refines.bind (.refl _) fun st =>
        runStages_refines h k ih ..

/-! ### outputs and the top level -/

theorem constructRow_refines (comp : Component) (c : Ctx) :
    Refines (constructRow e1 comp c) (constructRow e2 comp c) := by
  unfold constructRow
  simp only [R.bind_eq_bind, R.pure_eq_ok]
  refine Refines.bind (Refines.mapR (fun o => ?_) _) fun _ => .refl _
  split
  · exact Refines.bind (.refl _) fun _ => Refines.bind (h.prop ..) fun _ => .refl _
  · exact .refl _

theorem interpretFrom_refines (ir : IRQuery) (starts : List VertexId) :
    Refines (interpretFrom e1 ir starts) (interpretFrom e2 ir starts) := by
  unfold interpretFrom
  exact Refines.bind (computeComponent_refines h ..) fun _ =>
    Refines.mapR (fun c => constructRow_refines h ..) _

/-- The interpreter is monotone in the adapter for `Refines`. -/
theorem interpret_refines (ir : IRQuery) : Refines (interpret e1 ir) (interpret e2 ir) := by
  unfold interpret
  exact Refines.bind (h.start ..) fun _ => interpretFrom_refines h ..

end

/-! ### the checking adapter -/

/-- The contract-checking adapter refines the table adapter call by call. -/
theorem checked_envRefines (S : Frontend.SchemaView) (D : Data) (args : List (Name × Value)) :
    EnvRefines (Env.checked S D args) (Env.ofData D args) where
  args := rfl
  regex := rfl
  useLimits := rfl
  start := by
    intro edge ps vid
    show Refines ((checkedAdapter S D).start edge ps vid) _
    simp only [checkedAdapter]
    split
    · exact Refines.contract _ (by decide +kernel)
    · split
      · exact Refines.refl _
      · exact Refines.contract _ (by decide +kernel)
  prop := by
    intro vid t f v
    show Refines ((checkedAdapter S D).prop vid t f v) _
    simp only [checkedAdapter]
    repeat' split
    all_goals first | exact Refines.refl _ | exact Refines.contract _ (by decide +kernel)
  nbrs := by
    intro eid t e ps v
    show Refines ((checkedAdapter S D).nbrs eid t e ps v) _
    simp only [checkedAdapter]
    repeat' split
    all_goals first | exact Refines.refl _ | exact Refines.contract _ (by decide +kernel)
  coerce := by
    intro vid t to v
    show Refines ((checkedAdapter S D).coerce vid t to v) _
    simp only [checkedAdapter]
    repeat' split
    all_goals first | exact Refines.refl _ | exact Refines.contract _ (by decide +kernel)

/-- Under the checking adapter the interpreter gives exactly the result it gives under the plain
table adapter, or fails with a `contract:` panic. -/
theorem interpret_checked_refines (S : Frontend.SchemaView) (D : Data) (args : List (Name × Value))
    (ir : IRQuery) :
    Refines (interpret (Env.checked S D args) ir) (interpret (Env.ofData D args) ir) :=
  interpret_refines (checked_envRefines S D args) ir

end TF.Engine

#print axioms TF.Engine.interpret_refines
#print axioms TF.Engine.interpret_checked_refines
