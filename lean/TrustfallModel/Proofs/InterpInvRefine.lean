/-
Refinement of the interpreter along the adapter: when every adapter call of `e1` either answers
exactly like the corresponding call of `e2` or fails with a `contract:` panic, then the whole
interpreter under `e1` either gives exactly the result it gives under `e2`, or fails with a
`contract:` panic.  Instance: the contract-checking adapter `checkedAdapter S D` against the plain
table adapter `D.adapter`.
-/
import TrustfallModel.Proofs.InterpInvSafe

namespace TF.Engine
open TF

/-- `r1` is `r2`, or a contract panic. -/
def Refines {α : Type} (r1 r2 : R α) : Prop := r1 = r2 ∨ ∃ s, r1 = .panic s ∧ isContractSite s = true

/-- two environments that differ only in the adapter, the first one's adapter refining the second's call by call -/
structure EnvRefines (e1 e2 : Env) : Prop where
  args : e1.args = e2.args
  regex : e1.regex = e2.regex
  useLimits : e1.useLimits = e2.useLimits
  start : ∀ edge ps vid, Refines (e1.adapter.start edge ps vid) (e2.adapter.start edge ps vid)
  prop : ∀ vid t f v, Refines (e1.adapter.prop vid t f v) (e2.adapter.prop vid t f v)
  nbrs : ∀ eid t e ps v, Refines (e1.adapter.nbrs eid t e ps v) (e2.adapter.nbrs eid t e ps v)
  coerce : ∀ vid t to v, Refines (e1.adapter.coerce vid t to v) (e2.adapter.coerce vid t to v)

namespace Refines
variable {α β : Type}

theorem refl (r : R α) : Refines r r := Or.inl rfl

theorem of_eq {r1 r2 : R α} (h : r1 = r2) : Refines r1 r2 := Or.inl h

theorem contract {s : String} (r2 : R α) (h : isContractSite s = true) : Refines (.panic s) r2 :=
  Or.inr ⟨s, rfl, h⟩

theorem bind {r1 r2 : R α} {f1 f2 : α → R β} (h : Refines r1 r2)
    (hf : ∀ a, Refines (f1 a) (f2 a)) : Refines (r1.bind f1) (r2.bind f2) := by
  rcases h with h | ⟨s, h, hs⟩
  · subst h
    cases r1 with
    | ok a => exact hf a
    | panic s => exact refl _
    | fuel => exact refl _
  · subst h
    exact contract _ hs

theorem map {r1 r2 : R α} (f : α → β) (h : Refines r1 r2) : Refines (r1.map f) (r2.map f) := by
  rcases h with h | ⟨s, h, hs⟩
  · subst h; exact refl _
  · subst h; exact contract _ hs

end Refines

theorem mapR_eq_bind {α β : Type} (f : α → R β) (x : α) (xs : List α) :
    mapR f (x :: xs) = (f x).bind fun y => (mapR f xs).bind fun ys => .ok (y :: ys) := by
  simp only [mapR]
  cases f x <;> simp
  cases mapR f xs <;> simp

theorem filterMapR_eq_bind {α β : Type} (f : α → R (Option β)) (x : α) (xs : List α) :
    filterMapR f (x :: xs) = (f x).bind fun y => (filterMapR f xs).bind fun ys =>
      .ok (match y with | some b => b :: ys | none => ys) := by
  simp only [filterMapR]
  cases f x <;> simp
  cases filterMapR f xs <;> simp
  rename_i o _
  cases o <;> rfl

theorem flatMapR_eq_bind {α β : Type} (f : α → R (List β)) (x : α) (xs : List α) :
    flatMapR f (x :: xs) = (f x).bind fun ys => (flatMapR f xs).bind fun zs => .ok (ys ++ zs) := by
  simp only [flatMapR]
  cases f x <;> simp
  cases flatMapR f xs <;> simp

theorem Refines.mapR {α β : Type} {f1 f2 : α → R β} (h : ∀ x, Refines (f1 x) (f2 x))
    (l : List α) : Refines (mapR f1 l) (mapR f2 l) := by
  induction l with
  | nil => exact Refines.refl _
  | cons x xs ih =>
    rw [mapR_eq_bind, mapR_eq_bind]
    exact Refines.bind (h x) fun y => Refines.bind ih fun ys => Refines.refl _

theorem Refines.filterMapR {α β : Type} {f1 f2 : α → R (Option β)} (h : ∀ x, Refines (f1 x) (f2 x))
    (l : List α) : Refines (filterMapR f1 l) (filterMapR f2 l) := by
  induction l with
  | nil => exact Refines.refl _
  | cons x xs ih =>
    rw [filterMapR_eq_bind, filterMapR_eq_bind]
    exact Refines.bind (h x) fun y => Refines.bind ih fun ys => Refines.refl _

theorem Refines.flatMapR {α β : Type} {f1 f2 : α → R (List β)} (h : ∀ x, Refines (f1 x) (f2 x))
    (l : List α) : Refines (flatMapR f1 l) (flatMapR f2 l) := by
  induction l with
  | nil => exact Refines.refl _
  | cons x xs ih =>
    rw [flatMapR_eq_bind, flatMapR_eq_bind]
    exact Refines.bind (h x) fun y => Refines.bind ih fun ys => Refines.refl _

end TF.Engine
