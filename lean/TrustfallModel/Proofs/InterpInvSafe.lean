/-
The judgment the invariant proofs are phrased in.  `Safe G Q r`: the computation `r`
* either succeeds with a result satisfying `Q`,
* or runs out of nesting fuel,
* or panics at one of the two *known* sites (F-4, F-5; the sites of F-9 and F-10 are gone since
  those defects were fixed in the engine) — and then the guard `G` ("no known trigger is present")
  is false.
So `Safe True Q r` excludes every panic (C09 under the guard), and `Safe G Q r` for any `G` excludes
the `contract:` panics of the checking adapter (C21) and gives `Q` on success (C13).
-/
import TrustfallModel.Proofs.InterpInvDefs

namespace TF.Engine

@[simp] theorem R.bind_eq_bind {α β : Type} (x : R α) (f : α → R β) : (x >>= f) = x.bind f := rfl
@[simp] theorem R.pure_eq_ok {α : Type} (a : α) : (pure a : R α) = .ok a := rfl
@[simp] theorem R.bind_ok' {α β} (a : α) (f : α → R β) : (R.ok a).bind f = f a := rfl
@[simp] theorem R.bind_panic' {α β} (s) (f : α → R β) : (R.panic s).bind f = .panic s := rfl
@[simp] theorem R.bind_fuel' {α β} (f : α → R β) : (R.fuel).bind f = .fuel := rfl
@[simp] theorem R.map_ok' {α β} (a : α) (f : α → β) : (R.ok a).map f = .ok (f a) := rfl
@[simp] theorem R.map_panic' {α β} (s) (f : α → β) : (R.panic s).map f = .panic s := rfl
@[simp] theorem R.map_fuel' {α β} (f : α → β) : (R.fuel).map f = .fuel := rfl

/-- pointwise relation between two lists of the same length -/
inductive ListRel {α β : Type} (Rel : α → β → Prop) : List α → List β → Prop
  | nil : ListRel Rel [] []
  | cons {a b l l'} : Rel a b → ListRel Rel l l' → ListRel Rel (a :: l) (b :: l')

theorem ListRel.map_eq {α β γ : Type} {Rel : α → β → Prop} {f : α → γ} {g : β → γ}
    {l : List α} {l' : List β} (h : ListRel Rel l l') (hfg : ∀ a b, Rel a b → f a = g b) :
    l.map f = l'.map g := by
  induction h with
  | nil => rfl
  | cons hr _ ih => simp [hfg _ _ hr, ih]

theorem ListRel.mem_right {α β : Type} {Rel : α → β → Prop} {l : List α} {l' : List β}
    (h : ListRel Rel l l') {b : β} (hb : b ∈ l') : ∃ a ∈ l, Rel a b := by
  induction h with
  | nil => cases hb
  | cons hr _ ih =>
    rcases List.mem_cons.mp hb with rfl | hb
    · exact ⟨_, by simp, hr⟩
    · obtain ⟨a, ha, hr'⟩ := ih hb
      exact ⟨a, by simp [ha], hr'⟩

def Safe (G : Prop) {β : Type} (Q : β → Prop) : R β → Prop
  | .ok b => Q b
  | .fuel => True
  | .panic s => knownSite s = true ∧ ¬ G

namespace Safe
variable {G : Prop} {α β : Type}

@[simp] theorem ok_iff {Q : β → Prop} {b : β} : Safe G Q (.ok b) ↔ Q b := Iff.rfl
@[simp] theorem fuel_iff {Q : β → Prop} : Safe G Q (.fuel : R β) ↔ True := Iff.rfl
@[simp] theorem panic_iff {Q : β → Prop} {s : String} :
    Safe G Q (.panic s : R β) ↔ (knownSite s = true ∧ ¬ G) := Iff.rfl

theorem mono {Q Q' : β → Prop} {r : R β} (h : Safe G Q r) (hq : ∀ b, Q b → Q' b) : Safe G Q' r := by
  cases r with
  | ok b => exact hq b h
  | panic s => exact h
  | fuel => trivial

theorem bind {P : α → Prop} {Q : β → Prop} {r : R α} {f : α → R β}
    (h : Safe G P r) (hf : ∀ a, P a → Safe G Q (f a)) : Safe G Q (r.bind f) := by
  cases r with
  | ok a => exact hf a h
  | panic s => exact h
  | fuel => trivial

theorem map {P : α → Prop} {Q : β → Prop} {r : R α} {f : α → β}
    (h : Safe G P r) (hf : ∀ a, P a → Q (f a)) : Safe G Q (r.map f) := by
  cases r with
  | ok a => exact hf a h
  | panic s => exact h
  | fuel => trivial

/-- a site that panics only in the presence of a known trigger -/
theorem of_guard {Q : β → Prop} {r : R β} (h : G → Safe True Q r)
    (hk : ∀ s, r = .panic s → knownSite s = true) (hq : ∀ b, r = .ok b → Q b) : Safe G Q r := by
  cases r with
  | ok b => exact hq b rfl
  | panic s =>
    refine ⟨hk s rfl, fun g => ?_⟩
    have := h g
    exact this.2 trivial
  | fuel => trivial

theorem mapR {P : α → Prop} {Q : β → Prop} {f : α → R β} {l : List α}
    (h : ∀ x ∈ l, P x → Safe G Q (f x)) (hl : ∀ x ∈ l, P x) :
    Safe G (fun ys => ∀ y ∈ ys, Q y) (mapR f l) := by
  induction l with
  | nil => simp [TF.Engine.mapR]
  | cons x xs ih =>
    have hx := h x (by simp) (hl x (by simp))
    have ih' := ih (fun y hy => h y (by simp [hy])) (fun y hy => hl y (by simp [hy]))
    simp only [TF.Engine.mapR]
    cases hfx : f x with
    | ok y =>
      rw [hfx] at hx
      cases hm : TF.Engine.mapR f xs with
      | ok ys =>
        rw [hm] at ih'
        intro z hz
        rcases List.mem_cons.mp hz with rfl | hz
        · exact hx
        · exact ih' z hz
      | panic s => rw [hm] at ih'; exact ih'
      | fuel => trivial
    | panic s => rw [hfx] at hx; exact hx
    | fuel => trivial

theorem filterMapR {P : α → Prop} {Q : β → Prop} {f : α → R (Option β)} {l : List α}
    (h : ∀ x ∈ l, P x → Safe G (fun o => ∀ y, o = some y → Q y) (f x)) (hl : ∀ x ∈ l, P x) :
    Safe G (fun ys => ∀ y ∈ ys, Q y) (filterMapR f l) := by
  induction l with
  | nil => simp [TF.Engine.filterMapR]
  | cons x xs ih =>
    have hx := h x (by simp) (hl x (by simp))
    have ih' := ih (fun y hy => h y (by simp [hy])) (fun y hy => hl y (by simp [hy]))
    simp only [TF.Engine.filterMapR]
    cases hfx : f x with
    | ok o =>
      rw [hfx] at hx
      cases hm : TF.Engine.filterMapR f xs with
      | ok ys =>
        rw [hm] at ih'
        cases o with
        | none => exact ih'
        | some y =>
          intro z hz
          rcases List.mem_cons.mp hz with rfl | hz
          · exact hx _ rfl
          · exact ih' z hz
      | panic s => rw [hm] at ih'; exact ih'
      | fuel => trivial
    | panic s => rw [hfx] at hx; exact hx
    | fuel => trivial

theorem flatMapR {P : α → Prop} {Q : β → Prop} {f : α → R (List β)} {l : List α}
    (h : ∀ x ∈ l, P x → Safe G (fun ys => ∀ y ∈ ys, Q y) (f x)) (hl : ∀ x ∈ l, P x) :
    Safe G (fun ys => ∀ y ∈ ys, Q y) (flatMapR f l) := by
  induction l with
  | nil => simp [TF.Engine.flatMapR]
  | cons x xs ih =>
    have hx := h x (by simp) (hl x (by simp))
    have ih' := ih (fun y hy => h y (by simp [hy])) (fun y hy => hl y (by simp [hy]))
    simp only [TF.Engine.flatMapR]
    cases hfx : f x with
    | ok ys0 =>
      rw [hfx] at hx
      cases hm : TF.Engine.flatMapR f xs with
      | ok ys =>
        rw [hm] at ih'
        intro z hz
        rcases List.mem_append.mp hz with hz | hz
        · exact hx z hz
        · exact ih' z hz
      | panic s => rw [hm] at ih'; exact ih'
      | fuel => trivial
    | panic s => rw [hfx] at hx; exact hx
    | fuel => trivial

/-- `mapR` with the pointwise relation between inputs and outputs -/
theorem mapR_rel {P : α → Prop} {Rel : α → β → Prop} {f : α → R β} {l : List α}
    (h : ∀ x ∈ l, P x → Safe G (Rel x) (f x)) (hl : ∀ x ∈ l, P x) :
    Safe G (fun ys => ListRel Rel l ys) (TF.Engine.mapR f l) := by
  induction l with
  | nil => exact ListRel.nil
  | cons x xs ih =>
    have hx := h x (by simp) (hl x (by simp))
    have ih' := ih (fun y hy => h y (by simp [hy])) (fun y hy => hl y (by simp [hy]))
    simp only [TF.Engine.mapR]
    cases hfx : f x with
    | ok y =>
      rw [hfx] at hx
      cases hm : TF.Engine.mapR f xs with
      | ok ys =>
        rw [hm] at ih'
        exact ListRel.cons hx ih'
      | panic s => rw [hm] at ih'; exact ih'
      | fuel => trivial
    | panic s => rw [hfx] at hx; exact hx
    | fuel => trivial

end Safe

end TF.Engine
