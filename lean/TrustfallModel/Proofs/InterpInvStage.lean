/-
Invariant preservation, part 4: one edge stage of `compute_component` (`expand_edge`), recursive or
not, from the decidable hypotheses of the component.
-/
import TrustfallModel.Proofs.InterpInvRec

namespace TF.Engine
open TF
open TF.Frontend (SchemaView EdgeInfo ParamDecl TypeInfo)

/-- The hypotheses about one component (nested components have their own). -/
structure CompHyp (W : World) (chain : List FieldRef) (comp : Component) : Prop where
  wf : wfLocal W.vars chain comp = true
  so : soLocal W.S chain comp = true
  nt : W.G → ntLocal W.D W.args chain comp = true

theorem CompHyp.vertexNoTrigger {W : World} {chain : List FieldRef} {comp : Component}
    (h : CompHyp W chain comp) {vid : Vid} {v : IRVertex} (hv : comp.vertex? vid = some v) :
    W.G → ∀ f ∈ v.filters, vertexFilterNoTrigger W.D W.args f = true := by
  intro g f hf
  have := h.nt g
  simp only [ntLocal, Bool.and_eq_true, List.all_eq_true] at this
  exact this.1 v (vertex?_mem hv) f hf

theorem CompHyp.edgeTyped {W : World} {chain : List FieldRef} {comp : Component}
    (h : CompHyp W chain comp) {e : IREdge} (he : e ∈ comp.edges) : edgeTyped W.S comp e = true := by
  have := h.so
  simp only [soLocal, Bool.and_eq_true, List.all_eq_true] at this
  exact this.1.1.2 e he

theorem expandEdge_safe (W : World) {comp : Component} {chain : List FieldRef} {st : WState}
    {e : IREdge} (h : CompHyp W chain comp) (he : e ∈ comp.edges)
    (hwf : stageWf W.vars comp chain st (.edge e) = true)
    (ctxs : List Ctx) (hc : ∀ c ∈ ctxs, CtxOK W comp chain st c) :
    Safe W.G (fun out => ∀ c ∈ out, CtxOK W comp chain (st.afterEdge e) c)
      (expandEdge W.env comp e ctxs) := by
  simp only [stageWf, Bool.and_eq_true, Bool.not_eq_true', List.contains_eq_mem,
    decide_eq_true_eq, decide_eq_false_iff_not] at hwf
  obtain ⟨⟨⟨⟨⟨⟨⟨_, _⟩, _⟩, hfrom⟩, hfresh⟩, hfromSome⟩, htoPart⟩, hrecPart⟩ := hwf
  have hty := h.edgeTyped he
  unfold expandEdge
  cases hfromV : comp.vertex? e.fromVid with
  | none => simp [hfromV] at hfromSome
  | some fromV =>
    cases htoV : comp.vertex? e.toVid with
    | none => simp [htoV] at htoPart
    | some toV =>
      simp only [htoV, List.all_eq_true] at htoPart
      simp only [edgeTyped, hfromV, htoV, Bool.and_eq_true] at hty
      simp only
      have hcore : ∀ c ∈ ctxs, CtxCore W comp chain st c := fun c hcm => (hc c hcm).toCtxCore
      cases hr : e.recursive with
      | none =>
        simp only
        refine Safe.bind (expandNonRecursive_safe W hfromV hty.1 hfrom ctxs hcore) ?_
        intro mid hmid
        refine enterNew_safe W h.so htoV htoPart (h.vertexNoTrigger htoV) hfrom hfresh ctxs mid hcore ?_
        intro c' hc'
        obtain ⟨c, hcm, a, rfl, hnew⟩ := hmid c' hc'
        exact ⟨c, hcm, a, rfl, rfl, rfl, rfl, rfl, rfl, hnew⟩
      | some r =>
        simp only [hr] at hty hrecPart
        simp only [Bool.and_eq_true] at hty
        obtain ⟨hd1, ⟨hsub, hd2⟩, hco⟩ := hty
        have hco' : ∀ t, r.coerceTo = some t → coercionOK W.S toV.preType t = true := by
          intro t ht; simpa [ht] using hco
        refine Safe.bind (expandRecursive_safe W hfromV hd1 hsub hd2 hco' hfrom hrecPart ctxs hc) ?_
        intro mid hmid
        refine enterNew_safe W h.so htoV htoPart (h.vertexNoTrigger htoV) hfrom hfresh mid mid
          (fun c hcm => (hmid c hcm).1) ?_
        intro c' hc'
        exact ⟨c', hc', c'.active, rfl, rfl, rfl, rfl, rfl, rfl, (hmid c' hc').2⟩

end TF.Engine
