/-
Invariant preservation, part 1: entering a vertex (`perform_entry_into_new_vertex`): coercion, local
filters (all three tag paths), recording.
-/
import TrustfallModel.Proofs.InterpInvCtx
import TrustfallModel.Proofs.InterpInvFilter

namespace TF.Engine
open TF
open TF.Frontend (SchemaView EdgeInfo ParamDecl TypeInfo)

/-! ### small facts -/

theorem optQTy_beq {o : Option QTy} {ty : QTy} (h : (o == some ty) = true) : o = some ty := by
  cases o with
  | none => simp at h
  | some t =>
    have : (t == ty) = true := by simpa using h
    rw [QTy.beq_eq this]

theorem fieldRefEq_eq {a b : FieldRef} (h : fieldRefEq a b = true) : a = b := by
  cases a <;> cases b <;> simp only [fieldRefEq, Bool.and_eq_true, beq_iff_eq] at h
  · obtain ⟨⟨h1, h2⟩, h3⟩ := h
    rw [h1, h2, QTy.beq_eq h3]
  · exact absurd h (by simp)
  · exact absurd h (by simp)
  · rw [h.1, h.2]

theorem refMem_mem {r : FieldRef} {l : List FieldRef} (h : refMem r l = true) : r ∈ l := by
  simp only [refMem, List.any_eq_true] at h
  obtain ⟨x, hx, he⟩ := h
  rw [fieldRefEq_eq he]; exact hx

theorem Safe.ofOutcome_guard {G : Prop} {α : Type} {site : String} (hk : knownSite site = true)
    {oc : Outcome α} {Q : α → Prop} (h : G → ∃ a, oc = .ok a) (hq : ∀ a, oc = .ok a → Q a) :
    Safe G Q (R.ofOutcome site oc) := by
  cases oc with
  | ok a => exact hq a rfl
  | panic =>
    refine ⟨hk, fun g => ?_⟩
    obtain ⟨a, ha⟩ := h g
    cases ha

theorem isVertexType_of_vertexTyped {S : SchemaView} {comp : Component} {v : IRVertex}
    (h : vertexTyped S comp v = true) : S.isVertexType v.typeName = true := by
  simp only [vertexTyped, Bool.and_eq_true] at h
  exact h.1.1

/-! ### coercion -/

theorem coerceIfNeeded_safe (W : World) {comp : Component} {v : IRVertex}
    (hv : vertexTyped W.S comp v = true) (ctxs : List Ctx)
    (hc : ∀ c ∈ ctxs, activeOK W.D c.active v.preType = true) :
    Safe W.G (fun out => ∀ c ∈ out, c ∈ ctxs ∧ activeOK W.D c.active v.typeName = true)
      (coerceIfNeeded W.env v ctxs) := by
  unfold coerceIfNeeded
  cases hcf : v.coercedFrom with
  | none =>
    simp only [Safe.ok_iff]
    intro c hcm
    refine ⟨hcm, ?_⟩
    have := hc c hcm
    simpa [IRVertex.preType, hcf] using this
  | some ft =>
    simp only
    have hco : coercionOK W.S ft v.typeName = true := by
      simp only [vertexTyped, Bool.and_eq_true, hcf] at hv
      exact hv.1.2
    refine Safe.filterMapR (P := fun c => c ∈ ctxs) ?_ (fun x hx => hx)
    intro x _ hx
    have hax : activeOK W.D x.active ft = true := by
      simpa [IRVertex.preType, hcf] using hc x hx
    simp only [R.bind_eq_bind, R.pure_eq_ok]
    rw [checked_coerce hco hax]
    cases hact : x.active with
    | none =>
      simp only [adapter_coerce_none, R.bind_ok', Safe.ok_iff, Option.isNone_none, Bool.or_true,
        if_true, Option.some.injEq]
      intro y hy
      subst hy
      exact ⟨hx, by simp [activeOK, hact]⟩
    | some a =>
      have hinst : instOf W.D a ft = true := by simpa [activeOK, hact] using hax
      simp only [adapter_coerce_some, R.bind_ok', Safe.ok_iff, Option.isNone_some, Bool.or_false,
        isA_of_instOf hinst]
      intro y hy
      split at hy
      · rename_i hcan
        cases hy
        exact ⟨hx, by simpa [activeOK, hact] using hcan⟩
      · cases hy

/-! ### the right operand of a filter -/

/-- What `apply_filter` needs to know about a context (the left operand is on the value stack). -/
structure FPre (W : World) (comp : Component) (chain : List FieldRef) (st : WState)
    (eids : List Eid) (curType : Name) (leftTy : QTy) (c : Ctx) : Prop where
  verts : VertsOK W comp st c.vertices
  counts : CountsOK eids c.foldCounts
  tags : TagsOK chain c.importedTags
  act : activeOK W.D c.active curType = true
  top : ∃ val rest, c.values = val :: rest ∧ ∀ x, c.active = some x → validQ leftTy val = true

theorem tagValue_safe (W : World) {comp : Component} {chain : List FieldRef} {st : WState}
    {eids : List Eid} {cur : Vid} {curV : IRVertex} {leftTy : QTy}
    (hso : soLocal W.S chain comp = true)
    (hcur : comp.vertex? cur = some curV) (hcurT : W.S.isVertexType curV.typeName = true)
    {r : FieldRef} (hwf : tagWf comp chain st.recorded eids cur r = true)
    (hty : localRefTyOK W.S comp curV.typeName cur r = true)
    {c : Ctx} (hc : FPre W comp chain st eids curV.typeName leftTy c) :
    Safe W.G (fun t => ∀ x, c.active = some x → tagTyped r t) (tagValue W.env comp cur r c) := by
  cases r with
  | ctx vid field ty =>
    simp only [tagValue]
    by_cases hvc : vid = cur
    · subst hvc
      simp only [beq_self_eq_true, if_true, R.bind_eq_bind, R.pure_eq_ok, typeOf_ok hcur, R.bind_ok']
      have hp : W.S.propTy? curV.typeName field = some ty := by
        simp only [localRefTyOK, beq_self_eq_true, if_true] at hty
        exact optQTy_beq hty
      rw [checked_prop hcurT (by simp [hp]) hc.act]
      simp only [R.bind_ok', Safe.ok_iff, tagTyped, fieldRefTy]
      intro x hx
      exact propOpt_valid hc.act hp x hx
    · have hvc' : (vid == cur) = false := by simpa using hvc
      simp only [hvc', Bool.false_eq_true, if_false]
      cases hvx : comp.vertex? vid with
      | some vx =>
        simp only
        have hrec : vid ∈ st.recorded := by
          simp only [tagWf, hvc', Bool.false_or, hvx] at hwf
          simpa using hwf
        rw [← hc.verts.keys] at hrec
        obtain ⟨target, htarget⟩ := lookupV_of_mem hrec
        rw [vertexAt?_eq, htarget]
        simp only [R.bind_eq_bind, R.pure_eq_ok]
        have hp : W.S.propTy? vx.typeName field = some ty := by
          simp only [localRefTyOK, hvc', Bool.false_eq_true, if_false, hvx] at hty
          exact optQTy_beq hty
        have hvt := isVertexType_of_vertexTyped (vertexTyped_of hso hvx)
        have hact : activeOK W.D target vx.typeName = true := by
          cases target with
          | none => rfl
          | some x =>
            obtain ⟨vx', hvx', hinst⟩ := hc.verts.inst vid x htarget
            rw [hvx] at hvx'
            cases hvx'
            simpa [activeOK] using hinst
        rw [checked_prop hvt (by simp [hp]) hact]
        simp only [R.bind_ok', Safe.ok_iff]
        intro _ _
        cases target with
        | none => trivial
        | some x => exact propOpt_valid hact hp x rfl
      | none =>
        simp only
        have hmem : FieldRef.ctx vid field ty ∈ chain := by
          simp only [tagWf, hvc', Bool.false_or, hvx] at hwf
          exact refMem_mem hwf
        obtain ⟨t, ht, htt⟩ := hc.tags _ hmem
        rw [tag?_eq]
        simp only [FieldRef.key] at ht
        rw [ht]
        simp only [Safe.ok_iff]
        intro _ _
        exact htt
  | fcount eid rv =>
    simp only [tagValue]
    by_cases hany : comp.folds.any (·.eid == eid) = true
    · simp only [hany, if_true]
      have hin : eid ∈ eids := by
        simp only [tagWf, hany, if_true] at hwf
        simpa using hwf
      rw [← hc.counts] at hin
      obtain ⟨a, ha⟩ := lookupC_of_mem hin
      rw [foldCount?_eq, ha]
      cases a with
      | none => simp [tagTyped]
      | some n =>
        simp only [Safe.ok_iff, tagTyped, fieldRefTy]
        intro _ _
        simp [validQ, validNulls]
    · simp only [hany, Bool.false_eq_true, if_false]
      have hmem : FieldRef.fcount eid rv ∈ chain := by
        simp only [tagWf, hany, Bool.false_eq_true, if_false] at hwf
        exact refMem_mem hwf
      obtain ⟨t, ht, htt⟩ := hc.tags _ hmem
      rw [tag?_eq]
      simp only [FieldRef.key] at ht
      rw [ht]
      simp only [Safe.ok_iff]
      intro _ _
      exact htt

/-! ### `apply_filter` -/

theorem popValue_cons {c : Ctx} {val : Value} {rest : List Value} (h : c.values = val :: rest) :
    c.popValue = .ok (val, { c with values := rest }) := by
  simp [Ctx.popValue, h]

theorem env_arg_ok {W : World} {n : Name} {p : Name × Value}
    (h : W.args.find? (·.1 == n) = some p) : W.env.arg n = .ok p.2 := by
  simp [Env.arg, h]

theorem applyFilter_safe (W : World) {comp : Component} {chain : List FieldRef} {st : WState}
    {eids : List Eid} {cur : Vid} {curV : IRVertex} {leftTy : QTy} {isPost : Bool}
    (hso : soLocal W.S chain comp = true)
    (hcur : comp.vertex? cur = some curV) (hcurT : W.S.isVertexType curV.typeName = true)
    {f : IRFilter}
    (hwf : filterWf W.vars comp chain st.recorded eids cur isPost f = true)
    (hty : filterTyped W.S comp curV.typeName cur leftTy f = true)
    (hnt : W.G → filterNoTrigger W.D W.args leftTy f = true)
    (ctxs : List Ctx) (hc : ∀ c ∈ ctxs, FPre W comp chain st eids curV.typeName leftTy c) :
    Safe W.G (fun out => ∀ c' ∈ out, ∃ c ∈ ctxs, ∃ val rest, c.values = val :: rest ∧
        c' = { c with values := rest })
      (applyFilter W.env comp cur f ctxs) := by
  unfold applyFilter
  split
  · -- unary
    rename_i o _ hop
    refine Safe.filterMapR (P := fun c => c ∈ ctxs) ?_ (fun x hx => hx)
    intro c _ hcm
    obtain ⟨val, rest, hvals, _⟩ := (hc c hcm).top
    simp only [R.bind_eq_bind, R.pure_eq_ok, popValue_cons hvals, R.bind_ok', Safe.ok_iff]
    intro y hy
    split at hy
    · cases hy; exact ⟨c, hcm, val, rest, hvals, rfl⟩
    · cases hy
  · -- variable
    rename_i o name vt hop hright
    simp only [filterWf, hop, hright, Bool.and_eq_true] at hwf
    simp only [filterTyped, hop, hright, Bool.and_eq_true] at hty
    cases hfind : W.vars.find? (·.1 == name) with
    | none => simp [hfind] at hwf
    | some q =>
      obtain ⟨n', qty⟩ := q
      simp only [hfind] at hwf
      have hn' : n' = name := by simpa using List.find?_some hfind
      subst hn'
      obtain ⟨p, hp, hpv⟩ := W.hargs n' qty (List.mem_of_find?_eq_some hfind)
      have hrv : validQ vt p.2 = true := validQ_of_scalarOnlySubtype hwf.2 hpv
      simp only [R.bind_eq_bind, env_arg_ok hp, R.bind_ok']
      refine Safe.bind (P := fun _ => True) ?_ ?_
      · split
        · rename_i hrx
          refine Safe.map (P := fun _ => True) ?_ (fun _ _ => trivial)
          refine Safe.ofOutcome_guard (by decide) ?_ (fun _ _ => trivial)
          intro g
          have := hnt g
          simp only [filterNoTrigger, hop, hright, hrx, Bool.not_true, Bool.false_or,
            Bool.and_eq_true, hp] at this
          obtain ⟨_, hreg⟩ := this
          obtain ⟨pn, pv⟩ := p
          cases pv with
          | string s =>
            simp only at hreg
            obtain ⟨m, hm⟩ := compileStaticRegex_ok W.D.regex ⟨s, rfl, hreg⟩
            exact ⟨m, by simpa using hm⟩
          | _ => simp at hreg
        · trivial
      · intro _ _
        refine Safe.filterMapR (P := fun c => c ∈ ctxs) ?_ (fun x hx => hx)
        intro c _ hcm
        obtain ⟨val, rest, hvals, hval⟩ := (hc c hcm).top
        simp only [R.pure_eq_ok, popValue_cons hvals, R.bind_ok']
        cases hact : c.active with
        | none =>
          simp only [Option.isNone_none, if_true, Safe.ok_iff, Option.some.injEq]
          intro y hy; subst hy; exact ⟨c, hcm, val, rest, hvals, by rw [hact]⟩
        | some x =>
          simp only [Option.isNone_some, Bool.false_eq_true, if_false]
          refine Safe.bind (P := fun _ => True) ?_ ?_
          · refine Safe.ofOutcome_guard (by decide) ?_ (fun _ _ => trivial)
            intro g
            have := hnt g
            simp only [filterNoTrigger, hop, hright, Bool.and_eq_true, hp] at this
            refine applyStatic_ok _ o leftTy vt val p.2 (hval x hact) hrv hty.2 ?_ ?_
            · intro ho; simpa [ho] using this.1
            · intro hrx
              have h2 := this.2
              simp only [hrx, Bool.not_true, Bool.false_or] at h2
              obtain ⟨pn, pv⟩ := p
              cases pv with
              | string s => exact ⟨s, rfl, by simpa using h2⟩
              | _ => simp at h2
          · intro b _
            simp only [Safe.ok_iff]
            intro y hy
            split at hy
            · cases hy; exact ⟨c, hcm, val, rest, hvals, by rw [hact]⟩
            · cases hy
  · -- tag
    rename_i o r hop hright
    simp only [filterWf, hop, hright, Bool.and_eq_true] at hwf
    simp only [filterTyped, hop, hright, Bool.and_eq_true] at hty
    refine Safe.filterMapR (P := fun c => c ∈ ctxs) ?_ (fun x hx => hx)
    intro c _ hcm
    have hpre := hc c hcm
    obtain ⟨val, rest, hvals, hval⟩ := hpre.top
    simp only [R.bind_eq_bind, R.pure_eq_ok]
    refine Safe.bind (tagValue_safe W hso hcur hcurT hwf.2 hty.1 hpre) ?_
    intro t ht
    simp only [popValue_cons hvals, R.bind_ok']
    cases t with
    | nonexistent =>
      simp only [Safe.ok_iff, Option.some.injEq]
      intro y hy; subst hy; exact ⟨c, hcm, val, rest, hvals, rfl⟩
    | some right =>
      simp only
      cases hact : c.active with
      | none =>
        simp only [Option.isNone_none, if_true, Safe.ok_iff, Option.some.injEq]
        intro y hy; subst hy; exact ⟨c, hcm, val, rest, hvals, by rw [hact]⟩
      | some x =>
        simp only [Option.isNone_some, Bool.false_eq_true, if_false]
        refine Safe.bind (P := fun _ => True) ?_ ?_
        · refine Safe.ofOutcome_guard (by decide) ?_ (fun _ _ => trivial)
          intro g
          have := hnt g
          simp only [filterNoTrigger, hop, hright] at this
          refine applyTagged_ok _ o leftTy (fieldRefTy r) val right (hval x hact) (ht x hact) hty.2 ?_
          intro ho; simpa [ho] using this
        · intro b _
          simp only [Safe.ok_iff]
          intro y hy
          split at hy
          · cases hy; exact ⟨c, hcm, val, rest, hvals, by rw [hact]⟩
          · cases hy
  · -- no argument
    rename_i o hop hright
    simp [filterWf, hop, hright] at hwf

/-! ### local filters, entry into a vertex -/

/-- What entering a vertex needs to know about a context whose active vertex is the new one. -/
structure VPre (W : World) (comp : Component) (chain : List FieldRef) (st : WState)
    (eids : List Eid) (curType : Name) (c : Ctx) : Prop where
  verts : VertsOK W comp st c.vertices
  counts : CountsOK eids c.foldCounts
  tags : TagsOK chain c.importedTags
  act : activeOK W.D c.active curType = true
  vals : c.values = []

theorem Ctx.push_pop (c : Ctx) (v : Value) : { c.pushValue v with values := c.values } = c := by
  cases c; rfl

theorem applyLocalFieldFilter_safe (W : World) {comp : Component} {chain : List FieldRef}
    {st : WState} {eids : List Eid} {v : IRVertex}
    (hso : soLocal W.S chain comp = true) (hv : comp.vertex? v.vid = some v)
    {f : IRFilter}
    (hwf : filterWf W.vars comp chain st.recorded eids v.vid false f = true)
    (hty : vertexFilterTyped W.S comp v f = true)
    (hnt : W.G → vertexFilterNoTrigger W.D W.args f = true)
    (ctxs : List Ctx) (hc : ∀ c ∈ ctxs, VPre W comp chain st eids v.typeName c) :
    Safe W.G (fun out => ∀ c' ∈ out, c' ∈ ctxs) (applyLocalFieldFilter W.env comp v.vid f ctxs) := by
  have hvt := isVertexType_of_vertexTyped (vertexTyped_of hso hv)
  unfold applyLocalFieldFilter
  cases hleft : f.left with
  | count => simp [vertexFilterTyped, hleft] at hty
  | loc field ty =>
    simp only [typeOf_ok hv, R.bind_ok']
    simp only [vertexFilterTyped, hleft, Bool.and_eq_true] at hty
    have hp := optQTy_beq hty.1
    simp only [vertexFilterNoTrigger, hleft] at hnt
    refine Safe.bind (P := fun mid => ∀ c' ∈ mid, ∃ c ∈ ctxs,
        c' = c.pushValue (W.D.propOpt c.active field)) ?_ ?_
    · unfold computeLocalField
      refine Safe.mapR (P := fun c => c ∈ ctxs) ?_ (fun x hx => hx)
      intro c _ hcm
      simp only [R.bind_eq_bind, R.pure_eq_ok]
      rw [checked_prop hvt (by simp [hp]) (hc c hcm).act]
      exact ⟨c, hcm, rfl⟩
    · intro mid hmid
      refine Safe.mono (applyFilter_safe W (st := st) (eids := eids) (leftTy := ty) hso hv hvt hwf
        hty.2 hnt mid ?_) ?_
      · intro c' hc'
        obtain ⟨c, hcm, rfl⟩ := hmid c' hc'
        have h := hc c hcm
        exact ⟨h.verts, h.counts, h.tags, h.act, _, _, rfl,
          fun x hx => propOpt_valid h.act hp x hx⟩
      · intro out hout c'' hc''
        obtain ⟨c', hc', val, rest, hvals, rfl⟩ := hout c'' hc''
        obtain ⟨c, hcm, rfl⟩ := hmid c' hc'
        simp only [Ctx.pushValue, (hc c hcm).vals, List.cons.injEq] at hvals
        obtain ⟨_, rfl⟩ := hvals
        have := Ctx.push_pop c (W.D.propOpt c.active field)
        rw [(hc c hcm).vals] at this
        rw [this]; exact hcm

theorem applyLocalFilters_safe (W : World) {comp : Component} {chain : List FieldRef}
    {st : WState} {eids : List Eid} {v : IRVertex}
    (hso : soLocal W.S chain comp = true) (hv : comp.vertex? v.vid = some v)
    (fs : List IRFilter)
    (hwf : ∀ f ∈ fs, filterWf W.vars comp chain st.recorded eids v.vid false f = true)
    (hty : ∀ f ∈ fs, vertexFilterTyped W.S comp v f = true)
    (hnt : W.G → ∀ f ∈ fs, vertexFilterNoTrigger W.D W.args f = true)
    (ctxs : List Ctx) (hc : ∀ c ∈ ctxs, VPre W comp chain st eids v.typeName c) :
    Safe W.G (fun out => ∀ c' ∈ out, c' ∈ ctxs) (applyLocalFilters W.env comp v.vid fs ctxs) := by
  induction fs generalizing ctxs with
  | nil => simp [applyLocalFilters]
  | cons f fs ih =>
    simp only [applyLocalFilters]
    refine Safe.bind (applyLocalFieldFilter_safe W hso hv (hwf f (by simp)) (hty f (by simp))
      (fun g => hnt g f (by simp)) ctxs hc) ?_
    intro mid hmid
    refine Safe.mono (ih (fun f hf => hwf f (by simp [hf])) (fun f hf => hty f (by simp [hf]))
      (fun g f hf => hnt g f (by simp [hf])) mid (fun c hcm => hc c (hmid c hcm))) ?_
    intro out hout c hcm
    exact hmid c (hout c hcm)


theorem vertexFiltersTyped_of {S : SchemaView} {comp : Component} {v : IRVertex}
    (h : vertexTyped S comp v = true) : ∀ f ∈ v.filters, vertexFilterTyped S comp v f = true := by
  simp only [vertexTyped, Bool.and_eq_true, List.all_eq_true] at h
  exact h.2

theorem enterVertex_safe (W : World) {comp : Component} {chain : List FieldRef}
    {st : WState} {eids : List Eid} {v : IRVertex}
    (hso : soLocal W.S chain comp = true) (hv : comp.vertex? v.vid = some v)
    (hwf : ∀ f ∈ v.filters, filterWf W.vars comp chain st.recorded eids v.vid false f = true)
    (hnt : W.G → ∀ f ∈ v.filters, vertexFilterNoTrigger W.D W.args f = true)
    (hfresh : v.vid ∉ st.recorded)
    (ctxs : List Ctx) (hc : ∀ c ∈ ctxs, VPre W comp chain st eids v.preType c) :
    Safe W.G (fun out => ∀ c' ∈ out, ∃ c ∈ ctxs, activeOK W.D c.active v.typeName = true ∧
        c' = { c with vertices := c.vertices ++ [(v.vid, c.active)] })
      (enterVertex W.env comp v ctxs) := by
  have hvt := vertexTyped_of hso hv
  unfold enterVertex
  refine Safe.bind (coerceIfNeeded_safe W hvt ctxs (fun c hcm => (hc c hcm).act)) ?_
  intro coerced hco
  have hpre : ∀ c ∈ coerced, VPre W comp chain st eids v.typeName c := by
    intro c hcm
    obtain ⟨hin, hact⟩ := hco c hcm
    have h := hc c hin
    exact ⟨h.verts, h.counts, h.tags, hact, h.vals⟩
  refine Safe.bind (applyLocalFilters_safe W hso hv v.filters hwf (vertexFiltersTyped_of hvt) hnt
    coerced hpre) ?_
  intro filtered hfi
  refine Safe.mapR (P := fun c => c ∈ filtered) ?_ (fun x hx => hx)
  intro c _ hcm
  have hcc := hfi c hcm
  obtain ⟨hin, hact⟩ := hco c hcc
  have hnone : c.vertexAt? v.vid = none := by
    rw [vertexAt?_eq, lookupV_none, (hc c hin).verts.keys]
    exact hfresh
  simp only [Ctx.recordVertex, hnone, Safe.ok_iff]
  exact ⟨c, hin, hact, rfl⟩


end TF.Engine
