/-
Concrete witnesses for the two known panic triggers of the engine (DESIGN.md §6: F-4, F-5), regression
worlds for the two triggers that were fixed in the engine (F-9, F-10), and the witness for the C21
defect candidate "implicit recursion coercion to a non-subtype".

Each world is tiny (one or three types, one or two vertices) and REAL: the IR is exactly what the
real frontend produces for the GraphQL text given in the world's doc comment, and the real engine
panics on it (resp. breaks the adapter contract) — the request lines are in `corpus/C09.cases` and
`corpus/C21.cases` and are replayed by every `./check C09` / `./check C21`.

Per open world `Fn` (F-4, F-5):
* `Fn.hyps`    — every decidable hypothesis of the invariant theorems except the trigger guard holds
                 (`WFq`, `SchemaOK`, `ArgsOK`, `Conforms`): the query is an accepted, well-typed one;
* `Fn.trigger` — the guard `NoKnownTrigger` is false: the guard does fire on the witness;
* `Fn.panics`  — the interpreter model panics at the site of that defect.
So "executing an accepted query never panics" (C09) is false at full strength, the guard of the
partial theorem is not vacuous, and each of its two disjuncts is necessary.

Per fixed world (F-9, F-10): HISTORY in the doc comment (what used to panic and where), and the
regression facts: all *five* hypotheses hold (`hyps`, the guard included) and the world now runs to
rows (`runs`).

`computeComponent`/`runStages`/`computeFold`/`foldOne` are defined by well-founded recursion, hence
opaque to `decide`/`rfl`; they are unfolded with their equation lemmas and every closed sub-term that
does not involve them is evaluated by `rfl`.
-/
import TrustfallModel.Proofs.InterpInvSafe

namespace TF.Engine.Witness
open TF TF.Engine TF.Frontend

/-- `String` (nullable) -/
def tyStr : QTy := ⟨"String", [true]⟩
/-- `String!` -/
def tyStrNN : QTy := ⟨"String", [false]⟩
/-- `Int!` -/
def tyIntNN : QTy := ⟨"Int", [false]⟩

/-- the context a starting vertex enters the pipeline with -/
def ctx0 : Ctx := Ctx.new (some 0)
/-- … and after it has been recorded as the root vertex `Vid 1` -/
def ctx1 : Ctx := { ctx0 with vertices := [(1, some 0)] }

/-! ### F-4: the string value of a `regex` variable is not a valid regex

```graphql
type T0 { s: String }          type RootSchemaQuery { R0: [T0] }
{ R0 { s @output(name: "o0") @filter(op: "regex", value: ["$v1"]) } }      args: v1 = "("
```
-/
namespace F4

def S : SchemaView :=
  { types := [⟨"T0", false, [], [("s", tyStr)], []⟩],
    roots := [⟨"R0", "T0", ⟨"T0", [true, true]⟩, []⟩] }

def D : Data :=
  { vertices := [⟨0, "T0", [("s", .string [0x61])]⟩],
    adj := [],
    starts := [⟨"R0", [], [0]⟩],
    rx := [([0x28], none)],           -- the pattern "(" does not compile
    sub := [("T0", [])] }

def v1 : IRVertex := ⟨1, "T0", none, [⟨.bin .regexMatches, .loc "s" tyStr, some (.var "v1" tyStrNN)⟩]⟩
def comp : Component := .mk 1 [v1] [] [] [⟨"o0", 1, "s", tyStr⟩]
def ir : IRQuery := ⟨"R0", [], [("v1", tyStrNN)], comp⟩
def args : List (Name × Value) := [("v1", .string [0x28])]

theorem hyps :
    WFq ir = true ∧ SchemaOK S ir = true ∧ ArgsOK ir args = true ∧ Conforms S D = true := by decide

theorem trigger : NoKnownTrigger D ir args = false := by decide

/-- `interpret` up to the first well-founded call: the single starting vertex enters the root component -/
theorem unfold1 : interpret (Env.ofData D args) ir =
    (computeComponent (Env.ofData D args) (63 + 1) comp [ctx0]).bind
      (mapR (constructRow (Env.ofData D args) comp)) := rfl

theorem panics :
    interpret (Env.ofData D args) ir = .panic "regex argument was not a valid regex" := by
  have hv : comp.vertex? 1 = some v1 := rfl
  have he : enterVertex (Env.ofData D args) comp v1 [ctx0]
      = .panic "regex argument was not a valid regex" := rfl
  have hroot : comp.root = 1 := rfl
  rw [unfold1]
  simp only [computeComponent, hroot, hv, he, R.bind_panic']

end F4

/-! ### F-5: an ordering operator on list-typed operands

```graphql
type T0 { ls: [String] }       type RootSchemaQuery { R0: [T0] }
{ R0 { ls @output(name: "o0") @filter(op: "<", value: ["$v1"]) } }         args: v1 = ["b"]
```
-/
namespace F5

def tyLs : QTy := ⟨"String", [true, true]⟩
/-- `[String]!`: the type `infer_variable_type` gives the variable -/
def tyVar : QTy := ⟨"String", [false, true]⟩

def S : SchemaView :=
  { types := [⟨"T0", false, [], [("ls", tyLs)], []⟩],
    roots := [⟨"R0", "T0", ⟨"T0", [true, true]⟩, []⟩] }

def D : Data :=
  { vertices := [⟨0, "T0", [("ls", .list [.string [0x61]])]⟩],
    adj := [],
    starts := [⟨"R0", [], [0]⟩],
    rx := [],
    sub := [("T0", [])] }

def v1 : IRVertex := ⟨1, "T0", none, [⟨.bin .lessThan, .loc "ls" tyLs, some (.var "v1" tyVar)⟩]⟩
def comp : Component := .mk 1 [v1] [] [] [⟨"o0", 1, "ls", tyLs⟩]
def ir : IRQuery := ⟨"R0", [], [("v1", tyVar)], comp⟩
def args : List (Name × Value) := [("v1", .list [.string [0x62]])]

theorem hyps :
    WFq ir = true ∧ SchemaOK S ir = true ∧ ArgsOK ir args = true ∧ Conforms S D = true := by decide

theorem trigger : NoKnownTrigger D ir args = false := by decide

/-- `interpret` up to the first well-founded call: the single starting vertex enters the root component -/
theorem unfold1 : interpret (Env.ofData D args) ir =
    (computeComponent (Env.ofData D args) (63 + 1) comp [ctx0]).bind
      (mapR (constructRow (Env.ofData D args) comp)) := rfl

theorem panics : interpret (Env.ofData D args) ir = .panic "filter operator: unreachable!" := by
  have hv : comp.vertex? 1 = some v1 := rfl
  have he : enterVertex (Env.ofData D args) comp v1 [ctx0]
      = .panic "filter operator: unreachable!" := rfl
  have hroot : comp.root = 1 := rfl
  rw [unfold1]
  simp only [computeComponent, hroot, hv, he, R.bind_panic']

end F5

/-! ### F-9 (FIXED in the engine): a fold-count post-filter on a `@fold` below a missing `@optional` vertex

```graphql
type T0 { s: String  e0: [T0] }        type RootSchemaQuery { R0: [T0] }
{ R0 { s @output(name: "o0")
       e0 @optional { e0 @fold @transform(op: "count") @filter(op: "=", value: ["$v1"]) } } }
args: v1 = 0;   data: one vertex without `e0` neighbours
```
HISTORY.  On the pinned engine this world panicked: the fold hangs off the missing vertex `Vid 2`, its
slot in `folded_contexts` holds `None`, and `apply_fold_specific_filter` answered
`unreachable!("while applying fold-specific filter, the @fold turned out to not exist")`.  The guard
`NoKnownTrigger` had a clause excluding post-filters on folds below optional vertices, and C09 had
the witness theorem `exec_panics_F9` on this world.  Since the fix (`hooks/fix-F9.diff`) the function
pushes `FieldValue::Null` for a non-existent fold and runs the ordinary filter stage, which lets a
context without active vertex through.  The site, the guard clause and the witness theorem are gone;
what remains is the regression: the same world satisfies every hypothesis and yields its row.
-/
namespace F9

def e0 : EdgeInfo := ⟨"e0", "T0", ⟨"T0", [true, true]⟩, []⟩

def S : SchemaView :=
  { types := [⟨"T0", false, [], [("s", tyStr)], [e0]⟩],
    roots := [⟨"R0", "T0", ⟨"T0", [true, true]⟩, []⟩] }

def D : Data :=
  { vertices := [⟨0, "T0", [("s", .string [0x61])]⟩],
    adj := [⟨0, "e0", [], []⟩],
    starts := [⟨"R0", [], [0]⟩],
    rx := [],
    sub := [("T0", [])] }

def v1 : IRVertex := ⟨1, "T0", none, []⟩
def v2 : IRVertex := ⟨2, "T0", none, []⟩
def v3 : IRVertex := ⟨3, "T0", none, []⟩
def edge1 : IREdge := ⟨1, 1, 2, "e0", [], true, none⟩
def comp3 : Component := .mk 3 [v3] [] [] []
def fold2 : Fold :=
  .mk 2 2 3 "e0" [] comp3 [] [] [⟨.bin .equals, .count, some (.var "v1" tyIntNN)⟩]
def comp : Component := .mk 1 [v1, v2] [edge1] [fold2] [⟨"o0", 1, "s", tyStr⟩]
def ir : IRQuery := ⟨"R0", [], [("v1", tyIntNN)], comp⟩
def args : List (Name × Value) := [("v1", .int64 0)]

/-- the only context after the `@optional` edge: `Vid 2` is recorded as missing -/
def ctx2 : Ctx := { ctx0 with active := none, vertices := [(1, some 0), (2, none)] }
/-- … and after the fold: the slot of the non-existent fold holds `None`, the context survived the
post-filter -/
def ctx3 : Ctx := { ctx2 with foldCounts := [(2, none)] }

/-- the single result row -/
def rows : List Row := [[("o0", .string [0x61])]]

/-- all five hypotheses of the invariant theorems hold, the guard included -/
theorem hyps :
    WFq ir = true ∧ SchemaOK S ir = true ∧ ArgsOK ir args = true ∧ Conforms S D = true ∧
      NoKnownTrigger D ir args = true := by decide

/-- `interpret` up to the first well-founded call: the single starting vertex enters the root component -/
theorem unfold1 : interpret (Env.ofData D args) ir =
    (computeComponent (Env.ofData D args) (62 + 1 + 1) comp [ctx0]).bind
      (mapR (constructRow (Env.ofData D args) comp)) := rfl

/-- regression of the F-9 fix: the post-filter on the non-existent fold lets the context through -/
theorem postFilter_passes :
    foldFinish (Env.ofData D args) comp fold2 (some 0, none) ctx2 [] = .ok (some ctx3) := rfl

/-- regression of the F-9 fix: the world that used to panic now yields its row -/
theorem runs : interpret (Env.ofData D args) ir = .ok rows := by
  have hv : comp.vertex? 1 = some v1 := rfl
  have he : enterVertex (Env.ofData D args) comp v1 [ctx0] = .ok [ctx1] := rfl
  have hm : mergeStages comp.edges comp.folds (comp.edges.length + comp.folds.length)
      = .ok [.edge edge1, .fold fold2] := rfl
  have hroot : comp.root = 1 := rfl
  -- the `@optional` edge
  have hk1 : checkVisited [1] edge1.fromVid edge1.toVid = .ok [2, 1] := rfl
  have hx : expandEdge (Env.ofData D args) comp edge1 [ctx1] = .ok [ctx2] := rfl
  -- the fold below the missing vertex
  have hk2 : checkVisited [2, 1] fold2.fromVid fold2.toVid = .ok [3, 2, 1] := rfl
  have hf : comp.vertex? fold2.fromVid = some v2 := rfl
  have hi : mapR (importTags (Env.ofData D args) comp fold2.imports) [ctx2] = .ok [ctx2] := rfl
  have ha : mapR (fun c => c.activate fold2.fromVid) [ctx2] = .ok [ctx2] := rfl
  have hl : foldLimits (Env.ofData D args) comp fold2 = .ok (some 0, none) := rfl
  have hn : (Env.ofData D args).adapter.nbrs fold2.eid v2.typeName fold2.name fold2.params
      ctx2.active = .ok [] := rfl
  have hfs : foldStart ctx2 [] = [] := rfl
  -- the fold's own (empty) sub-pipeline
  have hc3 : fold2.component = comp3 := rfl
  have hv3 : comp3.vertex? comp3.root = some v3 := rfl
  have he3 : enterVertex (Env.ofData D args) comp3 v3 [] = .ok [] := rfl
  have hm3 : mergeStages comp3.edges comp3.folds (comp3.edges.length + comp3.folds.length)
      = .ok [] := rfl
  -- … the post-filter on the non-existent fold, and the row
  have hfin := postFilter_passes
  have hr : mapR (constructRow (Env.ofData D args) comp) [ctx3] = .ok rows := rfl
  rw [unfold1]
  simp only [computeComponent, runStages, computeFold, foldOne, filterMapR,
    hv, he, hm, hroot, hk1, hx, hk2, hf, hi, ha, hl, hn, hfs, hc3, hv3, he3, hm3, hfin, hr,
    R.bind_ok']

end F9

/-! ### F-10 (FIXED in the engine): the same tag used twice inside one fold

```graphql
type T0 { s: String  e0: [T0] }        type RootSchemaQuery { R0: [T0] }
{ R0 { s @output(name: "o0") @tag(name: "t1")
       e0 @fold { s @filter(op: "=", value: ["%t1"]) @filter(op: "!=", value: ["%t1"]) } } }
```
HISTORY.  The pinned frontend (`reference_tag`) pushed the tag onto the fold's `imported_tags` once per
use, so the fold's `imports` listed `(ctx 1 s)` twice (`ir` below); `compute_fold` inserts the imports
into a map and removes them one by one with `imported_tags.remove(..).unwrap()`, and the second
removal failed.  The guard `NoKnownTrigger` had the clause `tagKeysDistinct f.imports`, and C09 had
the witness theorem `exec_panics_F10` on this world.  Since the fix (`hooks/fix-F10.diff`) the
frontend pushes a tag only if it is not yet contained: the IR for this query is `irFixed`
(`(ctx 1 s)` once).  The interpreter is unchanged and still relies on distinct imports
(`dup_still_panics`), which is why `tagKeysDistinct` is now a clause of the structural
well-formedness `WFq`: the old IR is not well-formed any more (`old_ir_not_wf`), the fixed one
satisfies every hypothesis and yields its row (`hyps`, `runs`).
-/
namespace F10

def S : SchemaView := F9.S
def D : Data := F9.D

def tagRef : FieldRef := .ctx 1 "s" tyStr
def v1 : IRVertex := ⟨1, "T0", none, []⟩
def v2 : IRVertex := ⟨2, "T0", none,
  [⟨.bin .equals, .loc "s" tyStr, some (.tag tagRef)⟩,
   ⟨.bin .notEquals, .loc "s" tyStr, some (.tag tagRef)⟩]⟩
def comp2 : Component := .mk 2 [v2] [] [] []
/-- the fold as the pinned frontend compiled it: the tag imported twice -/
def fold1 : Fold := .mk 1 1 2 "e0" [] comp2 [tagRef, tagRef] [] []
def comp : Component := .mk 1 [v1] [] [fold1] [⟨"o0", 1, "s", tyStr⟩]
/-- the IR of the pinned frontend (duplicate import) -/
def ir : IRQuery := ⟨"R0", [], [], comp⟩
/-- the fold as the fixed frontend compiles it: imports de-duplicated -/
def fold1Fixed : Fold := .mk 1 1 2 "e0" [] comp2 [tagRef] [] []
def compFixed : Component := .mk 1 [v1] [] [fold1Fixed] [⟨"o0", 1, "s", tyStr⟩]
/-- the IR of the fixed frontend -/
def irFixed : IRQuery := ⟨"R0", [], [], compFixed⟩
def args : List (Name × Value) := []

/-- the outer context with the tag imported -/
def ctx2 : Ctx := { ctx1 with importedTags := [(.ctx 1 "s", .some (.string [0x61]))] }
/-- … and after the fold (no neighbours: zero elements), the imported tag removed again -/
def ctx3 : Ctx := { ctx1 with foldCounts := [(1, some 0)] }

/-- the single result row -/
def rows : List Row := [[("o0", .string [0x61])]]

/-- the IR with the duplicated import is not well-formed any more … -/
theorem old_ir_not_wf : WFq ir = false := by decide

/-- … although everything else about it is fine (it is exactly the `tagKeysDistinct` clause that
rejects it) -/
theorem old_ir_rest : SchemaOK S ir = true ∧ ArgsOK ir args = true ∧ Conforms S D = true ∧
    NoKnownTrigger D ir args = true := by decide

/-- all five hypotheses of the invariant theorems hold for the IR of the fixed frontend -/
theorem hyps :
    WFq irFixed = true ∧ SchemaOK S irFixed = true ∧ ArgsOK irFixed args = true ∧
      Conforms S D = true ∧ NoKnownTrigger D irFixed args = true := by decide

/-- `interpret` up to the first well-founded call: the single starting vertex enters the root component -/
theorem unfold1 : interpret (Env.ofData D args) ir =
    (computeComponent (Env.ofData D args) (62 + 1 + 1) comp [ctx0]).bind
      (mapR (constructRow (Env.ofData D args) comp)) := rfl

theorem unfold1Fixed : interpret (Env.ofData D args) irFixed =
    (computeComponent (Env.ofData D args) (62 + 1 + 1) compFixed [ctx0]).bind
      (mapR (constructRow (Env.ofData D args) compFixed)) := rfl

/-- the clause is necessary: the interpreter (unchanged by the fix) still does one
`imported_tags.remove(..).unwrap()` per import, so on the — now impossible — IR with the duplicate it
would still fail -/
theorem dup_still_panics :
    interpret (Env.ofData D args) ir = .panic "imported_tags.remove(..).unwrap()" := by
  have hv : comp.vertex? 1 = some v1 := rfl
  have he : enterVertex (Env.ofData D args) comp v1 [ctx0] = .ok [ctx1] := rfl
  have hm : mergeStages comp.edges comp.folds (comp.edges.length + comp.folds.length)
      = .ok [.fold fold1] := rfl
  have hroot : comp.root = 1 := rfl
  have hk : checkVisited [1] fold1.fromVid fold1.toVid = .ok [2, 1] := rfl
  have hf : comp.vertex? fold1.fromVid = some v1 := rfl
  have hi : mapR (importTags (Env.ofData D args) comp fold1.imports) [ctx1] = .ok [ctx2] := rfl
  have ha : mapR (fun c => c.activate fold1.fromVid) [ctx2] = .ok [ctx2] := rfl
  have hl : foldLimits (Env.ofData D args) comp fold1 = .ok (none, none) := rfl
  have hn : (Env.ofData D args).adapter.nbrs fold1.eid v1.typeName fold1.name fold1.params
      ctx2.active = .ok [] := rfl
  have hfs : foldStart ctx2 [] = [] := rfl
  have hc2 : fold1.component = comp2 := rfl
  have hv2 : comp2.vertex? comp2.root = some v2 := rfl
  have he2 : enterVertex (Env.ofData D args) comp2 v2 [] = .ok [] := rfl
  have hm2 : mergeStages comp2.edges comp2.folds (comp2.edges.length + comp2.folds.length)
      = .ok [] := rfl
  have hfin : foldFinish (Env.ofData D args) comp fold1 (none, none) ctx2 []
      = .panic "imported_tags.remove(..).unwrap()" := rfl
  rw [unfold1]
  simp only [computeComponent, runStages, computeFold, foldOne, filterMapR,
    hv, he, hm, hroot, hk, hf, hi, ha, hl, hn, hfs, hc2, hv2, he2, hm2, hfin,
    R.bind_ok', R.bind_panic']

/-- regression of the F-10 fix: the IR the fixed frontend produces for the query runs to its row -/
theorem runs : interpret (Env.ofData D args) irFixed = .ok rows := by
  have hv : compFixed.vertex? 1 = some v1 := rfl
  have he : enterVertex (Env.ofData D args) compFixed v1 [ctx0] = .ok [ctx1] := rfl
  have hm : mergeStages compFixed.edges compFixed.folds
      (compFixed.edges.length + compFixed.folds.length) = .ok [.fold fold1Fixed] := rfl
  have hroot : compFixed.root = 1 := rfl
  have hk : checkVisited [1] fold1Fixed.fromVid fold1Fixed.toVid = .ok [2, 1] := rfl
  have hf : compFixed.vertex? fold1Fixed.fromVid = some v1 := rfl
  have hi : mapR (importTags (Env.ofData D args) compFixed fold1Fixed.imports) [ctx1]
      = .ok [ctx2] := rfl
  have ha : mapR (fun c => c.activate fold1Fixed.fromVid) [ctx2] = .ok [ctx2] := rfl
  have hl : foldLimits (Env.ofData D args) compFixed fold1Fixed = .ok (none, none) := rfl
  have hn : (Env.ofData D args).adapter.nbrs fold1Fixed.eid v1.typeName fold1Fixed.name
      fold1Fixed.params ctx2.active = .ok [] := rfl
  have hfs : foldStart ctx2 [] = [] := rfl
  have hc2 : fold1Fixed.component = comp2 := rfl
  have hv2 : comp2.vertex? comp2.root = some v2 := rfl
  have he2 : enterVertex (Env.ofData D args) comp2 v2 [] = .ok [] := rfl
  have hm2 : mergeStages comp2.edges comp2.folds (comp2.edges.length + comp2.folds.length)
      = .ok [] := rfl
  have hfin : foldFinish (Env.ofData D args) compFixed fold1Fixed (none, none) ctx2 []
      = .ok (some ctx3) := rfl
  have hr : mapR (constructRow (Env.ofData D args) compFixed) [ctx3] = .ok rows := rfl
  rw [unfold1Fixed]
  simp only [computeComponent, runStages, computeFold, foldOne, filterMapR,
    hv, he, hm, hroot, hk, hf, hi, ha, hl, hn, hfs, hc2, hv2, he2, hm2, hfin, hr,
    R.bind_ok']

end F10

/-! ### C21a: the implicit coercion of a recursive edge targets a type that is not a subtype

```graphql
interface I0 { x: String }
interface I1 { y: String  e: [I0] }
type T0 implements I1 & I0 { x: String  y: String  e: [I0] }
type RootSchemaQuery { R0: [T0] }
{ R0 { e @recurse(depth: 2) { x @output(name: "o0") } } }
```
`get_recurse_implicit_coercion` (case 4c) answers the edge's *origin* type `I1` without checking that
it is a subtype of the edge's destination type `I0`; from recursion depth 2 on the engine calls
`resolve_coercion(type_name = "I0", coerce_to_type = "I1")` although `I1` does not implement `I0`
— outside the caller guarantee documented at `Adapter::resolve_coercion`.  No panic is involved: the
table adapter answers the question anyway (`plain_ok`); only the contract check notices.
-/
namespace C21a

def e : EdgeInfo := ⟨"e", "I0", ⟨"I0", [true, true]⟩, []⟩

def S : SchemaView :=
  { types := [⟨"I0", true, [], [("x", tyStr)], []⟩,
              ⟨"I1", true, [], [("y", tyStr)], [e]⟩,
              ⟨"T0", false, ["I1", "I0"], [("x", tyStr), ("y", tyStr)], [e]⟩],
    roots := [⟨"R0", "T0", ⟨"T0", [true, true]⟩, []⟩] }

def D : Data :=
  { vertices := [⟨0, "T0", [("x", .string [0x61]), ("y", .null)]⟩,
                 ⟨1, "T0", [("x", .string [0x62]), ("y", .null)]⟩],
    adj := [⟨0, "e", [], [1]⟩, ⟨1, "e", [], []⟩],
    starts := [⟨"R0", [], [0]⟩],
    rx := [],
    sub := [("I0", []), ("I1", []), ("T0", ["I1", "I0"])] }

def v1 : IRVertex := ⟨1, "T0", none, []⟩
def v2 : IRVertex := ⟨2, "I0", none, []⟩
def edge1 : IREdge := ⟨1, 1, 2, "e", [], false, some ⟨2, some "I1"⟩⟩
def comp : Component := .mk 1 [v1, v2] [edge1] [] [⟨"o0", 2, "x", tyStr⟩]
def ir : IRQuery := ⟨"R0", [], [], comp⟩
def args : List (Name × Value) := []

/-- the two contexts the recursion yields under the table adapter: depth 0 and depth 1 -/
def out : List Ctx :=
  [{ ctx0 with vertices := [(1, some 0), (2, some 0)] },
   { ctx0 with active := some 1, vertices := [(1, some 0), (2, some 1)] }]

def rows : List Row := [[("o0", .string [0x61])], [("o0", .string [0x62])]]

theorem hyps :
    WFq ir = true ∧ ArgsOK ir args = true ∧ Conforms S D = true ∧
      NoKnownTrigger D ir args = true := by decide

/-- the IR the frontend produced is *not* typed by the schema: `coercionOK S "I0" "I1"` fails -/
theorem schema_not_ok : SchemaOK S ir = false := by decide

theorem unfold1 (env : Env) (hs : env.adapter.start "R0" [] 1 = .ok [0]) : interpret env ir =
    (computeComponent env (63 + 1) comp [ctx0]).bind (mapR (constructRow env comp)) := by
  show (env.adapter.start "R0" [] 1).bind _ = _
  rw [hs]; rfl

theorem contract_broken :
    interpret (Env.checked S D args) ir = .panic "contract:coercion-target-not-subtype" := by
  have hroot : comp.root = 1 := rfl
  have hv : comp.vertex? 1 = some v1 := rfl
  have he : enterVertex (Env.checked S D args) comp v1 [ctx0] = .ok [ctx1] := rfl
  have hm : mergeStages comp.edges comp.folds (comp.edges.length + comp.folds.length)
      = .ok [.edge edge1] := rfl
  have hk : checkVisited [1] edge1.fromVid edge1.toVid = .ok [2, 1] := rfl
  have hx : expandEdge (Env.checked S D args) comp edge1 [ctx1]
      = .panic "contract:coercion-target-not-subtype" := rfl
  rw [unfold1 _ rfl]
  simp only [computeComponent, runStages, hroot, hv, he, hm, hk, hx, R.bind_ok', R.bind_panic']

theorem plain_rows : interpret (Env.ofData D args) ir = .ok rows := by
  have hroot : comp.root = 1 := rfl
  have hv : comp.vertex? 1 = some v1 := rfl
  have he : enterVertex (Env.ofData D args) comp v1 [ctx0] = .ok [ctx1] := rfl
  have hm : mergeStages comp.edges comp.folds (comp.edges.length + comp.folds.length)
      = .ok [.edge edge1] := rfl
  have hk : checkVisited [1] edge1.fromVid edge1.toVid = .ok [2, 1] := rfl
  have hx : expandEdge (Env.ofData D args) comp edge1 [ctx1] = .ok out := rfl
  have hr : mapR (constructRow (Env.ofData D args) comp) out = .ok rows := rfl
  rw [unfold1 _ rfl]
  simp only [computeComponent, runStages, hroot, hv, he, hm, hk, hx, hr, R.bind_ok']

theorem plain_ok : ∃ rows, interpret (Env.ofData D args) ir = .ok rows := ⟨rows, plain_rows⟩

end C21a

/-! ### C21b: an implementer widens an inherited edge parameter; the recursion continues on the interface

```graphql
interface A { id: Int  e(x: Int!): [A] }
type B implements A { id: Int  e(x: Int): [A] }
type RootSchemaQuery { b: [B] }
{ b { e @recurse(depth: 2) { id @output(name: "t") } } }
```
`Schema::parse` accepts the schema (only *narrowing* of an inherited parameter type is an error).  The
frontend completes the omitted `x` as `null` from `B.e`'s declaration (`x: Int`, nullable, no default);
the recursion needs no coercion (case 4a: `A` declares `e` with target `A`), so from depth 2 on the
engine resolves `e` on type `A` with the tuple `{x: null}` although `A.e` declares `x: Int!`: the
adapter is called with a parameter value the named type's declaration does not admit.  Confirmed on
the real engine: `resolve_neighbors(type_name = "A", "e", {x: Null})` (corpus/C21.cases, oracle key
`contract:param-value-not-of-declared-type`).  No panic: the table adapter answers anyway.
-/
namespace C21b

def tyInt : QTy := ⟨"Int", [true]⟩
def eA : EdgeInfo := ⟨"e", "A", ⟨"A", [true, true]⟩, [⟨"x", ⟨"Int", [false]⟩, none⟩]⟩
def eB : EdgeInfo := ⟨"e", "A", ⟨"A", [true, true]⟩, [⟨"x", ⟨"Int", [true]⟩, none⟩]⟩

def S : SchemaView :=
  { types := [⟨"A", true, [], [("id", tyInt)], [eA]⟩,
              ⟨"B", false, ["A"], [("id", tyInt)], [eB]⟩],
    roots := [⟨"b", "B", ⟨"B", [true, true]⟩, []⟩] }

def D : Data :=
  { vertices := [⟨0, "B", [("id", .int64 0)]⟩, ⟨1, "B", [("id", .int64 1)]⟩,
                 ⟨2, "B", [("id", .int64 2)]⟩],
    adj := [⟨0, "e", [("x", .null)], [1]⟩, ⟨1, "e", [("x", .null)], [2]⟩,
            ⟨2, "e", [("x", .null)], []⟩],
    starts := [⟨"b", [], [0]⟩],
    rx := [],
    sub := [("A", []), ("B", ["A"])] }

def v1 : IRVertex := ⟨1, "B", none, []⟩
def v2 : IRVertex := ⟨2, "A", none, []⟩
def edge1 : IREdge := ⟨1, 1, 2, "e", [("x", .null)], false, some ⟨2, none⟩⟩
def comp : Component := .mk 1 [v1, v2] [edge1] [] [⟨"t", 2, "id", tyInt⟩]
def ir : IRQuery := ⟨"b", [], [], comp⟩
def args : List (Name × Value) := []

/-- depth 0, 1, 2 (in the order the piggy-backed contexts are unpacked) -/
def out : List Ctx :=
  [{ ctx0 with vertices := [(1, some 0), (2, some 0)] },
   { ctx0 with active := some 1, vertices := [(1, some 0), (2, some 1)] },
   { ctx0 with active := some 2, vertices := [(1, some 0), (2, some 2)] }]

def rows : List Row := [[("t", .int64 0)], [("t", .int64 1)], [("t", .int64 2)]]

theorem hyps :
    WFq ir = true ∧ ArgsOK ir args = true ∧ Conforms S D = true ∧
      NoKnownTrigger D ir args = true := by decide

/-- the IR the frontend produced is *not* typed by the schema: the tuple `{x: null}` is not a valid
parameter tuple of `A.e` (`edgeDeclOK S "A" "e" "A" [("x", null)]` fails) -/
theorem schema_not_ok : SchemaOK S ir = false := by decide

theorem unfold1 (env : Env) (hs : env.adapter.start "b" [] 1 = .ok [0]) : interpret env ir =
    (computeComponent env (63 + 1) comp [ctx0]).bind (mapR (constructRow env comp)) := by
  show (env.adapter.start "b" [] 1).bind _ = _
  rw [hs]; rfl

theorem contract_broken :
    interpret (Env.checked S D args) ir = .panic "contract:params" := by
  have hroot : comp.root = 1 := rfl
  have hv : comp.vertex? 1 = some v1 := rfl
  have he : enterVertex (Env.checked S D args) comp v1 [ctx0] = .ok [ctx1] := rfl
  have hm : mergeStages comp.edges comp.folds (comp.edges.length + comp.folds.length)
      = .ok [.edge edge1] := rfl
  have hk : checkVisited [1] edge1.fromVid edge1.toVid = .ok [2, 1] := rfl
  have hx : expandEdge (Env.checked S D args) comp edge1 [ctx1] = .panic "contract:params" := rfl
  rw [unfold1 _ rfl]
  simp only [computeComponent, runStages, hroot, hv, he, hm, hk, hx, R.bind_ok', R.bind_panic']

theorem plain_rows : interpret (Env.ofData D args) ir = .ok rows := by
  have hroot : comp.root = 1 := rfl
  have hv : comp.vertex? 1 = some v1 := rfl
  have he : enterVertex (Env.ofData D args) comp v1 [ctx0] = .ok [ctx1] := rfl
  have hm : mergeStages comp.edges comp.folds (comp.edges.length + comp.folds.length)
      = .ok [.edge edge1] := rfl
  have hk : checkVisited [1] edge1.fromVid edge1.toVid = .ok [2, 1] := rfl
  have hx : expandEdge (Env.ofData D args) comp edge1 [ctx1] = .ok out := rfl
  have hr : mapR (constructRow (Env.ofData D args) comp) out = .ok rows := rfl
  rw [unfold1 _ rfl]
  simp only [computeComponent, runStages, hroot, hv, he, hm, hk, hx, hr, R.bind_ok']

theorem plain_ok : ∃ rows, interpret (Env.ofData D args) ir = .ok rows := ⟨rows, plain_rows⟩

end C21b

end TF.Engine.Witness
