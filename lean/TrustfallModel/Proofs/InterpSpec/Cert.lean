/-
C01 main theorem, layer 5: the static certificate.

`NodeCert W node vid L es vs`: the sub-tree `node`, numbered `vid`, entered when the Vids `L` are
already recorded, is compiled to the vertex records of `W.comp` and to the stage list `es`
(Eid order = DFS pre-order) which records the Vids `vs` (`vid` first).  It collects every static
fact the simulation needs — and nothing about how the frontend computes it.
-/
import TrustfallModel.Proofs.InterpSpec.Rec

namespace TF.InterpSpec
open TF TF.Engine TF.Spec

/-- The specification's completed parameters select the same neighbours as the IR's. -/
def ParamsAgree (W : World) (n : Name) (params ps : Params) : Prop :=
  ∀ x, W.D.nbrs x n (Spec.completeParams (declParams W.senv (W.D.supers (W.D.typeOf x)) n) params) =
    W.D.nbrs x n ps

/-- For a recursion the specification completes the parameters once, from the declaration found
from the STARTING vertex' type, and uses them at every depth: they must select the same
neighbours everywhere (only starting vertices that have a neighbour matter). -/
def ParamsAgreeRec (W : World) (n : Name) (params ps : Params) : Prop :=
  ∀ x, W.D.nbrs x n ps ≠ [] → ∀ y,
    W.D.nbrs y n (Spec.completeParams (declParams W.senv (W.D.supers (W.D.typeOf x)) n) params) =
      W.D.nbrs y n ps

/-- Fragment: which edge kinds the certificate covers, and what it records about them. -/
def EdgeKindOK (W : World) (n : Name) (params : Params) (kind : Kind) (e : IREdge) : Prop :=
  match kind with
  | .plain => e.optional = false ∧ e.recursive = none
  | .optional => e.optional = true ∧ e.recursive = none
  | .recurse d => ∃ r, e.recursive = some r ∧ r.depth = d ∧ 1 ≤ d ∧ RecConv W.D e r ∧
      ParamsAgreeRec W n params e.params
  | .fold _ => False

mutual
def NodeCert (W : World) : QNode → Vid → List Vid → List IREdge → List Vid → Prop
  | .mk ct fields, vid, L, es, vs =>
    ∃ V vs', vs = vid :: vs' ∧ W.comp.vertex? vid = some V ∧ V.vid = vid ∧ CoerceOK ct V ∧
      Forall2 (FilterOK W vid L) (specFilters fields) V.filters ∧
      W.TG vid = tagPairs fields ∧ W.OG vid = outPairs fields ∧
      FieldsCert W fields vid (L ++ [vid]) es vs'
def FieldsCert (W : World) : List QField → Vid → List Vid → List IREdge → List Vid → Prop
  | [], _, _, es, vs => es = [] ∧ vs = []
  | .prop _ _ :: rest, vid, L, es, vs => FieldsCert W rest vid L es vs
  | .edge n params kind child :: rest, vid, L, es, vs =>
    ∃ e esC esR vsC vsR, es = e :: (esC ++ esR) ∧ vs = vsC ++ vsR ∧
      e.fromVid = vid ∧ (W.comp.vertex? vid).isSome ∧ e.name = n ∧ EdgeKindOK W n params kind e ∧
      ParamsAgree W n params e.params ∧
      NodeCert W child e.toVid L esC vsC ∧ FieldsCert W rest vid (L ++ vsC) esR vsR
end

/-- What a node certificate says about the node's own vertex. -/
theorem NodeCert.dest {W : World} {node : QNode} {vid : Vid} {L : List Vid} {es : List IREdge}
    {vs : List Vid} (h : NodeCert W node vid L es vs) :
    ∃ V vs' sfs, vs = vid :: vs' ∧ W.comp.vertex? vid = some V ∧ V.vid = vid ∧
      Forall2 (FilterOK W vid L) sfs V.filters := by
  cases node with
  | mk ct fields =>
    unfold NodeCert at h
    obtain ⟨V, vs', h1, h2, h3, _, h5, _⟩ := h
    exact ⟨V, vs', _, h1, h2, h3, h5⟩

end TF.InterpSpec
