/-
C01 main theorem: the decidable side conditions `Hyps` (all `Bool`, evaluated by the driver
`Driver/C01Hyps.lean` on every real request), the fragment classifier, and the numbering table
of a query tree (which selections are written at the node numbered `vid`).
-/
import TrustfallModel.Model.Frontend
import TrustfallModel.Proofs.InterpSpec.SpecO
import TrustfallModel.Proofs.RecDfs

namespace TF.InterpSpec
open TF TF.Engine TF.Spec TF.Frontend

deriving instance DecidableEq for TF.Spec.QArg

/-- What the hypotheses are evaluated against. -/
structure HypEnv where
  S : SchemaView
  D : Data
  args : List (Name × Value)
  edges : List EdgeDecl

def HypEnv.senv (H : HypEnv) : SpecEnv := ⟨H.D, H.args, H.edges⟩

def leftName : Left → Name
  | .loc n _ => n
  | .count => ""

def pendingTriples (l : List PendingFilter) : List (Name × FOp × QArg) :=
  l.map fun pf => (leftName pf.left, pf.op, pf.arg)

/-- The frontend emits the filters of a vertex grouped by property (first occurrence); the
specification evaluates them in selection order.  The two orders coincide unless a property is
selected again after another filtered property. -/
def filtersInOrder (S : SchemaView) (ty : Name) (fields : List QField) : Bool :=
  decide (pendingTriples (nodeFilters S ty fields) = specFilters fields)

/-- A filter on a variable: the argument is present, and a regex pattern compiles (F-4 guard:
the engine compiles it while building the pipeline, i.e. even when no row reaches the filter). -/
def varOK (H : HypEnv) : Name × FOp × QArg → Bool
  | (_, .bin o, .var m) =>
    match H.args.find? (·.1 == m) with
    | some (_, val) =>
      !isRegexOp o || (match Filter.compileStaticRegex H.D.regex val with
        | .ok _ => true
        | .panic => false)
    | none => false
  | _ => true

/-- The specification's completion of the edge parameters (per vertex: by the declaration found
from the vertex's own type) selects the same table entries as the IR's. -/
def paramsAgreeB (H : HypEnv) (n : Name) (params ps : Params) : Bool :=
  H.D.adj.all fun a =>
    H.D.nbrs a.vertex n
        (Spec.completeParams (declParams H.senv (H.D.supers (H.D.typeOf a.vertex)) n) params) ==
      H.D.nbrs a.vertex n ps

/-- The same for a recursion: the specification completes the parameters once, from the starting
vertex' own declaration, and uses them at every depth (only starting vertices that have a neighbour
matter). -/
def paramsAgreeRecB (H : HypEnv) (n : Name) (params ps : Params) : Bool :=
  H.D.adj.all fun a =>
    (H.D.nbrs a.vertex n ps).isEmpty ||
      H.D.adj.all fun b =>
        H.D.nbrs b.vertex n
            (Spec.completeParams (declParams H.senv (H.D.supers (H.D.typeOf a.vertex)) n) params) ==
          H.D.nbrs b.vertex n ps

/-- The dataset convention for recursion (`hconv` of `recurse_is_reach`): a vertex that fails the
implicit coercion between recursion levels has no such edge. -/
def recConvB (D : Data) (n : Name) (ps : Params) (coerceTo : Option Name) : Bool :=
  D.adj.all fun a => recGate D coerceTo (some a.vertex) || (D.nbrs a.vertex n ps).isEmpty

/-- The additional hypotheses of a `@recurse` edge. -/
def recOK (H : HypEnv) (ty : Name) (ed : EdgeInfo) (n : Name) (params ps : Params) (kind : Kind) :
    Bool :=
  match kind with
  | .recurse _ =>
    match recursiveOf H.S ty ed kind with
    | .ok (some r) => recConvB H.D n ps r.coerceTo && paramsAgreeRecB H n params ps
    | _ => true
  | _ => true

/-- Edge kinds of fragment `frag` (1: plain/optional, 2: + recurse, 3: + fold). -/
def kindIn (frag : Nat) : Kind → Bool
  | .plain | .optional => 1 ≤ frag
  | .recurse _ => 2 ≤ frag
  | .fold _ => 3 ≤ frag

mutual
/-- The hypotheses at and below a node whose scope has the pre-coercion type `pre`; mirrors the
walk of `fillNode` (a branch the frontend rejects imposes nothing). -/
def hypsNode (H : HypEnv) (frag : Nat) (pre : Name) : QNode → Bool
  | .mk ct fields =>
    match coerce H.S pre ct with
    | .ok post =>
      filtersInOrder H.S post fields && (specFilters fields).all (varOK H) &&
        hypsFields H frag post fields
    | .error _ => true
def hypsFields (H : HypEnv) (frag : Nat) (ty : Name) : List QField → Bool
  | [] => true
  | .prop _ _ :: rest => hypsFields H frag ty rest
  | .edge n params kind child :: rest =>
    (match H.S.edge? ty n with
      | some ed =>
        match Frontend.completeParams ed.params params with
        | .ok ps =>
          kindIn frag kind && paramsAgreeB H n params ps && recOK H ty ed n params ps kind &&
            hypsNode H frag ed.target child
        | .error _ => true
      | none => true) && hypsFields H frag ty rest
end

/-- The hypotheses of the main theorem for fragment `frag`. -/
def hypsB (H : HypEnv) (frag : Nat) (q : Query) : Bool :=
  match H.S.root? q.rootEdge with
  | some root =>
    match Frontend.completeParams root.params q.rootParams with
    | .ok rootParams =>
      (H.D.start q.rootEdge
          (Spec.completeParams (declParams H.senv [""] q.rootEdge) q.rootParams) ==
        H.D.start q.rootEdge rootParams) &&
      decide (height q.root ≤ 64) && hypsNode H frag root.target q.root
    | .error _ => true
  | none => true

def Hyps (H : HypEnv) (frag : Nat) (q : Query) : Prop := hypsB H frag q = true

instance (H : HypEnv) (frag : Nat) (q : Query) : Decidable (Hyps H frag q) :=
  inferInstanceAs (Decidable (_ = true))

mutual
/-- The smallest fragment containing the tree: 0 no edges, 1 plain/optional edges, 2 `@recurse`,
3 `@fold`. -/
def fragNode : QNode → Nat
  | .mk _ fields => fragFields fields
def fragFields : List QField → Nat
  | [] => 0
  | .prop _ _ :: rest => fragFields rest
  | .edge _ _ kind child :: rest =>
    max (match kind with
      | .plain | .optional => 1
      | .recurse _ => 2
      | .fold _ => 3) (max (fragNode child) (fragFields rest))
end

/-! ### numbering -/

mutual
/-- Number of edges (of every kind, at every fold depth) in a sub-tree = the number of Vids/Eids
the frontend allocates for it. -/
def size : QNode → Nat
  | .mk _ fields => sizeFields fields
def sizeFields : List QField → Nat
  | [] => 0
  | .prop _ _ :: rest => sizeFields rest
  | .edge _ _ _ child :: rest => 1 + size child + sizeFields rest
end

mutual
/-- The nodes of a fold-free sub-tree with their Vids, in DFS pre-order: the node itself is `vid`,
fresh Vids start at `next`. -/
def tblNode : QNode → Vid → Vid → List (Vid × List QField)
  | .mk _ fields, vid, next => (vid, fields) :: tblFields fields next
def tblFields : List QField → Vid → List (Vid × List QField)
  | [], _ => []
  | .prop _ _ :: rest, next => tblFields rest next
  | .edge _ _ _ child :: rest, next =>
    tblNode child next (next + 1) ++ tblFields rest (next + 1 + size child)
end

def tblLookup (tbl : List (Vid × List QField)) (w : Vid) : List QField :=
  match tbl.find? (·.1 == w) with
  | some p => p.2
  | none => []

end TF.InterpSpec
