/-
C01 main theorem, assembly: `toIR S q = .ok ir` + `Hyps` ⇒ `RootCert` ⇒ equality of rows, for
queries with plain and `@optional` edges (fragments F0 and F1).
-/
import TrustfallModel.Proofs.InterpSpec.StaticCert
import TrustfallModel.Proofs.InterpSpec.Visit
import TrustfallModel.Proofs.InterpSpec.Top

namespace TF.InterpSpec
open TF TF.Engine TF.Spec TF.Frontend

mutual
theorem noFold_of_frag : ∀ (node : QNode), fragNode node ≤ 2 → noFold node = true
  | .mk ct fields, h => by
    simp only [fragNode] at h
    simpa [noFold] using noFoldFields_of_frag fields h
theorem noFoldFields_of_frag : ∀ (fields : List QField), fragFields fields ≤ 2 →
    noFoldFields fields = true
  | [], _ => rfl
  | .prop _ _ :: rest, h => by
    simp only [fragFields] at h
    simpa [noFoldFields] using noFoldFields_of_frag rest h
  | .edge _ _ kind child :: rest, h => by
    simp only [fragFields] at h
    have h1 : fragNode child ≤ 2 := by omega
    have h2 : fragFields rest ≤ 2 := by omega
    simp only [noFoldFields, noFold_of_frag child h1, noFoldFields_of_frag rest h2, Bool.and_true]
    cases kind with
    | fold fds => simp only at h; omega
    | plain => rfl
    | optional => rfl
    | recurse d => rfl
end

theorem makeVertices_mem {path l st vs ev st'} (h : makeVertices path l st = .ok (vs, ev, st')) :
    ∀ r ∈ l, ∃ fs ev' stX stY, stX.tags = st.tags ∧
      resolveFilters path r.vid r.pending stX = .ok (fs, ev', stY) ∧
      (⟨r.vid, r.typeName, r.coercedFrom, fs⟩ : IRVertex) ∈ vs := by
  induction l generalizing st vs ev with
  | nil => intro r hr; cases hr
  | cons v rest ih =>
    rw [makeVertices] at h
    simp only [bind_ok, pure_ok, makeVertex] at h
    obtain ⟨⟨x, ev1, st1⟩, ⟨⟨fs, ev0, st0⟩, h0, hx⟩, ⟨xs, ev2, st2⟩, h2, h3⟩ := h
    simp only [Prod.mk.injEq] at h3 hx
    obtain ⟨rfl, _, rfl⟩ := h3
    obtain ⟨rfl, _, rfl⟩ := hx
    intro r hr
    rcases List.mem_cons.1 hr with rfl | hr
    · exact ⟨fs, ev0, st, st0, rfl, h0, by simp⟩
    · obtain ⟨fs', ev', stX, stY, hT, hres, hmem⟩ := ih h2 r hr
      exact ⟨fs', ev', stX, stY, by rw [hT, (resolveFilters_core h0).2.2], hres,
        List.mem_cons_of_mem _ hmem⟩

theorem find?_vertex_of_mem {vs : List IRVertex} {V : IRVertex} (hn : (vs.map (·.vid)).Nodup)
    (hm : V ∈ vs) : vs.find? (·.vid == V.vid) = some V := by
  induction vs with
  | nil => cases hm
  | cons p rest ih =>
    simp only [List.map_cons, List.nodup_cons] at hn
    rcases List.mem_cons.1 hm with h | h
    · subst h; simp
    · have hne : p.vid ≠ V.vid := by
        intro he
        apply hn.1
        rw [he]
        exact List.mem_map.2 ⟨V, h, rfl⟩
      simp [List.find?_cons, hne, ih hn.2 h]

theorem tblLookup_of_mem {tbl : List (Vid × List QField)} (hn : (keysT tbl).Nodup) {w : Vid}
    {fs : List QField} (hm : (w, fs) ∈ tbl) : tblLookup tbl w = fs := by
  unfold tblLookup
  induction tbl with
  | nil => cases hm
  | cons p rest ih =>
    simp only [keysT, List.map_cons, List.nodup_cons] at hn
    rcases List.mem_cons.1 hm with h | h
    · subst h; simp
    · have hne : p.1 ≠ w := by
        intro he
        apply hn.1
        rw [he]
        exact List.mem_map.2 ⟨(w, fs), h, rfl⟩
      have hb : (p.1 == w) = false := by simpa using hne
      simp only [List.find?_cons, hb]
      exact ih hn.2 h

theorem insertOutput_perm (o : OutputDef) (l : List OutputDef) : (insertOutput o l).Perm (o :: l) := by
  induction l with
  | nil => exact List.Perm.refl _
  | cons x xs ih =>
    simp only [insertOutput]
    split
    · exact List.Perm.refl _
    · exact (List.Perm.cons x ih).trans (List.Perm.swap o x xs)

theorem sortOutputs_perm (l : List OutputDef) : (sortOutputs l).Perm l := by
  induction l with
  | nil => exact List.Perm.refl _
  | cons o rest ih => exact (insertOutput_perm o _).trans (List.Perm.cons o ih)

theorem nodup_of_namesDistinct {l : List Name} (h : namesDistinct l = true) : l.Nodup := by
  induction l with
  | nil => exact List.nodup_nil
  | cons n rest ih =>
    simp only [namesDistinct, Bool.and_eq_true, Bool.not_eq_true', List.contains_eq_mem,
      decide_eq_false_iff_not] at h
    exact List.nodup_cons.2 ⟨h.1, ih h.2⟩

/-- The world of one compiled query. -/
def worldOf (D : Data) (args : List (Name × Value)) (edges : List EdgeDecl) (comp : Component)
    (tbl : List (Vid × List QField)) (lim : Bool := false) : World :=
  ⟨D, args, edges, comp, fun w => tagPairs (tblLookup tbl w), fun w => outPairs (tblLookup tbl w), lim⟩

theorem tagNames_worldOf (D args edges comp) (tbl : List (Vid × List QField)) (lim : Bool)
    (hn : (keysT tbl).Nodup) :
    tagNames (worldOf D args edges comp tbl lim) (keysT tbl) = (tagTriples tbl).map (·.1) := by
  simp only [tagNames, keysT, tagTriples, List.flatMap_map, List.map_flatMap, List.map_map]
  apply flatMap_congr'
  intro q hq
  have : tblLookup tbl q.1 = q.2 := tblLookup_of_mem hn (w := q.1) (fs := q.2) hq
  simp [worldOf, this, Function.comp_def]

theorem outTriples_worldOf (D args edges comp) (tbl : List (Vid × List QField)) (lim : Bool)
    (hn : (keysT tbl).Nodup) :
    outTriples (worldOf D args edges comp tbl lim) (keysT tbl) = outTriplesT tbl := by
  simp only [outTriples, keysT, outTriplesT, List.flatMap_map]
  apply flatMap_congr'
  intro q hq
  have : tblLookup tbl q.1 = q.2 := tblLookup_of_mem hn (w := q.1) (fs := q.2) hq
  simp [worldOf, this]

/-- **Fragments F0/F1/F2**: a query whose edges are plain, `@optional` or `@recurse`, accepted by
the frontend, under `Hyps`: the interpreter on the frontend's IR and the declarative semantics succeed on the
same inputs, with the same rows in the same order. -/
theorem interp_eq_spec_core (S : SchemaView) (q : Query) (ir : IRQuery) (D : Data)
    (args : List (Name × Value)) (edges : List EdgeDecl) (lim : Bool) (frag : Nat) (hfr : frag ≤ 2)
    (h : toIR S q = .ok ir) (hfrag : fragNode q.root ≤ frag) (hh : Hyps ⟨S, D, args, edges⟩ frag q) :
    (interpret { Env.ofData D args with useLimits := lim } ir).toOption =
      (Spec.rows ⟨D, args, edges⟩ q).toOption := by
  obtain ⟨root, rootParams, acc, st1, comp, evs, st2, vars, hroot, hrp, hfill, hfin, _, _, hnames,
    rfl⟩ := toIR_inv h
  obtain ⟨vs, ev, hmk, rfl, _⟩ := finishComponent_inv hfin
  -- the hypotheses
  simp only [Hyps, hypsB, hroot, hrp, Bool.and_eq_true, decide_eq_true_eq] at hh
  obtain ⟨⟨hstart, hfuel⟩, hnode⟩ := hh
  have hnf : noFold q.root = true := noFold_of_frag q.root (by omega)
  -- numbering
  let tbl := tblNode q.root 1 2
  have hsorted : (keysT tbl).Pairwise (· < ·) := tblNode_sorted q.root 1 2 (by decide)
  have hnd : (keysT tbl).Nodup := nodup_of_sorted hsorted
  obtain ⟨hkeys, hfolds⟩ := (keys_fill S).1 _ _ _ _ _ _ _ hfill hnf
  have hkeys' : acc.verts.map (·.vid) = keysT tbl := hkeys
  have hvsk : vs.map (·.vid) = keysT tbl := by rw [(makeVertices_inv hmk).2, hkeys']
  -- tags
  obtain ⟨new, htags, hperm, hctx⟩ := (tags_fill S).1 _ _ _ _ _ _ _ hfill hnf
  have hT : st1.tags = new := by simpa [St.init] using htags
  have hTn : (st1.tags.map (·.name)).Nodup :=
    (tagNames_fill S).1 _ _ _ _ _ _ _ hfill (by simp [St.init])
  let W := worldOf D args edges (Component.mk 1 vs acc.edges acc.folds (sortOutputs acc.outs)) tbl lim
  have hvert : ∀ w ∈ keysT tbl, (W.comp.vertex? w).isSome := by
    intro w hw
    rw [← hvsk] at hw
    obtain ⟨V, hV, rfl⟩ := List.mem_map.1 hw
    show (vs.find? _).isSome
    rw [find?_vertex_of_mem (by rw [hvsk]; exact hnd) hV]; rfl
  have G : Glob W st1.tags (keysT tbl) tbl := by
    refine ⟨hsorted, rfl, hvert, ?_, ?_⟩
    · intro e he
      rw [hT] at he
      have hm : entryTriple e ∈ tagTriples tbl :=
        hperm.mem_iff.1 (List.mem_map.2 ⟨e, he, rfl⟩)
      simp only [tagTriples, List.mem_flatMap, List.mem_map] at hm
      obtain ⟨qq, hq, p, hp, hpe⟩ := hm
      have hc := hctx e he
      cases hf : e.field with
      | fcount eid r => simp [hf, isCtxRef] at hc
      | ctx w fld ty =>
        simp only [entryTriple, hf, Prod.mk.injEq] at hpe
        obtain ⟨h1, h2, h3⟩ := hpe
        refine ⟨w, fld, ty, qq.2, rfl, ?_, ?_⟩
        · rw [← h2]; exact hq
        · rw [← h1, ← h3]; exact hp
    · intro w fs hm
      have : tblLookup tbl w = fs := tblLookup_of_mem hnd hm
      exact ⟨by show tagPairs (tblLookup tbl w) = _; rw [this],
        by show outPairs (tblLookup tbl w) = _; rw [this]⟩
  have hHV : HV W st1.tags [1] acc.verts := by
    intro r hr
    obtain ⟨fs, ev', stX, stY, hTX, hres, hmem⟩ := makeVertices_mem hmk r hr
    refine ⟨fs, ev', stX, stY, hTX, hres, ?_⟩
    exact find?_vertex_of_mem (vs := vs) (V := ⟨r.vid, r.typeName, r.coercedFrom, fs⟩)
      (by rw [hvsk]; exact hnd) hmem
  have hcert : NodeCert W q.root 1 [] acc.edges (keysT tbl) := by
    have := (cert_fill S ⟨S, D, args, edges⟩ rfl W rfl rfl rfl st1.tags (keysT tbl) tbl G frag hfr).1
      _ _ _ _ _ _ _ hfill [] [] hnode (by simp [hkeys']) (fun p hp => hp) hHV
    rw [hkeys'] at this
    exact this
  -- outputs
  have houts := (outs_fill S).1 _ _ _ _ _ _ _ hfill hnf
  have hRC : RootCert W q ⟨q.rootEdge, rootParams, vars, W.comp⟩ (keysT tbl) := by
    refine ⟨rfl, ?_, hcert, hfolds, ?_, hnd, ?_, ?_, hfuel⟩
    · have := hstart
      simp only [beq_iff_eq] at this
      exact this
    · exact (visit_node W q.root 1 [] acc.edges (keysT tbl) hcert (by simpa using hnd) [1]
        (by simp)).1
    · rw [tagNames_worldOf _ _ _ _ _ _ hnd]
      have hp := hperm.map (·.1)
      have hnm : (new.map entryTriple).map (·.1) = new.map (·.name) := by
        rw [List.map_map]
        apply List.map_congr_left
        intro e _
        simp only [Function.comp, entryTriple]
        cases e.field <;> rfl
      rw [hnm, ← hT] at hp
      exact hp.nodup_iff.1 hTn
    · have hperm2 : (W.comp.outputs.map fun o => (o.name, o.vid, o.field)).Perm (outTriplesT tbl) :=
        ((sortOutputs_perm acc.outs).map _).trans houts.1
      refine ⟨by rw [outTriples_worldOf _ _ _ _ _ _ hnd]; exact hperm2, ?_, ?_⟩
      · have hp : (W.comp.outputs.map (·.name)).Perm (acc.outs.map (·.name)) :=
          (sortOutputs_perm acc.outs).map _
        rw [houts.2] at hp
        exact hp.nodup_iff.2 (nodup_of_namesDistinct hnames)
      · intro o ho
        have hm : (o.name, o.vid, o.field) ∈ outTriplesT tbl :=
          hperm2.mem_iff.1 (List.mem_map.2 ⟨o, ho, rfl⟩)
        simp only [outTriplesT, List.mem_flatMap, List.mem_map] at hm
        obtain ⟨qq, hq, p, _, hpe⟩ := hm
        simp only [Prod.mk.injEq] at hpe
        have hw : o.vid ∈ keysT tbl := by
          rw [← hpe.2.1]; exact List.mem_map.2 ⟨qq, hq, rfl⟩
        exact ⟨hvert o.vid hw, hw⟩
  exact interp_eq_spec_of_cert W q _ (keysT tbl) hRC

end TF.InterpSpec
