/-
C01 main theorem, static part 1: numbering.  The frontend allocates one Vid per edge in DFS
pre-order, so the Vids of a (fold-free) sub-tree are those of the table `tblNode`.
-/
import TrustfallModel.Proofs.FrontendWF
import TrustfallModel.Proofs.InterpSpec.HypsDef

namespace TF.InterpSpec
open TF TF.Engine TF.Spec TF.Frontend

mutual
def noFold : QNode → Bool
  | .mk _ fields => noFoldFields fields
def noFoldFields : List QField → Bool
  | [] => true
  | .prop _ _ :: rest => noFoldFields rest
  | .edge _ _ kind child :: rest =>
    (match kind with | .fold _ => false | _ => true) && noFold child && noFoldFields rest
end

theorem size_fill (S : SchemaView) :
    (∀ path vid pre node st acc st', fillNode S path vid pre node st = .ok (acc, st') →
      st'.nextVid = st.nextVid + size node) ∧
    (∀ path vid ty fields st acc st', fillFields S path vid ty fields st = .ok (acc, st') →
      st'.nextVid = st.nextVid + sizeFields fields) := by
  apply fill_induct S
    (P1 := fun _ _ _ node st _ st' => st'.nextVid = st.nextVid + size node)
    (P2 := fun _ _ _ fields st _ st' => st'.nextVid = st.nextVid + sizeFields fields)
  · intro path vid pre ct fields st post acc1 st' _ _ ih
    simpa [size] using ih
  · intro path vid ty st; simp [sizeFields]
  · intro path vid ty n dirs rest st pty st1 acc1 st' _ h2 _ ih
    obtain ⟨e1, _, _, _⟩ := registerTags_inv h2
    simp only [sizeFields]; rw [ih, e1]
  · intro path vid ty n params fds child rest st ed ps accIn st2 comp evs st3 post evPost st4 st5
      accR st' _ _ _ h4 h5 h6 _ ihC ihR
    obtain ⟨_, _, hcore⟩ := allVids_finish h4
    have c34 := resolveFilters_core h5
    obtain ⟨hv5, _, _, _⟩ := registerTags_inv h6
    have b1 : st.bump.nextVid = st.nextVid + 1 := rfl
    simp only [sizeFields]
    rw [ihR, hv5, ← c34.1, ← hcore.1, ihC, b1]
    simp only [Vid] at *; omega
  · intro path vid ty n params kind child rest st ed ps r accC st2 accR st' _ _ _ _ _ _ ihC ihR
    have b1 : st.bump.nextVid = st.nextVid + 1 := rfl
    simp only [sizeFields]
    rw [ihR, ihC, b1]
    simp only [Vid] at *; omega

/-- The vertex records of a fold-free sub-tree are the table's nodes, in order; there are no
folds. -/
theorem keys_fill (S : SchemaView) :
    (∀ path vid pre node st acc st', fillNode S path vid pre node st = .ok (acc, st') →
      noFold node = true →
      acc.verts.map (·.vid) = (tblNode node vid st.nextVid).map (·.1) ∧ acc.folds = []) ∧
    (∀ path vid ty fields st acc st', fillFields S path vid ty fields st = .ok (acc, st') →
      noFoldFields fields = true →
      acc.verts.map (·.vid) = (tblFields fields st.nextVid).map (·.1) ∧ acc.folds = []) := by
  apply fill_induct S
    (P1 := fun _ vid _ node st acc _ => noFold node = true →
      acc.verts.map (·.vid) = (tblNode node vid st.nextVid).map (·.1) ∧ acc.folds = [])
    (P2 := fun _ _ _ fields st acc _ => noFoldFields fields = true →
      acc.verts.map (·.vid) = (tblFields fields st.nextVid).map (·.1) ∧ acc.folds = [])
  · intro path vid pre ct fields st post acc1 st' _ _ ih hnf
    obtain ⟨h1, h2⟩ := ih (by simpa [noFold] using hnf)
    simp [tblNode, h1, h2]
  · intro path vid ty st _; simp [tblFields]
  · intro path vid ty n dirs rest st pty st1 acc1 st' _ h2 _ ih hnf
    obtain ⟨e1, _, _, _⟩ := registerTags_inv h2
    obtain ⟨h1, h2⟩ := ih (by simpa [noFoldFields] using hnf)
    simp [tblFields, h1, h2, e1]
  · intro path vid ty n params fds child rest st ed ps accIn st2 comp evs st3 post evPost st4 st5
      accR st' _ _ _ _ _ _ _ _ _ hnf
    simp [noFoldFields] at hnf
  · intro path vid ty n params kind child rest st ed ps r accC st2 accR st' hk _ _ _ h4 _ ihC ihR hnf
    simp only [noFoldFields, Bool.and_eq_true] at hnf
    obtain ⟨hC1, hC2⟩ := ihC hnf.1.2
    obtain ⟨hR1, hR2⟩ := ihR hnf.2
    have hs := (size_fill S).1 _ _ _ _ _ _ _ h4
    have b1 : st.bump.nextVid = st.nextVid + 1 := rfl
    rw [b1] at hs hC1
    simp only [tblFields, Acc.append_verts, Acc.append_folds, List.map_append, hC1, hR1, hC2, hR2, hs]
    simp [Nat.add_assoc]

end TF.InterpSpec
