/-
C01 main theorem, layer 0: the list monad over `Option`.

The interpreter runs stage by stage over the whole context list, the declarative semantics runs
depth-first per assignment.  The two orders of evaluation agree on *whether* something fails and on
the successful result, not on *which* failure is reported first; all statements of the
Interp/Spec correspondence are therefore about `R.toOption`.  This file has the algebra:
`flatMapO` (Kleisli extension of `Option ∘ List`), its associativity (valid because `Option` is a
commutative monad), the `toOption` images of `mapR / filterMapR / flatMapR`, and the simulation
relation `SimO` between an interpreter-side and a specification-side result.
-/
import TrustfallModel.Proofs.InterpHom

namespace TF.Engine

def flatMapO {α β : Type} (f : α → Option (List β)) : List α → Option (List β)
  | [] => some []
  | x :: xs => (f x).bind fun ys => (flatMapO f xs).map (ys ++ ·)

@[simp] theorem flatMapO_nil {α β : Type} (f : α → Option (List β)) : flatMapO f [] = some [] := rfl

theorem flatMapO_cons {α β : Type} (f : α → Option (List β)) (x : α) (xs : List α) :
    flatMapO f (x :: xs) = (f x).bind fun ys => (flatMapO f xs).map (ys ++ ·) := rfl

@[simp] theorem flatMapO_singleton {α β : Type} (f : α → Option (List β)) (x : α) :
    flatMapO f [x] = f x := by
  simp [flatMapO_cons]

theorem flatMapO_append {α β : Type} (f : α → Option (List β)) (xs ys : List α) :
    flatMapO f (xs ++ ys) =
      (flatMapO f xs).bind fun a => (flatMapO f ys).map (a ++ ·) := by
  induction xs with
  | nil => cases h : flatMapO f ys <;> simp [h]
  | cons x xs ih =>
    simp only [List.cons_append, flatMapO_cons, ih]
    cases f x <;> cases flatMapO f xs <;> cases flatMapO f ys <;> simp

theorem flatMapO_congr {α β : Type} {f g : α → Option (List β)} {xs : List α}
    (h : ∀ x ∈ xs, f x = g x) : flatMapO f xs = flatMapO g xs := by
  induction xs with
  | nil => rfl
  | cons x xs ih =>
    simp only [flatMapO_cons, h x (List.mem_cons_self ..)]
    rw [ih fun y hy => h y (List.mem_cons_of_mem _ hy)]

theorem flatMapO_map {α β γ : Type} (f : β → Option (List γ)) (g : α → β) (xs : List α) :
    flatMapO f (xs.map g) = flatMapO (fun x => f (g x)) xs := by
  induction xs with
  | nil => rfl
  | cons x xs ih => simp only [List.map_cons, flatMapO_cons, ih]

/-- Everything succeeds with the empty list. -/
theorem flatMapO_const_nil {α β : Type} (xs : List α) :
    flatMapO (fun _ => (some [] : Option (List β))) xs = some [] := by
  induction xs with
  | nil => rfl
  | cons x xs ih => simp [flatMapO_cons, ih]

/-- Pure per-element expansion. -/
theorem flatMapO_some {α β : Type} (g : α → List β) (xs : List α) :
    flatMapO (fun x => some (g x)) xs = some (xs.flatMap g) := by
  induction xs with
  | nil => rfl
  | cons x xs ih => simp [flatMapO_cons, ih]

/-- Associativity of Kleisli composition (`Option` is commutative: the order in which the
sub-computations are inspected does not matter). -/
theorem flatMapO_assoc {α β γ : Type} (f : α → Option (List β)) (g : β → Option (List γ))
    (xs : List α) :
    (flatMapO f xs).bind (flatMapO g) = flatMapO (fun x => (f x).bind (flatMapO g)) xs := by
  induction xs with
  | nil => rfl
  | cons x xs ih =>
    simp only [flatMapO_cons, ← ih]
    cases hx : f x with
    | none => rfl
    | some ys =>
      cases hxs : flatMapO f xs with
      | none => cases flatMapO g ys <;> simp
      | some zs =>
        simp only [Option.bind_some, Option.map_some, flatMapO_append]

/-! ### `toOption` of the list helpers of the model -/

theorem R.toOption_bind {α β : Type} (x : R α) (f : α → R β) :
    (x.bind f).toOption = x.toOption.bind fun a => (f a).toOption := by
  cases x <;> simp

theorem R.toOption_bind' {α β : Type} (x : R α) (f : α → R β) :
    (x >>= f).toOption = x.toOption.bind fun a => (f a).toOption := R.toOption_bind x f

theorem R.toOption_map {α β : Type} (x : R α) (f : α → β) :
    (x.map f).toOption = x.toOption.map f := by
  cases x <;> simp [R.map]

theorem toOption_flatMapR {α β : Type} (f : α → R (List β)) (xs : List α) :
    (flatMapR f xs).toOption = flatMapO (fun x => (f x).toOption) xs := by
  induction xs with
  | nil => rfl
  | cons x xs ih =>
    simp only [flatMapR, flatMapO_cons, ← ih]
    cases f x <;> simp
    cases flatMapR f xs <;> simp

theorem toOption_mapR {α β : Type} (f : α → R β) (xs : List α) :
    (mapR f xs).toOption = flatMapO (fun x => (f x).toOption.map fun y => [y]) xs := by
  induction xs with
  | nil => rfl
  | cons x xs ih =>
    simp only [mapR, flatMapO_cons, ← ih]
    cases f x <;> simp
    cases mapR f xs <;> simp

theorem toOption_filterMapR {α β : Type} (f : α → R (Option β)) (xs : List α) :
    (filterMapR f xs).toOption = flatMapO (fun x => (f x).toOption.map Option.toList) xs := by
  induction xs with
  | nil => rfl
  | cons x xs ih =>
    simp only [filterMapR, flatMapO_cons, ← ih]
    cases f x <;> simp
    rename_i o
    cases filterMapR f xs <;> cases o <;> simp

/-- A stage that is a list homomorphism and accepts the empty list is the Kleisli extension of its
action on singletons. -/
theorem Hom.eq_flatMapO {α β : Type} {S : List α → R (List β)} (h : Hom S)
    (h0 : (S []).toOption = some []) (xs : List α) :
    (S xs).toOption = flatMapO (fun x => (S [x]).toOption) xs := by
  induction xs with
  | nil => exact h0
  | cons x xs ih =>
    have := h [x] xs
    simp only [List.singleton_append] at this
    rw [this, flatMapO_cons, ih]

/-! ### the simulation relation -/

/-- The interpreter-side result `i` and the specification-side result `s` agree: both fail, or
both succeed, the specification's assignments being the images of the interpreter's contexts, all
of which satisfy `P`. -/
def SimO {γ δ : Type} (ab : γ → δ) (P : γ → Prop) : Option (List γ) → Option (List δ) → Prop
  | some cs, some as => as = cs.map ab ∧ ∀ c ∈ cs, P c
  | none, none => True
  | _, _ => False

theorem SimO.mono {γ δ : Type} {ab : γ → δ} {P Q : γ → Prop} {i s}
    (h : SimO ab P i s) (hpq : ∀ c, P c → Q c) : SimO ab Q i s := by
  cases i <;> cases s <;> simp_all [SimO]

theorem SimO.nil {γ δ : Type} (ab : γ → δ) (P : γ → Prop) : SimO ab P (some []) (some []) := by
  simp [SimO]

theorem SimO.single {γ δ : Type} (ab : γ → δ) {P : γ → Prop} {c : γ} (h : P c) :
    SimO ab P (some [c]) (some [ab c]) := by
  simp [SimO, h]

theorem SimO.none {γ δ : Type} (ab : γ → δ) (P : γ → Prop) : SimO ab P none none := trivial

theorem SimO.toOption_eq {γ δ : Type} {ab : γ → δ} {P : γ → Prop} {i s} (h : SimO ab P i s) :
    i.map (List.map ab) = s := by
  cases i <;> cases s <;> simp_all [SimO]

theorem SimO.flatMapO {α γ δ : Type} {ab : γ → δ} {P : γ → Prop} {f : α → Option (List γ)}
    {g : α → Option (List δ)} {xs : List α} (h : ∀ x ∈ xs, SimO ab P (f x) (g x)) :
    SimO ab P (flatMapO f xs) (flatMapO g xs) := by
  induction xs with
  | nil => exact SimO.nil ab P
  | cons x xs ih =>
    have hx := h x (List.mem_cons_self ..)
    have hxs := ih fun y hy => h y (List.mem_cons_of_mem _ hy)
    simp only [flatMapO_cons]
    revert hx hxs
    cases f x <;> cases g x <;> cases Engine.flatMapO f xs <;> cases Engine.flatMapO g xs <;>
      simp [SimO]
    intro h1 h2 h3 h4
    subst h1 h3
    refine ⟨rfl, ?_⟩
    intro c hc
    rcases hc with hc | hc
    · exact h2 c hc
    · exact h4 c hc

theorem SimO.bind {γ δ γ' δ' : Type} {ab : γ → δ} {ab' : γ' → δ'} {P : γ → Prop} {Q : γ' → Prop}
    {i s} {k : List γ → Option (List γ')} {k' : List δ → Option (List δ')}
    (h : SimO ab P i s)
    (hk : ∀ cs, (∀ c ∈ cs, P c) → SimO ab' Q (k cs) (k' (cs.map ab))) :
    SimO ab' Q (i.bind k) (s.bind k') := by
  cases i <;> cases s <;> simp_all [SimO]

end TF.Engine
