/-
C01 main theorem, layer 7: rows.  `construct_outputs` on a final context against the
specification's row (the assignment's outputs, sorted by name): both are the insertion sort of
the same set of `(name, value)` pairs with distinct names.
-/
import TrustfallModel.Proofs.InterpSpec.Stages

namespace TF.InterpSpec
open TF TF.Engine TF.Spec

def sortRow (l : List (Name × Value)) : Row := l.foldr insertSorted []

def StrictSorted (l : List (Name × Value)) : Prop := l.Pairwise fun a b => a.1 < b.1

theorem insertSorted_perm (kv : Name × Value) (r : Row) : (insertSorted kv r).Perm (kv :: r) := by
  induction r with
  | nil => exact List.Perm.refl _
  | cons x xs ih =>
    simp only [insertSorted]
    split
    · exact List.Perm.refl _
    · exact (List.Perm.cons x ih).trans (List.Perm.swap kv x xs)

theorem sortRow_perm (l : List (Name × Value)) : (sortRow l).Perm l := by
  induction l with
  | nil => exact List.Perm.refl _
  | cons kv rest ih =>
    exact (insertSorted_perm kv _).trans (List.Perm.cons kv ih)

theorem insertSorted_sorted (kv : Name × Value) (r : Row) (hs : StrictSorted r)
    (hk : ∀ p ∈ r, p.1 ≠ kv.1) : StrictSorted (insertSorted kv r) := by
  induction r with
  | nil => simp [insertSorted, StrictSorted]
  | cons x xs ih =>
    simp only [insertSorted]
    have hs' := List.pairwise_cons.1 hs
    split
    · rename_i hlt
      refine List.pairwise_cons.2 ⟨?_, hs⟩
      intro p hp
      rcases List.mem_cons.1 hp with rfl | hp
      · exact hlt
      · exact String.lt_trans hlt (hs'.1 p hp)
    · rename_i hnlt
      have hx : x.1 < kv.1 := by
        rcases Std.lt_trichotomy kv.1 x.1 with h | h | h
        · exact absurd h hnlt
        · exact absurd h.symm (hk x (List.mem_cons_self ..))
        · exact h
      refine List.pairwise_cons.2 ⟨?_, ih hs'.2 fun p hp => hk p (List.mem_cons_of_mem _ hp)⟩
      intro p hp
      rcases List.mem_cons.1 ((insertSorted_perm kv xs).mem_iff.1 hp) with rfl | hp
      · exact hx
      · exact hs'.1 p hp

theorem sortRow_sorted (l : List (Name × Value)) (hn : (l.map (·.1)).Nodup) :
    StrictSorted (sortRow l) := by
  induction l with
  | nil => simp [sortRow, StrictSorted]
  | cons kv rest ih =>
    simp only [List.map_cons, List.nodup_cons] at hn
    refine insertSorted_sorted kv _ (ih hn.2) ?_
    intro p hp he
    apply hn.1
    rw [← he]
    exact List.mem_map.2 ⟨p, (sortRow_perm rest).mem_iff.1 hp, rfl⟩

theorem eq_of_perm_of_sorted {l1 l2 : List (Name × Value)} (hp : l1.Perm l2)
    (h1 : StrictSorted l1) (h2 : StrictSorted l2) : l1 = l2 := by
  induction l1 generalizing l2 with
  | nil => exact (List.Perm.nil_eq hp)
  | cons a t1 ih =>
    cases l2 with
    | nil => exact absurd hp.symm (by simp)
    | cons b t2 =>
      have h1' := List.pairwise_cons.1 h1
      have h2' := List.pairwise_cons.1 h2
      have hab : a = b := by
        have ha : a ∈ b :: t2 := hp.mem_iff.1 (List.mem_cons_self ..)
        have hb : b ∈ a :: t1 := hp.mem_iff.2 (List.mem_cons_self ..)
        rcases List.mem_cons.1 ha with h | h
        · exact h
        · rcases List.mem_cons.1 hb with h' | h'
          · exact h'.symm
          · exact absurd (h2'.1 a h) (String.lt_asymm (h1'.1 b h'))
      subst hab
      rw [ih (List.Perm.cons_inv hp) h1'.2 h2'.2]

/-- Insertion sort by distinct names does not depend on the order of the input. -/
theorem sortRow_eq_of_perm {l1 l2 : List (Name × Value)} (hp : l1.Perm l2)
    (hn : (l1.map (·.1)).Nodup) : sortRow l1 = sortRow l2 := by
  have hn2 : (l2.map (·.1)).Nodup := (hp.map (·.1)).nodup_iff.1 hn
  exact eq_of_perm_of_sorted ((sortRow_perm l1).trans (hp.trans (sortRow_perm l2).symm))
    (sortRow_sorted l1 hn) (sortRow_sorted l2 hn2)

theorem eraseDups_length_of_nodup {l : List Name} (h : l.Nodup) : l.eraseDups.length = l.length := by
  induction l with
  | nil => simp
  | cons a as ih =>
    rw [List.nodup_cons] at h
    have hf : as.filter (fun b => !b == a) = as := by
      rw [List.filter_eq_self]
      intro b hb
      have : b ≠ a := fun he => h.1 (he ▸ hb)
      simpa using this
    rw [List.eraseDups_cons, hf]
    simp [ih h.2]

end TF.InterpSpec

namespace TF.InterpSpec
open TF TF.Engine TF.Spec

/-- `(output name, Vid, property)` for every `@output` of the listed nodes. -/
def outTriples (W : World) (vs : List Vid) : List (Name × Vid × Name) :=
  vs.flatMap fun w => (W.OG w).map fun p => (p.1, w, p.2)

/-- The component's output map is the table `OG` (up to order), with distinct names. -/
structure OutsOK (W : World) (vs : List Vid) : Prop where
  perm : (W.comp.outputs.map fun o => (o.name, o.vid, o.field)).Perm (outTriples W vs)
  names : (W.comp.outputs.map (·.name)).Nodup
  verts : ∀ o ∈ W.comp.outputs, (W.comp.vertex? o.vid).isSome ∧ o.vid ∈ vs

def look (c : Ctx) (w : Vid) : Option VertexId := (c.vertexAt? w).getD none

theorem mapR_ok_of_all {α β : Type} {f : α → R β} {g : α → β} {l : List α}
    (h : ∀ x ∈ l, f x = .ok (g x)) : mapR f l = .ok (l.map g) := by
  induction l with
  | nil => rfl
  | cons x xs ih =>
    simp [mapR, h x (List.mem_cons_self ..), ih fun y hy => h y (List.mem_cons_of_mem _ hy)]

theorem vertexAt?_of_mem_keys {c : Ctx} {w : Vid} (h : w ∈ keys c) :
    c.vertexAt? w = some (look c w) := by
  unfold look Engine.Ctx.vertexAt?
  obtain ⟨p, hp, hp1⟩ := List.mem_map.1 h
  cases hf : List.find? (fun x => x.1 == w) c.vertices with
  | none =>
    rw [List.find?_eq_none] at hf
    exact absurd (by simpa using hp1) (hf p hp)
  | some q => simp

theorem look_of_mem {c : Ctx} (hk : (keys c).Nodup) {q : Vid × Option VertexId}
    (hq : q ∈ c.vertices) : look c q.1 = q.2 := by
  unfold look Engine.Ctx.vertexAt?
  have := vertexAt?_of_mem (vs := c.vertices) (w := q.1) (x := q.2) hk hq
  rw [this]; rfl

theorem flatMap_congr' {α β : Type} {f g : α → List β} {l : List α} (h : ∀ x ∈ l, f x = g x) :
    l.flatMap f = l.flatMap g := by
  induction l with
  | nil => rfl
  | cons x xs ih =>
    simp only [List.flatMap_cons, h x (List.mem_cons_self ..)]
    rw [ih fun y hy => h y (List.mem_cons_of_mem _ hy)]

theorem abs_outs_eq (W : World) (c : Ctx) (hk : (keys c).Nodup) :
    (W.abs c).outs =
      (outTriples W (keys c)).map fun t => (t.1, W.D.propOpt (look c t.2.1) t.2.2) := by
  simp only [World.abs, World.absV, outTriples, keys, List.flatMap_map, List.map_flatMap,
    List.map_map]
  apply flatMap_congr'
  intro q hq
  simp only [World.outsAt, outBinds, Function.comp_def]
  rw [look_of_mem hk hq]

/-- `construct_outputs` on a final context of a fold-free component. -/
theorem constructRow_final (W : World) (vs : List Vid) (ho : OutsOK W vs) (c : Ctx)
    (hk : keys c = vs) (hnd : vs.Nodup) (hf : c.foldedValues = []) :
    constructRow W.env W.comp c = .ok (sortRow (W.abs c).outs) := by
  unfold constructRow
  simp only [R_bind_eq, R_pure_eq]
  rw [mapR_ok_of_all (g := fun o => (o.name, W.D.propOpt (look c o.vid) o.field))]
  rotate_left
  · intro o hoo
    obtain ⟨hsome, hmem⟩ := ho.verts o hoo
    obtain ⟨V, hV⟩ := Option.isSome_iff_exists.1 hsome
    rw [vertexAt?_of_mem_keys (hk ▸ hmem)]
    simp [typeOf_of_vertex hV]
  simp only [R.bind_ok, hf, List.map_nil, List.append_nil]
  have hnames : (W.comp.outputs.map fun o => (o.name, W.D.propOpt (look c o.vid) o.field)).map (·.1) =
      W.comp.outputs.map (·.name) := by simp [Function.comp_def]
  rw [hnames, eraseDups_length_of_nodup ho.names]
  simp only [bne_self_eq_false, Bool.false_eq_true, if_false]
  congr 1
  show sortRow _ = sortRow _
  apply sortRow_eq_of_perm
  · rw [abs_outs_eq W c (hk ▸ hnd), hk]
    have := ho.perm.map fun t => (t.1, W.D.propOpt (look c t.2.1) t.2.2)
    simpa [Function.comp_def] using this
  · rw [hnames]; exact ho.names

end TF.InterpSpec
