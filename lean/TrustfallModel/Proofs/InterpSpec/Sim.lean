/-
C01 main theorem, layer 6: the simulation.  Under a certificate, the stage pipeline of a sub-tree
run on one context computes exactly the contexts whose assignments the declarative semantics
assigns to that sub-tree — by structural recursion on the query tree.
-/
import TrustfallModel.Proofs.InterpSpec.Cert

namespace TF.InterpSpec
open TF TF.Engine TF.Spec

/-- Enter the vertex `vid`, then run the stages of its sub-tree. -/
def nodeO (W : World) (vid : Vid) (es : List IREdge) (c : Ctx) : Option (List Ctx) :=
  match W.comp.vertex? vid with
  | some V => (enterVertex W.env W.comp V [c]).toOption.bind (runO W es)
  | none => none

/-- The scopes an edge continues in: one per neighbour, and the missing scope when there is no
source vertex or the edge is optional and has no neighbour. -/
def scopes (opt : Bool) (v : Option VertexId) (ns : List VertexId) : List (Option VertexId) :=
  ns.map some ++ (if v.isNone || (ns.isEmpty && opt) then [none] else [])

theorem expandOne_eq_scopes (c : Ctx) (ns : List VertexId) (opt : Bool) :
    expandOne c ns opt = (scopes opt c.active ns).map fun s => { c with active := s } := by
  simp only [expandOne, scopes, List.map_append, List.map_map]
  congr 1
  split <;> rfl

/-- The scopes an edge stage continues in, for every edge kind of the fragment. -/
def edgeScopes (W : World) (e : IREdge) (v : Option VertexId) : List (Option VertexId) :=
  match e.recursive with
  | none => scopes e.optional v (W.D.nbrsOpt v e.name e.params)
  | some r => recScopes W.D e r v

theorem edgeScopes_none (W : World) (e : IREdge) : ∀ s ∈ edgeScopes W e none, s = none := by
  intro s hs
  unfold edgeScopes at hs
  cases hr : e.recursive with
  | none => simpa [hr, scopes, Data.nbrsOpt] using hs
  | some r => simpa [hr, recScopes] using hs

theorem reach_congr (D : Data) (n : Name) (ps1 ps2 : Params)
    (h : ∀ y, D.nbrs y n ps1 = D.nbrs y n ps2) (k : Nat) (x : VertexId) :
    Spec.reach D n ps1 k x = Spec.reach D n ps2 k x := by
  induction k generalizing x with
  | zero => rfl
  | succ k ih =>
    simp only [Spec.reach, h x]
    congr 1
    apply flatMap_congr''
    intro y _
    exact ih y
where
  flatMap_congr'' {α β : Type} {f g : α → List β} {l : List α} (h : ∀ x ∈ l, f x = g x) :
      l.flatMap f = l.flatMap g := by
    induction l with
    | nil => rfl
    | cons x xs ih =>
      simp only [List.flatMap_cons, h x (List.mem_cons_self ..)]
      rw [ih fun y hy => h y (List.mem_cons_of_mem _ hy)]

theorem reach_no_nbrs (D : Data) (n : Name) (ps : Params) (k : Nat) (x : VertexId)
    (h : D.nbrs x n ps = []) : Spec.reach D n ps k x = [x] := by
  cases k with
  | zero => rfl
  | succ k => simp [Spec.reach, h]

/-- The stage of any edge of the fragment, on one context. -/
theorem stageO_scopes (W : World) (n : Name) (params : Params) (kind : Kind) (e : IREdge) (c : Ctx)
    {fromV toV : IRVertex} (hk : EdgeKindOK W n params kind e)
    (hf : W.comp.vertex? e.fromVid = some fromV) (ht : W.comp.vertex? e.toVid = some toV)
    {v : Option VertexId} (h : c.vertexAt? e.fromVid = some v) (hact : v = none → c.active = none)
    (h0 : enterVertex W.env W.comp toV [] = .ok []) :
    ∃ c1, Ext c c1 [] ∧ stageO W e c =
      flatMapO (fun s => (enterVertex W.env W.comp toV [{ c1 with active := s }]).toOption)
        (edgeScopes W e v) := by
  have hnonrec : e.recursive = none → ∃ c1, Ext c c1 [] ∧ stageO W e c =
      flatMapO (fun s => (enterVertex W.env W.comp toV [{ c1 with active := s }]).toOption)
        (edgeScopes W e v) := by
    intro hrec
    refine ⟨c, Ext.refl c, ?_⟩
    rw [stageO_nonrec W e c hf ht hrec h h0, expandOne_eq_scopes, flatMapO_map]
    simp only [edgeScopes, hrec]
  cases kind with
  | plain => exact hnonrec hk.2
  | optional => exact hnonrec hk.2
  | recurse d =>
    obtain ⟨r, hrec, hd, hd1, hconv, _⟩ := hk
    obtain ⟨c1, hext, hst⟩ := stageO_rec W e r c hf ht hrec h hact (by omega) hconv h0
    exact ⟨c1, hext, by rw [hst]; simp only [edgeScopes, hrec]⟩
  | fold fds => exact absurd hk (by simp [EdgeKindOK])

theorem evalEdge_scopes (W : World) (fuel : Nat) (n : Name) (params : Params) (kind : Kind)
    (child : QNode) (v : Option VertexId) (a : Asg) (e : IREdge) (hk : EdgeKindOK W n params kind e)
    (hp : ParamsAgree W n params e.params) (hn : e.name = n) :
    (evalEdge W.senv fuel (ownersOf W.D v) n params kind child v a).toOption =
      flatMapO (fun s => (evalNode W.senv fuel child s a).toOption) (edgeScopes W e v) := by
  have hns : specNbrs W.senv (ownersOf W.D v) n params v = W.D.nbrsOpt v e.name e.params := by
    cases v with
    | none => rfl
    | some x => simp only [specNbrs, ownersOf, Data.nbrsOpt, World.senv_data, hn]; exact hp x
  cases kind with
  | plain =>
    obtain ⟨ho, hr⟩ := hk
    rw [evalEdge_plain_toOption, hns]
    simp only [edgeScopes, hr, ho]
    cases v with
    | none => simp [scopes, Data.nbrsOpt]
    | some x => simp [scopes, flatMapO_map]
  | optional =>
    obtain ⟨ho, hr⟩ := hk
    rw [evalEdge_optional_toOption, hns]
    simp only [edgeScopes, hr, ho]
    by_cases hemp : (W.D.nbrsOpt v e.name e.params).isEmpty = true
    · have : W.D.nbrsOpt v e.name e.params = [] := by simpa using hemp
      simp [scopes, this]
    · have hv : v.isNone = false := by
        cases v with
        | none => exact absurd rfl hemp
        | some x => rfl
      simp [scopes, hemp, hv, flatMapO_map]
  | recurse d =>
    obtain ⟨r, hrec, hd, hd1, hconv, hpr⟩ := hk
    rw [evalEdge_recurse_toOption]
    simp only [edgeScopes, hrec]
    cases v with
    | none => simp [recScopes]
    | some x =>
      simp only [recScopes, flatMapO_map]
      have : reachDecl W.senv n params d x = Spec.reach W.D e.name e.params r.depth x := by
        simp only [reachDecl, World.senv_data, hd, hn]
        by_cases hx : W.D.nbrs x n e.params = []
        · rw [reach_no_nbrs _ _ _ _ _ hx, reach_no_nbrs]
          rw [hp x]; exact hx
        · exact reach_congr _ _ _ _ (hpr x hx) d x
      rw [this]
  | fold fds => exact absurd hk (by simp [EdgeKindOK])

theorem vertexAt_record (c : Ctx) (vid : Vid) (hfresh : vid ∉ keys c) :
    (Ctx.record c vid).vertexAt? vid = some c.active := by
  unfold Engine.Ctx.vertexAt? Ctx.record
  rw [List.find?_append]
  have : List.find? (fun x => x.1 == vid) c.vertices = none := by
    rw [List.find?_eq_none]
    intro p hp hpe
    apply hfresh
    have : p.1 = vid := by simpa using hpe
    exact List.mem_map.2 ⟨p, hp, this⟩
  simp [this]

theorem tagNames_append (W : World) (L1 L2 : List Vid) :
    tagNames W (L1 ++ L2) = tagNames W L1 ++ tagNames W L2 := by
  simp [tagNames]

theorem nodup_prefix {α : Type} {l1 l2 : List α} (h : (l1 ++ l2).Nodup) : l1.Nodup :=
  (List.nodup_append.1 h).1

mutual
theorem sim_node (W : World) : ∀ (node : QNode) (vid : Vid) (L : List Vid) (es : List IREdge)
    (vs : List Vid), NodeCert W node vid L es vs → ∀ (fuel : Nat), height node ≤ fuel →
    ∀ (c : Ctx), keys c = L → (L ++ vs).Nodup → (tagNames W (L ++ vs)).Nodup →
    SimO W.abs (fun c' => Ext c c' vs ∧ (c.active = none → c'.active = none)) (nodeO W vid es c)
      (evalNode W.senv fuel node c.active (W.abs c)).toOption
  | .mk ct fields, vid, L, es, vs, hcert, fuel, hfuel, c, hk, hnd, htn => by
    unfold NodeCert at hcert
    obtain ⟨V, vs', rfl, hV, hvid, hco, hfl, hTG, hOG, hF⟩ := hcert
    obtain ⟨f, rfl⟩ : ∃ f, fuel = f + 1 := by
      cases fuel with
      | zero => simp [height] at hfuel
      | succ f => exact ⟨f, rfl⟩
    have hfuel' : heightFields fields ≤ f := by simp only [height] at hfuel; omega
    have hkn : (keys c).Nodup := by rw [hk]; exact nodup_prefix hnd
    have hfresh : vid ∉ keys c := by
      rw [hk]; intro hmem
      have := (List.nodup_append.1 hnd).2.2 vid hmem vid (List.mem_cons_self ..)
      exact this rfl
    have htn1 : (tagNames W (keys c ++ [vid])).Nodup := by
      rw [hk]
      have : L ++ vid :: vs' = (L ++ [vid]) ++ vs' := by simp
      rw [this, tagNames_append] at htn
      exact nodup_prefix htn
    rw [evalNode_toOption]
    simp only [nodeO, hV, World.senv_data]
    rw [enterVertex_single W vid V hV hvid ct hco c hkn hfresh htn1 _ (hk ▸ hfl)]
    have hb : bindProps W.senv c.active fields (W.abs c) = W.abs (Ctx.record c vid) :=
      W.bindProps_abs c.vertices vid c.active fields hTG hOG
    rw [hb]
    by_cases hcoe : coercionOk W.D ct c.active = true
    · simp only [hcoe, if_true]
      have habs : W.absV (c.vertices ++ [(vid, c.active)]) = W.abs (Ctx.record c vid) := rfl
      rw [habs]
      rcases holdAll W.senv (W.abs (Ctx.record c vid)) c.active (specFilters fields)
        with (_ | _) | _ | _
      · simp only [R.toOption_ok, Option.map_some, boolCtx, Option.bind_some]
        simp only [Bool.false_eq_true, if_false, runO_nil_ctx]
        exact SimO.nil _ _
      · simp only [R.toOption_ok, Option.map_some, boolCtx, Option.bind_some, if_true]
        have hrec := sim_fields W fields vid (L ++ [vid]) es vs' hF f hfuel' (Ctx.record c vid)
          c.active (by rw [(Ext.record c vid).keys, hk]) (vertexAt_record c vid hfresh)
          (fun h => h) (by simpa using hnd) (by simpa using htn)
        refine hrec.mono ?_
        intro c' hc'
        exact ⟨(Ext.record c vid).trans hc'.1, hc'.2⟩
      · exact SimO.none _ _
      · exact SimO.none _ _
    · simp only [hcoe, Bool.false_eq_true, if_false, Option.bind_some, runO_nil_ctx]
      exact SimO.nil _ _
theorem sim_fields (W : World) : ∀ (fields : List QField) (vid : Vid) (L : List Vid)
    (es : List IREdge) (vs : List Vid), FieldsCert W fields vid L es vs →
    ∀ (fuel : Nat), heightFields fields ≤ fuel → ∀ (c : Ctx) (v : Option VertexId), keys c = L →
    c.vertexAt? vid = some v → (v = none → c.active = none) → (L ++ vs).Nodup →
    (tagNames W (L ++ vs)).Nodup →
    SimO W.abs (fun c' => Ext c c' vs ∧ (v = none → c'.active = none)) (runO W es [c])
      (evalFields W.senv fuel (ownersOf W.D v) fields v [W.abs c]).toOption
  | [], vid, L, es, vs, hcert, fuel, _, c, v, _, _, hact, _, _ => by
    unfold FieldsCert at hcert
    obtain ⟨rfl, rfl⟩ := hcert
    simp only [runO, evalFields_nil, R.toOption_ok]
    exact SimO.single _ ⟨Ext.refl c, hact⟩
  | .prop n dirs :: rest, vid, L, es, vs, hcert, fuel, hfuel, c, v, hk, hv, hact, hnd, htn => by
    unfold FieldsCert at hcert
    rw [evalFields_prop]
    exact sim_fields W rest vid L es vs hcert fuel (by simpa [heightFields] using hfuel) c v hk hv
      hact hnd htn
  | .edge n params kind child :: rest, vid, L, es, vs, hcert, fuel, hfuel, c, v, hk, hv, hact, hnd,
      htn => by
    unfold FieldsCert at hcert
    obtain ⟨e, esC, esR, vsC, vsR, rfl, rfl, hfrom, hfromV, hname, hkind, hparams, hC, hR⟩ := hcert
    have hfC : height child ≤ fuel := by simp only [heightFields] at hfuel; omega
    have hfR : heightFields rest ≤ fuel := by simp only [heightFields] at hfuel; omega
    have hndC : (L ++ vsC).Nodup := by
      rw [← List.append_assoc] at hnd; exact nodup_prefix hnd
    have htnC : (tagNames W (L ++ vsC)).Nodup := by
      rw [← List.append_assoc, tagNames_append] at htn; exact nodup_prefix htn
    -- the destination vertex of the edge
    obtain ⟨toV, vsC', sfsC, _, htoV, htoVid, hflC⟩ := hC.dest
    have h0 : enterVertex W.env W.comp toV [] = .ok [] :=
      enterVertex_nil W e.toVid toV htoV htoVid L _ hflC
    obtain ⟨fromV, hfromV⟩ := Option.isSome_iff_exists.1 hfromV
    -- interpreter side: the edge stage, then the child's stages, then the remaining siblings'
    obtain ⟨c1, hext1, hst⟩ := stageO_scopes W n params kind e c (fromV := fromV) (toV := toV) hkind
      (by rw [hfrom]; exact hfromV) htoV (by rw [hfrom]; exact hv) hact h0
    have hI : runO W (e :: (esC ++ esR)) [c] =
        (flatMapO (fun s => nodeO W e.toVid esC { c1 with active := s })
          (edgeScopes W e v)).bind (runO W esR) := by
      rw [runO_cons_single, hst]
      have : runO W (esC ++ esR) = fun cs => (runO W esC cs).bind (runO W esR) :=
        funext (runO_append W esC esR)
      rw [this]
      rw [← Option.bind_assoc]
      congr 1
      have hl : ∀ cs, runO W esC cs = flatMapO (fun c' => runO W esC [c']) cs := runO_linear W esC
      conv => lhs; arg 2; ext cs; rw [hl cs]
      rw [flatMapO_assoc]
      apply flatMapO_congr
      intro s _
      simp only [nodeO, htoV]
      congr 1
      funext cs
      exact (hl cs).symm
    rw [hI, evalFields_edge_toOption, flatMapO_singleton,
      evalEdge_scopes W fuel n params kind child v (W.abs c) e hkind hparams hname]
    refine SimO.bind (ab := W.abs) (P := fun c' => Ext c c' vsC ∧ (v = none → c'.active = none))
      ?_ ?_
    · apply SimO.flatMapO
      intro s hs
      have hk1 : keys ({ c1 with active := s } : Ctx) = L := by
        have := hext1.keys; simp only [List.append_nil] at this
        rw [← hk, ← this]; rfl
      have hsim := sim_node W child e.toVid L esC vsC hC fuel hfC { c1 with active := s } hk1 hndC htnC
      have habs : W.abs ({ c1 with active := s } : Ctx) = W.abs c := hext1.abs W
      rw [habs] at hsim
      refine hsim.mono ?_
      intro c' hc'
      refine ⟨?_, ?_⟩
      · have : Ext c c' ([] ++ vsC) := hext1.trans hc'.1
        simpa using this
      · intro hvn
        subst hvn
        exact hc'.2 (edgeScopes_none W e s hs)
    · intro cs' hcs'
      rw [runO_linear, evalFields_linear, flatMapO_map]
      apply SimO.flatMapO
      intro c' hc'
      obtain ⟨hext, hactc'⟩ := hcs' c' hc'
      have hrec := sim_fields W rest vid (L ++ vsC) esR vsR hR fuel hfR c' v
        (by rw [hext.keys, hk]) (hext.vertexAt hv) hactc' (by simpa using hnd) (by simpa using htn)
      exact hrec.mono fun c'' h'' => ⟨hext.trans h''.1, h''.2⟩
end

end TF.InterpSpec
