/-
C01 main theorem, layer 1 (specification side): the declarative semantics `Spec` read through
`toOption`, flattened so that it can be compared with the interpreter stage by stage:
* `bindProps` appends the node's tag bindings and outputs (`tagPairs`, `outPairs`);
* `propFiltersHold` is the sequential conjunction `holdAll` over the node's filters in selection
  order (`specFilters`);
* `evalNode`, `evalFields`, `evalEdge` as `Option`-valued Kleisli compositions; `evalFields` is
  linear in its list of assignments.
-/
import TrustfallModel.Proofs.InterpSpec.OptList
import TrustfallModel.Model.Spec

namespace TF.InterpSpec
open TF TF.Engine TF.Spec

/-- The tag a property of the vertex `x` (`none`: missing scope) is bound to. -/
def tagOf (D : Data) (x : Option VertexId) (f : Name) : Tagged :=
  match x with
  | some _ => Tagged.some (D.propOpt x f)
  | none => Tagged.nonexistent

def dirTags (n : Name) (dirs : List Dir) : List (Name × Name) :=
  dirs.filterMap fun d => match d with | .tag t => some (t, n) | _ => none

def dirOuts (n : Name) (dirs : List Dir) : List (Name × Name) :=
  dirs.filterMap fun d => match d with | .output o => some (o, n) | _ => none

/-- `(tag name, property)` for every `@tag` at the properties of a node, in binding order. -/
def tagPairs : List QField → List (Name × Name)
  | [] => []
  | .prop n dirs :: rest => dirTags n dirs ++ tagPairs rest
  | .edge .. :: rest => tagPairs rest

/-- `(output name, property)` for every `@output` at the properties of a node, in order. -/
def outPairs : List QField → List (Name × Name)
  | [] => []
  | .prop n dirs :: rest => dirOuts n dirs ++ outPairs rest
  | .edge .. :: rest => outPairs rest

def tagBinds (D : Data) (x : Option VertexId) (l : List (Name × Name)) : List (Name × Tagged) :=
  l.map fun p => (p.1, tagOf D x p.2)

def outBinds (D : Data) (x : Option VertexId) (l : List (Name × Name)) : List (Name × Value) :=
  l.map fun p => (p.1, D.propOpt x p.2)

theorem bindProps_eq (env : SpecEnv) (v : Option VertexId) (fields : List QField) (a : Asg) :
    bindProps env v fields a =
      ⟨a.tags ++ tagBinds env.data v (tagPairs fields), a.outs ++ outBinds env.data v (outPairs fields)⟩ := by
  induction fields generalizing a with
  | nil => simp [bindProps, tagBinds, outBinds, tagPairs, outPairs]
  | cons f rest ih =>
    cases f with
    | prop n dirs =>
      simp only [bindProps]
      generalize hF : (fun (acc : Asg) (d : Dir) => _) = F
      have key : ∀ (a : Asg), dirs.foldl F a =
          ⟨a.tags ++ tagBinds env.data v (dirTags n dirs),
            a.outs ++ outBinds env.data v (dirOuts n dirs)⟩ := by
        subst hF
        induction dirs with
        | nil => intro a; simp [tagBinds, outBinds, dirTags, dirOuts]
        | cons d rest ih2 =>
          intro a
          rw [List.foldl_cons, ih2]
          cases d <;> simp [tagBinds, outBinds, dirTags, dirOuts, tagOf]
          cases v <;> rfl
      rw [key, ih]
      simp [tagBinds, outBinds, tagPairs, outPairs, List.append_assoc]
    | edge n ps k c =>
      simp only [bindProps, tagPairs, outPairs]
      exact ih a

/-! ### filters -/

def dirFilters (n : Name) (dirs : List Dir) : List (Name × FOp × QArg) :=
  dirs.filterMap fun d => match d with | .filter op arg => some (n, op, arg) | _ => none

/-- The filters of a node in selection order: `(property, operator, argument)`. -/
def specFilters : List QField → List (Name × FOp × QArg)
  | [] => []
  | .prop n dirs :: rest => dirFilters n dirs ++ specFilters rest
  | .edge .. :: rest => specFilters rest

/-- Sequential conjunction with short-circuit (the shape of `filtersHold`/`propFiltersHold`). -/
def holdAll (env : SpecEnv) (a : Asg) (v : Option VertexId) : List (Name × FOp × QArg) → R Bool
  | [] => .ok true
  | (n, op, arg) :: rest =>
    match filterHolds env a v (env.data.propOpt v n) op arg with
    | .ok true => holdAll env a v rest
    | .ok false => .ok false
    | .panic s => .panic s
    | .fuel => .fuel

theorem holdAll_append (env : SpecEnv) (a : Asg) (v : Option VertexId)
    (l1 l2 : List (Name × FOp × QArg)) :
    holdAll env a v (l1 ++ l2) =
      match holdAll env a v l1 with
      | .ok true => holdAll env a v l2
      | .ok false => .ok false
      | .panic s => .panic s
      | .fuel => .fuel := by
  induction l1 with
  | nil => rfl
  | cons x rest ih =>
    obtain ⟨n, op, arg⟩ := x
    simp only [List.cons_append, holdAll]
    rcases filterHolds env a v (env.data.propOpt v n) op arg with (_ | _) | _ | _ <;> simp [ih]

theorem filtersHold_map (env : SpecEnv) (a : Asg) (v : Option VertexId) (n : Name)
    (fs : List (FOp × QArg)) :
    filtersHold env a v (env.data.propOpt v n) fs =
      holdAll env a v (fs.map fun p => (n, p.1, p.2)) := by
  induction fs with
  | nil => rfl
  | cons p rest ih =>
    obtain ⟨op, arg⟩ := p
    simp only [List.map_cons, filtersHold, holdAll]
    rcases filterHolds env a v (env.data.propOpt v n) op arg with (_ | _) | _ | _ <;> simp
    exact ih

theorem propFiltersHold_eq (env : SpecEnv) (a : Asg) (v : Option VertexId) (fields : List QField) :
    propFiltersHold env a v fields = holdAll env a v (specFilters fields) := by
  induction fields with
  | nil => rfl
  | cons f rest ih =>
    cases f with
    | prop n dirs =>
      simp only [propFiltersHold, specFilters, holdAll_append, ih]
      rw [filtersHold_map]
      generalize hl : List.filterMap _ dirs = l
      have hmap : l.map (fun p => (n, p.1, p.2)) = dirFilters n dirs := by
        subst hl
        induction dirs with
        | nil => rfl
        | cons d ds ihd => cases d <;> simp_all [dirFilters, List.filterMap_cons]
      rw [hmap]
      rcases holdAll env a v (dirFilters n dirs) with (_ | _) | _ | _ <;> rfl
    | edge n ps k c => simpa [propFiltersHold, specFilters] using ih

/-! ### the mutual block through `toOption` -/

def coercionOk (D : Data) (ct : Option Name) (v : Option VertexId) : Bool :=
  match ct, v with
  | some t, some x => D.isA x t
  | _, _ => true

def ownersOf (D : Data) (v : Option VertexId) : List Name :=
  match v with
  | some x => D.supers (D.typeOf x)
  | none => []

theorem evalNode_toOption (env : SpecEnv) (fuel : Nat) (ct : Option Name) (fields : List QField)
    (v : Option VertexId) (a : Asg) :
    (evalNode env (fuel + 1) (.mk ct fields) v a).toOption =
      if coercionOk env.data ct v then
        (holdAll env (bindProps env v fields a) v (specFilters fields)).toOption.bind fun b =>
          if b then (evalFields env fuel (ownersOf env.data v) fields v [bindProps env v fields a]).toOption
          else some []
      else some [] := by
  rw [← propFiltersHold_eq]
  cases ct with
  | none =>
    cases v <;> simp only [evalNode, coercionOk] <;> generalize propFiltersHold env _ _ _ = r <;>
      rcases r with (_ | _) | _ | _ <;> simp [ownersOf]
  | some t =>
    cases v with
    | none =>
      simp only [evalNode, coercionOk]; generalize propFiltersHold env _ _ _ = r
      rcases r with (_ | _) | _ | _ <;> simp [ownersOf]
    | some x =>
      simp only [evalNode, coercionOk]; generalize propFiltersHold env _ _ _ = r
      by_cases h : env.data.isA x t = true <;> rcases r with (_ | _) | _ | _ <;>
        simp [ownersOf, h]

theorem evalFields_nil (env : SpecEnv) (fuel : Nat) (owners : List Name) (v : Option VertexId)
    (as : List Asg) : evalFields env fuel owners [] v as = .ok as := by
  simp [evalFields]

theorem evalFields_prop (env : SpecEnv) (fuel : Nat) (owners : List Name) (nm : Name)
    (dirs : List Dir) (rest : List QField) (v : Option VertexId) (as : List Asg) :
    evalFields env fuel owners (.prop nm dirs :: rest) v as = evalFields env fuel owners rest v as := by
  rw [evalFields]

theorem evalFields_edge_toOption (env : SpecEnv) (fuel : Nat) (owners : List Name) (nm : Name)
    (ps : Params) (k : Kind) (c : QNode) (rest : List QField) (v : Option VertexId) (as : List Asg) :
    (evalFields env fuel owners (.edge nm ps k c :: rest) v as).toOption =
      (flatMapO (fun a => (evalEdge env fuel owners nm ps k c v a).toOption) as).bind fun as' =>
        (evalFields env fuel owners rest v as').toOption := by
  rw [evalFields, ← toOption_flatMapR]
  cases flatMapR (fun a => evalEdge env fuel owners nm ps k c v a) as <;> rfl

/-- `evalFields` is linear in its assignments. -/
theorem evalFields_linear (env : SpecEnv) (fuel : Nat) (owners : List Name) (fields : List QField)
    (v : Option VertexId) (as : List Asg) :
    (evalFields env fuel owners fields v as).toOption =
      flatMapO (fun a => (evalFields env fuel owners fields v [a]).toOption) as := by
  induction fields generalizing as with
  | nil =>
    simp only [evalFields_nil, R.toOption_ok]
    induction as with
    | nil => rfl
    | cons a as ih => simp [flatMapO_cons, ← ih]
  | cons f rest ih =>
    cases f with
    | prop n dirs => simp only [evalFields_prop]; exact ih as
    | edge nm ps k c =>
      simp only [evalFields_edge_toOption, flatMapO_singleton]
      conv => lhs; arg 2; ext as'; rw [ih as']
      rw [flatMapO_assoc]
      apply flatMapO_congr
      intro a _
      congr 1
      funext as'
      exact (ih as').symm

def specNbrs (env : SpecEnv) (owners : List Name) (name : Name) (params : Params)
    (v : Option VertexId) : List VertexId :=
  env.data.nbrsOpt v name (completeParams (declParams env owners name) params)

theorem evalEdge_plain_toOption (env : SpecEnv) (fuel : Nat) (owners : List Name) (name : Name)
    (params : Params) (child : QNode) (v : Option VertexId) (a : Asg) :
    (evalEdge env fuel owners name params .plain child v a).toOption =
      match v with
      | none => (evalNode env fuel child none a).toOption
      | some _ => flatMapO (fun n => (evalNode env fuel child (some n) a).toOption)
          (specNbrs env owners name params v) := by
  cases v <;> simp [evalEdge, specNbrs, toOption_flatMapR]

theorem evalEdge_optional_toOption (env : SpecEnv) (fuel : Nat) (owners : List Name) (name : Name)
    (params : Params) (child : QNode) (v : Option VertexId) (a : Asg) :
    (evalEdge env fuel owners name params .optional child v a).toOption =
      if (specNbrs env owners name params v).isEmpty then (evalNode env fuel child none a).toOption
      else flatMapO (fun n => (evalNode env fuel child (some n) a).toOption)
          (specNbrs env owners name params v) := by
  simp only [evalEdge, specNbrs]
  split <;> simp_all [toOption_flatMapR]

theorem evalEdge_recurse_toOption (env : SpecEnv) (fuel : Nat) (owners : List Name) (name : Name)
    (params : Params) (d : Nat) (child : QNode) (v : Option VertexId) (a : Asg) :
    (evalEdge env fuel owners name params (.recurse d) child v a).toOption =
      match v with
      | none => (evalNode env fuel child none a).toOption
      | some x => flatMapO (fun n => (evalNode env fuel child (some n) a).toOption)
          (reachDecl env name params d x) := by
  cases v <;> simp [evalEdge, toOption_flatMapR]

/-! ### fuel -/

mutual
/-- Nesting depth of a node (a leaf has height 1): the fuel `evalNode` needs. -/
def height : QNode → Nat
  | .mk _ fields => heightFields fields + 1
def heightFields : List QField → Nat
  | [] => 0
  | .prop .. :: rest => heightFields rest
  | .edge _ _ _ child :: rest => max (height child) (heightFields rest)
end

end TF.InterpSpec
