/-
C01 main theorem, layer 4: the stage pipeline.

`runO`: the Eid-ordered list of edge stages of a component as a Kleisli composition over `Option`;
it is linear in its contexts (`runO_linear`), splits at appends (`runO_append`: this is the
"flat pipeline = nested denotation" step: the stage list of a node is
`edge₁ :: stages child₁ ++ edge₂ :: stages child₂ ++ …`), and is what `runStages` /
`computeComponent` compute (`runStages_eq_runO`) when the `visited` assertions hold and every
stage accepts the empty list.
-/
import TrustfallModel.Proofs.InterpSpec.Vertex

namespace TF.InterpSpec
open TF TF.Engine TF.Spec

/-- One edge stage (`expand_edge` incl. the entry into the destination vertex) on one context. -/
def stageO (W : World) (e : IREdge) (c : Ctx) : Option (List Ctx) :=
  (expandEdge W.env W.comp e [c]).toOption

def runO (W : World) : List IREdge → List Ctx → Option (List Ctx)
  | [], cs => some cs
  | e :: es, cs => (flatMapO (stageO W e) cs).bind (runO W es)

theorem flatMapO_pure {α : Type} (cs : List α) : flatMapO (fun c => some [c]) cs = some cs := by
  rw [flatMapO_some]; simp

theorem runO_linear (W : World) (es : List IREdge) (cs : List Ctx) :
    runO W es cs = flatMapO (fun c => runO W es [c]) cs := by
  induction es generalizing cs with
  | nil => simp only [runO]; exact (flatMapO_pure cs).symm
  | cons e es ih =>
    simp only [runO, flatMapO_singleton]
    have : ∀ cs', runO W es cs' = flatMapO (fun c => runO W es [c]) cs' := ih
    conv => lhs; arg 2; ext cs'; rw [this cs']
    rw [flatMapO_assoc]
    apply flatMapO_congr
    intro c _
    congr 1
    funext cs'
    exact (this cs').symm

theorem runO_append (W : World) (es1 es2 : List IREdge) (cs : List Ctx) :
    runO W (es1 ++ es2) cs = (runO W es1 cs).bind (runO W es2) := by
  induction es1 generalizing cs with
  | nil => rfl
  | cons e es ih =>
    simp only [List.cons_append, runO]
    cases flatMapO (stageO W e) cs with
    | none => rfl
    | some cs' => simp [ih]

theorem runO_nil_ctx (W : World) (es : List IREdge) : runO W es [] = some [] := by
  induction es with
  | nil => rfl
  | cons e es ih => simp [runO, ih]

theorem runO_cons_single (W : World) (e : IREdge) (es : List IREdge) (c : Ctx) :
    runO W (e :: es) [c] = (stageO W e c).bind (runO W es) := by
  simp [runO]

/-! ### `runStages` computes `runO` -/

/-- The `visited_vids` assertions of `compute_component` hold along the stage list. -/
def VisitOK : List Vid → List IREdge → Prop
  | _, [] => True
  | visited, e :: es =>
    e.fromVid ∈ visited ∧ e.toVid ∉ visited ∧ e.fromVid ≠ e.toVid ∧ VisitOK (e.toVid :: visited) es

theorem checkVisited_ok {visited : List Vid} {f t : Vid} (h1 : f ∈ visited) (h2 : t ∉ visited)
    (h3 : f ≠ t) : checkVisited visited f t = .ok (t :: visited) := by
  simp [checkVisited, h1, h2, h3]

theorem runStages_eq_runO (W : World) (fuel : Nat) (es : List IREdge) (visited : List Vid)
    (hv : VisitOK visited es)
    (h0 : ∀ e ∈ es, (expandEdge W.env W.comp e []).toOption = some []) (cs : List Ctx) :
    (runStages W.env fuel W.comp (es.map .edge) visited cs).toOption = runO W es cs := by
  induction es generalizing visited cs with
  | nil => simp [runStages, runO]
  | cons e es ih =>
    obtain ⟨h1, h2, h3, hrest⟩ := hv
    simp only [List.map_cons, runStages, checkVisited_ok h1 h2 h3, R.bind_ok, R.toOption_bind, runO]
    rw [Hom.eq_flatMapO (expandEdge_hom W.env W.comp e) (h0 e (List.mem_cons_self ..))]
    congr 1
    funext cs'
    exact ih _ hrest (fun e' he' => h0 e' (List.mem_cons_of_mem _ he')) cs'

theorem mergeStages_no_folds (es : List IREdge) (k : Nat) :
    mergeStages es [] k = .ok (es.map .edge) := by
  cases es <;> simp [mergeStages]

/-- A component without folds: `compute_component` = enter the root, then the edge stages. -/
theorem computeComponent_eq (W : World) (fuel : Nat) (rootV : IRVertex)
    (hroot : W.comp.vertex? W.comp.root = some rootV) (hfolds : W.comp.folds = [])
    (hv : VisitOK [W.comp.root] W.comp.edges)
    (h0 : ∀ e ∈ W.comp.edges, (expandEdge W.env W.comp e []).toOption = some []) (cs : List Ctx) :
    (computeComponent W.env (fuel + 1) W.comp cs).toOption =
      (enterVertex W.env W.comp rootV cs).toOption.bind (runO W W.comp.edges) := by
  simp only [computeComponent, hroot, hfolds, mergeStages_no_folds, R.bind_ok, R.toOption_bind]
  congr 1
  funext cs'
  exact runStages_eq_runO W fuel _ _ hv h0 cs'

/-! ### one non-recursive edge on one context -/

theorem activate_of_vertexAt {c : Ctx} {vid : Vid} {v : Option VertexId}
    (h : c.vertexAt? vid = some v) : c.activate vid = .ok { c with active := v } := by
  simp [Engine.Ctx.activate, h]

theorem expandNonRecursive_single (W : World) (fromT : Name) (e : IREdge) (c : Ctx)
    {v : Option VertexId} (h : c.vertexAt? e.fromVid = some v) :
    expandNonRecursive W.env fromT e [c] =
      .ok (expandOne { c with active := v } (W.D.nbrsOpt v e.name e.params) e.optional) := by
  simp [expandNonRecursive, flatMapR_single, activate_of_vertexAt h]

/-- A plain / optional edge stage on one context: expand, then enter the destination vertex from
each expanded context. -/
theorem stageO_nonrec (W : World) (e : IREdge) (c : Ctx) {fromV toV : IRVertex}
    (hf : W.comp.vertex? e.fromVid = some fromV) (ht : W.comp.vertex? e.toVid = some toV)
    (hrec : e.recursive = none) {v : Option VertexId} (h : c.vertexAt? e.fromVid = some v)
    (h0 : enterVertex W.env W.comp toV [] = .ok []) :
    stageO W e c =
      flatMapO (fun c' => (enterVertex W.env W.comp toV [c']).toOption)
        (expandOne { c with active := v } (W.D.nbrsOpt v e.name e.params) e.optional) := by
  simp only [stageO, expandEdge, hf, ht, hrec, expandNonRecursive_single W _ e c h, R.bind_ok]
  exact Hom.eq_flatMapO (enterVertex_hom W.env W.comp toV) (by simp [h0]) _

theorem expandEdge_nil (W : World) (e : IREdge) {fromV toV : IRVertex}
    (hf : W.comp.vertex? e.fromVid = some fromV) (ht : W.comp.vertex? e.toVid = some toV)
    (hrec : e.recursive = none) (h0 : enterVertex W.env W.comp toV [] = .ok []) :
    (expandEdge W.env W.comp e []).toOption = some [] := by
  simp [expandEdge, hf, ht, hrec, expandNonRecursive, flatMapR, h0]

/-! ### how a context grows along the pipeline -/

/-- `c'` is `c` after recording the Vids `vs` (in that order); nothing else changed, except
possibly the active vertex and the `suspended` stack (a recursion from an existing vertex leaves a
stale `None` there when the incoming context had no active vertex). -/
def Ext (c c' : Ctx) (vs : List Vid) : Prop :=
  ∃ ext, c'.vertices = c.vertices ++ ext ∧ ext.map (·.1) = vs ∧ c'.values = c.values ∧
    c'.foldCounts = c.foldCounts ∧ c'.foldedValues = c.foldedValues ∧
    c'.importedTags = c.importedTags

theorem Ext.refl (c : Ctx) : Ext c c [] := ⟨[], by simp⟩

theorem Ext.trans {c c' c'' : Ctx} {vs vs' : List Vid} (h1 : Ext c c' vs) (h2 : Ext c' c'' vs') :
    Ext c c'' (vs ++ vs') := by
  obtain ⟨e1, a1, a2, a3, a4, a5, a6⟩ := h1
  obtain ⟨e2, b1, b2, b3, b4, b5, b6⟩ := h2
  exact ⟨e1 ++ e2, by simp [b1, a1], by simp [a2, b2], b3.trans a3, b4.trans a4, b5.trans a5,
    b6.trans a6⟩

/-- Changing the active vertex of the starting context does not matter. -/
theorem Ext.of_active {c c' : Ctx} {vs : List Vid} (v : Option VertexId)
    (h : Ext { c with active := v } c' vs) : Ext c c' vs := h

theorem Ext.record (c : Ctx) (vid : Vid) : Ext c (Ctx.record c vid) [vid] :=
  ⟨[(vid, c.active)], by simp [Ctx.record]⟩

theorem Ext.abs {c c' : Ctx} (W : World) (h : Ext c c' []) : W.abs c' = W.abs c := by
  obtain ⟨ext, a1, a2, _⟩ := h
  have : ext = [] := by simpa using a2
  simp [World.abs, a1, this]

theorem Ext.keys {c c' : Ctx} {vs : List Vid} (h : Ext c c' vs) : keys c' = keys c ++ vs := by
  obtain ⟨ext, a1, a2, _⟩ := h
  simp [InterpSpec.keys, a1, a2]

theorem Ext.vertexAt {c c' : Ctx} {vs : List Vid} (h : Ext c c' vs) {w : Vid} {v : Option VertexId}
    (hw : c.vertexAt? w = some v) : c'.vertexAt? w = some v := by
  obtain ⟨ext, a1, _⟩ := h
  unfold Engine.Ctx.vertexAt? at *
  rw [a1, List.find?_append]
  cases hf : List.find? (fun x => x.1 == w) c.vertices with
  | none => simp [hf] at hw
  | some p => simpa [hf] using hw

end TF.InterpSpec
