/-
C01 main theorem, static part 5: a successful run of phase A of the frontend on a plain/optional
tree, under the hypotheses `hypsNode`, yields the certificate `NodeCert` for the finished
component.
-/
import TrustfallModel.Proofs.InterpSpec.StaticFilters

namespace TF.InterpSpec
open TF TF.Engine TF.Spec TF.Frontend

/-- Every vertex record has been resolved (phase B) against the tag table `T` into the IR vertex
found in the component. -/
def HV (W : World) (T : List TagEntry) (path : List Vid) (verts : List VertexRec) : Prop :=
  ∀ r ∈ verts, ∃ fs ev stX stY, stX.tags = T ∧
    resolveFilters path r.vid r.pending stX = .ok (fs, ev, stY) ∧
    W.comp.vertex? r.vid = some ⟨r.vid, r.typeName, r.coercedFrom, fs⟩

theorem nbrs_nil_of_no_entry (D : Data) (x : VertexId) (n : Name) (ps : Params)
    (h : ∀ a ∈ D.adj, a.vertex ≠ x) : D.nbrs x n ps = [] := by
  unfold Data.nbrs
  have : D.adj.find? (fun e => e.vertex == x && e.edge == n && paramsEq e.params ps) = none := by
    rw [List.find?_eq_none]
    intro a ha
    have := h a ha
    simp [this]
  rw [this]

theorem paramsAgreeB_sound (H : HypEnv) (W : World) (hD : W.D = H.D) (ha : W.args = H.args)
    (he : W.edges = H.edges) (n : Name) (params ps : Params)
    (h : paramsAgreeB H n params ps = true) : ParamsAgree W n params ps := by
  have hs : W.senv = H.senv := by
    simp [World.senv, HypEnv.senv, hD, ha, he]
  intro x
  rw [hs, hD]
  by_cases hx : ∃ a ∈ H.D.adj, a.vertex = x
  · obtain ⟨a, hmem, rfl⟩ := hx
    simp only [paramsAgreeB, List.all_eq_true] at h
    simpa using h a hmem
  · have hno : ∀ a ∈ H.D.adj, a.vertex ≠ x := fun a ha he => hx ⟨a, ha, he⟩
    rw [nbrs_nil_of_no_entry _ _ _ _ hno, nbrs_nil_of_no_entry _ _ _ _ hno]

theorem coerce_some {S : SchemaView} {pre c post : Name} (h : coerce S pre (some c) = .ok post) :
    post = c := by
  simp only [coerce, bind_ok, pure_ok] at h
  obtain ⟨_, _, _, _, _, _, _, _, h⟩ := h
  exact h.symm

theorem paramsAgreeRecB_sound (H : HypEnv) (W : World) (hD : W.D = H.D) (ha : W.args = H.args)
    (he : W.edges = H.edges) (n : Name) (params ps : Params)
    (h : paramsAgreeRecB H n params ps = true) : ParamsAgreeRec W n params ps := by
  have hs : W.senv = H.senv := by
    simp [World.senv, HypEnv.senv, hD, ha, he]
  intro x hx y
  rw [hs, hD] at *
  have hxa : ∃ a ∈ H.D.adj, a.vertex = x := by
    apply Classical.byContradiction
    intro hno
    exact hx (nbrs_nil_of_no_entry _ _ _ _ fun a ha he => hno ⟨a, ha, he⟩)
  obtain ⟨a, hmem, rfl⟩ := hxa
  simp only [paramsAgreeRecB, List.all_eq_true, Bool.or_eq_true] at h
  rcases h a hmem with h1 | h1
  · exact absurd (by simpa using h1) hx
  · by_cases hy : ∃ b ∈ H.D.adj, b.vertex = y
    · obtain ⟨b, hb, rfl⟩ := hy
      simpa using h1 b hb
    · have hno : ∀ b ∈ H.D.adj, b.vertex ≠ y := fun b hb he => hy ⟨b, hb, he⟩
      rw [nbrs_nil_of_no_entry _ _ _ _ hno, nbrs_nil_of_no_entry _ _ _ _ hno]

theorem recConvB_sound (D : Data) (e : IREdge) (r : Recursive)
    (h : recConvB D e.name e.params r.coerceTo = true) : RecConv D e r := by
  intro w hw
  by_cases hx : ∃ a ∈ D.adj, a.vertex = w
  · obtain ⟨a, hmem, rfl⟩ := hx
    simp only [recConvB, List.all_eq_true, Bool.or_eq_true] at h
    rcases h a hmem with h1 | h1
    · rw [hw] at h1; cases h1
    · simpa using h1
  · exact nbrs_nil_of_no_entry _ _ _ _ fun a ha he => hx ⟨a, ha, he⟩

theorem edgeKindOK_of_hyps (S : SchemaView) (H : HypEnv) (hS : H.S = S) (W : World)
    (hD : W.D = H.D) (ha : W.args = H.args) (he : W.edges = H.edges)
    {ty : Name} {ed : EdgeInfo} {kind : Kind} {frag : Nat} (hfr : frag ≤ 2)
    {r : Option Recursive} (h : recursiveOf S ty ed kind = .ok r) (hk : kindIn frag kind = true)
    (eid fromVid toVid : Nat) (n : Name) (params ps : Params)
    (hrec : recOK H ty ed n params ps kind = true) :
    EdgeKindOK W n params kind ⟨eid, fromVid, toVid, n, ps, isOptionalKind kind, r⟩ := by
  cases kind with
  | plain => simp [recursiveOf] at h; simp [EdgeKindOK, isOptionalKind, h]
  | optional => simp [recursiveOf] at h; simp [EdgeKindOK, isOptionalKind, h]
  | recurse d =>
    have h' := h
    simp only [recursiveOf, bind_ok, pure_ok, check_ok] at h'
    obtain ⟨_, hd, c, _, hr⟩ := h'
    subst hr
    simp only [recOK, hS, h, Bool.and_eq_true] at hrec
    refine ⟨⟨d, c⟩, rfl, rfl, ?_, ?_, ?_⟩
    · have : d ≠ 0 := by simpa using hd
      omega
    · rw [hD]; exact recConvB_sound H.D _ _ hrec.1
    · exact paramsAgreeRecB_sound H W hD ha he n params ps hrec.2
  | fold fds => simp [kindIn] at hk; omega

theorem cert_fill (S : SchemaView) (H : HypEnv) (hS : H.S = S) (W : World)
    (hD : W.D = H.D) (ha : W.args = H.args) (he : W.edges = H.edges)
    (T : List TagEntry) (A : List Vid) (tbl : List (Vid × List QField)) (G : Glob W T A tbl)
    (frag : Nat) (hfr : frag ≤ 2) :
    (∀ path vid pre node st acc st', fillNode S path vid pre node st = .ok (acc, st') →
      ∀ L Rest, hypsNode H frag pre node = true → A = L ++ acc.verts.map (·.vid) ++ Rest →
        (∀ p ∈ tblNode node vid st.nextVid, p ∈ tbl) → HV W T path acc.verts →
        NodeCert W node vid L acc.edges (acc.verts.map (·.vid))) ∧
    (∀ path vid ty fields st acc st', fillFields S path vid ty fields st = .ok (acc, st') →
      ∀ L Rest, hypsFields H frag ty fields = true → vid ∈ L → A = L ++ acc.verts.map (·.vid) ++ Rest →
        (∀ p ∈ tblFields fields st.nextVid, p ∈ tbl) → HV W T path acc.verts →
        FieldsCert W fields vid L acc.edges (acc.verts.map (·.vid))) := by
  apply fill_induct S
    (P1 := fun path vid pre node st acc _ =>
      ∀ L Rest, hypsNode H frag pre node = true → A = L ++ acc.verts.map (·.vid) ++ Rest →
        (∀ p ∈ tblNode node vid st.nextVid, p ∈ tbl) → HV W T path acc.verts →
        NodeCert W node vid L acc.edges (acc.verts.map (·.vid)))
    (P2 := fun path vid ty fields st acc _ =>
      ∀ L Rest, hypsFields H frag ty fields = true → vid ∈ L → A = L ++ acc.verts.map (·.vid) ++ Rest →
        (∀ p ∈ tblFields fields st.nextVid, p ∈ tbl) → HV W T path acc.verts →
        FieldsCert W fields vid L acc.edges (acc.verts.map (·.vid)))
  · -- node
    intro path vid pre ct fields st post acc1 st' hco _ ih L Rest hh hA htbl hv
    simp only [hypsNode, hS, hco, Bool.and_eq_true] at hh
    obtain ⟨⟨hord, hvar⟩, hfields⟩ := hh
    obtain ⟨fs, ev, stX, stY, hTX, hres, hV⟩ :=
      hv ⟨vid, post, ct.map fun _ => pre, nodeFilters S post fields⟩ (by simp)
    simp only at hres hV
    have hA' : A = L ++ vid :: (acc1.verts.map (·.vid) ++ Rest) := by
      rw [hA]; simp
    have hpt : pendingTriples (nodeFilters S post fields) = specFilters fields := by
      simpa [filtersInOrder] using hord
    unfold NodeCert
    refine ⟨_, acc1.verts.map (·.vid), by simp, hV, rfl, ?_, ?_, ?_, ?_, ?_⟩
    · cases ct with
      | none => simp [CoerceOK]
      | some c => exact ⟨⟨pre, rfl⟩, coerce_some hco⟩
    · have := resolveFilters_FilterOK H W hD ha G hA' hres hTX (nodeFilters_left S post fields)
        (by rw [hpt]; exact hvar)
      rw [hpt] at this
      exact this
    · exact (G.tg vid fields (htbl _ (by simp [tblNode]))).1
    · exact (G.tg vid fields (htbl _ (by simp [tblNode]))).2
    · have := ih (L ++ [vid]) Rest hfields (by simp) (by rw [hA]; simp)
        (fun p hp => htbl p (by simp [tblNode, hp])) (fun r hr => hv r (by simp [hr]))
      simpa using this
  · -- nil
    intro path vid ty st L Rest _ _ _ _ _
    unfold FieldsCert
    exact ⟨rfl, rfl⟩
  · -- prop
    intro path vid ty n dirs rest st pty st1 acc1 st' _ h2 _ ih L Rest hh hvid hA htbl hv
    obtain ⟨e1, _, _, _⟩ := registerTags_inv h2
    unfold FieldsCert
    have := ih L Rest (by simpa [hypsFields] using hh) hvid (by simpa using hA)
      (fun p hp => htbl p (by simpa [tblFields, e1] using hp)) (fun r hr => hv r (by simpa using hr))
    simpa using this
  · -- fold: outside the fragment
    intro path vid ty n params fds child rest st ed ps accIn st2 comp evs st3 post evPost st4 st5
      accR st' h1 h2 _ _ _ _ _ _ _ L Rest hh
    simp only [hypsFields, hS, h1, h2, kindIn, Bool.and_eq_true, decide_eq_true_eq] at hh
    omega
  · -- plain / optional edge
    intro path vid ty n params kind child rest st ed ps r accC st2 accR st' hk h1 h2 h3 h4 h5 ihC ihR
      L Rest hh hvid hA htbl hv
    simp only [hypsFields, hS, h1, h2, Bool.and_eq_true] at hh
    obtain ⟨⟨⟨⟨hkind, hpar⟩, hrecok⟩, hchild⟩, hrest⟩ := hh
    have hs := (size_fill S).1 _ _ _ _ _ _ _ h4
    have b1 : st.bump.nextVid = st.nextVid + 1 := rfl
    rw [b1] at hs
    have hAC : A = L ++ accC.verts.map (·.vid) ++ (accR.verts.map (·.vid) ++ Rest) := by
      rw [hA]; simp
    have hAR : A = (L ++ accC.verts.map (·.vid)) ++ accR.verts.map (·.vid) ++ Rest := by
      rw [hA]; simp
    have hC := ihC L _ hchild hAC
      (fun p hp => htbl p (by
        simp only [tblFields, List.mem_append]; exact Or.inl (by simpa [b1] using hp)))
      (fun r hr => hv r (by simp [hr]))
    have hR := ihR (L ++ accC.verts.map (·.vid)) Rest hrest (List.mem_append_left _ hvid) hAR
      (fun p hp => htbl p (by
        simp only [tblFields, List.mem_append]; exact Or.inr (by simpa [hs, Nat.add_assoc] using hp)))
      (fun r hr => hv r (by simp [hr]))
    unfold FieldsCert
    refine ⟨⟨st.nextEid, vid, st.nextVid, n, ps, isOptionalKind kind, r⟩, accC.edges, accR.edges,
      accC.verts.map (·.vid), accR.verts.map (·.vid), by simp, by simp, rfl, ?_, rfl, ?_,
      paramsAgreeB_sound H W hD ha he n params ps hpar, hC, hR⟩
    · exact G.verts vid (by rw [hA]; exact List.mem_append_left _ (List.mem_append_left _ hvid))
    · exact edgeKindOK_of_hyps S H hS W hD ha he hfr h3 hkind _ _ _ n params ps hrecok

end TF.InterpSpec
