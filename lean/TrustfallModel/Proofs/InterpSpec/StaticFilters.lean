/-
C01 main theorem, static part 4: the filters the frontend resolves (`resolveFilters`, phase B) are
the compiled forms (`FilterOK`) of the specification's filters.
-/
import TrustfallModel.Proofs.InterpSpec.StaticTags
import TrustfallModel.Proofs.InterpSpec.Cert

namespace TF.InterpSpec
open TF TF.Engine TF.Spec TF.Frontend

/-- Global static facts about one compiled (fold-free) query: `T` the final tag table, `A` the
Vids of the component in order, `tbl` the numbering table. -/
structure Glob (W : World) (T : List TagEntry) (A : List Vid) (tbl : List (Vid × List QField)) :
    Prop where
  sorted : A.Pairwise (· < ·)
  keys : keysT tbl = A
  verts : ∀ w ∈ A, (W.comp.vertex? w).isSome
  tagsCtx : ∀ e ∈ T, ∃ w fld ty fs, e.field = .ctx w fld ty ∧ (w, fs) ∈ tbl ∧
    (e.name, fld) ∈ tagPairs fs
  tg : ∀ w fs, (w, fs) ∈ tbl → W.TG w = tagPairs fs ∧ W.OG w = outPairs fs

theorem varOK_sound (H : HypEnv) (W : World) (hD : W.D = H.D) (ha : W.args = H.args)
    (n : Name) (o : Filter.BinOp) (m : Name) (h : varOK H (n, .bin o, .var m) = true) :
    ∃ val, W.args.find? (·.1 == m) = some (m, val) ∧
      (isRegexOp o = true → ∃ r, Filter.compileStaticRegex W.D.regex val = .ok r) := by
  simp only [varOK] at h
  rw [ha, hD]
  cases hf : H.args.find? (·.1 == m) with
  | none => simp [hf] at h
  | some p =>
    obtain ⟨k, val⟩ := p
    have hk : k = m := by
      have := List.find?_some hf
      simpa using this
    subst hk
    refine ⟨val, rfl, ?_⟩
    intro hr
    simp only [hf, hr, Bool.not_true, Bool.false_or] at h
    cases hc : Filter.compileStaticRegex H.D.regex val with
    | ok r => exact ⟨r, rfl⟩
    | panic => simp [hc] at h

theorem resolveFilter_FilterOK (H : HypEnv) (W : World) (hD : W.D = H.D) (ha : W.args = H.args)
    {T A tbl} (G : Glob W T A tbl) {path : List Vid} {vid : Vid} {L R : List Vid}
    (hA : A = L ++ vid :: R) {pf : PendingFilter} {st st' : St} {f : IRFilter} {ev}
    (h : resolveFilter path vid pf st = .ok (f, ev, st')) (hT : st.tags = T)
    (hleft : ∃ ty, pf.left = .loc (leftName pf.left) ty)
    (hvar : varOK H (leftName pf.left, pf.op, pf.arg) = true) :
    FilterOK W vid L (leftName pf.left, pf.op, pf.arg) f := by
  obtain ⟨left, leftTy, op, arg⟩ := pf
  simp only at hleft hvar ⊢
  cases op with
  | un o =>
    cases arg with
    | none =>
      simp only [resolveFilter, bind_ok, pure_ok] at h
      obtain ⟨_, _, h⟩ := h
      simp only [Prod.mk.injEq] at h
      obtain ⟨rfl, _, _⟩ := h
      exact ⟨rfl, hleft, trivial⟩
    | var m => simp [resolveFilter] at h
    | tag t => simp [resolveFilter] at h
  | bin o =>
    cases arg with
    | none => simp [resolveFilter] at h
    | var m =>
      simp only [resolveFilter, bind_ok, pure_ok] at h
      obtain ⟨vt, _, _, _, h⟩ := h
      simp only [Prod.mk.injEq] at h
      obtain ⟨rfl, _, _⟩ := h
      exact ⟨rfl, hleft, ⟨vt, rfl⟩, varOK_sound H W hD ha _ o m hvar⟩
    | tag t =>
      simp only [resolveFilter, bind_ok, pure_ok] at h
      obtain ⟨⟨r, ev1, st1⟩, h1, _, _, h⟩ := h
      simp only [Prod.mk.injEq] at h
      obtain ⟨rfl, _, _⟩ := h
      obtain ⟨e, hfind, _, hle, rfl, _, _⟩ := refTag_inv h1
      have hmem : e ∈ T := hT ▸ List.mem_of_find?_eq_some hfind
      have hname : e.name = t := by
        have := List.find?_some hfind
        simpa using this
      obtain ⟨w, fld, ty, fs, hfield, htbl, hpair⟩ := G.tagsCtx e hmem
      refine ⟨rfl, hleft, w, fld, ty, by rw [hfield], ?_, ?_⟩
      · rw [(G.tg w fs htbl).1, ← hname]; exact hpair
      · have hwA : w ∈ A := by
          rw [← G.keys]; exact List.mem_map.2 ⟨(w, fs), htbl, rfl⟩
        have hle' : w ≤ vid := by simpa [hfield, definedAt] using hle
        have hs := G.sorted
        rw [hA] at hs hwA
        rcases mem_prefix_of_sorted hs hwA hle' with h | h
        · exact Or.inl h
        · refine Or.inr ⟨h, ?_, G.verts w (by rw [hA]; exact List.mem_append_left _ h)⟩
          intro heq
          subst heq
          have := (List.pairwise_append.1 hs).2.2 w h w (List.mem_cons_self ..)
          exact Nat.lt_irrefl _ this

theorem resolveFilters_FilterOK (H : HypEnv) (W : World) (hD : W.D = H.D) (ha : W.args = H.args)
    {T A tbl} (G : Glob W T A tbl) {path : List Vid} {vid : Vid} {L R : List Vid}
    (hA : A = L ++ vid :: R) {pend : List PendingFilter} {st st' : St} {fs : List IRFilter} {ev}
    (h : resolveFilters path vid pend st = .ok (fs, ev, st')) (hT : st.tags = T)
    (hleft : ∀ pf ∈ pend, ∃ ty, pf.left = .loc (leftName pf.left) ty)
    (hvar : (pendingTriples pend).all (varOK H) = true) :
    Forall2 (FilterOK W vid L) (pendingTriples pend) fs := by
  induction pend generalizing st fs ev with
  | nil =>
    simp [resolveFilters] at h
    rw [h.1]; exact .nil
  | cons pf rest ih =>
    rw [resolveFilters] at h
    simp only [bind_ok, pure_ok] at h
    obtain ⟨⟨f, ev1, st1⟩, h1, ⟨fs2, ev2, st2⟩, h2, h3⟩ := h
    simp only [Prod.mk.injEq] at h3
    obtain ⟨rfl, _, rfl⟩ := h3
    simp only [pendingTriples, List.map_cons, List.all_cons, Bool.and_eq_true] at hvar ⊢
    refine .cons (resolveFilter_FilterOK H W hD ha G hA h1 hT
      (hleft pf (List.mem_cons_self ..)) hvar.1) ?_
    exact ih h2 (by rw [← (resolveFilter_core h1).2.2]; exact hT)
      (fun pf' hpf' => hleft pf' (List.mem_cons_of_mem _ hpf')) hvar.2

theorem filterDirs_left (n : Name) (ty : QTy) (dirs : List Dir) :
    ∀ pf ∈ filterDirs n ty dirs, ∃ t, pf.left = .loc (leftName pf.left) t := by
  induction dirs with
  | nil => intro pf h; cases h
  | cons d rest ih =>
    cases d with
    | filter op arg =>
      intro pf h
      simp only [filterDirs, List.mem_cons] at h
      rcases h with rfl | h
      · exact ⟨ty, rfl⟩
      · exact ih pf h
    | tag t => simpa [filterDirs] using ih
    | output o => simpa [filterDirs] using ih

theorem nodeFilters_left (S : SchemaView) (ty : Name) (fields : List QField) :
    ∀ pf ∈ nodeFilters S ty fields, ∃ t, pf.left = .loc (leftName pf.left) t := by
  intro pf h
  simp only [nodeFilters, List.mem_flatMap] at h
  obtain ⟨n, _, hn⟩ := h
  cases hp : S.propTy? ty n with
  | none => simp [hp] at hn
  | some pty =>
    simp only [hp] at hn
    exact filterDirs_left n pty _ pf hn

end TF.InterpSpec
