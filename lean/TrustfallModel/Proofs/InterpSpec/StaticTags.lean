/-
C01 main theorem, static part 3: what phase A of the frontend (`fillNode`/`fillFields`) leaves in
the tag table and in the output list, in terms of the numbering table (fold-free trees).
-/
import TrustfallModel.Proofs.InterpSpec.Table

namespace TF.InterpSpec
open TF TF.Engine TF.Spec TF.Frontend

theorem tagTriples_node (ct : Option Name) (fields : List QField) (vid next : Vid) :
    tagTriples (tblNode (.mk ct fields) vid next) =
      ((tagPairs fields).map fun p => (p.1, vid, p.2)) ++ tagTriples (tblFields fields next) := by
  simp [tagTriples, tblNode]

theorem outTriplesT_node (ct : Option Name) (fields : List QField) (vid next : Vid) :
    outTriplesT (tblNode (.mk ct fields) vid next) =
      ((outPairs fields).map fun p => (p.1, vid, p.2)) ++ outTriplesT (tblFields fields next) := by
  simp [outTriplesT, tblNode]

theorem perm_swap_middle {α : Type} {a b p ta tb : List α} (ha : a.Perm ta) (hb : b.Perm (p ++ tb)) :
    (a ++ b).Perm (p ++ (ta ++ tb)) := by
  have h1 : (a ++ b).Perm (ta ++ (p ++ tb)) := ha.append hb
  refine h1.trans ?_
  rw [← List.append_assoc, ← List.append_assoc]
  exact List.Perm.append_right _ List.perm_append_comm

/-- The tags registered while a fold-free sub-tree is walked. -/
theorem tags_fill (S : SchemaView) :
    (∀ path vid pre node st acc st', fillNode S path vid pre node st = .ok (acc, st') →
      noFold node = true →
      ∃ new, st'.tags = st.tags ++ new ∧
        (new.map entryTriple).Perm (tagTriples (tblNode node vid st.nextVid)) ∧
        ∀ e ∈ new, isCtxRef e.field = true) ∧
    (∀ path vid ty fields st acc st', fillFields S path vid ty fields st = .ok (acc, st') →
      noFoldFields fields = true →
      ∃ new, st'.tags = st.tags ++ new ∧
        (new.map entryTriple).Perm
          (((tagPairs fields).map fun p => (p.1, vid, p.2)) ++ tagTriples (tblFields fields st.nextVid)) ∧
        ∀ e ∈ new, isCtxRef e.field = true) := by
  apply fill_induct S
    (P1 := fun _ vid _ node st _ st' => noFold node = true →
      ∃ new, st'.tags = st.tags ++ new ∧
        (new.map entryTriple).Perm (tagTriples (tblNode node vid st.nextVid)) ∧
        ∀ e ∈ new, isCtxRef e.field = true)
    (P2 := fun _ vid _ fields st _ st' => noFoldFields fields = true →
      ∃ new, st'.tags = st.tags ++ new ∧
        (new.map entryTriple).Perm
          (((tagPairs fields).map fun p => (p.1, vid, p.2)) ++ tagTriples (tblFields fields st.nextVid)) ∧
        ∀ e ∈ new, isCtxRef e.field = true)
  · intro path vid pre ct fields st post acc1 st' _ _ ih hnf
    obtain ⟨new, h1, h2, h3⟩ := ih (by simpa [noFold] using hnf)
    exact ⟨new, h1, by rw [tagTriples_node]; exact h2, h3⟩
  · intro path vid ty st _
    exact ⟨[], by simp, by simp [tagPairs, tblFields, tagTriples], by simp⟩
  · intro path vid ty n dirs rest st pty st1 acc1 st' _ h2 _ ih hnf
    obtain ⟨e1, _, _, ht⟩ := registerTags_inv h2
    obtain ⟨newR, r1, r2, r3⟩ := ih (by simpa [noFoldFields] using hnf)
    refine ⟨(tagDirs vid n pty dirs).map (fun (p : Name × FieldRef) => ⟨p.1, p.2, path⟩) ++ newR,
      by rw [r1, ht, List.append_assoc], ?_, ?_⟩
    · rw [List.map_append, List.map_map]
      have := tagDirs_triples vid n pty path dirs
      simp only [Function.comp_def] at *
      rw [this, e1] at *
      simp only [tagPairs, tblFields, List.map_append, List.append_assoc]
      exact List.Perm.append_left _ r2
    · intro e he
      rcases List.mem_append.1 he with h | h
      · obtain ⟨p, hp, rfl⟩ := List.mem_map.1 h
        exact tagDirs_ctx vid n pty dirs p hp
      · exact r3 e h
  · intro path vid ty n params fds child rest st ed ps accIn st2 comp evs st3 post evPost st4 st5
      accR st' _ _ _ _ _ _ _ _ _ hnf
    simp [noFoldFields] at hnf
  · intro path vid ty n params kind child rest st ed ps r accC st2 accR st' hk _ _ _ h4 _ ihC ihR hnf
    simp only [noFoldFields, Bool.and_eq_true] at hnf
    obtain ⟨newC, c1, c2, c3⟩ := ihC hnf.1.2
    obtain ⟨newR, r1, r2, r3⟩ := ihR hnf.2
    have hs := (size_fill S).1 _ _ _ _ _ _ _ h4
    have b1 : st.bump.nextVid = st.nextVid + 1 := rfl
    have b2 : st.bump.tags = st.tags := rfl
    rw [b1] at hs c2
    rw [b2] at c1
    refine ⟨newC ++ newR, by rw [r1, c1, List.append_assoc], ?_, ?_⟩
    · rw [List.map_append]
      simp only [tagPairs, tblFields, tagTriples, List.flatMap_append]
      rw [hs] at r2
      have := perm_swap_middle c2 r2
      simpa [tagTriples, Nat.add_assoc] using this
    · intro e he
      rcases List.mem_append.1 he with h | h
      · exact c3 e h
      · exact r3 e h

/-- The outputs collected while a fold-free sub-tree is walked. -/
theorem outs_fill (S : SchemaView) :
    (∀ path vid pre node st acc st', fillNode S path vid pre node st = .ok (acc, st') →
      noFold node = true →
      (acc.outs.map fun o => (o.name, o.vid, o.field)).Perm (outTriplesT (tblNode node vid st.nextVid)) ∧
        acc.outs.map (·.name) = treeOutputNames node) ∧
    (∀ path vid ty fields st acc st', fillFields S path vid ty fields st = .ok (acc, st') →
      noFoldFields fields = true →
      (acc.outs.map fun o => (o.name, o.vid, o.field)).Perm
          (((outPairs fields).map fun p => (p.1, vid, p.2)) ++ outTriplesT (tblFields fields st.nextVid)) ∧
        acc.outs.map (·.name) = fieldsOutputNames fields) := by
  apply fill_induct S
    (P1 := fun _ vid _ node st acc _ => noFold node = true →
      (acc.outs.map fun o => (o.name, o.vid, o.field)).Perm (outTriplesT (tblNode node vid st.nextVid)) ∧
        acc.outs.map (·.name) = treeOutputNames node)
    (P2 := fun _ vid _ fields st acc _ => noFoldFields fields = true →
      (acc.outs.map fun o => (o.name, o.vid, o.field)).Perm
          (((outPairs fields).map fun p => (p.1, vid, p.2)) ++ outTriplesT (tblFields fields st.nextVid)) ∧
        acc.outs.map (·.name) = fieldsOutputNames fields)
  · intro path vid pre ct fields st post acc1 st' _ _ ih hnf
    obtain ⟨h1, h2⟩ := ih (by simpa [noFold] using hnf)
    refine ⟨?_, ?_⟩
    · rw [outTriplesT_node]; simpa using h1
    · simpa [treeOutputNames] using h2
  · intro path vid ty st _
    exact ⟨by simp [outPairs, tblFields, outTriplesT], by simp [fieldsOutputNames]⟩
  · intro path vid ty n dirs rest st pty st1 acc1 st' _ h2 _ ih hnf
    obtain ⟨e1, _, _, _⟩ := registerTags_inv h2
    obtain ⟨r1, r2⟩ := ih (by simpa [noFoldFields] using hnf)
    refine ⟨?_, ?_⟩
    · simp only [Acc.append_outs, List.map_append, outputDirs_triples, outPairs, tblFields,
        List.append_assoc]
      rw [e1] at r1
      exact List.Perm.append_left _ r1
    · simp only [Acc.append_outs, List.map_append, r2]; exact outputDirs_names vid n pty dirs rest
  · intro path vid ty n params fds child rest st ed ps accIn st2 comp evs st3 post evPost st4 st5
      accR st' _ _ _ _ _ _ _ _ _ hnf
    simp [noFoldFields] at hnf
  · intro path vid ty n params kind child rest st ed ps r accC st2 accR st' hk _ _ _ h4 _ ihC ihR hnf
    simp only [noFoldFields, Bool.and_eq_true] at hnf
    obtain ⟨c1, c2⟩ := ihC hnf.1.2
    obtain ⟨r1, r2⟩ := ihR hnf.2
    have hs := (size_fill S).1 _ _ _ _ _ _ _ h4
    have b1 : st.bump.nextVid = st.nextVid + 1 := rfl
    rw [b1] at hs c1
    refine ⟨?_, ?_⟩
    · simp only [Acc.append_outs, List.nil_append, List.map_append, outPairs, tblFields, outTriplesT,
        List.flatMap_append]
      rw [hs] at r1
      have := perm_swap_middle c1 r1
      simpa [outTriplesT, Nat.add_assoc] using this
    · have hfo : fieldsOutputNames (.edge n params kind child :: rest) =
          treeOutputNames child ++ fieldsOutputNames rest := by
        cases kind with
        | fold fds => exact absurd rfl (hk fds)
        | plain => rfl
        | optional => rfl
        | recurse d => rfl
      simp [hfo, c2, r2]

theorem registerTags_nodup {path l st st'} (h : registerTags path l st = .ok st')
    (hn : (st.tags.map (·.name)).Nodup) : (st'.tags.map (·.name)).Nodup := by
  induction l generalizing st with
  | nil => simp [registerTags] at h; subst h; exact hn
  | cons x rest ih =>
    obtain ⟨n, f⟩ := x
    rw [registerTags] at h
    simp only [bind_ok] at h
    obtain ⟨st1, h1, h2⟩ := h
    obtain ⟨hany, rfl⟩ := registerTag_inv h1
    apply ih h2
    simp only [List.map_append, List.map_cons, List.map_nil]
    rw [List.nodup_append]
    refine ⟨hn, by simp, ?_⟩
    intro a ha b hb
    simp only [List.mem_singleton] at hb
    subst hb
    intro hab
    subst hab
    obtain ⟨e, he, hea⟩ := List.mem_map.1 ha
    have : st.tags.any (fun x => x.name == a) = true := by
      rw [List.any_eq_true]; exact ⟨e, he, by simp [hea]⟩
    rw [this] at hany; cases hany

/-- Tag names stay distinct (`register_tag` rejects a second tag of the same name). -/
theorem tagNames_fill (S : SchemaView) :
    (∀ path vid pre node st acc st', fillNode S path vid pre node st = .ok (acc, st') →
      (st.tags.map (·.name)).Nodup → (st'.tags.map (·.name)).Nodup) ∧
    (∀ path vid ty fields st acc st', fillFields S path vid ty fields st = .ok (acc, st') →
      (st.tags.map (·.name)).Nodup → (st'.tags.map (·.name)).Nodup) := by
  apply fill_induct S
    (P1 := fun _ _ _ _ st _ st' => (st.tags.map (·.name)).Nodup → (st'.tags.map (·.name)).Nodup)
    (P2 := fun _ _ _ _ st _ st' => (st.tags.map (·.name)).Nodup → (st'.tags.map (·.name)).Nodup)
  · intro path vid pre ct fields st post acc1 st' _ _ ih; exact ih
  · intro path vid ty st h; exact h
  · intro path vid ty n dirs rest st pty st1 acc1 st' _ h2 _ ih hn
    exact ih (registerTags_nodup h2 hn)
  · intro path vid ty n params fds child rest st ed ps accIn st2 comp evs st3 post evPost st4 st5
      accR st' _ _ _ h4 h5 h6 _ ihC ihR hn
    obtain ⟨_, _, hcore⟩ := allVids_finish h4
    have c34 := resolveFilters_core h5
    have h2n := ihC hn
    rw [hcore.2.2, c34.2.2] at h2n
    exact ihR (registerTags_nodup h6 h2n)
  · intro path vid ty n params kind child rest st ed ps r accC st2 accR st' _ _ _ _ _ _ ihC ihR hn
    exact ihR (ihC hn)

end TF.InterpSpec
