/-
C01 main theorem, static part 2: the numbering table is strictly increasing, and the frontend's
tag table / output list are (permutations of) what the table says.
-/
import TrustfallModel.Proofs.InterpSpec.Numbering

namespace TF.InterpSpec
open TF TF.Engine TF.Spec TF.Frontend

def keysT (tbl : List (Vid × List QField)) : List Vid := tbl.map (·.1)

theorem pairwise_append_of {l1 l2 : List Nat} (h1 : l1.Pairwise (· < ·)) (h2 : l2.Pairwise (· < ·))
    (h : ∀ a ∈ l1, ∀ b ∈ l2, a < b) : (l1 ++ l2).Pairwise (· < ·) :=
  List.pairwise_append.2 ⟨h1, h2, h⟩

mutual
theorem tblNode_bounds : ∀ (node : QNode) (vid next : Vid),
    (∀ x ∈ keysT (tblFields (match node with | .mk _ fs => fs) next),
        next ≤ x ∧ x < next + size node) ∧
      (keysT (tblFields (match node with | .mk _ fs => fs) next)).Pairwise (· < ·)
  | .mk ct fields, vid, next => by
    simpa [size] using tblFields_bounds fields next
theorem tblFields_bounds : ∀ (fields : List QField) (next : Vid),
    (∀ x ∈ keysT (tblFields fields next), next ≤ x ∧ x < next + sizeFields fields) ∧
      (keysT (tblFields fields next)).Pairwise (· < ·)
  | [], next => by simp [tblFields, keysT]
  | .prop _ _ :: rest, next => by
    simpa [tblFields, sizeFields] using tblFields_bounds rest next
  | .edge _ _ _ (.mk ct cf) :: rest, next => by
    have hC := tblNode_bounds (.mk ct cf) next (next + 1)
    have hR := tblFields_bounds rest (next + 1 + size (.mk ct cf))
    simp only at hC
    simp only [tblFields, tblNode, keysT, List.map_append, List.map_cons, sizeFields] at *
    constructor
    · intro x hx
      rcases List.mem_append.1 hx with h | h
      · rcases List.mem_cons.1 h with rfl | h
        · simp only [Vid] at *; omega
        · have := hC.1 x h; simp only [Vid] at *; omega
      · have := hR.1 x h; simp only [Vid] at *; omega
    · apply pairwise_append_of
      · refine List.pairwise_cons.2 ⟨?_, hC.2⟩
        intro x hx; have := hC.1 x hx; simp only [Vid] at *; omega
      · exact hR.2
      · intro a ha b hb
        have hb' := hR.1 b hb
        rcases List.mem_cons.1 ha with rfl | ha
        · simp only [Vid] at *; omega
        · have := hC.1 a ha; simp only [Vid] at *; omega
end

/-- The Vids of the table of a node are strictly increasing. -/
theorem tblNode_sorted (node : QNode) (vid next : Vid) (h : vid < next) :
    (keysT (tblNode node vid next)).Pairwise (· < ·) := by
  cases node with
  | mk ct fields =>
    have hb := tblFields_bounds fields next
    simp only [tblNode, keysT, List.map_cons]
    refine List.pairwise_cons.2 ⟨?_, hb.2⟩
    intro x hx
    have := hb.1 x hx
    simp only [Vid] at *; omega

theorem nodup_of_sorted {l : List Nat} (h : l.Pairwise (· < ·)) : l.Nodup := by
  induction l with
  | nil => exact List.nodup_nil
  | cons a t ih =>
    have h' := List.pairwise_cons.1 h
    exact List.nodup_cons.2 ⟨fun hm => Nat.lt_irrefl _ (h'.1 a hm), ih h'.2⟩

/-- In a strictly increasing list `L ++ v :: R`, an element `≤ v` is `v` or lies in `L`. -/
theorem mem_prefix_of_sorted {L R : List Nat} {v w : Nat} (hs : (L ++ v :: R).Pairwise (· < ·))
    (hw : w ∈ L ++ v :: R) (hle : w ≤ v) : w = v ∨ w ∈ L := by
  rcases List.mem_append.1 hw with h | h
  · exact Or.inr h
  · rcases List.mem_cons.1 h with h | h
    · exact Or.inl h
    · have := (List.pairwise_append.1 hs).2.1
      have := (List.pairwise_cons.1 this).1 w h
      omega

/-! ### tags and outputs of the table -/

def tagTriples (tbl : List (Vid × List QField)) : List (Name × Vid × Name) :=
  tbl.flatMap fun q => (tagPairs q.2).map fun p => (p.1, q.1, p.2)

def outTriplesT (tbl : List (Vid × List QField)) : List (Name × Vid × Name) :=
  tbl.flatMap fun q => (outPairs q.2).map fun p => (p.1, q.1, p.2)

def entryTriple (e : TagEntry) : Name × Vid × Name :=
  match e.field with
  | .ctx w f _ => (e.name, w, f)
  | .fcount _ root => (e.name, root, "")

def isCtxRef : FieldRef → Bool
  | .ctx .. => true
  | .fcount .. => false

theorem tagDirs_triples (vid : Vid) (n : Name) (pty : QTy) (path : List Vid) (dirs : List Dir) :
    ((tagDirs vid n pty dirs).map fun (p : Name × FieldRef) => entryTriple ⟨p.1, p.2, path⟩) =
      (dirTags n dirs).map fun p => (p.1, vid, p.2) := by
  induction dirs with
  | nil => rfl
  | cons d rest ih => cases d <;> simp_all [tagDirs, dirTags, entryTriple, List.filterMap_cons]

theorem tagDirs_ctx (vid : Vid) (n : Name) (pty : QTy) (dirs : List Dir) :
    ∀ p ∈ tagDirs vid n pty dirs, isCtxRef p.2 = true := by
  induction dirs with
  | nil => intro p hp; cases hp
  | cons d rest ih =>
    cases d with
    | filter op arg => simpa [tagDirs] using ih
    | output o => simpa [tagDirs] using ih
    | tag t =>
      intro p hp
      simp only [tagDirs, List.mem_cons] at hp
      rcases hp with rfl | hp
      · rfl
      · exact ih p hp

theorem outputDirs_triples (vid : Vid) (n : Name) (pty : QTy) (dirs : List Dir) :
    ((outputDirs vid n pty dirs).map fun o => (o.name, o.vid, o.field)) =
      (dirOuts n dirs).map fun p => (p.1, vid, p.2) := by
  induction dirs with
  | nil => rfl
  | cons d rest ih => cases d <;> simp_all [outputDirs, dirOuts, List.filterMap_cons]

theorem outputDirs_names (vid : Vid) (n : Name) (pty : QTy) (dirs : List Dir) (rest : List QField) :
    (outputDirs vid n pty dirs).map (·.name) ++ fieldsOutputNames rest =
      fieldsOutputNames (.prop n dirs :: rest) := by
  simp only [fieldsOutputNames]
  congr 1
  induction dirs with
  | nil => rfl
  | cons d ds ih => cases d <;> simp_all [outputDirs, List.filterMap_cons]

end TF.InterpSpec
