/-
C01 main theorem, layer 8: from a certificate for the whole query to the equality of rows.
-/
import TrustfallModel.Proofs.InterpSpec.Sim
import TrustfallModel.Proofs.InterpSpec.Rows

namespace TF.InterpSpec
open TF TF.Engine TF.Spec

mutual
theorem nodeCert_stage_nil (W : World) : ∀ (node : QNode) (vid : Vid) (L : List Vid)
    (es : List IREdge) (vs : List Vid), NodeCert W node vid L es vs →
    ∀ e ∈ es, (expandEdge W.env W.comp e []).toOption = some []
  | .mk ct fields, vid, L, es, vs, hcert, e, he => by
    unfold NodeCert at hcert
    obtain ⟨V, vs', _, _, _, _, _, _, _, hF⟩ := hcert
    exact fieldsCert_stage_nil W fields vid (L ++ [vid]) es vs' hF e he
theorem fieldsCert_stage_nil (W : World) : ∀ (fields : List QField) (vid : Vid) (L : List Vid)
    (es : List IREdge) (vs : List Vid), FieldsCert W fields vid L es vs →
    ∀ e ∈ es, (expandEdge W.env W.comp e []).toOption = some []
  | [], vid, L, es, vs, hcert, e, he => by
    unfold FieldsCert at hcert
    rw [hcert.1] at he; cases he
  | .prop n dirs :: rest, vid, L, es, vs, hcert, e, he => by
    unfold FieldsCert at hcert
    exact fieldsCert_stage_nil W rest vid L es vs hcert e he
  | .edge n params kind child :: rest, vid, L, es, vs, hcert, e', he' => by
    unfold FieldsCert at hcert
    obtain ⟨e, esC, esR, vsC, vsR, rfl, rfl, hfrom, hfromV, hname, hkind, hparams, hC, hR⟩ := hcert
    rcases List.mem_cons.1 he' with rfl | hmem
    · obtain ⟨toV, vsC', sfsC, _, htoV, htoVid, hflC⟩ := hC.dest
      obtain ⟨fromV, hfromV⟩ := Option.isSome_iff_exists.1 hfromV
      exact expandEdge_nil' W e' (by rw [hfrom]; exact hfromV) htoV
        (enterVertex_nil W e'.toVid toV htoV htoVid L _ hflC)
    · rcases List.mem_append.1 hmem with h | h
      · exact nodeCert_stage_nil W child e.toVid L esC vsC hC e' h
      · exact fieldsCert_stage_nil W rest vid (L ++ vsC) esR vsR hR e' h
end

/-- Everything the correspondence needs about one query and its IR. -/
structure RootCert (W : World) (q : Query) (ir : IRQuery) (vs : List Vid) : Prop where
  comp_eq : ir.rootComponent = W.comp
  start : W.D.start q.rootEdge
      (Spec.completeParams (declParams W.senv [""] q.rootEdge) q.rootParams) =
    W.D.start ir.rootName ir.rootParams
  node : NodeCert W q.root W.comp.root [] W.comp.edges vs
  folds : W.comp.folds = []
  visit : VisitOK [W.comp.root] W.comp.edges
  nodup : vs.Nodup
  tagNodup : (tagNames W vs).Nodup
  outs : OutsOK W vs
  fuel : height q.root ≤ 64

theorem rows_toOption (env : SpecEnv) (q : Query) :
    (Spec.rows env q).toOption =
      (flatMapO (fun v => (evalNode env sizeBound q.root (some v) { tags := [], outs := [] }).toOption)
        (env.data.start q.rootEdge
          (Spec.completeParams (declParams env [""] q.rootEdge) q.rootParams))).map
        (List.map fun a => sortRow a.outs) := by
  unfold Spec.rows
  simp only [← toOption_flatMapR]
  cases flatMapR _ _ <;> rfl

theorem interp_eq_spec_of_cert (W : World) (q : Query) (ir : IRQuery) (vs : List Vid)
    (h : RootCert W q ir vs) :
    (interpret W.env ir).toOption = (Spec.rows W.senv q).toOption := by
  obtain ⟨V, vs', sfs, hvs, hV, hVid, hfl⟩ := h.node.dest
  have h0 := nodeCert_stage_nil W q.root W.comp.root [] W.comp.edges vs h.node
  rw [rows_toOption, World.senv_data, h.start]
  unfold interpret interpretFrom
  simp only [h.comp_eq, fuelFor]
  have hstart : W.env.adapter.start ir.rootName ir.rootParams W.comp.root =
      .ok (W.D.start ir.rootName ir.rootParams) := rfl
  rw [hstart, R.bind_ok, R.toOption_bind,
    computeComponent_eq W 63 V hV h.folds h.visit h0,
    Hom.eq_flatMapO (enterVertex_hom W.env W.comp V)
      (by rw [enterVertex_nil W W.comp.root V hV hVid [] sfs hfl]; rfl)]
  have hl : runO W W.comp.edges = flatMapO (fun c' => runO W W.comp.edges [c']) :=
    funext (runO_linear W W.comp.edges)
  rw [hl, flatMapO_assoc, flatMapO_map]
  have hsim : SimO W.abs (fun c' => keys c' = vs ∧ c'.foldedValues = [])
      (flatMapO (fun x => (enterVertex W.env W.comp V [Ctx.new (some x)]).toOption.bind
          (flatMapO fun c' => runO W W.comp.edges [c'])) (W.D.start ir.rootName ir.rootParams))
      (flatMapO (fun v => (evalNode W.senv sizeBound q.root (some v) { tags := [], outs := [] }).toOption)
        (W.D.start ir.rootName ir.rootParams)) := by
    apply SimO.flatMapO
    intro x _
    have := sim_node W q.root W.comp.root [] W.comp.edges vs h.node 64 h.fuel (Ctx.new (some x))
      rfl (by simpa using h.nodup) (by simpa using h.tagNodup)
    simp only [nodeO, hV] at this
    rw [← hl]
    refine this.mono ?_
    intro c' hc'
    refine ⟨by rw [hc'.1.keys]; rfl, ?_⟩
    obtain ⟨_, _, _, _, _, hfv, _⟩ := hc'.1
    exact hfv
  revert hsim
  generalize flatMapO (fun x => (enterVertex W.env W.comp V [Ctx.new (some x)]).toOption.bind
    (flatMapO fun c' => runO W W.comp.edges [c'])) (W.D.start ir.rootName ir.rootParams) = I
  generalize flatMapO (fun v => (evalNode W.senv sizeBound q.root (some v)
    { tags := [], outs := [] }).toOption) (W.D.start ir.rootName ir.rootParams) = Sp
  intro hsim
  cases I with
  | none => cases Sp <;> simp_all [SimO]
  | some cs =>
    cases Sp with
    | none => simp_all [SimO]
    | some as =>
      obtain ⟨rfl, hP⟩ := hsim
      simp only [Option.bind_some, Option.map_some]
      rw [mapR_ok_of_all (g := fun c => sortRow (W.abs c).outs)]
      · simp [Function.comp_def]
      · intro c hc
        obtain ⟨hk, hf⟩ := hP c hc
        exact constructRow_final W vs h.outs c hk h.nodup hf

end TF.InterpSpec
