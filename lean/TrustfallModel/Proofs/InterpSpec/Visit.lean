/-
C01 main theorem: the `visited_vids` assertions of `compute_component` hold for a certified
stage list (sources are recorded before use, destinations are fresh).
-/
import TrustfallModel.Proofs.InterpSpec.Cert

namespace TF.InterpSpec
open TF TF.Engine TF.Spec

def visitedAfter : List Vid → List IREdge → List Vid
  | visited, [] => visited
  | visited, e :: es => visitedAfter (e.toVid :: visited) es

theorem visitedAfter_append (visited : List Vid) (es1 es2 : List IREdge) :
    visitedAfter visited (es1 ++ es2) = visitedAfter (visitedAfter visited es1) es2 := by
  induction es1 generalizing visited with
  | nil => rfl
  | cons e es ih => simp [visitedAfter, ih]

theorem VisitOK_append (visited : List Vid) (es1 es2 : List IREdge) :
    VisitOK visited (es1 ++ es2) ↔ VisitOK visited es1 ∧ VisitOK (visitedAfter visited es1) es2 := by
  induction es1 generalizing visited with
  | nil => simp [VisitOK, visitedAfter]
  | cons e es ih => simp [VisitOK, visitedAfter, ih, and_assoc]

mutual
theorem visit_node (W : World) : ∀ (node : QNode) (vid : Vid) (L : List Vid) (es : List IREdge)
    (vs : List Vid), NodeCert W node vid L es vs → (L ++ vs).Nodup →
    ∀ visited, (∀ x, x ∈ visited ↔ x ∈ L ++ [vid]) →
    VisitOK visited es ∧ ∀ x, x ∈ visitedAfter visited es ↔ x ∈ L ++ vs
  | .mk ct fields, vid, L, es, vs, hcert, hnd, visited, hvis => by
    unfold NodeCert at hcert
    obtain ⟨V, vs', rfl, _, _, _, _, _, _, hF⟩ := hcert
    have := visit_fields W fields vid (L ++ [vid]) es vs' hF (by simp) (by simpa using hnd) visited hvis
    simpa using this
theorem visit_fields (W : World) : ∀ (fields : List QField) (vid : Vid) (L : List Vid)
    (es : List IREdge) (vs : List Vid), FieldsCert W fields vid L es vs → vid ∈ L → (L ++ vs).Nodup →
    ∀ visited, (∀ x, x ∈ visited ↔ x ∈ L) →
    VisitOK visited es ∧ ∀ x, x ∈ visitedAfter visited es ↔ x ∈ L ++ vs
  | [], vid, L, es, vs, hcert, _, _, visited, hvis => by
    unfold FieldsCert at hcert
    obtain ⟨rfl, rfl⟩ := hcert
    simpa [VisitOK, visitedAfter] using hvis
  | .prop _ _ :: rest, vid, L, es, vs, hcert, hvid, hnd, visited, hvis => by
    unfold FieldsCert at hcert
    exact visit_fields W rest vid L es vs hcert hvid hnd visited hvis
  | .edge n params kind child :: rest, vid, L, es, vs, hcert, hvid, hnd, visited, hvis => by
    unfold FieldsCert at hcert
    obtain ⟨e, esC, esR, vsC, vsR, rfl, rfl, hfrom, _, _, _, _, hC, hR⟩ := hcert
    obtain ⟨toV, vsC', sfs, hvsC, _, _, _⟩ := hC.dest
    have hndC : (L ++ vsC).Nodup := by
      rw [← List.append_assoc] at hnd; exact (List.nodup_append.1 hnd).1
    have htoL : e.toVid ∉ L := by
      intro hm
      have := (List.nodup_append.1 hndC).2.2 e.toVid hm e.toVid (by rw [hvsC]; simp)
      exact this rfl
    have hvis' : ∀ x, x ∈ e.toVid :: visited ↔ x ∈ L ++ [e.toVid] := by
      intro x; simp [hvis x, or_comm]
    obtain ⟨hvC, haC⟩ := visit_node W child e.toVid L esC vsC hC hndC (e.toVid :: visited) hvis'
    obtain ⟨hvR, haR⟩ := visit_fields W rest vid (L ++ vsC) esR vsR hR (List.mem_append_left _ hvid)
      (by simpa using hnd) (visitedAfter (e.toVid :: visited) esC) haC
    refine ⟨?_, ?_⟩
    · simp only [VisitOK]
      refine ⟨by rw [hfrom]; exact (hvis vid).2 hvid, fun hm => htoL ((hvis _).1 hm), ?_, ?_⟩
      · rw [hfrom]; intro heq; exact htoL (heq ▸ hvid)
      · exact (VisitOK_append _ _ _).2 ⟨hvC, hvR⟩
    · intro x
      simp only [visitedAfter, visitedAfter_append]
      simpa using haR x
end

end TF.InterpSpec
