/-
C01 main theorem, layer 2: the abstraction function from engine contexts to specification
assignments.

A context records, per Vid, the vertex (or `none`: missing optional scope) it went through; the
specification's assignment holds tag values by NAME and outputs by name.  Given the static tables
`TG vid` / `OG vid` (the `(name, property)` pairs of the `@tag`s / `@output`s written at the node
numbered `vid`, in the order the specification binds them), the assignment of a context is a
*function* of its `vertices` map:

    abs c = ⟨ c.vertices.flatMap (vid, x) ↦ tags of TG vid at x ,
              c.vertices.flatMap (vid, x) ↦ outputs of OG vid at x ⟩

so recording a vertex on the engine side is exactly `bindProps` on the specification side.
-/
import TrustfallModel.Proofs.InterpSpec.SpecO

namespace TF.InterpSpec
open TF TF.Engine TF.Spec

@[simp] theorem R_bind_eq {α β : Type} (x : R α) (f : α → R β) : (x >>= f) = x.bind f := rfl
@[simp] theorem R_pure_eq {α : Type} (a : α) : (pure a : R α) = .ok a := rfl

/-- Pointwise relation between two lists of the same length. -/
inductive Forall2 {α β : Type} (r : α → β → Prop) : List α → List β → Prop
  | nil : Forall2 r [] []
  | cons {a b as bs} : r a b → Forall2 r as bs → Forall2 r (a :: as) (b :: bs)

theorem Forall2.mono {α β : Type} {r s : α → β → Prop} {as bs} (h : Forall2 r as bs)
    (hrs : ∀ a b, r a b → s a b) : Forall2 s as bs := by
  induction h with
  | nil => exact .nil
  | cons h _ ih => exact .cons (hrs _ _ h) ih

/-- Everything fixed during one correspondence proof: dataset, arguments, the specification's edge
declarations, the component being executed, and the static tag/output tables. -/
structure World where
  D : Data
  args : List (Name × Value)
  edges : List EdgeDecl
  comp : Component
  TG : Vid → List (Name × Name)
  OG : Vid → List (Name × Name)
  /-- whether the engine's fold-count shortcuts are enabled (irrelevant without folds) -/
  lim : Bool := false

namespace World

def env (W : World) : Env := { Env.ofData W.D W.args with useLimits := W.lim }
def senv (W : World) : SpecEnv := ⟨W.D, W.args, W.edges⟩

@[simp] theorem senv_data (W : World) : W.senv.data = W.D := rfl
@[simp] theorem senv_args (W : World) : W.senv.args = W.args := rfl
@[simp] theorem env_args (W : World) : W.env.args = W.args := rfl
@[simp] theorem env_regex (W : World) : W.env.regex = W.D.regex := rfl
@[simp] theorem env_prop (W : World) (vid t f v) : W.env.adapter.prop vid t f v = .ok (W.D.propOpt v f) := rfl
@[simp] theorem env_nbrs (W : World) (eid t e ps v) :
    W.env.adapter.nbrs eid t e ps v = .ok (W.D.nbrsOpt v e ps) := rfl
@[simp] theorem env_coerce (W : World) (vid t to v) :
    W.env.adapter.coerce vid t to v = .ok (match v with | some x => W.D.isA x to | none => false) := rfl
@[simp] theorem env_useLimits (W : World) : W.env.useLimits = W.lim := rfl

def tagsAt (W : World) (p : Vid × Option VertexId) : List (Name × Tagged) := tagBinds W.D p.2 (W.TG p.1)
def outsAt (W : World) (p : Vid × Option VertexId) : List (Name × Value) := outBinds W.D p.2 (W.OG p.1)

def absV (W : World) (vs : List (Vid × Option VertexId)) : Asg :=
  ⟨vs.flatMap W.tagsAt, vs.flatMap W.outsAt⟩

/-- The assignment a context stands for. -/
def abs (W : World) (c : Ctx) : Asg := W.absV c.vertices

theorem absV_snoc (W : World) (vs : List (Vid × Option VertexId)) (vid : Vid) (x : Option VertexId) :
    W.absV (vs ++ [(vid, x)]) =
      ⟨(W.absV vs).tags ++ tagBinds W.D x (W.TG vid), (W.absV vs).outs ++ outBinds W.D x (W.OG vid)⟩ := by
  simp [absV, tagsAt, outsAt]

/-- `bindProps` at a node whose tags/outputs are the table entries of `vid` = recording `vid`. -/
theorem bindProps_abs (W : World) (vs : List (Vid × Option VertexId)) (vid : Vid)
    (x : Option VertexId) (fields : List QField)
    (ht : W.TG vid = tagPairs fields) (ho : W.OG vid = outPairs fields) :
    bindProps W.senv x fields (W.absV vs) = W.absV (vs ++ [(vid, x)]) := by
  rw [bindProps_eq, absV_snoc, ht, ho]; rfl

end World

/-- The Vids recorded in a context, in recording order. -/
def keys (c : Ctx) : List Vid := c.vertices.map (·.1)

/-- All tag names of the tables of the listed Vids. -/
def tagNames (W : World) (L : List Vid) : List Name := L.flatMap fun w => (W.TG w).map (·.1)

theorem find?_of_mem_nodup {β : Type} {l : List (Name × β)} {k : Name} {b : β}
    (hn : (l.map (·.1)).Nodup) (hm : (k, b) ∈ l) : l.find? (·.1 == k) = some (k, b) := by
  induction l with
  | nil => cases hm
  | cons p rest ih =>
    simp only [List.map_cons, List.nodup_cons] at hn
    rcases List.mem_cons.1 hm with h | h
    · subst h; simp
    · have hne : p.1 ≠ k := by
        intro he
        apply hn.1
        rw [he]
        exact List.mem_map.2 ⟨(k, b), h, rfl⟩
      simp [List.find?_cons, hne, ih hn.2 h]

theorem vertexAt?_of_mem {vs : List (Vid × Option VertexId)} {w : Vid} {x : Option VertexId}
    (hn : (vs.map (·.1)).Nodup) (hm : (w, x) ∈ vs) :
    (vs.find? (·.1 == w)).map (·.2) = some x := by
  induction vs with
  | nil => cases hm
  | cons p rest ih =>
    simp only [List.map_cons, List.nodup_cons] at hn
    rcases List.mem_cons.1 hm with h | h
    · subst h; simp
    · have hne : p.1 ≠ w := by
        intro he
        apply hn.1
        rw [he]
        exact List.mem_map.2 ⟨(w, x), h, rfl⟩
      simp [List.find?_cons, hne, ih hn.2 h]

/-- Looking a tag up by name in the assignment of a vertex map: the binding made at the Vid whose
table has the name. -/
theorem absV_tag? (W : World) {vs : List (Vid × Option VertexId)} {w : Vid} {x : Option VertexId}
    {t fld : Name} (hn : (tagNames W (vs.map (·.1))).Nodup) (hm : (w, x) ∈ vs)
    (ht : (t, fld) ∈ W.TG w) : (W.absV vs).tag? t = some (tagOf W.D x fld) := by
  unfold Asg.tag?
  have hmem : (t, tagOf W.D x fld) ∈ (W.absV vs).tags := by
    simp only [World.absV, List.mem_flatMap]
    refine ⟨(w, x), hm, ?_⟩
    simp only [World.tagsAt, tagBinds, List.mem_map]
    exact ⟨(t, fld), ht, rfl⟩
  have hnd : ((W.absV vs).tags.map (·.1)).Nodup := by
    have : (W.absV vs).tags.map (·.1) = tagNames W (vs.map (·.1)) := by
      simp only [World.absV, tagNames, List.map_flatMap, List.flatMap_map, World.tagsAt, tagBinds,
        List.map_map]
      rfl
    rw [this]; exact hn
  rw [find?_of_mem_nodup hnd hmem]; rfl

end TF.InterpSpec
