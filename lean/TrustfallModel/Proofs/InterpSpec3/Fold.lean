/-
C01 main theorem, fragment F3: `compute_fold` on ONE context, piece by piece (imported tags: none;
fold-count limits: disabled).
-/
import TrustfallModel.Proofs.InterpSpec3.Rec

namespace TF.InterpSpec
open TF TF.Engine TF.Spec

theorem foldLimits_off (W : World) (hl : W.lim = false) (parent : Component) (f : Fold) :
    foldLimits W.env parent f = .ok (none, none) := by
  simp [foldLimits, hl]

/-- `compute_fold` on one context: activate the source vertex, compute the sub-component from its
neighbours, finish. -/
theorem computeFold_single (W : World) (hl : W.lim = false) (fuel : Nat) (f : Fold) (c : Ctx)
    {fromV : IRVertex} (hf : W.comp.vertex? f.fromVid = some fromV) (himp : f.imports = [])
    {v : Option VertexId} (hv : c.vertexAt? f.fromVid = some v) :
    computeFold W.env fuel W.comp f [c] =
      ((computeComponent W.env fuel f.component
          (foldStart { c with active := v } (W.D.nbrsOpt v f.name f.params))).bind
        (foldFinish W.env W.comp f (none, none) { c with active := v })).bind
        fun o => .ok o.toList := by
  rw [computeFold]
  simp only [hf, himp, importTags, mapR_single, R.bind_ok, activate_of_vertexAt hv,
    foldLimits_off W hl, filterMapR_single]
  rw [foldOne]
  simp only [World.env_nbrs, R.bind_ok]

theorem computeFold_nil (W : World) (hl : W.lim = false) (fuel : Nat) (f : Fold)
    {fromV : IRVertex} (hf : W.comp.vertex? f.fromVid = some fromV) :
    computeFold W.env fuel W.comp f [] = .ok [] := by
  rw [computeFold]
  simp [hf, mapR, foldLimits_off W hl, filterMapR]

theorem removeTags_nil (c : Ctx) : removeTags [] c = .ok c := rfl

/-- `foldFinish` when the source vertex exists. -/
theorem foldFinish_some (W : World) (f : Fold) (c : Ctx) (computed : List Ctx) {x : VertexId}
    (hv : c.vertexAt? f.fromVid = some (some x)) (hfresh : c.foldCount? f.eid = none)
    (himp : f.imports = []) :
    foldFinish W.env W.comp f (none, none) c computed =
      (applyPostFilters W.env W.comp f f.post
          { c with foldCounts := c.foldCounts ++ [(f.eid, some computed.length)] }).bind fun o =>
        match o with
        | some c3 =>
          (foldOutputs W.env f (some computed)).bind fun news =>
            (mergeFolded c3 news).bind fun c4 => .ok (some c4)
        | none => .ok none := by
  simp only [foldFinish, hv, Option.isSome_some, if_true, collectFoldElements, Option.map_some, hfresh,
    Option.isSome_none, Bool.false_eq_true, if_false, himp, removeTags_nil, R_bind_eq, R.bind_ok,
    R_pure_eq]
  cases applyPostFilters W.env W.comp f f.post
      { c with foldCounts := c.foldCounts ++ [(f.eid, some computed.length)] } with
  | ok o => cases o <;> rfl
  | panic s => rfl
  | fuel => rfl

/-- `foldFinish` when the source vertex does not exist (missing optional scope) and the fold has no
post-filter (F-9 guard): the fold "does not exist". -/
theorem foldFinish_none (W : World) (f : Fold) (c : Ctx) (computed : List Ctx)
    (hv : c.vertexAt? f.fromVid = some none) (hfresh : c.foldCount? f.eid = none)
    (himp : f.imports = []) (hpost : f.post = []) :
    foldFinish W.env W.comp f (none, none) c computed =
      (foldOutputs W.env f none).bind fun news =>
        (mergeFolded { c with foldCounts := c.foldCounts ++ [(f.eid, none)] } news).bind fun c4 =>
          .ok (some c4) := by
  simp only [foldFinish, hv, Option.isSome_none, Bool.false_eq_true, if_false, hfresh, himp,
    removeTags_nil, R_bind_eq, R.bind_ok, hpost, applyPostFilters, R_pure_eq, Option.map_none]

end TF.InterpSpec
