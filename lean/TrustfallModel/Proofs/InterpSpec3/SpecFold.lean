/-
C01 main theorem, fragment F3, specification side: the `@fold` clause of `evalEdge` through
`toOption`, in closed form.
-/
import TrustfallModel.Proofs.InterpSpec3.Fold

namespace TF.InterpSpec
open TF TF.Engine TF.Spec

def countTagNames : List FDir → List Name
  | [] => []
  | .countTag n :: rest => n :: countTagNames rest
  | _ :: rest => countTagNames rest

def countOutNames : List FDir → List Name
  | [] => []
  | .countOutput n :: rest => n :: countOutNames rest
  | _ :: rest => countOutNames rest

def countFilterPairs : List FDir → List (FOp × QArg)
  | [] => []
  | .countFilter op arg :: rest => (op, arg) :: countFilterPairs rest
  | _ :: rest => countFilterPairs rest

/-- The result assignment of a fold that exists, with `count` elements `elems`. -/
def foldAsg (a : Asg) (fds : List FDir) (names : List Name) (elems : List Asg) : Asg :=
  let count := Value.uint64 (UInt64.ofNat elems.length)
  ⟨a.tags ++ (countTagNames fds).map fun n => (n, Tagged.some count),
    a.outs ++ ((countOutNames fds).map fun n => (n, count)) ++
      names.map fun n => (n, Value.list (elems.map fun e => lookupOut e.outs n))⟩

/-- The result assignment of a fold that does not exist (missing scope). -/
def foldAsgNone (a : Asg) (fds : List FDir) (names : List Name) : Asg :=
  ⟨a.tags ++ (countTagNames fds).map fun n => (n, Tagged.nonexistent),
    a.outs ++ (names.map fun n => (n, Value.null)) ++ (countOutNames fds).map fun n => (n, Value.null)⟩

theorem evalEdge_fold_none (env : SpecEnv) (fuel : Nat) (owners : List Name) (name : Name)
    (params : Params) (fds : List FDir) (child : QNode) (a : Asg) :
    evalEdge env fuel owners name params (.fold fds) child none a =
      .ok [foldAsgNone a fds (outNames child)] := by
  simp only [evalEdge, foldAsgNone]
  congr 2
  generalize (⟨a.tags, a.outs ++ List.map (fun n => (n, Value.null)) (outNames child)⟩ : Asg) = a1
  have key : ∀ (b : Asg), fds.foldl (fun (acc : Asg) d =>
      match d with
      | .countOutput n => { acc with outs := acc.outs ++ [(n, Value.null)] }
      | .countTag n => { acc with tags := acc.tags ++ [(n, Tagged.nonexistent)] }
      | .countFilter _ _ => acc) b =
      ⟨b.tags ++ (countTagNames fds).map (fun n => (n, Tagged.nonexistent)),
        b.outs ++ (countOutNames fds).map fun n => (n, Value.null)⟩ := by
    induction fds with
    | nil => intro b; simp [countTagNames, countOutNames]
    | cons d rest ih =>
      intro b
      rw [List.foldl_cons, ih]
      cases d <;> simp [countTagNames, countOutNames]
  trace_state
  sorry

end TF.InterpSpec
