/-
C01 main theorem, static part (with folds): a successful run of phase A of the frontend, under the
hypotheses `hyps3Node` and with no imported tags, yields the certificate `NodeCert` for the finished
component — including, for every `@fold`, the certificate of the fold's component.
-/
import TrustfallModel.Proofs.InterpSpec3.StaticCertAux

namespace TF.InterpSpec
open TF TF.Engine TF.Spec TF.Frontend

/-- Every vertex record has been resolved (phase B) against a prefix of the tag table `T` into the
IR vertex found in the component. -/
def HV (W : World) (T : List TagEntry) (path : List Vid) (verts : List VertexRec) : Prop :=
  ∀ r ∈ verts, ∃ fs ev stX stY, (∀ e ∈ stX.tags, e ∈ T) ∧
    resolveFilters path r.vid r.pending stX = .ok (fs, ev, stY) ∧
    W.comp.vertex? r.vid = some ⟨r.vid, r.typeName, r.coercedFrom, fs⟩

/-- What a run contributes to the component, in stage order. -/
structure RunFacts (W : World) (vid : Vid) (fields : List QField) (acc : Acc) (ss : List Stage)
    (evs : List Ev) (e0 e1 : Nat) : Prop where
  edges : ss.filterMap stEdge? = acc.edges
  folds : ss.filterMap stFold? = acc.folds
  evsEq : evs = ss.map evOf
  sortedE : (ss.map stEid).Pairwise (· < ·)
  bounds : ∀ s ∈ ss, e0 ≤ stEid s ∧ stEid s < e1
  keysOK : ∀ f ∈ acc.folds, ((foldKeys f).map (·.2)).Perm (W.CO f.eid ++ W.ON f.eid)
  outsP : (acc.outs.map fun o => (o.name, o.vid, o.field)).Perm
      (((outPairs fields).map fun p => (p.1, vid, p.2)) ++ outTriples W (vtxs evs))

theorem Forall2.mono_mem {α β : Type} {r s : α → β → Prop} {as : List α} {bs : List β}
    (h : Forall2 r as bs) (hrs : ∀ a ∈ as, ∀ b, r a b → s a b) : Forall2 s as bs := by
  induction h with
  | nil => exact .nil
  | cons h _ ih =>
    exact .cons (hrs _ (List.mem_cons_self ..) _ h)
      (ih fun a ha b hr => hrs a (List.mem_cons_of_mem _ ha) b hr)

theorem refOK_vertex {W : World} {L : List Ev} {vid : Vid} (hfresh : Ev.vtx vid ∉ L) {t : Name}
    {r : FieldRef} (h : RefOK W L (.vtx vid) t r) : TRefAt W vid L t r := by
  rcases h with ⟨w, fld, ty, rfl, hm, hw, hs⟩ | ⟨e, root, rfl, hm, hw, hs⟩
  · left
    refine ⟨w, fld, ty, rfl, hm, ?_⟩
    rcases hw with hw | hw
    · left; simpa using hw
    · right
      refine ⟨hw, ?_, hs⟩
      intro he; subst he; exact hfresh hw
  · right
    rcases hw with hw | hw
    · cases hw
    · exact ⟨e, root, rfl, hm, hw, hs⟩

theorem refOK_post {W : World} {L : List Ev} {vid : Vid} {eid : Eid} {t : Name}
    {r : FieldRef} (h : RefOK W L (.fold eid) t r) : TRefPost W vid L eid t r := by
  rcases h with ⟨w, fld, ty, rfl, hm, hw, hs⟩ | ⟨e, root, rfl, hm, hw, hs⟩
  · left; left
    refine ⟨w, fld, ty, rfl, hm, ?_⟩
    rcases hw with hw | hw
    · cases hw
    · by_cases he : w = vid
      · exact Or.inl he
      · exact Or.inr ⟨hw, he, hs⟩
  · rcases hw with hw | hw
    · right
      have : e = eid := by simpa using hw
      subst this
      exact ⟨root, rfl, hm⟩
    · left; right
      exact ⟨e, root, rfl, hm, hw, hs⟩

theorem kindIn3_edgeKindOK (S : SchemaView) (H : HypEnv) (hS : H.S = S) (W : World) (he : EnvOK H W)
    {ty : Name} {ed : EdgeInfo} {kind : Kind} (hk : ∀ fds, kind = .fold fds → False)
    {r : Option Recursive} (h : recursiveOf S ty ed kind = .ok r)
    (eid fromVid toVid : Nat) (n : Name) (params ps : Params)
    (hrec : recOK H ty ed n params ps kind = true) :
    EdgeKindOK W n params kind ⟨eid, fromVid, toVid, n, ps, isOptionalKind kind, r⟩ := by
  cases kind with
  | plain => simp [recursiveOf] at h; simp [EdgeKindOK, isOptionalKind, h]
  | optional => simp [recursiveOf] at h; simp [EdgeKindOK, isOptionalKind, h]
  | recurse d =>
    have h' := h
    simp only [recursiveOf, bind_ok, pure_ok, check_ok] at h'
    obtain ⟨_, hd, c, _, hr⟩ := h'
    subst hr
    simp only [recOK, hS, h, Bool.and_eq_true] at hrec
    refine ⟨⟨d, c⟩, rfl, rfl, ?_, ?_, ?_⟩
    · have : d ≠ 0 := by simpa using hd
      omega
    · rw [he.d]; exact recConvB_sound H.D _ _ hrec.1
    · exact paramsAgreeRecB_sound H W he.d he.a he.e n params ps hrec.2
  | fold fds => exact absurd rfl (hk fds)

end TF.InterpSpec

namespace TF.InterpSpec
open TF TF.Engine TF.Spec TF.Frontend

theorem vtx_not_mem_prefix {L R : List Ev} {cur : Ev}
    (hs : ((L ++ cur :: R).map evVid).Pairwise (· < ·)) : cur ∉ L := by
  intro hm
  rw [List.map_append, List.map_cons] at hs
  have := (List.pairwise_append.1 hs).2.2 (evVid cur) (List.mem_map.2 ⟨cur, hm, rfl⟩) (evVid cur)
    (List.mem_cons_self ..)
  exact Nat.lt_irrefl _ this

/-- The vertex-output names of a component's events form a duplicate-free list. -/
theorem outTriples_names_nodup (W : World) (L : List Ev) (h : (outNamesL W L).Nodup) :
    ((outTriples W (vtxs L)).map (·.1)).Nodup := by
  have hp := flatMap_events_perm (evOutNames W) L
  have hnd := hp.nodup_iff.1 h
  have : (outTriples W (vtxs L)).map (·.1) = (vtxs L).flatMap fun w => evOutNames W (.vtx w) := by
    simp [outTriples, List.map_flatMap, evOutNames, Function.comp_def]
  rw [this]
  exact (List.nodup_append.1 hnd).1

section
variable (S : SchemaView) (H : HypEnv) (hS : H.S = S) (T : List TagEntry)
  (tbl : List (Vid × List QField)) (ftbl : List (Eid × List FDir × QNode))
  (hT : TagsT T tbl ftbl)

include hS hT in
theorem cert_fill3 :
    (∀ path vid pre node st acc st', fillNode S path vid pre node st = .ok (acc, st') →
      ∀ (W : World) (miss : Bool) (L Rest AE : List Ev), EnvOK H W → TablesOK W tbl ftbl →
        CompOK W AE → hyps3Node H miss pre node = true → (treeOutputNames node).Nodup →
        st.nextVid = st.nextEid + 1 → AE = L ++ evsNode node vid st.nextVid ++ Rest →
        (∀ p ∈ tblNode node vid st.nextVid, p ∈ tbl) → (∀ p ∈ ftblNode node st.nextVid, p ∈ ftbl) →
        HV W T path acc.verts → (∀ f ∈ acc.folds, f ∈ W.comp.folds) → (∀ e ∈ st'.tags, e ∈ T) →
        ∃ ss, NodeCert W miss node vid L ss (evsNode node vid st.nextVid) ∧
          RunFacts W vid (nodeFields node) acc ss (evsFields (nodeFields node) st.nextVid)
            st.nextEid st'.nextEid) ∧
    (∀ path vid ty fields st acc st', fillFields S path vid ty fields st = .ok (acc, st') →
      ∀ (W : World) (miss : Bool) (L Rest AE : List Ev), EnvOK H W → TablesOK W tbl ftbl →
        CompOK W AE → hyps3Fields H miss ty fields = true → (fieldsOutputNames fields).Nodup →
        st.nextVid = st.nextEid + 1 → Ev.vtx vid ∈ L → (W.comp.vertex? vid).isSome →
        AE = L ++ evsFields fields st.nextVid ++ Rest →
        (∀ p ∈ tblFields fields st.nextVid, p ∈ tbl) → (∀ p ∈ ftblFields fields st.nextVid, p ∈ ftbl) →
        HV W T path acc.verts → (∀ f ∈ acc.folds, f ∈ W.comp.folds) → (∀ e ∈ st'.tags, e ∈ T) →
        ∃ ss, FieldsCert W miss fields vid L ss (evsFields fields st.nextVid) ∧
          RunFacts W vid fields acc ss (evsFields fields st.nextVid) st.nextEid st'.nextEid) := by
  apply fill_induct S
    (P1 := fun path vid pre node st acc st' =>
      ∀ (W : World) (miss : Bool) (L Rest AE : List Ev), EnvOK H W → TablesOK W tbl ftbl →
        CompOK W AE → hyps3Node H miss pre node = true → (treeOutputNames node).Nodup →
        st.nextVid = st.nextEid + 1 → AE = L ++ evsNode node vid st.nextVid ++ Rest →
        (∀ p ∈ tblNode node vid st.nextVid, p ∈ tbl) → (∀ p ∈ ftblNode node st.nextVid, p ∈ ftbl) →
        HV W T path acc.verts → (∀ f ∈ acc.folds, f ∈ W.comp.folds) → (∀ e ∈ st'.tags, e ∈ T) →
        ∃ ss, NodeCert W miss node vid L ss (evsNode node vid st.nextVid) ∧
          RunFacts W vid (nodeFields node) acc ss (evsFields (nodeFields node) st.nextVid)
            st.nextEid st'.nextEid)
    (P2 := fun path vid ty fields st acc st' =>
      ∀ (W : World) (miss : Bool) (L Rest AE : List Ev), EnvOK H W → TablesOK W tbl ftbl →
        CompOK W AE → hyps3Fields H miss ty fields = true → (fieldsOutputNames fields).Nodup →
        st.nextVid = st.nextEid + 1 → Ev.vtx vid ∈ L → (W.comp.vertex? vid).isSome →
        AE = L ++ evsFields fields st.nextVid ++ Rest →
        (∀ p ∈ tblFields fields st.nextVid, p ∈ tbl) → (∀ p ∈ ftblFields fields st.nextVid, p ∈ ftbl) →
        HV W T path acc.verts → (∀ f ∈ acc.folds, f ∈ W.comp.folds) → (∀ e ∈ st'.tags, e ∈ T) →
        ∃ ss, FieldsCert W miss fields vid L ss (evsFields fields st.nextVid) ∧
          RunFacts W vid fields acc ss (evsFields fields st.nextVid) st.nextEid st'.nextEid)
  · -- node
    intro path vid pre ct fields st post acc1 st' hco hfill ih W miss L Rest AE he htab hc hh hon h0 hA
      htbl hftbl hv hf hTs
    simp only [hyps3Node, hS, hco, Bool.and_eq_true] at hh
    obtain ⟨⟨hord, hvar⟩, hfields⟩ := hh
    obtain ⟨fs, ev, stX, stY, hTX, hres, hV⟩ :=
      hv ⟨vid, post, ct.map fun _ => pre, nodeFilters S post fields⟩ (by simp)
    simp only at hres hV
    have hA' : AE = L ++ Ev.vtx vid :: (evsFields fields st.nextVid ++ Rest) := by
      rw [hA]; simp [evsNode]
    have hs := hc.sorted
    rw [hA'] at hs
    have hfresh : Ev.vtx vid ∉ L := vtx_not_mem_prefix hs
    have hpt : pendingTriples (nodeFilters S post fields) = specFilters fields := by
      simpa [filtersInOrder] using hord
    have hVmem : (⟨vid, post, ct.map fun _ => pre, fs⟩ : IRVertex) ∈ W.comp.vertices :=
      List.mem_of_find?_eq_some hV
    have htok := wfTagsC_vertex hc.wft hVmem
    have hF2 := resolveFilters_ArgOK H W he hT htab hc hA' (cur := .vtx vid) (useVid := vid) rfl hres
      hTX (fun flt hflt r hr => tagsOkAt_tag htok hflt hr) (by rw [hpt]; exact hvar)
    have hFOK : Forall2 (FilterOK W (TRefAt W vid L)) (specFilters fields) fs := by
      rw [← hpt]
      apply Forall2.of_map (g := fun pf : PendingFilter => (leftName pf.left, pf.op, pf.arg))
      refine hF2.mono_mem ?_
      intro pf hpf f ⟨hl, ha⟩
      obtain ⟨ty, hty⟩ := nodeFilters_left S post fields pf hpf
      exact ⟨⟨ty, by rw [hl, hty]⟩, ha.mono fun t r hr => refOK_vertex hfresh hr⟩
    obtain ⟨ss, hcert, hrf⟩ := ih W miss (L ++ [.vtx vid]) Rest AE he htab hc hfields
      (by simpa [treeOutputNames] using hon) h0 (by simp)
      (by rw [hV]; rfl) (by rw [hA']; simp)
      (fun p hp => htbl p (by simp [tblNode, hp])) (fun p hp => hftbl p (by simpa [ftblNode] using hp))
      (fun r hr => hv r (by simp [hr])) (fun f hf' => hf f (by simpa using hf')) hTs
    refine ⟨ss, ?_, ?_⟩
    · unfold NodeCert
      refine ⟨_, evsFields fields st.nextVid, rfl, hV, rfl, ?_, hFOK,
        (htab.tg vid fields (htbl _ (by simp [tblNode]))).1,
        (htab.tg vid fields (htbl _ (by simp [tblNode]))).2, hcert⟩
      cases ct with
      | none => simp [CoerceOK]
      | some c => exact ⟨⟨pre, rfl⟩, coerce_some hco⟩
    · exact ⟨by simpa using hrf.edges, by simpa using hrf.folds, hrf.evsEq, hrf.sortedE, hrf.bounds,
        fun f hf' => hrf.keysOK f (by simpa using hf'), by simpa [nodeFields] using hrf.outsP⟩
  · -- nil
    intro path vid ty st W miss L Rest AE _ _ _ _ _ _ _ _ _ _ _ _ _ _
    refine ⟨[], ?_, ?_⟩
    · unfold FieldsCert; exact ⟨rfl, rfl⟩
    · exact ⟨rfl, rfl, rfl, by simp, by simp, by simp, by simp [outPairs, evsFields, outTriples]⟩
  · -- prop
    intro path vid ty n dirs rest st pty st1 acc1 st' _ h2 _ ih W miss L Rest AE he htab hc hh hon h0 hvL
      hvS hA htbl hftbl hv hf hTs
    obtain ⟨e1, e2, _, _⟩ := registerTags_inv h2
    obtain ⟨ss, hcert, hrf⟩ := ih W miss L Rest AE he htab hc (by simpa [hyps3Fields] using hh)
      (by
        have := outputDirs_names vid n pty dirs rest
        rw [← this] at hon
        exact (List.nodup_append.1 hon).2.1)
      (by rw [e1, e2]; exact h0) hvL hvS (by simpa [evsFields, e1] using hA)
      (fun p hp => htbl p (by simpa [tblFields, e1] using hp))
      (fun p hp => hftbl p (by simpa [ftblFields, e1] using hp))
      (fun r hr => hv r (by simpa using hr)) (fun f hf' => hf f (by simpa using hf')) hTs
    rw [e1] at hcert
    rw [e1, e2] at hrf
    refine ⟨ss, ?_, ?_⟩
    · unfold FieldsCert; simpa [evsFields] using hcert
    · refine ⟨by simpa using hrf.edges, by simpa using hrf.folds, by simpa [evsFields] using hrf.evsEq,
        hrf.sortedE, hrf.bounds, fun f hf' => hrf.keysOK f (by simpa using hf'), ?_⟩
      simp only [Acc.append_outs, List.map_append, outputDirs_triples, outPairs, evsFields,
        List.append_assoc]
      exact List.Perm.append_left _ hrf.outsP
  · -- fold
    sorry
  · -- plain / optional / recursive edge
    sorry
end

end TF.InterpSpec
