/-
C01 main theorem: the hypotheses of the fold-free fragments (`Hyps … frag q`, frag ≤ 2) imply
those of the general theorem (`Hyps3`), so F0–F2 are instances of the theorem with folds.
-/
import TrustfallModel.Proofs.InterpSpec4.Main

namespace TF.InterpSpec
open TF TF.Engine TF.Spec TF.Frontend

mutual
theorem noFold_of_frag : ∀ (node : QNode), fragNode node ≤ 2 → noFold node = true
  | .mk ct fields, h => by
    simp only [fragNode] at h
    simpa [noFold] using noFoldFields_of_frag fields h
theorem noFoldFields_of_frag : ∀ (fields : List QField), fragFields fields ≤ 2 →
    noFoldFields fields = true
  | [], _ => rfl
  | .prop _ _ :: rest, h => by
    simp only [fragFields] at h
    simpa [noFoldFields] using noFoldFields_of_frag rest h
  | .edge _ _ kind child :: rest, h => by
    simp only [fragFields] at h
    have h1 : fragNode child ≤ 2 := by omega
    have h2 : fragFields rest ≤ 2 := by omega
    simp only [noFoldFields, noFold_of_frag child h1, noFoldFields_of_frag rest h2, Bool.and_true]
    cases kind with
    | fold fds => simp only at h; omega
    | plain => rfl
    | optional => rfl
    | recurse d => rfl
end

mutual
theorem hyps3Node_of_hyps (H : HypEnv) (frag : Nat) (hfr : frag ≤ 2) :
    ∀ (node : QNode) (pre : Name), hypsNode H frag pre node = true →
    hyps3Node H pre node = true
  | .mk ct fields, pre, h => by
    simp only [hypsNode, hyps3Node] at h ⊢
    cases hc : coerce H.S pre ct with
    | error e => rfl
    | ok post =>
      simp only [hc, Bool.and_eq_true] at h ⊢
      exact ⟨h.1, hyps3Fields_of_hyps H frag hfr fields post h.2⟩
theorem hyps3Fields_of_hyps (H : HypEnv) (frag : Nat) (hfr : frag ≤ 2) :
    ∀ (fields : List QField) (ty : Name), hypsFields H frag ty fields = true →
    hyps3Fields H ty fields = true
  | [], _, _ => rfl
  | .prop _ _ :: rest, ty, h => by
    simp only [hypsFields, hyps3Fields] at h ⊢
    exact hyps3Fields_of_hyps H frag hfr rest ty h
  | .edge n params kind child :: rest, ty, h => by
    simp only [hypsFields, hyps3Fields, Bool.and_eq_true] at h ⊢
    refine ⟨?_, hyps3Fields_of_hyps H frag hfr rest ty h.2⟩
    cases he : H.S.edge? ty n with
    | none => rfl
    | some ed =>
      cases hp : Frontend.completeParams ed.params params with
      | error e => simp [hp]
      | ok ps =>
        have h1 := h.1
        simp only [he, hp, Bool.and_eq_true] at h1 ⊢
        obtain ⟨⟨⟨hk, hpa⟩, hro⟩, hch⟩ := h1
        refine ⟨⟨hpa, hro⟩, ?_⟩
        cases kind with
        | fold fds => simp [kindIn] at hk; omega
        | plain => exact hyps3Node_of_hyps H frag hfr child ed.target hch
        | optional => exact hyps3Node_of_hyps H frag hfr child ed.target hch
        | recurse d => exact hyps3Node_of_hyps H frag hfr child ed.target hch
end

theorem hyps3B_of_hypsB (H : HypEnv) (frag : Nat) (hfr : frag ≤ 2) (q : Query)
    (h : hypsB H frag q = true) : hyps3B H q = true := by
  simp only [hypsB, hyps3B] at h ⊢
  cases hr : H.S.root? q.rootEdge with
  | none => rfl
  | some root =>
    cases hp : Frontend.completeParams root.params q.rootParams with
    | error e => simp [hp]
    | ok rootParams =>
      simp only [hr, hp, Bool.and_eq_true] at h ⊢
      exact ⟨h.1, hyps3Node_of_hyps H frag hfr q.root root.target h.2⟩

/-- **Fragments F0–F2** as instances of the theorem with folds; the fold-count limits are
irrelevant (any `lim`). -/
theorem interp_eq_spec_core (S : SchemaView) (q : Query) (ir : IRQuery) (D : Data)
    (args : List (Name × Value)) (edges : List EdgeDecl) (lim : Bool) (frag : Nat) (hfr : frag ≤ 2)
    (h : toIR S q = .ok ir) (hfrag : fragNode q.root ≤ frag) (hh : Hyps ⟨S, D, args, edges⟩ frag q) :
    (interpret { Env.ofData D args with useLimits := lim } ir).toOption =
      (Spec.rows ⟨D, args, edges⟩ q).toOption := by
  have hnf := noFold_of_frag q.root (by omega)
  exact interp_eq_spec_F3a_core S q ir D args edges lim (Or.inr hnf) h
    (hyps3B_of_hypsB _ frag hfr q hh)

end TF.InterpSpec
