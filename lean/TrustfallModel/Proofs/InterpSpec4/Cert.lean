/-
C01 main theorem, layer 5 (with folds): the static certificate.

`NodeCert W node vid L ss evs`: the sub-tree `node`, numbered `vid`, entered when the events `L`
are already recorded, is compiled to the vertex records of `W.comp` and to the stage list `ss`
(Eid order = DFS pre-order; an edge stage or a fold stage) which records the events `evs`
(`vtx vid` first).
-/
import TrustfallModel.Proofs.InterpSpec4.SpecFold

namespace TF.InterpSpec
open TF TF.Engine TF.Spec

/-- The specification's completed parameters select the same neighbours as the IR's. -/
def ParamsAgree (W : World) (n : Name) (params ps : Params) : Prop :=
  ∀ x, W.D.nbrs x n (Spec.completeParams (declParams W.senv (W.D.supers (W.D.typeOf x)) n) params) =
    W.D.nbrs x n ps

/-- For a recursion the specification completes the parameters once, from the declaration found
from the STARTING vertex' type, and uses them at every depth. -/
def ParamsAgreeRec (W : World) (n : Name) (params ps : Params) : Prop :=
  ∀ x, W.D.nbrs x n ps ≠ [] → ∀ y,
    W.D.nbrs y n (Spec.completeParams (declParams W.senv (W.D.supers (W.D.typeOf x)) n) params) =
      W.D.nbrs y n ps

/-- What the certificate records about a non-fold edge kind. -/
def EdgeKindOK (W : World) (n : Name) (params : Params) (kind : Kind) (e : IREdge) : Prop :=
  match kind with
  | .plain => e.optional = false ∧ e.recursive = none
  | .optional => e.optional = true ∧ e.recursive = none
  | .recurse d => ∃ r, e.recursive = some r ∧ r.depth = d ∧ 1 ≤ d ∧ RecConv W.D e r ∧
      ParamsAgreeRec W n params e.params
  | .fold _ => False

/-- The reference is not to something of this component (it must be imported). -/
def NotLocal (W : World) : FieldRef → Prop
  | .ctx w _ _ => W.comp.vertex? w = none
  | .fcount e _ => W.comp.folds.any (·.eid == e) = false

/-- How a tag name used at vertex `vid` (events `L` recorded before) is compiled: a property of
this vertex or of an earlier vertex of the component, the count of an earlier fold of the
component, or a tag imported by an enclosing fold. -/
def TRefAt (W : World) (vid : Vid) (L : List Ev) (t : Name) (r : FieldRef) : Prop :=
  (∃ w fld ty, r = .ctx w fld ty ∧ (t, fld) ∈ W.TG w ∧
      (w = vid ∨ (Ev.vtx w ∈ L ∧ w ≠ vid ∧ (W.comp.vertex? w).isSome))) ∨
  (∃ e root, r = .fcount e root ∧ t ∈ W.CT e ∧ Ev.fold e ∈ L ∧
      W.comp.folds.any (·.eid == e) = true) ∨
  (r ∈ W.chain ∧ W.NR t r ∧ NotLocal W r)

/-- A tag of the parent component that a fold can import when the events `L` are recorded. -/
def Importable (W : World) (L : List Ev) : FieldRef → Prop
  | .ctx w _ _ => Ev.vtx w ∈ L ∧ (W.comp.vertex? w).isSome
  | .fcount e _ => Ev.fold e ∈ L

/-- The tag names of the reference are bound, in the component, to what the reference denotes. -/
def NRLocal (W : World) (r : FieldRef) : Prop :=
  ∀ t, W.NR t r →
    match r with
    | .ctx w fld _ => (t, fld) ∈ W.TG w
    | .fcount e _ => t ∈ W.CT e

/-- How a tag name used in a post-filter of the fold `eid` (source vertex `vid`) is compiled: as at
the source vertex, or the fold's own count. -/
def TRefPost (W : World) (vid : Vid) (L : List Ev) (eid : Eid) (t : Name) (r : FieldRef) : Prop :=
  TRefAt W vid L t r ∨ (∃ root, r = .fcount eid root ∧ t ∈ W.CT eid)

def foldKeys (f : Fold) : List (Eid × Name) :=
  (f.fouts.map fun n => (f.eid, n)) ++ (f.component.outputs.map fun o => (f.eid, o.name)) ++
    nestedKeys f.component

/-- The world of a fold's component. -/
def World.inner (W : World) (f : Fold) : World :=
  { W with comp := f.component, chain := f.imports ++ W.chain }

/-- `(output name, Vid, property)` for every `@output` of the listed nodes. -/
def outTriples (W : World) (vs : List Vid) : List (Name × Vid × Name) :=
  vs.flatMap fun w => (W.OG w).map fun p => (p.1, w, p.2)

/-- The component's output map is the table `OG` (up to order), with distinct names. -/
structure OutsOK (W : World) (vs : List Vid) : Prop where
  perm : (W.comp.outputs.map fun o => (o.name, o.vid, o.field)).Perm (outTriples W vs)
  names : (W.comp.outputs.map (·.name)).Nodup
  verts : ∀ o ∈ W.comp.outputs, (W.comp.vertex? o.vid).isSome ∧ o.vid ∈ vs

/-- The static facts about one fold `f` (source vertex `vid`), its component compiled from `child`
with stage list `ssIn` recording `evsIn`. -/
structure FoldFacts (W : World) (n : Name) (params : Params) (fds : List FDir)
    (child : QNode) (vid : Vid) (L : List Ev) (f : Fold) (ssIn : List Stage) (evsIn : List Ev) :
    Prop where
  lim : W.lim = false
  from_ : f.fromVid = vid
  fromV : (W.comp.vertex? vid).isSome
  inComp : W.comp.folds.any (·.eid == f.eid) = true
  name : f.name = n
  params : ParamsAgree W n params f.params
  impLocal : ∀ r ∈ f.imports, Importable W L r ∧ NRLocal W r
  impNodup : (f.imports.map FieldRef.key).Nodup
  impFresh : ∀ r ∈ f.imports, r.key ∉ W.chain.map FieldRef.key
  ct : W.CT f.eid = countTagNames fds
  co : W.CO f.eid = countOutNames fds
  on : W.ON f.eid = outNames child
  fk : W.FK f.eid = foldKeys f
  fouts : f.fouts.Perm (countOutNames fds)
  post : Forall2 (fun p flt => ArgOK W (TRefPost W vid L f.eid) p.1 p.2 flt) (countFilterPairs fds) f.post
  root : f.component.root = f.toVid
  merge : mergeStages f.component.edges f.component.folds
      (f.component.edges.length + f.component.folds.length) = .ok ssIn
  outs : OutsOK (W.inner f) (vtxs evsIn)
  nested : (flds evsIn).flatMap W.FK = nestedKeys f.component
  onPerm : (outNamesL (W.inner f) evsIn).Perm (outNames child)
  itPerm : (deepTagNames (W.inner f) evsIn).Perm (W.IT f.eid)
  keysIn : KeysOK (W.inner f) evsIn
  toVid : f.toVid = f.eid + 1
  ndIn : (evsIn.map evVid).Nodup

mutual
def NodeCert (W : World) : QNode → Vid → List Ev → List Stage → List Ev → Prop
  | .mk ct fields, vid, L, ss, evs =>
    ∃ V evs', evs = .vtx vid :: evs' ∧ W.comp.vertex? vid = some V ∧ V.vid = vid ∧ CoerceOK ct V ∧
      Forall2 (FilterOK W (TRefAt W vid L)) (specFilters fields) V.filters ∧
      W.TG vid = tagPairs fields ∧ W.OG vid = outPairs fields ∧
      FieldsCert W fields vid (L ++ [.vtx vid]) ss evs'
def FieldsCert (W : World) :
    List QField → Vid → List Ev → List Stage → List Ev → Prop
  | [], _, _, ss, evs => ss = [] ∧ evs = []
  | .prop _ _ :: rest, vid, L, ss, evs => FieldsCert W rest vid L ss evs
  | .edge n params kind child :: rest, vid, L, ss, evs =>
    match kind with
    | .fold fds =>
      ∃ f ssR evsR ssIn evsIn, ss = .fold f :: ssR ∧ evs = .fold f.eid :: evsR ∧
        FoldFacts W n params fds child vid L f ssIn evsIn ∧
        NodeCert (W.inner f) child f.toVid [] ssIn evsIn ∧
        FieldsCert W rest vid (L ++ [.fold f.eid]) ssR evsR
    | _ =>
      ∃ e ssC ssR evsC evsR, ss = .edge e :: (ssC ++ ssR) ∧ evs = evsC ++ evsR ∧
        e.fromVid = vid ∧ (W.comp.vertex? vid).isSome ∧ e.name = n ∧ EdgeKindOK W n params kind e ∧
        ParamsAgree W n params e.params ∧
        NodeCert W child e.toVid L ssC evsC ∧
        FieldsCert W rest vid (L ++ evsC) ssR evsR
end

/-- What a node certificate says about the node's own vertex. -/
theorem NodeCert.dest {W : World} {node : QNode} {vid : Vid} {L : List Ev}
    {ss : List Stage} {evs : List Ev} (h : NodeCert W node vid L ss evs) :
    ∃ V evs' sfs, evs = .vtx vid :: evs' ∧ W.comp.vertex? vid = some V ∧ V.vid = vid ∧
      Forall2 (FilterOK W (TRefAt W vid L)) sfs V.filters := by
  cases node with
  | mk ct fields =>
    unfold NodeCert at h
    obtain ⟨V, evs', h1, h2, h3, _, h5, _⟩ := h
    exact ⟨V, evs', _, h1, h2, h3, h5⟩

end TF.InterpSpec
