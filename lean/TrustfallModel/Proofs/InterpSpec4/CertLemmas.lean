/-
C01 main theorem (with folds): consequences of a certificate that do not involve the
specification: every stage accepts the empty list; the `visited_vids` assertions hold.
-/
import TrustfallModel.Proofs.InterpSpec4.Scopes

namespace TF.InterpSpec
open TF TF.Engine TF.Spec

mutual
theorem nodeCert_stage_nil : ∀ (node : QNode) (W : World) (vid : Vid) (L : List Ev)
    (ss : List Stage) (evs : List Ev), NodeCert W node vid L ss evs →
    ∀ (fuel : Nat), ∀ s ∈ ss, StageNil W fuel s
  | .mk ct fields, W, vid, L, ss, evs, hcert, fuel, s, hs => by
    unfold NodeCert at hcert
    obtain ⟨V, evs', _, _, _, _, _, _, _, hF⟩ := hcert
    exact fieldsCert_stage_nil fields W vid (L ++ [.vtx vid]) ss evs' hF fuel s hs
theorem fieldsCert_stage_nil : ∀ (fields : List QField) (W : World) (vid : Vid)
    (L : List Ev) (ss : List Stage) (evs : List Ev), FieldsCert W fields vid L ss evs →
    ∀ (fuel : Nat), ∀ s ∈ ss, StageNil W fuel s
  | [], W, vid, L, ss, evs, hcert, fuel, s, hs => by
    unfold FieldsCert at hcert
    rw [hcert.1] at hs; cases hs
  | .prop n dirs :: rest, W, vid, L, ss, evs, hcert, fuel, s, hs => by
    unfold FieldsCert at hcert
    exact fieldsCert_stage_nil rest W vid L ss evs hcert fuel s hs
  | .edge n params kind child :: rest, W, vid, L, ss, evs, hcert, fuel, s, hs => by
    unfold FieldsCert at hcert
    cases kind with
    | fold fds =>
      simp only at hcert
      obtain ⟨f, ssR, evsR, ssIn, evsIn, rfl, rfl, facts, _, hR⟩ := hcert
      rcases List.mem_cons.1 hs with rfl | hmem
      · obtain ⟨fromV, hfromV⟩ := Option.isSome_iff_exists.1 facts.fromV
        simp only [StageNil]
        rw [computeFold_nil W facts.lim fuel f (by rw [facts.from_]; exact hfromV)]
        rfl
      · exact fieldsCert_stage_nil rest W vid (L ++ [.fold f.eid]) ssR evsR hR fuel s hmem
    | plain =>
      simp only at hcert
      obtain ⟨e, ssC, ssR, evsC, evsR, rfl, rfl, hfrom, hfromV, hname, hkind, hparams, hC, hR⟩ := hcert
      rcases List.mem_cons.1 hs with rfl | hmem
      · obtain ⟨toV, evsC', sfsC, _, htoV, htoVid, hflC⟩ := hC.dest
        obtain ⟨fromV, hfromV⟩ := Option.isSome_iff_exists.1 hfromV
        exact expandEdge_nil' W e (by rw [hfrom]; exact hfromV) htoV
          (enterVertex_nil W e.toVid toV htoV htoVid _ _ hflC)
      · rcases List.mem_append.1 hmem with h | h
        · exact nodeCert_stage_nil child W e.toVid L ssC evsC hC fuel s h
        · exact fieldsCert_stage_nil rest W vid (L ++ evsC) ssR evsR hR fuel s h
    | optional =>
      simp only at hcert
      obtain ⟨e, ssC, ssR, evsC, evsR, rfl, rfl, hfrom, hfromV, hname, hkind, hparams, hC, hR⟩ := hcert
      rcases List.mem_cons.1 hs with rfl | hmem
      · obtain ⟨toV, evsC', sfsC, _, htoV, htoVid, hflC⟩ := hC.dest
        obtain ⟨fromV, hfromV⟩ := Option.isSome_iff_exists.1 hfromV
        exact expandEdge_nil' W e (by rw [hfrom]; exact hfromV) htoV
          (enterVertex_nil W e.toVid toV htoV htoVid _ _ hflC)
      · rcases List.mem_append.1 hmem with h | h
        · exact nodeCert_stage_nil child W e.toVid L ssC evsC hC fuel s h
        · exact fieldsCert_stage_nil rest W vid (L ++ evsC) ssR evsR hR fuel s h
    | recurse d =>
      simp only at hcert
      obtain ⟨e, ssC, ssR, evsC, evsR, rfl, rfl, hfrom, hfromV, hname, hkind, hparams, hC, hR⟩ := hcert
      rcases List.mem_cons.1 hs with rfl | hmem
      · obtain ⟨toV, evsC', sfsC, _, htoV, htoVid, hflC⟩ := hC.dest
        obtain ⟨fromV, hfromV⟩ := Option.isSome_iff_exists.1 hfromV
        exact expandEdge_nil' W e (by rw [hfrom]; exact hfromV) htoV
          (enterVertex_nil W e.toVid toV htoV htoVid _ _ hflC)
      · rcases List.mem_append.1 hmem with h | h
        · exact nodeCert_stage_nil child W e.toVid L ssC evsC hC fuel s h
        · exact fieldsCert_stage_nil rest W vid (L ++ evsC) ssR evsR hR fuel s h
end

end TF.InterpSpec

namespace TF.InterpSpec
open TF TF.Engine TF.Spec

def visitedAfter : List Vid → List Stage → List Vid
  | visited, [] => visited
  | visited, s :: ss => visitedAfter (stTo s :: visited) ss

theorem visitedAfter_append (visited : List Vid) (s1 s2 : List Stage) :
    visitedAfter visited (s1 ++ s2) = visitedAfter (visitedAfter visited s1) s2 := by
  induction s1 generalizing visited with
  | nil => rfl
  | cons s ss ih => simp [visitedAfter, ih]

theorem VisitOK_append (visited : List Vid) (s1 s2 : List Stage) :
    VisitOK visited (s1 ++ s2) ↔ VisitOK visited s1 ∧ VisitOK (visitedAfter visited s1) s2 := by
  induction s1 generalizing visited with
  | nil => simp [VisitOK, visitedAfter]
  | cons s ss ih => simp [VisitOK, visitedAfter, ih, and_assoc]

mutual
theorem visit_node : ∀ (node : QNode) (W : World) (vid : Vid) (L : List Ev)
    (ss : List Stage) (evs : List Ev), NodeCert W node vid L ss evs →
    ((L ++ evs).map evVid).Nodup →
    ∀ visited, (∀ x, x ∈ visited ↔ x ∈ (L ++ [Ev.vtx vid]).map evVid) →
    VisitOK visited ss ∧ ∀ x, x ∈ visitedAfter visited ss ↔ x ∈ (L ++ evs).map evVid
  | .mk ct fields, W, vid, L, ss, evs, hcert, hnd, visited, hvis => by
    unfold NodeCert at hcert
    obtain ⟨V, evs', rfl, _, _, _, _, _, _, hF⟩ := hcert
    have := visit_fields fields W vid (L ++ [.vtx vid]) ss evs' hF (by simp) (by simpa using hnd)
      visited hvis
    simpa using this
theorem visit_fields : ∀ (fields : List QField) (W : World) (vid : Vid) (L : List Ev)
    (ss : List Stage) (evs : List Ev), FieldsCert W fields vid L ss evs → Ev.vtx vid ∈ L →
    ((L ++ evs).map evVid).Nodup →
    ∀ visited, (∀ x, x ∈ visited ↔ x ∈ L.map evVid) →
    VisitOK visited ss ∧ ∀ x, x ∈ visitedAfter visited ss ↔ x ∈ (L ++ evs).map evVid
  | [], W, vid, L, ss, evs, hcert, _, _, visited, hvis => by
    unfold FieldsCert at hcert
    obtain ⟨rfl, rfl⟩ := hcert
    simpa [VisitOK, visitedAfter] using hvis
  | .prop _ _ :: rest, W, vid, L, ss, evs, hcert, hvid, hnd, visited, hvis => by
    unfold FieldsCert at hcert
    exact visit_fields rest W vid L ss evs hcert hvid hnd visited hvis
  | .edge n params kind child :: rest, W, vid, L, ss, evs, hcert, hvid, hnd, visited, hvis => by
    unfold FieldsCert at hcert
    have hvidIn : vid ∈ visited := (hvis vid).2 (List.mem_map.2 ⟨Ev.vtx vid, hvid, rfl⟩)
    -- the common part, given the stage's destination and the events of the child part
    have key : ∀ (s : Stage) (ssC ssR : List Stage) (ev0 : Ev) (evsC' evsR : List Ev),
        stFrom s = vid → stTo s = evVid ev0 →
        ((L ++ ((ev0 :: evsC') ++ evsR)).map evVid).Nodup →
        (∀ visited', (∀ x, x ∈ visited' ↔ x ∈ (L ++ [ev0]).map evVid) →
          VisitOK visited' ssC ∧ ∀ x, x ∈ visitedAfter visited' ssC ↔ x ∈ (L ++ (ev0 :: evsC')).map evVid) →
        (∀ visited', (∀ x, x ∈ visited' ↔ x ∈ (L ++ (ev0 :: evsC')).map evVid) →
          VisitOK visited' ssR ∧
            ∀ x, x ∈ visitedAfter visited' ssR ↔ x ∈ ((L ++ (ev0 :: evsC')) ++ evsR).map evVid) →
        VisitOK visited (s :: (ssC ++ ssR)) ∧
          ∀ x, x ∈ visitedAfter visited (s :: (ssC ++ ssR)) ↔
            x ∈ (L ++ ((ev0 :: evsC') ++ evsR)).map evVid := by
      intro s ssC ssR ev0 evsC' evsR hfrom hto hnd' hC hR
      have htoL : evVid ev0 ∉ L.map evVid := by
        intro hm
        simp only [List.map_append, List.map_cons] at hnd'
        exact (List.nodup_append.1 hnd').2.2 _ hm _ (by simp) rfl
      have hvis' : ∀ x, x ∈ stTo s :: visited ↔ x ∈ (L ++ [ev0]).map evVid := by
        intro x; rw [hto]; simp [hvis x, or_comm]
      obtain ⟨hvC, haC⟩ := hC (stTo s :: visited) hvis'
      obtain ⟨hvR, haR⟩ := hR (visitedAfter (stTo s :: visited) ssC) haC
      refine ⟨?_, ?_⟩
      · simp only [VisitOK]
        refine ⟨by rw [hfrom]; exact hvidIn, ?_, ?_, (VisitOK_append _ _ _).2 ⟨hvC, hvR⟩⟩
        · rw [hto]; intro hm; exact htoL ((hvis _).1 hm)
        · rw [hfrom, hto]; intro heq
          exact htoL (heq ▸ List.mem_map.2 ⟨Ev.vtx vid, hvid, rfl⟩)
      · intro x
        simp only [visitedAfter, visitedAfter_append]
        simpa [List.append_assoc] using haR x
    cases kind with
    | fold fds =>
      simp only at hcert
      obtain ⟨f, ssR, evsR, ssIn, evsIn, rfl, rfl, facts, _, hR⟩ := hcert
      have := key (.fold f) [] ssR (.fold f.eid) [] evsR facts.from_
        (by simp [stTo, evVid, facts.toVid]) (by simpa using hnd)
        (fun visited' hv' => ⟨trivial, by simpa [visitedAfter] using hv'⟩)
        (fun visited' hv' => by
          have := visit_fields rest W vid (L ++ [.fold f.eid]) ssR evsR hR
            (List.mem_append_left _ hvid) (by simpa using hnd) visited' hv'
          simpa using this)
      simpa using this
    | plain =>
      simp only at hcert
      obtain ⟨e, ssC, ssR, evsC, evsR, rfl, rfl, hfrom, _, _, _, _, hC, hR⟩ := hcert
      obtain ⟨toV, evsC', sfs, rfl, _, _, _⟩ := hC.dest
      exact key (.edge e) ssC ssR (.vtx e.toVid) evsC' evsR hfrom rfl hnd
        (fun visited' hv' => visit_node child W e.toVid L ssC _ hC (by
          rw [← List.append_assoc] at hnd
          rw [List.map_append] at hnd
          exact (List.nodup_append.1 hnd).1) visited' hv')
        (fun visited' hv' => visit_fields rest W vid _ ssR evsR hR
          (List.mem_append_left _ hvid) (by simpa using hnd) visited' hv')
    | optional =>
      simp only at hcert
      obtain ⟨e, ssC, ssR, evsC, evsR, rfl, rfl, hfrom, _, _, _, _, hC, hR⟩ := hcert
      obtain ⟨toV, evsC', sfs, rfl, _, _, _⟩ := hC.dest
      exact key (.edge e) ssC ssR (.vtx e.toVid) evsC' evsR hfrom rfl hnd
        (fun visited' hv' => visit_node child W e.toVid L ssC _ hC (by
          rw [← List.append_assoc] at hnd
          rw [List.map_append] at hnd
          exact (List.nodup_append.1 hnd).1) visited' hv')
        (fun visited' hv' => visit_fields rest W vid _ ssR evsR hR
          (List.mem_append_left _ hvid) (by simpa using hnd) visited' hv')
    | recurse d =>
      simp only at hcert
      obtain ⟨e, ssC, ssR, evsC, evsR, rfl, rfl, hfrom, _, _, _, _, hC, hR⟩ := hcert
      obtain ⟨toV, evsC', sfs, rfl, _, _, _⟩ := hC.dest
      exact key (.edge e) ssC ssR (.vtx e.toVid) evsC' evsR hfrom rfl hnd
        (fun visited' hv' => visit_node child W e.toVid L ssC _ hC (by
          rw [← List.append_assoc] at hnd
          rw [List.map_append] at hnd
          exact (List.nodup_append.1 hnd).1) visited' hv')
        (fun visited' hv' => visit_fields rest W vid _ ssR evsR hR
          (List.mem_append_left _ hvid) (by simpa using hnd) visited' hv')
end

end TF.InterpSpec
