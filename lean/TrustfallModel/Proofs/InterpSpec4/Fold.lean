/-
C01 main theorem, fragment F3: `compute_fold` on ONE context, piece by piece (imported tags: none;
fold-count limits: disabled).
-/
import TrustfallModel.Proofs.InterpSpec4.Rec

namespace TF.InterpSpec
open TF TF.Engine TF.Spec

theorem foldLimits_off (W : World) (hl : W.lim = false) (parent : Component) (f : Fold) :
    foldLimits W.env parent f = .ok (none, none) := by
  simp [foldLimits, hl]

/-! ### imported tags -/

/-- The value a fold imports for a tag of the parent component. -/
def impVal (W : World) (c : Ctx) : FieldRef → Tagged
  | .ctx w fld _ => tagOf W.D (look c w) fld
  | .fcount e _ => cntTag (cnt c e)

def impEntries (W : World) (c : Ctx) (imports : List FieldRef) : List (TagKey × Tagged) :=
  imports.map fun r => (r.key, impVal W c r)

theorem insertTag_fresh (c : Ctx) (k : TagKey) (t : Tagged) (h : k ∉ c.importedTags.map (·.1)) :
    c.insertTag k t = { c with importedTags := c.importedTags ++ [(k, t)] } := by
  unfold Engine.Ctx.insertTag
  have : c.importedTags.filter (fun p => !(p.1 == k)) = c.importedTags := by
    rw [List.filter_eq_self]
    intro p hp
    have : p.1 ≠ k := fun he => h (List.mem_map.2 ⟨p, hp, he⟩)
    simpa using this
  rw [this]

theorem vertexAt?_eq_look' {c : Ctx} {w : Vid} (h : w ∈ keys c) : c.vertexAt? w = some (look c w) := by
  unfold look Engine.Ctx.vertexAt?
  obtain ⟨p, hp, hp1⟩ := List.mem_map.1 h
  cases hf : List.find? (fun x => x.1 == w) c.vertices with
  | none =>
    rw [List.find?_eq_none] at hf
    exact absurd (by simpa using hp1) (hf p hp)
  | some q => simp

theorem foldCount?_eq_cnt' {c : Ctx} {e : Eid} (hk : e ∈ fkeys c) : c.foldCount? e = some (cnt c e) := by
  unfold cnt Engine.Ctx.foldCount?
  obtain ⟨p, hp, hp1⟩ := List.mem_map.1 hk
  cases hf : List.find? (fun x => x.1 == e) c.foldCounts with
  | none =>
    rw [List.find?_eq_none] at hf
    exact absurd (by simpa using hp1) (hf p hp)
  | some q => simp

/-- What a tag must satisfy to be imported from a context (dynamic form of `Importable`). -/
def CanImport (W : World) (c : Ctx) : FieldRef → Prop
  | .ctx w _ _ => w ∈ keys c ∧ (W.comp.vertex? w).isSome
  | .fcount e _ => e ∈ fkeys c

theorem importTag_ok (W : World) (c0 c : Ctx) (hv : c.vertices = c0.vertices)
    (hf : c.foldCounts = c0.foldCounts) (r : FieldRef) (hr : CanImport W c0 r)
    (hfresh : r.key ∉ c.importedTags.map (·.1)) :
    ∃ a, importTag W.env W.comp r c =
      .ok { c with active := a, importedTags := c.importedTags ++ [(r.key, impVal W c0 r)] } := by
  cases r with
  | ctx w fld ty =>
    obtain ⟨hk, hsome⟩ := hr
    obtain ⟨vx, hvx⟩ := Option.isSome_iff_exists.1 hsome
    have hat : c.vertexAt? w = some (look c0 w) := by
      have : c.vertexAt? w = c0.vertexAt? w := by unfold Engine.Ctx.vertexAt?; rw [hv]
      rw [this]; exact vertexAt?_eq_look' hk
    refine ⟨look c0 w, ?_⟩
    simp only [importTag, hvx, activate_of_vertexAt hat, R_bind_eq, R.bind_ok, World.env_prop,
      R_pure_eq]
    rw [insertTag_fresh _ _ _ (by simpa [FieldRef.key] using hfresh)]
    simp only [impVal, FieldRef.key, tagOf]
    cases look c0 w <;> rfl
  | fcount e root =>
    have hcnt : c.foldCount? e = some (cnt c0 e) := by
      have : c.foldCount? e = c0.foldCount? e := by unfold Engine.Ctx.foldCount?; rw [hf]
      rw [this]; exact foldCount?_eq_cnt' hr
    refine ⟨c.active, ?_⟩
    simp only [importTag, hcnt]
    cases hc : cnt c0 e with
    | none =>
      simp only
      rw [insertTag_fresh _ _ _ (by simpa [FieldRef.key] using hfresh)]
      simp [impVal, hc, cntTag, FieldRef.key]
    | some n =>
      simp only
      rw [insertTag_fresh _ _ _ (by simpa [FieldRef.key] using hfresh)]
      simp [impVal, hc, cntTag, FieldRef.key]

theorem importTags_ok (W : World) (c0 : Ctx) : ∀ (imports : List FieldRef) (c : Ctx),
    c.vertices = c0.vertices → c.foldCounts = c0.foldCounts → (∀ r ∈ imports, CanImport W c0 r) →
    (c.importedTags.map (·.1) ++ imports.map FieldRef.key).Nodup →
    ∃ a, importTags W.env W.comp imports c =
      .ok { c with active := a, importedTags := c.importedTags ++ impEntries W c0 imports }
  | [], c, _, _, _, _ => ⟨c.active, by simp [importTags, impEntries]⟩
  | r :: rest, c, hv, hf, hr, hnd => by
    have hfr : r.key ∉ c.importedTags.map (·.1) := by
      intro hm
      exact (List.nodup_append.1 hnd).2.2 _ hm _ (by simp) rfl
    obtain ⟨a, ha⟩ := importTag_ok W c0 c hv hf r (hr r (List.mem_cons_self ..)) hfr
    obtain ⟨a', ha'⟩ := importTags_ok W c0 rest
      { c with active := a, importedTags := c.importedTags ++ [(r.key, impVal W c0 r)] } hv hf
      (fun r' hr' => hr r' (List.mem_cons_of_mem _ hr'))
      (by simpa [List.append_assoc] using hnd)
    refine ⟨a', ?_⟩
    simp only [importTags, ha, R.bind_ok, ha']
    simp [impEntries, List.append_assoc]

theorem removeTags_ok : ∀ (imports : List FieldRef) (c : Ctx) (I0 : List (TagKey × Tagged))
    (vals : FieldRef → Tagged),
    c.importedTags = I0 ++ imports.map (fun r => (r.key, vals r)) →
    (I0.map (·.1) ++ imports.map FieldRef.key).Nodup →
    removeTags imports c = .ok { c with importedTags := I0 }
  | [], c, I0, vals, h, _ => by
    simp only [removeTags]
    congr 1
    cases c; simp_all
  | r :: rest, c, I0, vals, h, hnd => by
    have hk0 : ∀ p ∈ I0, p.1 ≠ r.key := by
      intro p hp he
      exact (List.nodup_append.1 hnd).2.2 _ (List.mem_map.2 ⟨p, hp, rfl⟩) _ (by simp) he
    have hkr : ∀ r' ∈ rest, r'.key ≠ r.key := by
      intro r' hr' he
      have := (List.nodup_append.1 hnd).2.1
      simp only [List.map_cons, List.nodup_cons] at this
      exact this.1 (he ▸ List.mem_map.2 ⟨r', hr', rfl⟩)
    have htag : c.tag? r.key = some (vals r) := by
      unfold Engine.Ctx.tag?
      rw [h, List.find?_append]
      have : List.find? (fun p => p.1 == r.key) I0 = none := by
        rw [List.find?_eq_none]; intro p hp; simpa using hk0 p hp
      simp [this]
    have hfilter : c.importedTags.filter (fun p => !(p.1 == r.key)) =
        I0 ++ rest.map (fun r => (r.key, vals r)) := by
      rw [h, List.filter_append, List.map_cons, List.filter_cons]
      have h1 : I0.filter (fun p => !(p.1 == r.key)) = I0 := by
        rw [List.filter_eq_self]; intro p hp; simpa using hk0 p hp
      have h2 : (rest.map fun r => (r.key, vals r)).filter (fun p => !(p.1 == r.key)) =
          rest.map fun r => (r.key, vals r) := by
        rw [List.filter_eq_self]
        intro p hp
        obtain ⟨r', hr', rfl⟩ := List.mem_map.1 hp
        simpa using hkr r' hr'
      simp [h1, h2]
    simp only [removeTags, Engine.Ctx.removeTag, htag, R.bind_ok, hfilter]
    rw [removeTags_ok rest { c with importedTags := I0 ++ rest.map fun r => (r.key, vals r) } I0 vals rfl
      (by
        simp only [List.map_cons] at hnd
        have := hnd
        rw [List.nodup_append] at this ⊢
        refine ⟨this.1, (List.nodup_cons.1 this.2.1).2, ?_⟩
        intro a ha b hb
        exact this.2.2 a ha b (List.mem_cons_of_mem _ hb))]

/-- The context a fold's sub-computation starts from: source vertex active, tags imported. -/
def impCtx (c : Ctx) (v : Option VertexId) (entries : List (TagKey × Tagged)) : Ctx :=
  ⟨v, c.vertices, c.values, c.suspended, c.foldCounts, c.foldedValues, c.importedTags ++ entries⟩

/-- `compute_fold` on one context: import the tags, activate the source vertex, compute the
sub-component from its neighbours, finish. -/
theorem computeFold_single (W : World) (hl : W.lim = false) (fuel : Nat) (f : Fold) (c : Ctx)
    {fromV : IRVertex} (hf : W.comp.vertex? f.fromVid = some fromV)
    (hcan : ∀ r ∈ f.imports, CanImport W c r)
    (hnd : (c.importedTags.map (·.1) ++ f.imports.map FieldRef.key).Nodup)
    {v : Option VertexId} (hv : c.vertexAt? f.fromVid = some v) :
    computeFold W.env fuel W.comp f [c] =
      ((computeComponent W.env fuel f.component
          (foldStart (impCtx c v (impEntries W c f.imports))
            (W.D.nbrsOpt v f.name f.params))).bind
        (foldFinish W.env W.comp f (none, none) (impCtx c v (impEntries W c f.imports)))).bind
        fun o => .ok o.toList := by
  obtain ⟨a, ha⟩ := importTags_ok W c f.imports c rfl rfl hcan hnd
  rw [computeFold]
  have hat : ({ c with active := a, importedTags := c.importedTags ++ impEntries W c f.imports } :
      Ctx).vertexAt? f.fromVid = some v := hv
  simp only [hf, mapR_single, ha, R.bind_ok, activate_of_vertexAt hat,
    foldLimits_off W hl, filterMapR_single]
  rw [foldOne]
  simp only [World.env_nbrs, R.bind_ok]
  rfl

theorem computeFold_nil (W : World) (hl : W.lim = false) (fuel : Nat) (f : Fold)
    {fromV : IRVertex} (hf : W.comp.vertex? f.fromVid = some fromV) :
    computeFold W.env fuel W.comp f [] = .ok [] := by
  rw [computeFold]
  simp [hf, mapR, foldLimits_off W hl, filterMapR]

/-- `foldFinish` when the source vertex exists; `c2`: the context after the count was recorded and
the imported tags were removed again. -/
theorem foldFinish_some (W : World) (f : Fold) (c : Ctx) (computed : List Ctx) {x : VertexId}
    (hv : c.vertexAt? f.fromVid = some (some x)) (hfresh : c.foldCount? f.eid = none) (c2 : Ctx)
    (hrem : removeTags f.imports
      { c with foldCounts := c.foldCounts ++ [(f.eid, some computed.length)] } = .ok c2) :
    foldFinish W.env W.comp f (none, none) c computed =
      (applyPostFilters W.env W.comp f f.post c2).bind fun o =>
        match o with
        | some c3 =>
          (foldOutputs W.env f (some computed)).bind fun news =>
            (mergeFolded c3 news).bind fun c4 => .ok (some c4)
        | none => .ok none := by
  simp only [foldFinish, hv, Option.isSome_some, if_true, collectFoldElements, Option.map_some, hfresh,
    Option.isSome_none, Bool.false_eq_true, if_false, R_bind_eq, hrem, R.bind_ok, R_pure_eq]
  cases applyPostFilters W.env W.comp f f.post c2 with
  | ok o => cases o <;> rfl
  | panic s => rfl
  | fuel => rfl

/-- `foldFinish` when the source vertex does not exist (missing optional scope): the fold "does not
exist" — its count slot is `none`, and (F-9 fixed) its post-filters run on the placeholder `Null`;
`hpost`: they let the context pass (see `applyPostFilters_none`). -/
theorem foldFinish_none (W : World) (f : Fold) (c : Ctx) (computed : List Ctx)
    (hv : c.vertexAt? f.fromVid = some none) (hfresh : c.foldCount? f.eid = none) (c2 : Ctx)
    (hrem : removeTags f.imports { c with foldCounts := c.foldCounts ++ [(f.eid, none)] } = .ok c2)
    (hpost : applyPostFilters W.env W.comp f f.post c2 = .ok (some c2)) :
    foldFinish W.env W.comp f (none, none) c computed =
      (foldOutputs W.env f none).bind fun news =>
        (mergeFolded c2 news).bind fun c4 => .ok (some c4) := by
  simp only [foldFinish, hv, Option.isSome_none, Bool.false_eq_true, if_false, hfresh,
    R_bind_eq, hrem, R.bind_ok, hpost, R_pure_eq, Option.map_none]

end TF.InterpSpec

namespace TF.InterpSpec
open TF TF.Engine TF.Spec

/-! ### post-filters (`apply_fold_specific_filter`) -/

def optCtx (c : Ctx) (b : Bool) : Option Ctx := if b then some c else none

theorem applyPostFilter_sem (W : World) (f : Fold) (TRef : Name → FieldRef → Prop) (c1 : Ctx)
    (a1 : Asg) (hsem : TagSem W f.fromVid c1 a1 TRef) {n : Nat}
    (hc : c1.foldCount? f.eid = some (some n)) (op : FOp) (arg : QArg) (flt : IRFilter)
    (h : ArgOK W TRef op arg flt) :
    (applyPostFilter W.env W.comp f flt c1).toOption =
      (filterHolds W.senv a1 c1.active (.uint64 (UInt64.ofNat n)) op arg).toOption.map (optCtx c1) := by
  have hsemF := applyFilter_sem W f.fromVid TRef c1 a1 hsem op arg flt h (.uint64 (UInt64.ofNat n))
  simp only [applyPostFilter, hc, R_bind_eq, R_pure_eq]
  revert hsemF
  cases applyFilter W.env W.comp f.fromVid flt [c1.pushValue (.uint64 (UInt64.ofNat n))] with
  | panic s =>
    cases filterHolds W.senv a1 c1.active (.uint64 (UInt64.ofNat n)) op arg <;> simp
  | fuel =>
    cases filterHolds W.senv a1 c1.active (.uint64 (UInt64.ofNat n)) op arg <;> simp
  | ok l =>
    rcases filterHolds W.senv a1 c1.active (.uint64 (UInt64.ofNat n)) op arg with (_ | _) | _ | _ <;>
      simp [boolCtx, optCtx]
    · intro h; subst h; rfl
    · intro h; subst h; rfl

theorem applyPostFilters_sem (W : World) (f : Fold) (TRef : Name → FieldRef → Prop) (c1 : Ctx)
    (a1 : Asg) (hsem : TagSem W f.fromVid c1 a1 TRef) {n : Nat}
    (hc : c1.foldCount? f.eid = some (some n)) (pairs : List (FOp × QArg)) (post : List IRFilter)
    (h : Forall2 (fun p flt => ArgOK W TRef p.1 p.2 flt) pairs post) :
    (applyPostFilters W.env W.comp f post c1).toOption =
      (filtersHold W.senv a1 c1.active (.uint64 (UInt64.ofNat n)) pairs).toOption.map (optCtx c1) := by
  induction h with
  | nil => simp [applyPostFilters, filtersHold, optCtx]
  | @cons p flt ps fls hp _ ih =>
    obtain ⟨op, arg⟩ := p
    have h1 := applyPostFilter_sem W f TRef c1 a1 hsem hc op arg flt hp
    simp only [applyPostFilters, filtersHold, R_bind_eq, R_pure_eq]
    revert h1
    cases applyPostFilter W.env W.comp f flt c1 with
    | panic s =>
      cases filterHolds W.senv a1 c1.active (.uint64 (UInt64.ofNat n)) op arg <;> simp
    | fuel =>
      cases filterHolds W.senv a1 c1.active (.uint64 (UInt64.ofNat n)) op arg <;> simp
    | ok o =>
      rcases filterHolds W.senv a1 c1.active (.uint64 (UInt64.ofNat n)) op arg with (_ | _) | _ | _ <;>
        simp [optCtx]
      · intro h; subst h; rfl
      · intro h; subst h; exact ih

theorem R_ok_of_toOption {α : Type} {r : R α} {a : α} (h : r.toOption = some a) : r = .ok a := by
  cases r <;> simp_all

/-- F-9 (fixed engine): the post-filters of a fold that does not exist (count slot `none`, the source
vertex is missing so the context has no active vertex) let the context pass unchanged — provided the
per-filter set-up succeeds (`ArgOK`: the variable is bound and its regex compiles; `TagSem`: the tag
operand resolves).  The specification applies no count filter to a fold in a missing scope. -/
theorem applyPostFilter_none (W : World) (f : Fold) (TRef : Name → FieldRef → Prop) (c1 : Ctx)
    (a1 : Asg) (hsem : TagSem W f.fromVid c1 a1 TRef) (hact : c1.active = none)
    (hc : c1.foldCount? f.eid = some none) (op : FOp) (arg : QArg) (flt : IRFilter)
    (h : ArgOK W TRef op arg flt) :
    applyPostFilter W.env W.comp f flt c1 = .ok (some c1) := by
  have hsemF := applyFilter_sem W f.fromVid TRef c1 a1 hsem op arg flt h .null
  rw [hact] at hsemF
  have hF : applyFilter W.env W.comp f.fromVid flt [c1.pushValue .null] = .ok [c1] := by
    apply R_ok_of_toOption
    rw [hsemF]
    simp [filterHolds, boolCtx]
  simp only [applyPostFilter, hc, R_bind_eq, R_pure_eq, hF, R.bind_ok]

theorem applyPostFilters_none (W : World) (f : Fold) (TRef : Name → FieldRef → Prop) (c1 : Ctx)
    (a1 : Asg) (hsem : TagSem W f.fromVid c1 a1 TRef) (hact : c1.active = none)
    (hc : c1.foldCount? f.eid = some none) (pairs : List (FOp × QArg)) (post : List IRFilter)
    (h : Forall2 (fun p flt => ArgOK W TRef p.1 p.2 flt) pairs post) :
    applyPostFilters W.env W.comp f post c1 = .ok (some c1) := by
  induction h with
  | nil => simp [applyPostFilters]
  | @cons p flt ps fls hp _ ih =>
    obtain ⟨op, arg⟩ := p
    simp only [applyPostFilters, R_bind_eq, R_pure_eq,
      applyPostFilter_none W f TRef c1 a1 hsem hact hc op arg flt hp, R.bind_ok]
    exact ih

end TF.InterpSpec

namespace TF.InterpSpec
open TF TF.Engine TF.Spec

/-! ### fold outputs -/

/-- The column of one output of the fold's component over the element contexts. -/
def colVal (W : World) (o : OutputDef) (es : List Ctx) : Value :=
  .list (es.map fun c => W.D.propOpt (look c o.vid) o.field)

/-- The column of one nested fold output over the element contexts. -/
def nestVal (k : Eid × Name) (es : List Ctx) : Value :=
  .list (es.filterMap fun c => (lookupFolded c.foldedValues k).map fun ov => ov.getD Value.null)

theorem vertexAt?_eq_look {c : Ctx} {w : Vid} (h : w ∈ keys c) : c.vertexAt? w = some (look c w) := by
  unfold look Engine.Ctx.vertexAt?
  obtain ⟨p, hp, hp1⟩ := List.mem_map.1 h
  cases hf : List.find? (fun x => x.1 == w) c.vertices with
  | none =>
    rw [List.find?_eq_none] at hf
    exact absurd (by simpa using hp1) (hf p hp)
  | some q => simp

theorem mapR_ok_of_all {α β : Type} {f : α → R β} {g : α → β} {l : List α}
    (h : ∀ x ∈ l, f x = .ok (g x)) : mapR f l = .ok (l.map g) := by
  induction l with
  | nil => rfl
  | cons x xs ih =>
    simp [mapR, h x (List.mem_cons_self ..), ih fun y hy => h y (List.mem_cons_of_mem _ hy)]

theorem foldOutputColumn_ok (W : World) (comp : Component) (o : OutputDef) (es : List Ctx)
    (hV : (comp.vertex? o.vid).isSome) (hk : ∀ c ∈ es, o.vid ∈ keys c) :
    foldOutputColumn W.env comp o es =
      .ok (es.map fun c => W.D.propOpt (look c o.vid) o.field) := by
  obtain ⟨V, hV⟩ := Option.isSome_iff_exists.1 hV
  simp only [foldOutputColumn, typeOf_of_vertex hV, R.bind_ok]
  apply mapR_ok_of_all
  intro c hc
  rw [vertexAt?_eq_look (hk c hc)]
  rfl

/-- `foldOutputs` for an existing fold with at least one element. -/
theorem foldOutputs_cons (W : World) (f : Fold) (e0 : Ctx) (erest : List Ctx)
    (hV : ∀ o ∈ f.component.outputs, (f.component.vertex? o.vid).isSome)
    (hk : ∀ o ∈ f.component.outputs, ∀ c ∈ e0 :: erest, o.vid ∈ keys c) :
    foldOutputs W.env f (some (e0 :: erest)) =
      .ok (f.fouts.map (fun n => ((f.eid, n), some (Value.uint64 (UInt64.ofNat (e0 :: erest).length)))) ++
        f.component.outputs.map (fun o => ((f.eid, o.name), some (colVal W o (e0 :: erest)))) ++
        (fvKeys e0).map fun k => (k, some (nestVal k (e0 :: erest)))) := by
  simp only [foldOutputs, R_bind_eq, R_pure_eq]
  rw [mapR_ok_of_all (g := fun o => ((f.eid, o.name), some (colVal W o (e0 :: erest))))]
  · simp [fvKeys, nestVal]
  · intro o ho
    rw [foldOutputColumn_ok W f.component o _ (hV o ho) (hk o ho)]
    rfl

/-- `foldOutputs` for a fold without elements (`some []`) or a non-existent fold (`none`). -/
theorem foldOutputs_default (W : World) (f : Fold) (elems : Option (List Ctx))
    (h : elems = none ∨ elems = some []) :
    foldOutputs W.env f elems =
      .ok (f.fouts.map (fun n => ((f.eid, n), elems.map fun es => Value.uint64 (UInt64.ofNat es.length))) ++
        f.component.outputs.map (fun o => ((f.eid, o.name), elems.map fun _ => Value.list [])) ++
        (nestedKeys f.component).map fun k => (k, elems.map fun _ => Value.list [])) := by
  rcases h with rfl | rfl <;> rfl

/-- The folded value found by name after new entries with fresh, distinct names were merged. -/
theorem valByName_news (c : Ctx) (news : List ((Eid × Name) × Option Value)) (n : Name) (k : Eid)
    (v : Option Value) (hfresh : n ∉ fvNames c) (hnd : (news.map (·.1.2)).Nodup)
    (hm : ((k, n), v) ∈ news) :
    valByName { c with foldedValues := c.foldedValues ++ news } n = v.getD Value.null := by
  unfold valByName
  simp only
  rw [List.find?_append]
  have h1 : c.foldedValues.find? (fun p => p.1.2 == n) = none := by
    rw [List.find?_eq_none]
    intro p hp hpe
    apply hfresh
    exact List.mem_map.2 ⟨p, hp, by simpa using hpe⟩
  rw [h1, Option.none_or]
  have h2 : news.find? (fun p => p.1.2 == n) = some ((k, n), v) := by
    induction news with
    | nil => cases hm
    | cons p rest ih =>
      simp only [List.map_cons, List.nodup_cons] at hnd
      rcases List.mem_cons.1 hm with h | h
      · subst h; simp
      · have hne : p.1.2 ≠ n := by
          intro he
          apply hnd.1
          rw [he]
          exact List.mem_map.2 ⟨((k, n), v), h, rfl⟩
        simp [List.find?_cons, hne, ih hnd.2 h]
  rw [h2]

/-- The specification's way of reading an output of an element assignment. -/
def lookupOut (outs : List (Name × Value)) (n : Name) : Value :=
  match outs.find? (·.1 == n) with
  | some (_, x) => x
  | none => Value.null

/-- Output names appended by an event (up to the order of the two groups of a fold). -/
def evOutNames (W : World) : Ev → List Name
  | .vtx w => (W.OG w).map (·.1)
  | .fold e => W.CO e ++ W.ON e

def outNamesL (W : World) (L : List Ev) : List Name := L.flatMap (evOutNames W)

theorem outsEv_names_perm (W : World) (c : Ctx) (ev : Ev) :
    ((outsEv W c ev).map (·.1)).Perm (evOutNames W ev) := by
  cases ev with
  | vtx w => simp [outsEv, evOutNames, outBinds, Function.comp_def]
  | fold e =>
    simp only [outsEv, evOutNames]
    cases cnt c e with
    | some k => simp [Function.comp_def]
    | none =>
      simp only [List.map_map, Function.comp_def, List.map_id', List.map_append]
      exact List.perm_append_comm

theorem absL_outNames_perm (W : World) (base : List (Name × Tagged)) (L : List Ev) (c : Ctx) :
    ((absL W base L c).outs.map (·.1)).Perm (outNamesL W L) := by
  simp only [absL, outNamesL, List.map_flatMap]
  induction L with
  | nil => exact List.Perm.refl _
  | cons ev rest ih =>
    simp only [List.flatMap_cons]
    exact (outsEv_names_perm W c ev).append ih

theorem lookupOut_of_mem {outs : List (Name × Value)} {n : Name} {x : Value}
    (hn : (outs.map (·.1)).Nodup) (hm : (n, x) ∈ outs) : lookupOut outs n = x := by
  unfold lookupOut
  rw [find?_of_mem_nodup hn hm]

theorem absL_out_vtx (W : World) {base : List (Name × Tagged)} {L : List Ev} {c : Ctx} {w : Vid}
    {n fld : Name} (hn : (outNamesL W L).Nodup) (hm : Ev.vtx w ∈ L) (ho : (n, fld) ∈ W.OG w) :
    lookupOut (absL W base L c).outs n = W.D.propOpt (look c w) fld := by
  apply lookupOut_of_mem ((absL_outNames_perm W base L c).nodup_iff.2 hn)
  simp only [absL, List.mem_flatMap]
  refine ⟨.vtx w, hm, ?_⟩
  simp only [outsEv, outBinds, List.mem_map]
  exact ⟨(n, fld), ho, rfl⟩

theorem absL_out_fold (W : World) {base : List (Name × Tagged)} {L : List Ev} {c : Ctx} {e : Eid}
    {n : Name} (hn : (outNamesL W L).Nodup) (hm : Ev.fold e ∈ L) (ho : n ∈ W.CO e ++ W.ON e) :
    lookupOut (absL W base L c).outs n = valByName c n := by
  apply lookupOut_of_mem ((absL_outNames_perm W base L c).nodup_iff.2 hn)
  simp only [absL, List.mem_flatMap]
  refine ⟨.fold e, hm, ?_⟩
  simp only [outsEv]
  cases cnt c e with
  | some k => exact List.mem_map.2 ⟨n, ho, rfl⟩
  | none => exact List.mem_map.2 ⟨n, by simpa [or_comm] using ho, rfl⟩

theorem find_key_of_find_name (l : List ((Eid × Name) × Option Value)) (k : Eid × Name)
    (p : (Eid × Name) × Option Value) (h1 : l.find? (fun q => q.1.2 == k.2) = some p)
    (hpk : p.1 = k) : l.find? (fun q => q.1.1 == k.1 && q.1.2 == k.2) = some p := by
  induction l with
  | nil => cases h1
  | cons q rest ih =>
    simp only [List.find?_cons] at h1 ⊢
    by_cases hq : q.1.2 = k.2
    · have : q = p := by simpa [hq] using h1
      subst this
      simp [hpk]
    · have hq' : (q.1.2 == k.2) = false := by simpa using hq
      simp only [hq', Bool.and_false] at h1 ⊢
      exact ih h1

/-- Reading a nested output by its key = reading it by its name (names are distinct). -/
theorem lookupFolded_eq_valByName (c : Ctx) (k : Eid × Name) (hk : k ∈ fvKeys c)
    (hn : (fvNames c).Nodup) :
    (lookupFolded c.foldedValues k).map (fun ov => ov.getD Value.null) = some (valByName c k.2) := by
  obtain ⟨p, hp, hpk⟩ := List.mem_map.1 hk
  have h1 : c.foldedValues.find? (fun q => q.1.2 == k.2) = some p := by
    have := find?_of_mem_nodup (l := c.foldedValues.map fun q => (q.1.2, q)) (k := k.2) (b := p)
      (by simpa [fvNames, Function.comp_def] using hn)
      (List.mem_map.2 ⟨p, hp, by rw [hpk]⟩)
    rw [List.find?_map] at this
    cases hf : c.foldedValues.find? ((fun x => x.1 == k.2) ∘ fun q => (q.1.2, q)) with
    | none => simp [hf] at this
    | some q =>
      simp only [hf, Option.map_some, Option.some.injEq, Prod.mk.injEq] at this
      have hfq : c.foldedValues.find? (fun q => q.1.2 == k.2) = some q := hf
      rw [hfq, this.2]
  have h2 := find_key_of_find_name c.foldedValues k p h1 hpk
  unfold lookupFolded valByName
  rw [h2, h1]
  rfl

theorem nestVal_eq (k : Eid × Name) (es : List Ctx) (hk : ∀ c ∈ es, k ∈ fvKeys c)
    (hn : ∀ c ∈ es, (fvNames c).Nodup) :
    nestVal k es = .list (es.map fun c => valByName c k.2) := by
  unfold nestVal
  congr 1
  induction es with
  | nil => rfl
  | cons c rest ih =>
    rw [List.filterMap_cons,
      lookupFolded_eq_valByName c k (hk c (List.mem_cons_self ..)) (hn c (List.mem_cons_self ..))]
    simp only [List.map_cons]
    rw [ih (fun c' hc' => hk c' (List.mem_cons_of_mem _ hc')) fun c' hc' => hn c' (List.mem_cons_of_mem _ hc')]

end TF.InterpSpec
