/-
C01 main theorem, fragment F3: the values a fold stores in `folded_values`, read back by name,
are the aligned lists the specification builds from the element assignments.
-/
import TrustfallModel.Proofs.InterpSpec4.Inv

namespace TF.InterpSpec
open TF TF.Engine TF.Spec

theorem nestedKeys_eq_flatMap (c : Component) : nestedKeys c = c.folds.flatMap foldKeys := by
  cases c with
  | mk r vs es fs os =>
    simp only [nestedKeys, Component.folds]
    induction fs with
    | nil => rfl
    | cons f rest ih =>
      cases f
      simp [nestedKeysFolds, foldKeys, ih, Fold.fouts, Fold.eid, Fold.component]

/-- Names of the entries `foldOutputs` produces = names of the fold's static keys. -/
theorem mergeFolded_fresh (c : Ctx) (news : List ((Eid × Name) × Option Value))
    (h : ∀ p ∈ news, p.1.2 ∉ fvNames c) :
    mergeFolded c news = .ok { c with foldedValues := c.foldedValues ++ news } := by
  unfold mergeFolded
  have : news.any (fun p => (lookupFolded c.foldedValues p.1).isSome) = false := by
    rw [List.any_eq_false]
    intro p hp
    have hfr := h p hp
    simp only [lookupFolded, Option.isSome_map, Bool.not_eq_true, Option.isSome_eq_false_iff,
      Option.isNone_iff_eq_none]
    rw [List.find?_eq_none]
    intro q hq hqe
    apply hfr
    simp only [Bool.and_eq_true, beq_iff_eq] at hqe
    exact List.mem_map.2 ⟨q, hq, hqe.2⟩
  rw [this]; rfl

/-- What the simulation needs to know about the element contexts of a fold. -/
structure ElemsOK (Wi : World) (evsIn : List Ev) (computed : List Ctx) : Prop where
  inv : ∀ c ∈ computed, Inv Wi c evsIn

theorem fvNames_nodup_of_inv {W : World} {c : Ctx} {L : List Ev} (hi : Inv W c L)
    (hk : KeysOK W L) (hon : (outNamesL W L).Nodup) : (fvNames c).Nodup := by
  refine (hi.names hk).nodup_iff.2 ?_
  -- the fold events' names form a sublist of all output names
  have : ((flds L).flatMap fun e => W.CO e ++ W.ON e).Sublist (outNamesL W L) := by
    clear hi hk hon
    induction L with
    | nil => exact List.Sublist.refl _
    | cons ev rest ih =>
      cases ev with
      | vtx w =>
        simp only [flds_cons_vtx, outNamesL, List.flatMap_cons]
        exact ih.trans (List.sublist_append_right _ _)
      | fold e =>
        simp only [flds_cons_fold, outNamesL, List.flatMap_cons, evOutNames]
        exact List.Sublist.append (List.Sublist.refl _) ih
  exact List.Nodup.sublist this hon

/-- The list the specification builds for output `n` from the element assignments. -/
def specList (Wi : World) (base' : List (Name × Tagged)) (evsIn : List Ev) (computed : List Ctx)
    (n : Name) : Value :=
  .list (computed.map fun c => lookupOut (absL Wi base' evsIn c).outs n)

/-- The entries `foldOutputs` produces for an existing fold: their keys are the fold's static
keys, the count outputs hold the count, and every output name below the fold holds the
specification's list. -/
theorem fold_outputs_match (W : World) (f : Fold) (fds : List FDir) (child : QNode)
    (ssIn : List Stage) (evsIn : List Ev) (base' : List (Name × Tagged)) (computed : List Ctx)
    (hfouts : f.fouts.Perm (countOutNames fds))
    (houts : OutsOK (W.inner f) (vtxs evsIn))
    (hnested : (flds evsIn).flatMap W.FK = nestedKeys f.component)
    (honPerm : (outNamesL (W.inner f) evsIn).Perm (outNames child))
    (hkeys : KeysOK (W.inner f) evsIn)
    (hon : (outNamesL (W.inner f) evsIn).Nodup)
    (hinv : ∀ c ∈ computed, Inv (W.inner f) c evsIn) :
    ∃ news, foldOutputs W.env f (some computed) = .ok news ∧
      (news.map (·.1)).Perm (foldKeys f) ∧
      (∀ n ∈ countOutNames fds, ∃ k, ((k, n), some (Value.uint64 (UInt64.ofNat computed.length))) ∈ news) ∧
      (∀ n ∈ outNames child, ∃ k, ((k, n), some (specList (W.inner f) base' evsIn computed n)) ∈ news) := by
  have hWiFK : (W.inner f).FK = W.FK := rfl
  -- every output name below the fold is a vertex output of the component or a nested key's name
  have hsplit : ∀ n ∈ outNames child,
      (∃ o ∈ f.component.outputs, o.name = n ∧ Ev.vtx o.vid ∈ evsIn ∧ (n, o.field) ∈ W.OG o.vid) ∨
      (∃ e, Ev.fold e ∈ evsIn ∧ n ∈ W.CO e ++ W.ON e ∧ ∃ k ∈ nestedKeys f.component, k.2 = n) := by
    intro n hn
    have hn' : n ∈ outNamesL (W.inner f) evsIn := honPerm.mem_iff.2 hn
    simp only [outNamesL, List.mem_flatMap] at hn'
    obtain ⟨ev, hev, hnev⟩ := hn'
    cases ev with
    | vtx w =>
      left
      simp only [evOutNames, List.mem_map] at hnev
      obtain ⟨p, hp, hpn⟩ := hnev
      have htr : (n, w, p.2) ∈ outTriples (W.inner f) (vtxs evsIn) := by
        simp only [outTriples, List.mem_flatMap, List.mem_map]
        exact ⟨w, mem_vtxs.2 hev, p, hp, by rw [← hpn]⟩
      obtain ⟨o, ho, hoe⟩ := List.mem_map.1 (houts.perm.mem_iff.2 htr)
      simp only [Prod.mk.injEq] at hoe
      refine ⟨o, ho, hoe.1, by rw [hoe.2.1]; exact hev, ?_⟩
      rw [hoe.2.1, hoe.2.2, ← hpn]; exact hp
    | fold e =>
      right
      simp only [evOutNames] at hnev
      refine ⟨e, hev, hnev, ?_⟩
      have hperm := hkeys e (mem_flds.2 hev)
      obtain ⟨k, hk, hkn⟩ := List.mem_map.1 (hperm.mem_iff.2 hnev)
      refine ⟨k, ?_, hkn⟩
      rw [← hnested]
      exact List.mem_flatMap.2 ⟨e, mem_flds.2 hev, hk⟩
  cases computed with
  | nil =>
    refine ⟨_, foldOutputs_default W f (some []) (Or.inr rfl), ?_, ?_, ?_⟩
    · simp [foldKeys, Function.comp_def]
    · intro n hn
      refine ⟨f.eid, ?_⟩
      simp only [List.mem_append, List.mem_map]
      exact Or.inl (Or.inl ⟨n, hfouts.mem_iff.2 hn, rfl⟩)
    · intro n hn
      rcases hsplit n hn with ⟨o, ho, hon', _, _⟩ | ⟨e, _, _, k, hk, hkn⟩
      · refine ⟨f.eid, ?_⟩
        simp only [List.mem_append, List.mem_map]
        exact Or.inl (Or.inr ⟨o, ho, by simp [hon', specList]⟩)
      · refine ⟨k.1, ?_⟩
        simp only [List.mem_append, List.mem_map]
        exact Or.inr ⟨k, hk, by simp [← hkn, specList]⟩
  | cons e0 erest =>
    have hkeysOf : ∀ c ∈ e0 :: erest, (fvKeys c).Perm (nestedKeys f.component) := by
      intro c hc
      have := (hinv c hc).fv
      rw [hWiFK, hnested] at this
      exact this
    have hcons := foldOutputs_cons W f e0 erest
      (fun o ho => (houts.verts o ho).1)
      (fun o ho c hc => by
        rw [(hinv c hc).vk]; exact (houts.verts o ho).2)
    refine ⟨_, hcons, ?_, ?_, ?_⟩
    · simp only [List.map_append, List.map_map, foldKeys, Function.comp_def, List.map_id']
      exact List.Perm.append_left _ (hkeysOf e0 (List.mem_cons_self ..))
    · intro n hn
      refine ⟨f.eid, ?_⟩
      simp only [List.mem_append, List.mem_map]
      exact Or.inl (Or.inl ⟨n, hfouts.mem_iff.2 hn, rfl⟩)
    · intro n hn
      rcases hsplit n hn with ⟨o, ho, hon', hev, hog⟩ | ⟨e, hev, hne, k, hk, hkn⟩
      · refine ⟨f.eid, ?_⟩
        simp only [List.mem_append, List.mem_map]
        refine Or.inl (Or.inr ⟨o, ho, ?_⟩)
        simp only [Prod.mk.injEq, hon', true_and, Option.some.injEq, colVal, specList]
        congr 1
        apply List.map_congr_left
        intro c _
        exact (absL_out_vtx (W.inner f) hon hev hog).symm
      · refine ⟨k.1, ?_⟩
        simp only [List.mem_append, List.mem_map]
        refine Or.inr ⟨k, (hkeysOf e0 (List.mem_cons_self ..)).mem_iff.2 hk, ?_⟩
        have hnv := nestVal_eq k (e0 :: erest)
          (fun c hc => (hkeysOf c hc).mem_iff.2 hk)
          (fun c hc => fvNames_nodup_of_inv (hinv c hc) hkeys hon)
        rw [hnv]
        simp only [Prod.mk.injEq, Option.some.injEq, specList, hkn, and_true]
        refine ⟨by rw [← hkn], ?_⟩
        congr 1
        apply List.map_congr_left
        intro c _
        exact (absL_out_fold (W.inner f) hon hev hne).symm

end TF.InterpSpec
