/-
C01 main theorem, fragment F3: one `@fold` stage on one context against the `@fold` clause of the
specification, given the simulation of the fold's component (inner induction hypothesis).
-/
import TrustfallModel.Proofs.InterpSpec4.FoldOuts

namespace TF.InterpSpec
open TF TF.Engine TF.Spec

/-- Enter the vertex `vid`, then run the stages of its sub-tree. -/
def nodeO (W : World) (ifuel : Nat) (vid : Vid) (ss : List Stage) (c : Ctx) : Option (List Ctx) :=
  match W.comp.vertex? vid with
  | some V => (enterVertex W.env W.comp V [c]).toOption.bind (runO W ifuel ss)
  | none => none

theorem World.inner_env (W : World) (f : Fold) : (W.inner f).env = W.env := rfl
theorem World.inner_senv (W : World) (f : Fold) : (W.inner f).senv = W.senv := rfl

theorem foldCount?_none_of_fresh (c : Ctx) (e : Eid) (h : e ∉ fkeys c) : c.foldCount? e = none := by
  unfold Engine.Ctx.foldCount?
  rw [Option.map_eq_none_iff, List.find?_eq_none]
  intro p hp hpe
  apply h
  exact List.mem_map.2 ⟨p, hp, by simpa using hpe⟩

theorem cnt_snoc (c : Ctx) (e : Eid) (k : Option Nat) (fv : List ((Eid × Name) × Option Value))
    (h : e ∉ fkeys c) :
    cnt { c with foldCounts := c.foldCounts ++ [(e, k)], foldedValues := fv } e = k := by
  unfold cnt Engine.Ctx.foldCount?
  simp only
  rw [List.find?_append]
  have : List.find? (fun x => x.1 == e) c.foldCounts = none := by
    rw [List.find?_eq_none]
    intro p hp hpe
    apply h
    exact List.mem_map.2 ⟨p, hp, by simpa using hpe⟩
  simp [this]

/-- Computing a component from the empty list of contexts (it has fuel): nothing. -/
theorem computeComponent_nil_ctx (Wi : World) (k : Nat) (rootV : IRVertex) (ss : List Stage)
    (hroot : Wi.comp.vertex? Wi.comp.root = some rootV)
    (hmerge : mergeStages Wi.comp.edges Wi.comp.folds (Wi.comp.edges.length + Wi.comp.folds.length) = .ok ss)
    (hv : VisitOK [Wi.comp.root] ss) (h0 : ∀ s ∈ ss, StageNil Wi k s)
    (hent : enterVertex Wi.env Wi.comp rootV [] = .ok []) :
    (computeComponent Wi.env (k + 1) Wi.comp []).toOption = some [] := by
  rw [computeComponent_eq Wi k rootV ss hroot hmerge hv h0, hent]
  simp [runO_nil_ctx]

end TF.InterpSpec

namespace TF.InterpSpec
open TF TF.Engine TF.Spec

/-- The context after a fold stage: source vertex active, count recorded, outputs merged. -/
def foldDone (c : Ctx) (v : Option VertexId) (e : Eid) (k : Option Nat)
    (news : List ((Eid × Name) × Option Value)) : Ctx :=
  ⟨v, c.vertices, c.values, c.suspended, c.foldCounts ++ [(e, k)], c.foldedValues ++ news,
    c.importedTags⟩

theorem Ext.foldDone (c : Ctx) (v : Option VertexId) (e : Eid) (k : Option Nat)
    (news : List ((Eid × Name) × Option Value)) : Ext c (foldDone c v e k news) :=
  ⟨⟨[], by simp [InterpSpec.foldDone]⟩, ⟨[(e, k)], rfl⟩, ⟨news, rfl⟩, rfl, rfl⟩

theorem Inv.foldDone {W : World} {c : Ctx} {L : List Ev} (hi : Inv W c L) (v : Option VertexId)
    (e : Eid) (k : Option Nat) (news : List ((Eid × Name) × Option Value))
    (hkeys : (news.map (·.1)).Perm (W.FK e)) :
    Inv W (foldDone c v e k news) (L ++ [.fold e]) := by
  refine ⟨?_, ?_, ?_⟩
  · have : keys (InterpSpec.foldDone c v e k news) = keys c := rfl
    rw [this, hi.vk]; simp
  · have : fkeys (InterpSpec.foldDone c v e k news) = fkeys c ++ [e] := by
      simp [fkeys, InterpSpec.foldDone]
    rw [this, hi.fk]; simp
  · have : fvKeys (InterpSpec.foldDone c v e k news) = fvKeys c ++ news.map (·.1) := by
      simp [fvKeys, InterpSpec.foldDone]
    rw [this]
    simp only [flds_append, flds_cons_fold, flds_nil, List.flatMap_append, List.flatMap_cons,
      List.flatMap_nil, List.append_nil]
    exact hi.fv.append hkeys

theorem cnt_foldDone (c : Ctx) (v : Option VertexId) (e : Eid) (k : Option Nat)
    (news : List ((Eid × Name) × Option Value)) (h : e ∉ fkeys c) :
    cnt (foldDone c v e k news) e = k := by
  unfold cnt Engine.Ctx.foldCount? InterpSpec.foldDone
  simp only
  rw [List.find?_append]
  have : List.find? (fun x => x.1 == e) c.foldCounts = none := by
    rw [List.find?_eq_none]
    intro p hp hpe
    apply h
    exact List.mem_map.2 ⟨p, hp, by simpa using hpe⟩
  simp [this]

theorem valByName_foldDone (c : Ctx) (v : Option VertexId) (e : Eid) (k : Option Nat)
    (news : List ((Eid × Name) × Option Value)) (n : Name) (key : Eid) (val : Option Value)
    (hfresh : n ∉ fvNames c) (hnd : (news.map (·.1.2)).Nodup) (hm : ((key, n), val) ∈ news) :
    valByName (foldDone c v e k news) n = val.getD Value.null := by
  have := valByName_news c news n key val hfresh hnd hm
  exact this

/-- The assignment after a fold stage. -/
theorem absL_foldDone (W : World) (base : List (Name × Tagged)) {c : Ctx} {L : List Ev}
    (hi : Inv W c L) (hk : KeysOK W L) (v : Option VertexId) (e : Eid) (k : Option Nat)
    (news : List ((Eid × Name) × Option Value)) (hfresh : e ∉ fkeys c) :
    absL W base (L ++ [.fold e]) (foldDone c v e k news) =
      ⟨(absL W base L c).tags ++ (W.CT e).map (fun n => (n, cntTag k)),
        (absL W base L c).outs ++
          match k with
          | some _ => (W.CO e ++ W.ON e).map fun n => (n, valByName (foldDone c v e k news) n)
          | none => (W.ON e ++ W.CO e).map fun n => (n, valByName (foldDone c v e k news) n)⟩ := by
  rw [absL_snoc, absL_stable W base (Ext.foldDone c v e k news) hi hk]
  simp only [tagsEv, outsEv, cnt_foldDone c v e k news hfresh]
  cases k <;> rfl

end TF.InterpSpec

namespace TF.InterpSpec
open TF TF.Engine TF.Spec

/-- Names of the fold's keys: the count-output names, then every output name below the fold. -/
theorem foldKeys_names (W : World) (e : Eid) (hk : ((W.FK e).map (·.2)).Perm (W.CO e ++ W.ON e))
    (news : List ((Eid × Name) × Option Value)) (hn : (news.map (·.1)).Perm (W.FK e)) :
    (news.map (·.1.2)).Perm (W.CO e ++ W.ON e) := by
  have : news.map (·.1.2) = (news.map (·.1)).map (·.2) := by simp
  rw [this]
  exact (hn.map _).trans hk

/-- From the static `Importable` to the dynamic `CanImport`. -/
theorem canImport_of {W : World} {c : Ctx} {L : List Ev} (hi : Inv W c L) {r : FieldRef}
    (h : Importable W L r) : CanImport W c r := by
  cases r with
  | ctx w fld ty => exact ⟨by rw [hi.vk]; exact mem_vtxs.2 h.1, h.2⟩
  | fcount e root => exact (by rw [hi.fk]; exact mem_flds.2 h : e ∈ fkeys c)

theorem imports_nodup {W : World} {c : Ctx} {base : List (Name × Tagged)} (himp : ImportsOK W c base)
    {imports : List FieldRef} (hnd : (imports.map FieldRef.key).Nodup)
    (hfresh : ∀ r ∈ imports, r.key ∉ W.chain.map FieldRef.key) :
    (c.importedTags.map (·.1) ++ imports.map FieldRef.key).Nodup := by
  rw [List.nodup_append]
  refine ⟨himp.nodup, hnd, ?_⟩
  intro a ha b hb hab
  subst hab
  obtain ⟨r, hr, rfl⟩ := List.mem_map.1 hb
  exact hfresh r hr ((himp.keys _).1 ha)

/-- Looking up an imported key among the freshly imported entries. -/
theorem tag?_impEntries (W : World) (c : Ctx) (I0 : List (TagKey × Tagged)) (imports : List FieldRef)
    (hnd : (I0.map (·.1) ++ imports.map FieldRef.key).Nodup) {r : FieldRef} (hr : r ∈ imports) :
    ((I0 ++ impEntries W c imports).find? (·.1 == r.key)).map (·.2) = some (impVal W c r) := by
  have hmem : (r.key, impVal W c r) ∈ I0 ++ impEntries W c imports :=
    List.mem_append_right _ (List.mem_map.2 ⟨r, hr, rfl⟩)
  have hnd' : ((I0 ++ impEntries W c imports).map (·.1)).Nodup := by
    simpa [impEntries, Function.comp_def] using hnd
  -- a key-indexed variant of `find?_of_mem_nodup`
  have : ∀ (l : List (TagKey × Tagged)) (k : TagKey) (v : Tagged), (l.map (·.1)).Nodup → (k, v) ∈ l →
      l.find? (·.1 == k) = some (k, v) := by
    intro l k v hn hm
    induction l with
    | nil => cases hm
    | cons p rest ih =>
      simp only [List.map_cons, List.nodup_cons] at hn
      rcases List.mem_cons.1 hm with h | h
      · subst h; simp
      · have hne : p.1 ≠ k := by
          intro he; apply hn.1; rw [he]; exact List.mem_map.2 ⟨(k, v), h, rfl⟩
        have hb : (p.1 == k) = false := by simpa using hne
        simp only [List.find?_cons, hb]
        exact ih hn.2 h
  rw [this _ _ _ hnd' hmem]; rfl

/-- The imported-tag invariant of the contexts a fold's component starts from. -/
theorem importsOK_inner (W : World) {n : Name} {params : Params} {fds : List FDir}
    {child : QNode} {vid : Vid} {L : List Ev} {f : Fold} {ssIn : List Stage} {evsIn : List Ev}
    (facts : FoldFacts W n params fds child vid L f ssIn evsIn)
    (base : List (Name × Tagged)) (c : Ctx) (hi : Inv W c L) (himp : ImportsOK W c base)
    (hn : (base.map (·.1) ++ tagNames W L).Nodup) (c0 : Ctx)
    (h0 : c0.importedTags = c.importedTags ++ impEntries W c f.imports) :
    ImportsOK (W.inner f) c0 (absL W base L c).tags := by
  have hnd := imports_nodup himp facts.impNodup facts.impFresh
  refine ⟨?_, ?_, ?_⟩
  · rw [h0]; simpa [impEntries, Function.comp_def] using hnd
  · intro k
    rw [h0]
    simp only [List.map_append, List.mem_append, World.inner, impEntries, List.map_map,
      Function.comp_def]
    rw [himp.keys k]
    exact or_comm
  · intro r hr
    simp only [World.inner, List.mem_append] at hr
    rcases hr with hr | hr
    · refine ⟨impVal W c r, ?_, ?_⟩
      · unfold Engine.Ctx.tag?
        rw [h0]
        exact tag?_impEntries W c c.importedTags f.imports hnd hr
      · intro t hnr
        have hloc := (facts.impLocal r hr)
        have hnrl := hloc.2 t hnr
        cases r with
        | ctx w fld ty =>
          exact absL_tag?_vtx W (c := c) hn hloc.1.1 hnrl
        | fcount e root =>
          exact absL_tag?_fold W (c := c) hn hloc.1 hnrl
    · obtain ⟨tv, h1, h2⟩ := himp.vals r hr
      refine ⟨tv, ?_, ?_⟩
      · unfold Engine.Ctx.tag? at *
        rw [h0, find?_append_of_mem]
        · exact h1
        · cases hf : List.find? (fun x => x.1 == r.key) c.importedTags with
          | none => simp [hf] at h1
          | some p => rfl
      · intro t hnr
        have := tag?_base_prefix (l := L.flatMap (tagsEv W c)) (o := []) (h2 t hnr)
        exact this

/-- The fold stage for a context whose source vertex is missing: the fold does not exist; its
post-filters (F-9 fixed: they run on the placeholder `Null`) pass, as the specification says. -/
theorem fold_stage_none (W : World) (hl : W.lim = false) {n : Name} {params : Params}
    {fds : List FDir} {child : QNode} {vid : Vid} {L : List Ev} {f : Fold} {ssIn : List Stage}
    {evsIn : List Ev} (facts : FoldFacts W n params fds child vid L f ssIn evsIn)
    (hcertIn : NodeCert (W.inner f) child f.toVid [] ssIn evsIn)
    (fuel k : Nat) (hvisitIn : VisitOK [f.toVid] ssIn)
    (hnilIn : ∀ s ∈ ssIn, StageNil (W.inner f) k s)
    (base : List (Name × Tagged)) (c : Ctx) (hi : Inv W c L) (himp : ImportsOK W c base)
    (hvL : Ev.vtx vid ∈ L) (hv : c.vertexAt? vid = some none)
    (hs : SimHyps W base (L ++ [.fold f.eid])) :
    SimO (absL W base (L ++ [.fold f.eid]))
      (fun c' => Ext c c' ∧ Inv W c' (L ++ [.fold f.eid]) ∧ c'.active = none)
      (stageO W (k + 1) (.fold f) c)
      (evalEdge W.senv fuel (ownersOf W.D none) n params (.fold fds) child none
        (absL W base L c)).toOption := by
  obtain ⟨fromV, hfromV0⟩ := Option.isSome_iff_exists.1 facts.fromV
  have hfromV : W.comp.vertex? f.fromVid = some fromV := by rw [facts.from_]; exact hfromV0
  obtain ⟨rootV, evs', sfs, _, hrootV, hrootVid, hflt⟩ := hcertIn.dest
  have hfresh : f.eid ∉ fkeys c := by
    rw [hi.fk]
    intro hm
    have hnd := hs.evNodup
    rw [List.nodup_append] at hnd
    exact hnd.2.2 _ (mem_flds.1 hm) _ (List.mem_singleton.2 rfl) rfl
  have hkOK : KeysOK W L := hs.prefix.keys
  have hkE : ((W.FK f.eid).map (·.2)).Perm (W.CO f.eid ++ W.ON f.eid) :=
    hs.keys f.eid (by simp)
  -- interpreter side
  have hcomp : computeComponent W.env (k + 1) f.component [] = .ok [] := by
    apply R_ok_of_toOption
    have hroot' : (W.inner f).comp.vertex? (W.inner f).comp.root = some rootV := by
      show f.component.vertex? f.component.root = some rootV
      rw [facts.root]; exact hrootV
    exact computeComponent_nil_ctx (W.inner f) k rootV ssIn hroot' facts.merge
      (by show VisitOK [f.component.root] ssIn; rw [facts.root]; exact hvisitIn) hnilIn
      (enterVertex_nil (W.inner f) f.toVid rootV hrootV hrootVid _ sfs hflt)
  have hvf : c.vertexAt? f.fromVid = some none := by rw [facts.from_]; exact hv
  have hI : stageO W (k + 1) (.fold f) c =
      some [foldDone c none f.eid none
        (f.fouts.map (fun n => ((f.eid, n), none)) ++
          f.component.outputs.map (fun o => ((f.eid, o.name), none)) ++
          (nestedKeys f.component).map fun k => (k, none))] := by
    simp only [stageO]
    have hndI := imports_nodup himp facts.impNodup facts.impFresh
    rw [computeFold_single W hl (k + 1) f c hfromV
      (fun r hr => canImport_of hi (facts.impLocal r hr).1) hndI hvf]
    simp only [Data.nbrsOpt, foldStart, List.map_nil, hcomp, R.bind_ok]
    have hrem := removeTags_ok f.imports
      { impCtx c none (impEntries W c f.imports) with
        foldCounts := (impCtx c none (impEntries W c f.imports)).foldCounts ++ [(f.eid, none)] }
      c.importedTags (impVal W c) rfl hndI
    -- the post-filters: every one passes the context (no active vertex)
    obtain ⟨c1, hc1⟩ : ∃ c1 : Ctx, c1 = { ({ c with active := none } : Ctx) with
        foldCounts := c.foldCounts ++ [(f.eid, none)] } := ⟨_, rfl⟩
    have hc2 : ({ ({ impCtx c none (impEntries W c f.imports) with
        foldCounts := (impCtx c none (impEntries W c f.imports)).foldCounts ++
          [(f.eid, none)] } : Ctx) with importedTags := c.importedTags } : Ctx) = c1 := by
      rw [hc1]; rfl
    rw [hc2] at hrem
    have hext1 : Ext c c1 := by
      rw [hc1]; exact ⟨⟨[], by simp⟩, ⟨[(f.eid, none)], rfl⟩, ⟨[], by simp⟩, rfl, rfl⟩
    have hact1 : c1.active = none := by rw [hc1]
    have hlookx : look c vid = none := by unfold look; rw [hv]; rfl
    have hcnt1 : c1.foldCount? f.eid = some none := by
      rw [hc1]
      unfold Engine.Ctx.foldCount?
      simp only
      rw [List.find?_append]
      have : List.find? (fun p => p.1 == f.eid) c.foldCounts = none := by
        rw [List.find?_eq_none]
        intro p hp hpe
        apply hfresh
        exact List.mem_map.2 ⟨p, hp, by simpa using hpe⟩
      simp [this]
    have himp1 : ImportsOK W c1 base := himp.of_imported (by rw [hc1])
    have hsem := tagSem_post W base (c := c) (c1 := c1) (u := vid) hfromV0 hi hvL hext1
      (by rw [hact1, hlookx]) himp1 f.eid none facts.inComp hcnt1 hs.tagNodup []
    have hpost : applyPostFilters W.env W.comp f f.post c1 = .ok (some c1) := by
      have hsem' : TagSem W f.fromVid c1
          ⟨(absL W base L c).tags ++ (W.CT f.eid).map fun m => (m, cntTag none), []⟩
          (TRefPost W vid L f.eid) := by
        rw [facts.from_]; exact hsem
      exact applyPostFilters_none W f (TRefPost W vid L f.eid) c1 _ hsem' hact1 hcnt1
        (countFilterPairs fds) f.post facts.post
    rw [foldFinish_none W f (impCtx c none (impEntries W c f.imports)) [] hvf
      (foldCount?_none_of_fresh c f.eid hfresh) c1 hrem hpost,
      foldOutputs_default W f none (Or.inl rfl)]
    simp only [R.bind_ok, Option.map_none]
    rw [mergeFolded_fresh]
    · rw [hc1]; rfl
    · intro p hp
      have hfv1 : fvNames c1 = fvNames c := by rw [hc1]; rfl
      rw [hfv1]
      have hpn : p.1.2 ∈ W.CO f.eid ++ W.ON f.eid := by
        apply hkE.mem_iff.1
        rw [facts.fk]
        simp only [foldKeys, List.mem_map, List.mem_append] at hp ⊢
        rcases hp with (⟨a, ha, rfl⟩ | ⟨o, ho, rfl⟩) | ⟨q, hq, rfl⟩
        · exact ⟨(f.eid, a), Or.inl (Or.inl ⟨a, ha, rfl⟩), rfl⟩
        · exact ⟨(f.eid, o.name), Or.inl (Or.inr ⟨o, ho, rfl⟩), rfl⟩
        · exact ⟨q, Or.inr hq, rfl⟩
      intro hmem
      have hmem' := (hi.names hkOK).mem_iff.1 hmem
      obtain ⟨e', he', hne'⟩ := List.mem_flatMap.1 hmem'
      have hon := hs.on
      simp only [outNamesL, List.flatMap_append, List.flatMap_cons, List.flatMap_nil,
        List.append_nil, evOutNames] at hon
      exact (List.nodup_append.1 hon).2.2 _
        (List.mem_flatMap.2 ⟨.fold e', mem_flds.1 he', hne'⟩) _ hpn rfl
  rw [hI, evalEdge_fold_none]
  -- the result context stands for the specification's assignment
  obtain ⟨news, hnews⟩ : ∃ news, news = f.fouts.map (fun n => ((f.eid, n), (none : Option Value))) ++
      f.component.outputs.map (fun o => ((f.eid, o.name), none)) ++
      (nestedKeys f.component).map fun k => (k, none) := ⟨_, rfl⟩
  rw [← hnews]
  have hnk : (news.map (·.1)).Perm (W.FK f.eid) := by
    rw [facts.fk, hnews]
    simp [foldKeys, Function.comp_def]
  have hnn := foldKeys_names W f.eid hkE news hnk
  have hnnd : (news.map (·.1.2)).Nodup := by
    refine hnn.nodup_iff.2 ?_
    have hon := hs.on
    simp only [outNamesL, List.flatMap_append, List.flatMap_cons, List.flatMap_nil,
      List.append_nil, evOutNames] at hon
    exact (List.nodup_append.1 hon).2.1
  have hval : ∀ m ∈ W.ON f.eid ++ W.CO f.eid,
      valByName (foldDone c none f.eid none news) m = Value.null := by
    intro m hm
    have hm' : m ∈ news.map (·.1.2) := hnn.mem_iff.2 (by simpa [or_comm] using hm)
    obtain ⟨p, hp, hpm⟩ := List.mem_map.1 hm'
    have hpnone : p.2 = none := by
      rw [hnews] at hp
      simp only [List.mem_append, List.mem_map] at hp
      rcases hp with (⟨a, _, rfl⟩ | ⟨o, _, rfl⟩) | ⟨q, _, rfl⟩ <;> rfl
    have hfr : m ∉ fvNames c := by
      intro hmem
      have hmem' := (hi.names hkOK).mem_iff.1 hmem
      obtain ⟨e', he', hne'⟩ := List.mem_flatMap.1 hmem'
      have hon := hs.on
      simp only [outNamesL, List.flatMap_append, List.flatMap_cons, List.flatMap_nil,
        List.append_nil, evOutNames] at hon
      exact (List.nodup_append.1 hon).2.2 _
        (List.mem_flatMap.2 ⟨.fold e', mem_flds.1 he', hne'⟩) _
        (by simpa [or_comm] using hm) rfl
    rw [valByName_foldDone c none f.eid none news m p.1.1 p.2 hfr hnnd
      (by rw [← hpm]; exact hp), hpnone]
    rfl
  have habs : absL W base (L ++ [.fold f.eid]) (foldDone c none f.eid none news) =
      foldAsgNone (absL W base L c) fds (outNames child) := by
    rw [absL_foldDone W base hi hkOK none f.eid none news hfresh]
    simp only [foldAsgNone, facts.ct, cntTag]
    congr 1
    rw [List.append_assoc]
    congr 1
    rw [← facts.on, ← facts.co, ← List.map_append]
    apply List.map_congr_left
    intro m hm
    rw [hval m hm]
  simp only [R.toOption_ok]
  rw [← habs]
  refine SimO.single _ ⟨Ext.foldDone c none f.eid none news, hi.foldDone none f.eid none news hnk, rfl⟩

end TF.InterpSpec

namespace TF.InterpSpec
open TF TF.Engine TF.Spec

/-- The hypotheses of the simulation of the fold's component, derived from the outer ones. -/
theorem simHyps_inner (W : World) {n : Name} {params : Params}
    {fds : List FDir} {child : QNode} {vid : Vid} {L : List Ev} {f : Fold} {ssIn : List Stage}
    {evsIn : List Ev} (facts : FoldFacts W n params fds child vid L f ssIn evsIn)
    (base : List (Name × Tagged)) (c : Ctx) (hs : SimHyps W base (L ++ [.fold f.eid]))
    (hndIn : (evsIn.map evVid).Nodup) :
    SimHyps (W.inner f) (absL W base L c).tags evsIn := by
  refine ⟨hndIn, ?_, ?_, facts.keysIn⟩
  · rw [absL_tagNames]
    have htn := hs.tn
    rw [deepTagNames_append] at htn
    simp only [deepTagNames, List.flatMap_cons, List.flatMap_nil,
      List.append_nil, evDeepTagNames] at htn
    -- base ++ deep L ++ (CT ++ IT)  ⊇  base ++ tagNames L ++ IT
    have hsub : (base.map (·.1) ++ tagNames W L ++ W.IT f.eid).Sublist
        (base.map (·.1) ++ (List.flatMap (evDeepTagNames W) L ++ (W.CT f.eid ++ W.IT f.eid))) := by
      rw [List.append_assoc]
      refine List.Sublist.append (List.Sublist.refl _) ?_
      exact List.Sublist.append (tagNames_sublist_deep W L) (List.sublist_append_right _ _)
    have hnd := List.Nodup.sublist hsub htn
    exact (List.Perm.append_left _ facts.itPerm).nodup_iff.2 hnd
  · refine facts.onPerm.nodup_iff.2 ?_
    have hon := hs.on
    simp only [outNamesL, List.flatMap_append, List.flatMap_cons, List.flatMap_nil,
      List.append_nil, evOutNames] at hon
    rw [← facts.on]
    exact (List.nodup_append.1 (List.nodup_append.1 hon).2.1).2.1

/-- The fold stage for a context whose source vertex exists. -/
theorem fold_stage_some (W : World) (hl : W.lim = false) {n : Name} {params : Params}
    {fds : List FDir} {child : QNode} {vid : Vid} {L : List Ev} {f : Fold} {ssIn : List Stage}
    {evsIn : List Ev} (facts : FoldFacts W n params fds child vid L f ssIn evsIn)
    (hcertIn : NodeCert (W.inner f) child f.toVid [] ssIn evsIn)
    (fuel k : Nat) (hvisitIn : VisitOK [f.toVid] ssIn)
    (hnilIn : ∀ s ∈ ssIn, StageNil (W.inner f) k s) (hndIn : (evsIn.map evVid).Nodup)
    (hin : ∀ (base' : List (Name × Tagged)) (c0 : Ctx), Inv (W.inner f) c0 [] → c0.active.isSome →
      SimHyps (W.inner f) base' evsIn → ImportsOK (W.inner f) c0 base' →
      SimO (absL (W.inner f) base' evsIn) (fun c' => Inv (W.inner f) c' evsIn)
        (nodeO (W.inner f) k f.toVid ssIn c0)
        (evalNode W.senv fuel child c0.active (absL (W.inner f) base' [] c0)).toOption)
    (base : List (Name × Tagged)) (c : Ctx) (x : VertexId) (hi : Inv W c L)
    (himp : ImportsOK W c base)
    (hvL : Ev.vtx vid ∈ L) (hv : c.vertexAt? vid = some (some x))
    (hs : SimHyps W base (L ++ [.fold f.eid])) :
    SimO (absL W base (L ++ [.fold f.eid]))
      (fun c' => Ext c c' ∧ Inv W c' (L ++ [.fold f.eid]) ∧ c'.active = some x)
      (stageO W (k + 1) (.fold f) c)
      (evalEdge W.senv fuel (ownersOf W.D (some x)) n params (.fold fds) child (some x)
        (absL W base L c)).toOption := by
  obtain ⟨fromV, hfromV⟩ := Option.isSome_iff_exists.1 facts.fromV
  have hfromV' : W.comp.vertex? f.fromVid = some fromV := by rw [facts.from_]; exact hfromV
  obtain ⟨rootV, evs', sfs, _, hrootV, hrootVid, hflt⟩ := hcertIn.dest
  have hfresh : f.eid ∉ fkeys c := by
    rw [hi.fk]
    intro hm
    have hnd := hs.evNodup
    rw [List.nodup_append] at hnd
    exact hnd.2.2 _ (mem_flds.1 hm) _ (List.mem_singleton.2 rfl) rfl
  have hkOK : KeysOK W L := hs.prefix.keys
  have hkE : ((W.FK f.eid).map (·.2)).Perm (W.CO f.eid ++ W.ON f.eid) :=
    hs.keys f.eid (by simp)
  have hsIn := simHyps_inner W facts base c hs hndIn
  have hvf : c.vertexAt? f.fromVid = some (some x) := by rw [facts.from_]; exact hv
  have hfrNames : ∀ m ∈ W.CO f.eid ++ W.ON f.eid, m ∉ fvNames c := by
    intro m hm hmem
    have hmem' := (hi.names hkOK).mem_iff.1 hmem
    obtain ⟨e', he', hne'⟩ := List.mem_flatMap.1 hmem'
    have hon := hs.on
    simp only [outNamesL, List.flatMap_append, List.flatMap_cons, List.flatMap_nil,
      List.append_nil, evOutNames] at hon
    exact (List.nodup_append.1 hon).2.2 _
      (List.mem_flatMap.2 ⟨.fold e', mem_flds.1 he', hne'⟩) _ hm rfl
  have hnamesNd : (W.CO f.eid ++ W.ON f.eid).Nodup := by
    have hon := hs.on
    simp only [outNamesL, List.flatMap_append, List.flatMap_cons, List.flatMap_nil,
      List.append_nil, evOutNames] at hon
    exact (List.nodup_append.1 hon).2.1
  -- the neighbours
  have hns : specNbrs W.senv (ownersOf W.D (some x)) n params (some x) =
      W.D.nbrsOpt (some x) f.name f.params := by
    simp only [specNbrs, ownersOf, Data.nbrsOpt, World.senv_data, facts.name]
    exact facts.params x
  -- the sub-component, context by context
  have hroot' : (W.inner f).comp.vertex? (W.inner f).comp.root = some rootV := by
    show f.component.vertex? f.component.root = some rootV
    rw [facts.root]; exact hrootV
  have hent := enterVertex_nil (W.inner f) f.toVid rootV hrootV hrootVid _ sfs hflt
  have hcc : ∀ cs0, (computeComponent W.env (k + 1) f.component cs0).toOption =
      flatMapO (nodeO (W.inner f) k f.toVid ssIn) cs0 := by
    intro cs0
    have := computeComponent_eq (W.inner f) k rootV ssIn hroot' facts.merge
      (by show VisitOK [f.component.root] ssIn; rw [facts.root]; exact hvisitIn) hnilIn cs0
    rw [show (W.inner f).env = W.env from rfl, show (W.inner f).comp = f.component from rfl] at this
    rw [this, Hom.eq_flatMapO (enterVertex_hom W.env f.component rootV)
      (by rw [show W.env = (W.inner f).env from rfl, show f.component = (W.inner f).comp from rfl,
        hent]; rfl)]
    have hl' : runO (W.inner f) k ssIn = flatMapO (fun c' => runO (W.inner f) k ssIn [c']) :=
      funext (runO_linear (W.inner f) k ssIn)
    rw [hl', flatMapO_assoc]
    apply flatMapO_congr
    intro c0 _
    simp only [nodeO]
    rw [show (W.inner f).comp.vertex? f.toVid = some rootV from hrootV, ← hl']
    rfl
  obtain ⟨a, ha⟩ : ∃ a, a = absL W base L c := ⟨_, rfl⟩
  have hndI := imports_nodup himp facts.impNodup facts.impFresh
  have hsimIn : SimO (absL (W.inner f) a.tags evsIn) (fun c' => Inv (W.inner f) c' evsIn)
      (computeComponent W.env (k + 1) f.component
        (foldStart (impCtx c (some x) (impEntries W c f.imports))
          (W.D.nbrsOpt (some x) f.name f.params))).toOption
      (flatMapO (fun m => (evalNode W.senv fuel child (some m) { tags := a.tags, outs := [] }).toOption)
        (W.D.nbrsOpt (some x) f.name f.params)) := by
    rw [hcc]
    simp only [foldStart, flatMapO_map]
    apply SimO.flatMapO
    intro m _
    have := hin a.tags
      { Ctx.new (some m) with importedTags := (impCtx c (some x) (impEntries W c f.imports)).importedTags }
      ⟨rfl, rfl, by simp [fvKeys, Ctx.new]⟩ rfl (by rw [ha]; exact hsIn)
      (by rw [ha]; exact importsOK_inner W facts base c hi himp hs.prefix.tagNodup _ rfl)
    rw [absL_nil] at this
    exact this
  rw [evalEdge_fold_some, hns, ← ha]
  simp only [stageO]
  rw [computeFold_single W hl (k + 1) f c hfromV'
    (fun r hr => canImport_of hi (facts.impLocal r hr).1) hndI hvf]
  revert hsimIn
  generalize hCC : computeComponent W.env (k + 1) f.component
    (foldStart (impCtx c (some x) (impEntries W c f.imports))
      (W.D.nbrsOpt (some x) f.name f.params)) = CC
  generalize flatMapO (fun m => (evalNode W.senv fuel child (some m)
    { tags := a.tags, outs := [] }).toOption) (W.D.nbrsOpt (some x) f.name f.params) = SS
  intro hsimIn
  cases CC with
  | panic s => cases SS <;> simp_all [SimO]
  | fuel => cases SS <;> simp_all [SimO]
  | ok computed =>
    cases SS with
    | none => simp [SimO] at hsimIn
    | some elems =>
      obtain ⟨helems, hinv⟩ := hsimIn
      have hlen : elems.length = computed.length := by rw [helems]; simp
      simp only [R.bind_ok, Option.bind_some, hlen]
      -- post-filters
      obtain ⟨c1, hc1⟩ : ∃ c1 : Ctx, c1 = { ({ c with active := some x } : Ctx) with
          foldCounts := c.foldCounts ++ [(f.eid, some computed.length)] } := ⟨_, rfl⟩
      have hrem := removeTags_ok f.imports
        { impCtx c (some x) (impEntries W c f.imports) with
          foldCounts := (impCtx c (some x) (impEntries W c f.imports)).foldCounts ++
            [(f.eid, some computed.length)] }
        c.importedTags (impVal W c) rfl hndI
      have hc2 : ({ ({ impCtx c (some x) (impEntries W c f.imports) with
          foldCounts := (impCtx c (some x) (impEntries W c f.imports)).foldCounts ++
            [(f.eid, some computed.length)] } : Ctx) with importedTags := c.importedTags } : Ctx) = c1 := by
        rw [hc1]; rfl
      rw [hc2] at hrem
      rw [foldFinish_some W f (impCtx c (some x) (impEntries W c f.imports)) computed hvf
        (foldCount?_none_of_fresh c f.eid hfresh) c1 hrem]
      have hext1 : Ext c c1 := by
        rw [hc1]; exact ⟨⟨[], by simp⟩, ⟨[(f.eid, some computed.length)], rfl⟩, ⟨[], by simp⟩, rfl, rfl⟩
      have hact1 : c1.active = some x := by rw [hc1]
      have hlookx : look c vid = some x := by unfold look; rw [hv]; rfl
      have hcnt1 : c1.foldCount? f.eid = some (some computed.length) := by
        rw [hc1]
        unfold Engine.Ctx.foldCount?
        simp only
        rw [List.find?_append]
        have : List.find? (fun p => p.1 == f.eid) c.foldCounts = none := by
          rw [List.find?_eq_none]
          intro p hp hpe
          apply hfresh
          exact List.mem_map.2 ⟨p, hp, by simpa using hpe⟩
        simp [this]
      have himp1 : ImportsOK W c1 base := himp.of_imported (by rw [hc1])
      have hsem := tagSem_post W base (c := c) (c1 := c1) (u := vid) hfromV hi hvL hext1
        (by rw [hact1, hlookx]) himp1 f.eid (some computed.length) facts.inComp hcnt1 hs.tagNodup a.outs
      have hsem' : TagSem W f.fromVid c1
          ⟨(absL W base L c).tags ++ (countTagNames fds).map fun m =>
            (m, Tagged.some (Value.uint64 (UInt64.ofNat computed.length))), a.outs⟩
          (TRefPost W vid L f.eid) := by
        rw [facts.from_]
        have := hsem
        rw [facts.ct] at this
        exact this
      have hpostsem := applyPostFilters_sem W f (TRefPost W vid L f.eid) c1 _ hsem' hcnt1
        (countFilterPairs fds) f.post facts.post
      rw [hact1, ← ha] at hpostsem
      revert hpostsem
      generalize hAP : applyPostFilters W.env W.comp f f.post c1 = AP
      generalize hFH : filtersHold W.senv
        { tags := a.tags ++ List.map (fun m =>
            (m, Tagged.some (Value.uint64 (UInt64.ofNat computed.length)))) (countTagNames fds),
          outs := a.outs } (some x) (Value.uint64 (UInt64.ofNat computed.length))
        (countFilterPairs fds) = FH
      intro hpostsem
      rcases FH with (_ | _) | _ | _
      · -- a post-filter fails: the context is dropped
        have : AP = .ok none := by
          cases AP with
          | ok o => simp [optCtx] at hpostsem; rw [hpostsem]
          | panic s => simp at hpostsem
          | fuel => simp at hpostsem
        rw [this]
        simp only [R.bind_ok, R.toOption_ok, Option.toList, Option.bind_some, Bool.false_eq_true,
          if_false]
        exact SimO.nil _ _
      · -- all post-filters hold
        have : AP = .ok (some c1) := by
          cases AP with
          | ok o => simp [optCtx] at hpostsem; rw [hpostsem]
          | panic s => simp at hpostsem
          | fuel => simp at hpostsem
        rw [this]
        simp only [R.bind_ok, R.toOption_ok, Option.bind_some, if_true]
        obtain ⟨news, hfo, hnk, hco, hon⟩ := fold_outputs_match W f fds child ssIn evsIn a.tags computed
          facts.fouts facts.outs facts.nested facts.onPerm facts.keysIn hsIn.on hinv
        rw [hfo, R.bind_ok]
        have hnk' : (news.map (·.1)).Perm (W.FK f.eid) := by rw [facts.fk]; exact hnk
        have hnn := foldKeys_names W f.eid hkE news hnk'
        have hnnd : (news.map (·.1.2)).Nodup := hnn.nodup_iff.2 hnamesNd
        have hfv1 : fvNames c1 = fvNames c := by rw [hc1]; rfl
        rw [mergeFolded_fresh c1 news (fun p hp => by
          rw [hfv1]; exact hfrNames _ (hnn.mem_iff.1 (List.mem_map.2 ⟨p, hp, rfl⟩)))]
        have hc4 : ({ c1 with foldedValues := c1.foldedValues ++ news } : Ctx) =
            foldDone c (some x) f.eid (some computed.length) news := by rw [hc1]; rfl
        rw [hc4]
        simp only [R.bind_ok, R.toOption_ok, Option.toList]
        have habs : absL W base (L ++ [.fold f.eid])
            (foldDone c (some x) f.eid (some computed.length) news) =
            foldAsg a fds (outNames child) elems := by
          rw [absL_foldDone W base hi hkOK (some x) f.eid (some computed.length) news hfresh, ← ha]
          simp only [foldAsg, facts.ct, cntTag, hlen, facts.co, facts.on]
          congr 1
          rw [List.map_append, List.append_assoc]
          congr 2
          · apply List.map_congr_left
            intro m hm
            obtain ⟨key, hkey⟩ := hco m hm
            rw [valByName_foldDone c (some x) f.eid _ news m key _
              (hfrNames m (by rw [facts.co]; exact List.mem_append_left _ hm)) hnnd hkey]
            rfl
          · apply List.map_congr_left
            intro m hm
            obtain ⟨key, hkey⟩ := hon m hm
            rw [valByName_foldDone c (some x) f.eid _ news m key _
              (hfrNames m (by rw [facts.on]; exact List.mem_append_right _ hm)) hnnd hkey]
            simp only [Option.getD_some, specList, helems, List.map_map, Function.comp_def]
        rw [← habs]
        exact SimO.single _ ⟨Ext.foldDone c (some x) f.eid _ news,
          hi.foldDone (some x) f.eid _ news hnk', rfl⟩
      · have : AP.toOption = none := by simpa using hpostsem
        cases AP <;> simp_all [SimO]
      · have : AP.toOption = none := by simpa using hpostsem
        cases AP <;> simp_all [SimO]

end TF.InterpSpec
