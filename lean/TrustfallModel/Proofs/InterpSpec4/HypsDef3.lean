/-
C01 main theorem with `@fold`: the decidable side conditions `Hyps3` (on the query tree only), the
fold tables of a query tree, and the IR-level check `importsOKC` on the imported tags of the folds of
a compiled query (a THEOREM about `toIR`: `importsOKC_of_toIR` in `StaticImports.lean`; the driver
still evaluates it per generated query as a regression check).  Compiled into the driver.
-/
import TrustfallModel.Proofs.InterpSpec.HypsDef

namespace TF.InterpSpec
open TF TF.Engine TF.Spec TF.Frontend

def countTagNames : List FDir → List Name
  | [] => []
  | .countTag n :: rest => n :: countTagNames rest
  | _ :: rest => countTagNames rest

def countOutNames : List FDir → List Name
  | [] => []
  | .countOutput n :: rest => n :: countOutNames rest
  | _ :: rest => countOutNames rest

def countFilterPairs : List FDir → List (FOp × QArg)
  | [] => []
  | .countFilter op arg :: rest => (op, arg) :: countFilterPairs rest
  | _ :: rest => countFilterPairs rest

mutual
/-- Every tag name written in a sub-tree (property tags and fold-count tags, at any depth). -/
def treeTagNames : QNode → List Name
  | .mk _ fields => (tagPairs fields).map (·.1) ++ fieldsTagNames fields
def fieldsTagNames : List QField → List Name
  | [] => []
  | .prop _ _ :: rest => fieldsTagNames rest
  | .edge _ _ kind child :: rest =>
    (match kind with
      | .fold fds => countTagNames fds
      | _ => []) ++ treeTagNames child ++ fieldsTagNames rest
end

mutual
/-- The folds of a sub-tree at any depth with their Eids: fresh Vids start at `next`; the edge whose
destination is numbered `w` has Eid `w - 1`. -/
def ftblNode : QNode → Vid → List (Eid × List FDir × QNode)
  | .mk _ fields, next => ftblFields fields next
def ftblFields : List QField → Vid → List (Eid × List FDir × QNode)
  | [], _ => []
  | .prop _ _ :: rest, next => ftblFields rest next
  | .edge _ _ kind child :: rest, next =>
    (match kind with
      | .fold fds => [(next - 1, fds, child)]
      | _ => []) ++ ftblNode child (next + 1) ++ ftblFields rest (next + 1 + size child)
end

def ftblLookup (ftbl : List (Eid × List FDir × QNode)) (e : Eid) : Option (List FDir × QNode) :=
  (ftbl.find? (·.1 == e)).map (·.2)

mutual
/-- No fold of the IR imports a tag (fragment F3a). -/
def noImportsC : Component → Bool
  | .mk _ _ _ folds _ => noImportsF folds
def noImportsF : List Fold → Bool
  | [] => true
  | .mk _ _ _ _ _ comp imports _ _ :: rest => imports.isEmpty && noImportsC comp && noImportsF rest
end

def keyEq : TagKey → TagKey → Bool
  | .ctx v f, .ctx v' f' => v == v' && f == f'
  | .fcount e, .fcount e' => e == e'
  | _, _ => false

def keysDistinct : List TagKey → Bool
  | [] => true
  | k :: rest => !(rest.any (keyEq k)) && keysDistinct rest

mutual
/-- The imports of every fold are in order (`chain`: the keys imported by the enclosing folds): a fold
imports each tag once, none that an enclosing fold already imported, and not its own count.  Before
the fix of F-10 (`reference_tag` pushed a tag once per use) this could fail on real queries and was a
hypothesis of the main theorem; now it holds for every compiled query (`importsOKC_of_toIR`) and is
only an intermediate fact of the proof (`CompOK.impok`). -/
def importsOKC (chain : List TagKey) : Component → Bool
  | .mk _ _ _ folds _ => importsOKF chain folds
def importsOKF (chain : List TagKey) : List Fold → Bool
  | [] => true
  | .mk e _ _ _ _ comp imports _ _ :: rest =>
    keysDistinct (imports.map FieldRef.key) &&
      imports.all (fun r => !(chain.any (keyEq r.key)) && !(keyEq r.key (.fcount e))) &&
      importsOKC (imports.map FieldRef.key ++ chain) comp && importsOKF chain rest
end

mutual
/-- The hypotheses at and below a node, with `@fold`.  (There is no F-9 guard any more: with the
fixed `apply_fold_specific_filter` a fold with a count filter may sit in a missing `@optional` scope —
its post-filters pass, as the specification says; only the per-filter set-up must succeed, which is
what `varOK` of the count filters' variables states.) -/
def hyps3Node (H : HypEnv) (pre : Name) : QNode → Bool
  | .mk ct fields =>
    match coerce H.S pre ct with
    | .ok post =>
      filtersInOrder H.S post fields && (specFilters fields).all (varOK H) &&
        hyps3Fields H post fields
    | .error _ => true
def hyps3Fields (H : HypEnv) (ty : Name) : List QField → Bool
  | [] => true
  | .prop _ _ :: rest => hyps3Fields H ty rest
  | .edge n params kind child :: rest =>
    (match H.S.edge? ty n with
      | some ed =>
        match Frontend.completeParams ed.params params with
        | .ok ps =>
          paramsAgreeB H n params ps && recOK H ty ed n params ps kind &&
            (match kind with
              | .fold fds =>
                (fds.all fun d => match d with
                    | .countFilter op arg => varOK H ("", op, arg)
                    | _ => true) &&
                  hyps3Node H ed.target child
              | _ => hyps3Node H ed.target child)
        | .error _ => true
      | none => true) && hyps3Fields H ty rest
end

/-- The hypotheses of the main theorem with folds (on the tree) . -/
def hyps3B (H : HypEnv) (q : Query) : Bool :=
  match H.S.root? q.rootEdge with
  | some root =>
    match Frontend.completeParams root.params q.rootParams with
    | .ok rootParams =>
      (H.D.start q.rootEdge
          (Spec.completeParams (declParams H.senv [""] q.rootEdge) q.rootParams) ==
        H.D.start q.rootEdge rootParams) &&
      decide (height q.root ≤ 64) && hyps3Node H root.target q.root
    | .error _ => true
  | none => true

/-- `Hyps` with folds: the hypotheses on the query tree.  (Nothing is assumed about the compiled query
any more: the former second half, `importsOKC [] ir.rootComponent` — the "F-10 guard" — is proved from
`toIR S q = .ok ir`, and the former F-9 guard inside `hyps3Fields` is gone with the engine's panic.) -/
def Hyps3 (H : HypEnv) (q : Query) : Prop := hyps3B H q = true

instance (H : HypEnv) (q : Query) : Decidable (Hyps3 H q) :=
  inferInstanceAs (Decidable (_ = true))

end TF.InterpSpec
