/-
C01 main theorem (with folds): the per-context invariant along the stages, and the meaning of the
compiled tag references (`TagSem`) under it.
-/
import TrustfallModel.Proofs.InterpSpec4.Cert

namespace TF.InterpSpec
open TF TF.Engine TF.Spec

theorem nodup_of_map_nodup {α β : Type} {f : α → β} {l : List α} (h : (l.map f).Nodup) : l.Nodup := by
  induction l with
  | nil => exact List.nodup_nil
  | cons a t ih =>
    simp only [List.map_cons, List.nodup_cons] at h
    exact List.nodup_cons.2 ⟨fun hm => h.1 (List.mem_map.2 ⟨a, hm, rfl⟩), ih h.2⟩

/-- The static side conditions threaded through the simulation. -/
structure SimHyps (W : World) (base : List (Name × Tagged)) (L : List Ev) : Prop where
  nd : (L.map evVid).Nodup
  tn : (base.map (·.1) ++ deepTagNames W L).Nodup
  on : (outNamesL W L).Nodup
  keys : KeysOK W L

theorem SimHyps.prefix {W : World} {base : List (Name × Tagged)} {L1 L2 : List Ev}
    (h : SimHyps W base (L1 ++ L2)) : SimHyps W base L1 := by
  obtain ⟨nd, tn, on, keys⟩ := h
  refine ⟨?_, ?_, ?_, ?_⟩
  · rw [List.map_append] at nd; exact (List.nodup_append.1 nd).1
  · rw [deepTagNames_append, ← List.append_assoc] at tn; exact (List.nodup_append.1 tn).1
  · simp only [outNamesL, List.flatMap_append] at on; exact (List.nodup_append.1 on).1
  · intro e he; exact keys e (by rw [flds_append]; exact List.mem_append_left _ he)

theorem SimHyps.evNodup {W : World} {base : List (Name × Tagged)} {L : List Ev}
    (h : SimHyps W base L) : L.Nodup := nodup_of_map_nodup h.nd

theorem SimHyps.tagNodup {W : World} {base : List (Name × Tagged)} {L : List Ev}
    (h : SimHyps W base L) : (base.map (·.1) ++ tagNames W L).Nodup :=
  List.Nodup.sublist (List.Sublist.append (List.Sublist.refl _) (tagNames_sublist_deep W L)) h.tn

/-! ### recording a vertex -/

theorem keys_record (c : Ctx) (vid : Vid) : keys (Ctx.record c vid) = keys c ++ [vid] := by
  simp [keys, Ctx.record]

theorem Ext.record (c : Ctx) (vid : Vid) : Ext c (Ctx.record c vid) :=
  ⟨⟨[(vid, c.active)], rfl⟩, ⟨[], by simp [Ctx.record]⟩, ⟨[], by simp [Ctx.record]⟩, rfl, rfl⟩

theorem Inv.record {W : World} {c : Ctx} {L : List Ev} (h : Inv W c L) (vid : Vid) :
    Inv W (Ctx.record c vid) (L ++ [.vtx vid]) := by
  refine ⟨?_, ?_, ?_⟩
  · rw [keys_record, h.vk]; simp
  · have : fkeys (Ctx.record c vid) = fkeys c := rfl
    rw [this, h.fk]; simp
  · have : fvKeys (Ctx.record c vid) = fvKeys c := rfl
    rw [this]; simpa using h.fv

theorem look_record (c : Ctx) (vid : Vid) (hfresh : vid ∉ keys c) :
    look (Ctx.record c vid) vid = c.active := by
  unfold look Engine.Ctx.vertexAt? Ctx.record
  rw [List.find?_append]
  have : List.find? (fun x => x.1 == vid) c.vertices = none := by
    rw [List.find?_eq_none]
    intro p hp hpe
    apply hfresh
    have : p.1 = vid := by simpa using hpe
    exact List.mem_map.2 ⟨p, hp, this⟩
  simp [this]

theorem vertexAt_record (c : Ctx) (vid : Vid) (hfresh : vid ∉ keys c) :
    (Ctx.record c vid).vertexAt? vid = some c.active := by
  rw [vertexAt?_eq_look (by rw [keys_record]; simp), look_record c vid hfresh]

/-- The assignment after recording `vid`: the incoming one extended by the node's tags/outputs. -/
theorem absL_record (W : World) (base : List (Name × Tagged)) {c : Ctx} {L : List Ev}
    (hi : Inv W c L) (hk : KeysOK W L) (vid : Vid) (hfresh : vid ∉ keys c) :
    absL W base (L ++ [.vtx vid]) (Ctx.record c vid) =
      ⟨(absL W base L c).tags ++ tagBinds W.D c.active (W.TG vid),
        (absL W base L c).outs ++ outBinds W.D c.active (W.OG vid)⟩ := by
  rw [absL_snoc, absL_stable W base (Ext.record c vid) hi hk]
  simp only [tagsEv, outsEv, look_record c vid hfresh]

theorem bindProps_absL (W : World) (base : List (Name × Tagged)) (L : List Ev) (c : Ctx)
    (x : Option VertexId) (vid : Vid) (fields : List QField)
    (ht : W.TG vid = tagPairs fields) (ho : W.OG vid = outPairs fields) :
    bindProps W.senv x fields (absL W base L c) =
      ⟨(absL W base L c).tags ++ tagBinds W.D x (W.TG vid),
        (absL W base L c).outs ++ outBinds W.D x (W.OG vid)⟩ := by
  rw [bindProps_eq, ht, ho]; rfl

/-! ### tag lookups through appended bindings -/

theorem tag?_append_left {a : Asg} {l2 : List (Name × Tagged)} {o2 : List (Name × Value)} {t : Name}
    {v : Tagged} (h : a.tag? t = some v) : (⟨a.tags ++ l2, o2⟩ : Asg).tag? t = some v := by
  unfold Asg.tag? at *
  simp only at *
  rw [List.find?_append]
  cases hf : List.find? (fun x => x.1 == t) a.tags with
  | none => simp [hf] at h
  | some p => simpa [hf] using h

theorem tag?_append_right {l1 l2 : List (Name × Tagged)} {o : List (Name × Value)} {t : Name}
    {v : Tagged} (hn : ((l1 ++ l2).map (·.1)).Nodup) (hm : (t, v) ∈ l2) :
    (⟨l1 ++ l2, o⟩ : Asg).tag? t = some v := by
  unfold Asg.tag?
  rw [find?_of_mem_nodup hn (List.mem_append_right _ hm)]; rfl

theorem tag?_base_prefix {base l : List (Name × Tagged)} {o : List (Name × Value)} {t : Name}
    {v : Tagged} (h : (⟨base, []⟩ : Asg).tag? t = some v) : (⟨base ++ l, o⟩ : Asg).tag? t = some v := by
  unfold Asg.tag? at *
  simp only at *
  rw [List.find?_append]
  cases hf : List.find? (fun x => x.1 == t) base with
  | none => simp [hf] at h
  | some p => simpa [hf] using h

/-- The semantic clause for an imported reference. -/
theorem tagSem_imported (W : World) {base : List (Name × Tagged)} {c : Ctx} {vid : Vid} {V : IRVertex}
    (hV : W.comp.vertex? vid = some V) (himp : ImportsOK W c base) {t : Name} {r : FieldRef}
    (hr : r ∈ W.chain) (hnr : W.NR t r) (hnl : NotLocal W r) (l : List (Name × Tagged))
    (o : List (Name × Value)) :
    ∃ tv, tagValue W.env W.comp vid r c = .ok tv ∧ ((⟨base ++ l, o⟩ : Asg).tag? t).isSome ∧
      (c.active.isSome → (⟨base ++ l, o⟩ : Asg).tag? t = some tv) := by
  obtain ⟨tv, h1, h2⟩ := himp.vals r hr
  have hb := tag?_base_prefix (l := l) (o := o) (h2 t hnr)
  refine ⟨tv, ?_, by rw [hb]; rfl, fun _ => hb⟩
  cases r with
  | ctx w fld ty =>
    have hne : w ≠ vid := by
      intro he; subst he
      simp only [NotLocal] at hnl
      rw [hnl] at hV; cases hV
    exact tagValue_imported_ctx W vid w fld ty c hne hnl h1
  | fcount e root => exact tagValue_imported_fcount W vid e root c hnl h1

/-- The compiled tag references of the filters of vertex `vid`, against the incoming assignment
extended by the tags of `vid`. -/
theorem tagSem_vertex (W : World) (base : List (Name × Tagged)) {c : Ctx} {L : List Ev} {vid : Vid}
    {V : IRVertex} (hV : W.comp.vertex? vid = some V) (hi : Inv W c L) (himp : ImportsOK W c base)
    (hn : (base.map (·.1) ++ tagNames W (L ++ [.vtx vid])).Nodup) (o : List (Name × Value)) :
    TagSem W vid c ⟨(absL W base L c).tags ++ tagBinds W.D c.active (W.TG vid), o⟩
      (TRefAt W vid L) := by
  have hn1 : (base.map (·.1) ++ tagNames W L).Nodup := by
    rw [tagNames_append, ← List.append_assoc] at hn; exact (List.nodup_append.1 hn).1
  intro t r href
  rcases href with ⟨w, fld, ty, rfl, hmem, hw⟩ | ⟨e, root, rfl, hmem, hL, hany⟩ | ⟨hr, hnr, hnl⟩
  rotate_left 2
  · have := tagSem_imported W hV himp hr hnr hnl
      (L.flatMap (tagsEv W c) ++ tagBinds W.D c.active (W.TG vid)) o
    simpa [absL, List.append_assoc] using this
  · rcases hw with rfl | ⟨hwL, hne, hsome⟩
    · refine ⟨_, tagValue_local W w fld ty c hV, ?_, ?_⟩
      · have : (⟨(absL W base L c).tags ++ tagBinds W.D c.active (W.TG w), o⟩ : Asg).tag? t =
            some (tagOf W.D c.active fld) := by
          apply tag?_append_right
          · rw [List.map_append, absL_tagNames]
            have : (tagBinds W.D c.active (W.TG w)).map (·.1) = tagNames W [.vtx w] := by
              simp [tagBinds, tagNames, evTagNames, Function.comp_def]
            rw [this, List.append_assoc, ← tagNames_append]; exact hn
          · exact List.mem_map.2 ⟨(t, fld), hmem, rfl⟩
        rw [this]; rfl
      · intro hact
        obtain ⟨x, hx⟩ := Option.isSome_iff_exists.1 hact
        apply tag?_append_right
        · rw [List.map_append, absL_tagNames]
          have : (tagBinds W.D c.active (W.TG w)).map (·.1) = tagNames W [.vtx w] := by
            simp [tagBinds, tagNames, evTagNames, Function.comp_def]
          rw [this, List.append_assoc, ← tagNames_append]; exact hn
        · refine List.mem_map.2 ⟨(t, fld), hmem, ?_⟩
          simp [tagOf, hx]
    · obtain ⟨Vw, hVw⟩ := Option.isSome_iff_exists.1 hsome
      have hk : w ∈ keys c := by rw [hi.vk]; exact mem_vtxs.2 hwL
      have hlook := absL_tag?_vtx W (c := c) hn1 hwL hmem
      refine ⟨_, tagValue_other W vid w fld ty c hne hVw (vertexAt?_eq_look hk), ?_, ?_⟩
      · rw [tag?_append_left hlook]; rfl
      · intro _; exact tag?_append_left hlook
  · have hk : e ∈ fkeys c := by rw [hi.fk]; exact mem_flds.2 hL
    have hcnt : c.foldCount? e = some (cnt c e) := by
      unfold cnt Engine.Ctx.foldCount?
      obtain ⟨p, hp, hp1⟩ := List.mem_map.1 hk
      cases hf : List.find? (fun x => x.1 == e) c.foldCounts with
      | none =>
        rw [List.find?_eq_none] at hf
        exact absurd (by simpa using hp1) (hf p hp)
      | some q => simp
    have hlook := absL_tag?_fold W (c := c) hn1 hL hmem
    refine ⟨_, tagValue_fcount W vid e root c hany hcnt, ?_, ?_⟩
    · rw [tag?_append_left hlook]; rfl
    · intro _; exact tag?_append_left hlook

end TF.InterpSpec

namespace TF.InterpSpec
open TF TF.Engine TF.Spec

theorem foldCount?_eq_cnt {c : Ctx} {e : Eid} (hk : e ∈ fkeys c) : c.foldCount? e = some (cnt c e) := by
  unfold cnt Engine.Ctx.foldCount?
  obtain ⟨p, hp, hp1⟩ := List.mem_map.1 hk
  cases hf : List.find? (fun x => x.1 == e) c.foldCounts with
  | none =>
    rw [List.find?_eq_none] at hf
    exact absurd (by simpa using hp1) (hf p hp)
  | some q => simp

theorem Ext.keys_subset {c c' : Ctx} (h : Ext c c') {w : Vid} (hw : w ∈ keys c) : w ∈ keys c' := by
  obtain ⟨ext, he⟩ := h.verts
  simp only [keys, he, List.map_append, List.mem_append]
  exact Or.inl hw

theorem Ext.fkeys_subset {c c' : Ctx} (h : Ext c c') {e : Eid} (he : e ∈ fkeys c) : e ∈ fkeys c' := by
  obtain ⟨ext, hx⟩ := h.counts
  simp only [fkeys, hx, List.map_append, List.mem_append]
  exact Or.inl he

/-- The compiled tag references of the post-filters of the fold `eid` (count slot `n`: `some k`, or
`none` when the fold does not exist because its source vertex is missing) whose source vertex `u` is
already recorded and active, against the assignment extended by the fold's own count tags. -/
theorem tagSem_post (W : World) (base : List (Name × Tagged)) {c c1 : Ctx} {L : List Ev} {u : Vid}
    {V : IRVertex} (hV : W.comp.vertex? u = some V) (hi : Inv W c L) (hu : Ev.vtx u ∈ L)
    (hext : Ext c c1) (hact : c1.active = look c u) (himp : ImportsOK W c1 base) (eid : Eid)
    (n : Option Nat)
    (hany : W.comp.folds.any (·.eid == eid) = true) (hcnt : c1.foldCount? eid = some n)
    (hn : (base.map (·.1) ++ tagNames W (L ++ [.fold eid])).Nodup)
    (o : List (Name × Value)) :
    TagSem W u c1 ⟨(absL W base L c).tags ++ (W.CT eid).map fun m => (m, cntTag n), o⟩
      (TRefPost W u L eid) := by
  have hn1 : (base.map (·.1) ++ tagNames W L).Nodup := by
    rw [tagNames_append, ← List.append_assoc] at hn; exact (List.nodup_append.1 hn).1
  intro t r href
  rcases href with (⟨w, fld, ty, rfl, hmem, hw⟩ | ⟨e, root, rfl, hmem, hL, hany'⟩ | ⟨hr, hnr, hnl⟩) |
    ⟨root, rfl, hmem⟩
  rotate_left 2
  · have := tagSem_imported W hV himp hr hnr hnl
      (L.flatMap (tagsEv W c) ++ (W.CT eid).map fun m => (m, cntTag n)) o
    simpa [absL, List.append_assoc] using this
  rotate_left 1
  · rcases hw with rfl | ⟨hwL, hne, hsome⟩
    · have hlook := absL_tag?_vtx W (c := c) hn1 hu hmem
      refine ⟨_, tagValue_local W w fld ty c1 hV, ?_, ?_⟩
      · rw [tag?_append_left hlook]; rfl
      · intro ha
        rw [tag?_append_left hlook, hact]
        obtain ⟨x, hx⟩ := Option.isSome_iff_exists.1 ha
        rw [hact] at hx
        simp [tagOf, hx]
    · obtain ⟨Vw, hVw⟩ := Option.isSome_iff_exists.1 hsome
      have hk : w ∈ keys c := by rw [hi.vk]; exact mem_vtxs.2 hwL
      have hlook := absL_tag?_vtx W (c := c) hn1 hwL hmem
      have hv1 : c1.vertexAt? w = some (look c w) := by
        rw [vertexAt?_eq_look (hext.keys_subset hk), look_stable hext hk]
      refine ⟨_, tagValue_other W u w fld ty c1 hne hVw hv1, ?_, ?_⟩
      · rw [tag?_append_left hlook]; rfl
      · intro _; exact tag?_append_left hlook
  · have hk : e ∈ fkeys c := by rw [hi.fk]; exact mem_flds.2 hL
    have hcnt' : c1.foldCount? e = some (cnt c e) := by
      rw [foldCount?_eq_cnt (hext.fkeys_subset hk), cnt_stable hext hk]
    have hlook := absL_tag?_fold W (c := c) hn1 hL hmem
    refine ⟨_, tagValue_fcount W u e root c1 hany' hcnt', ?_, ?_⟩
    · rw [tag?_append_left hlook]; rfl
    · intro _; exact tag?_append_left hlook
  · -- the fold's own count tag
    have hfind : (⟨(absL W base L c).tags ++ (W.CT eid).map fun m => (m, cntTag n), o⟩ : Asg).tag? t =
        some (cntTag n) := by
      apply tag?_append_right
      · rw [List.map_append, absL_tagNames]
        have : ((W.CT eid).map fun m => (m, cntTag n)).map (·.1) = tagNames W [.fold eid] := by
          simp [tagNames, evTagNames, Function.comp_def]
        rw [this, List.append_assoc, ← tagNames_append]; exact hn
      · exact List.mem_map.2 ⟨t, hmem, rfl⟩
    refine ⟨_, tagValue_fcount W u eid root c1 hany hcnt, ?_, ?_⟩
    · rw [hfind]; rfl
    · intro _; exact hfind

end TF.InterpSpec
