/-
C01 main theorem, assembly (with folds): `toIR S q = .ok ir` + `Hyps3` ⇒ `RootCert` ⇒ equality of
rows.
-/
import TrustfallModel.Proofs.InterpSpec4.StaticRootAux
import TrustfallModel.Proofs.InterpSpec4.StaticImports

namespace TF.InterpSpec
open TF TF.Engine TF.Spec TF.Frontend

/-- The world of one compiled query (fold-count limits disabled). -/
def worldOf3 (D : Data) (args : List (Name × Value)) (edges : List EdgeDecl) (comp : Component)
    (tbl : List (Vid × List QField)) (ftbl : List (Eid × List FDir × QNode)) (T : List TagEntry)
    (lim : Bool := false) : World :=
  { D := D, args := args, edges := edges, comp := comp
    TG := fun w => tagPairs (tblLookup tbl w)
    OG := fun w => outPairs (tblLookup tbl w)
    lim := lim
    CT := fun e => match ftblLookup ftbl e with | some p => countTagNames p.1 | none => []
    CO := fun e => match ftblLookup ftbl e with | some p => countOutNames p.1 | none => []
    ON := fun e => match ftblLookup ftbl e with | some p => outNames p.2 | none => []
    IT := fun e => match ftblLookup ftbl e with | some p => treeTagNames p.2 | none => []
    FK := fkOf comp
    chain := []
    NR := fun t r => ∃ e ∈ T, e.name = t ∧ e.field = r }

theorem tablesOK_worldOf3 (D args edges comp) (tbl : List (Vid × List QField))
    (ftbl : List (Eid × List FDir × QNode)) (T : List TagEntry) (lim : Bool) (hn : (keysT tbl).Nodup)
    (hfn : (ftbl.map (·.1)).Nodup) :
    TablesOK (worldOf3 D args edges comp tbl ftbl T lim) tbl ftbl := by
  refine ⟨?_, ?_⟩
  · intro w fs hm
    have : tblLookup tbl w = fs := tblLookup_of_mem hn hm
    exact ⟨by show tagPairs (tblLookup tbl w) = _; rw [this],
      by show outPairs (tblLookup tbl w) = _; rw [this]⟩
  · intro e fds child hm
    have := ftblLookup_of_mem hfn hm
    simp [worldOf3, this]

/-- **The theorem with folds**: every edge kind incl. `@fold` (arbitrarily nested, with count outputs,
count tags and count filters, tags imported from enclosing components; also inside missing `@optional`
scopes).  That the imports of the compiled query are in order is derived from `h`
(`importsOKC_of_toIR`). -/
theorem interp_eq_spec_F3a_core (S : SchemaView) (q : Query) (ir : IRQuery) (D : Data)
    (args : List (Name × Value)) (edges : List EdgeDecl) (lim : Bool)
    (hlim : lim = false ∨ noFold q.root = true)
    (h : toIR S q = .ok ir) (hh : Hyps3 ⟨S, D, args, edges⟩ q) :
    (interpret { Env.ofData D args with useLimits := lim } ir).toOption =
      (Spec.rows ⟨D, args, edges⟩ q).toOption := by
  have hnoimp := importsOKC_of_toIR h
  have hh1 : hyps3B ⟨S, D, args, edges⟩ q = true := hh
  have hwft := (toIR_tags_imports h).1
  have huniq := (toIR_unique h).1
  obtain ⟨root, rootParams, acc, st1, comp, evs, st2, vars, hroot, hrp, hfill, hfin, _, _, hnames,
    rfl⟩ := toIR_inv h
  obtain ⟨vs, ev, hmk, rfl, _⟩ := finishComponent_inv hfin
  simp only [hyps3B, hroot, hrp, Bool.and_eq_true, decide_eq_true_eq] at hh1
  obtain ⟨⟨hstart, hfuel⟩, hnode⟩ := hh1
  have h0 : St.init.nextVid = St.init.nextEid + 1 := rfl
  -- numbering
  obtain ⟨tbl, htblDef⟩ : ∃ tbl, tbl = tblNode q.root 1 2 := ⟨_, rfl⟩
  obtain ⟨ftbl, hftblDef⟩ : ∃ ftbl, ftbl = ftblNode q.root 2 := ⟨_, rfl⟩
  obtain ⟨AE, hAEDef⟩ : ∃ AE, AE = evsNode q.root 1 2 := ⟨_, rfl⟩
  have htblN : (keysT tbl).Nodup := by
    rw [htblDef]; exact nodup_of_sorted (tblNode_sorted q.root 1 2 (by decide))
  have hftblN : (ftbl.map (·.1)).Nodup := by
    rw [hftblDef]; exact nodup_of_sorted (ftblNode_bounds q.root 2 (by decide)).2
  have hsorted : (AE.map evVid).Pairwise (· < ·) := by
    rw [hAEDef]; exact evsNode_sorted q.root 1 2 (by decide)
  have hndAE : AE.Nodup := nodup_of_sorted_evVid hsorted
  have kR := (keys_fill3 S).1 _ _ _ _ _ _ _ hfill h0
  rw [show St.init.nextVid = 2 from rfl, ← hAEDef] at kR
  -- tags
  obtain ⟨new, htags, hperm, hfrom⟩ := (tags_fill3 S).1 _ _ _ _ _ _ _ hfill h0
  have hTeq : st1.tags = new := by simpa [St.init] using htags
  have hTn : (st1.tags.map (·.name)).Nodup :=
    (tagNames_fill S).1 _ _ _ _ _ _ _ hfill (by simp [St.init])
  have hT : TagsT st1.tags tbl ftbl := by
    intro e he
    rw [hTeq] at he
    have := hfrom e he
    rw [show St.init.nextVid = 2 from rfl, ← htblDef, ← hftblDef] at this
    exact this
  -- the world
  obtain ⟨W, hW⟩ : ∃ W, W = worldOf3 D args edges
      (Component.mk 1 vs acc.edges acc.folds (sortOutputs acc.outs)) tbl ftbl st1.tags lim := ⟨_, rfl⟩
  have hWcomp : W.comp = Component.mk 1 vs acc.edges acc.folds (sortOutputs acc.outs) := by rw [hW]; rfl
  have hWlim : W.lim = lim := by rw [hW]; rfl
  have hWenv : W.env = { Env.ofData D args with useLimits := lim } := by rw [hW]; rfl
  have hWsenv : W.senv = ⟨D, args, edges⟩ := by rw [hW]; rfl
  have htab : TablesOK W tbl ftbl := by rw [hW]; exact tablesOK_worldOf3 _ _ _ _ _ _ _ _ htblN hftblN
  have hEnv : EnvOK ⟨S, D, args, edges⟩ W := by rw [hW]; exact ⟨rfl, rfl, rfl⟩
  have hcv : W.comp.vertices = vs := by rw [hWcomp]; rfl
  have hcf : W.comp.folds = acc.folds := by rw [hWcomp]; rfl
  have hce : W.comp.edges = acc.edges := by rw [hWcomp]; rfl
  have hco : W.comp.outputs = sortOutputs acc.outs := by rw [hWcomp]; rfl
  have vsk : vs.map (·.vid) = vtxs AE := by rw [(makeVertices_inv hmk).2]; exact kR.verts
  have hndv : (vs.map (·.vid)).Nodup := by rw [vsk]; exact vtxs_nodup hndAE
  have hvIn : ∀ w, (W.comp.vertex? w).isSome → Ev.vtx w ∈ AE := by
    intro w hw
    obtain ⟨V, hV⟩ := Option.isSome_iff_exists.1 hw
    have hVm : V ∈ vs := by rw [← hcv]; exact List.mem_of_find?_eq_some hV
    have hVv : V.vid = w := by
      have := List.find?_some hV; simpa using this
    apply mem_vtxs.1
    rw [← vsk, ← hVv]
    exact List.mem_map.2 ⟨V, hVm, rfl⟩
  have hfkAll : FKAllF W.FK W.comp.folds := by
    rw [hW]
    simp only [wfUnique, Bool.and_eq_true] at huniq
    exact fkAll_of_unique _ huniq.2
  have hWchain : W.chain = [] := by rw [hW]; rfl
  have hWNR : ∀ t r, W.NR t r ↔ ∃ e ∈ st1.tags, e.name = t ∧ e.field = r := by
    intro t r; rw [hW]; exact Iff.rfl
  have hc : CompOK W AE := by
    refine ⟨by rw [hWcomp, hWchain]; exact hwft, by rw [hWcomp, hWchain]; exact hnoimp, hsorted, hvIn, ?_,
      hfkAll⟩
    intro f' hf'
    rw [hcf] at hf'
    refine ⟨?_, kR.foldTo f' hf'⟩
    apply mem_flds.1
    rw [← kR.folds]
    exact List.mem_map.2 ⟨f', hf', rfl⟩
  have hHV : HV W st1.tags [1] acc.verts := by
    intro r' hr'
    obtain ⟨fs', ev'', stX, stY, hTX, hres, hmem⟩ := makeVertices_mem hmk r' hr'
    refine ⟨fs', ev'', stX, stY, fun e he' => by rw [← hTX]; exact he', hres, ?_⟩
    show W.comp.vertices.find? _ = _
    rw [hcv]
    exact find?_vertex_of_mem (V := ⟨r'.vid, r'.typeName, r'.coercedFrom, fs'⟩) hndv hmem
  obtain ⟨ss, hcert, hrf⟩ := (cert_fill3 S ⟨S, D, args, edges⟩ rfl st1.tags tbl ftbl hT).1
    _ _ _ _ _ _ _ hfill W [] [] AE hEnv htab hWNR hc (by rw [hWlim]; exact hlim) hnode
    (nodup_of_namesDistinct hnames) h0
    (by rw [hAEDef]; simp; rfl) (by rw [htblDef]; exact fun p hp => hp)
    (by rw [hftblDef]; exact fun p hp => hp) hHV (by rw [hcf]; exact fun f hf => hf)
    (fun e he => he)
  rw [show St.init.nextVid = 2 from rfl] at hcert hrf
  rw [show St.init.nextEid = 1 from rfl] at hrf
  rw [← hAEDef] at hcert
  -- the static side conditions
  have honP : (outNamesL W AE).Perm (outNames q.root) := by
    rw [hAEDef]
    exact outNamesL_node W tbl ftbl htab q.root 1 2 (by rw [htblDef]; exact fun p hp => hp)
      (by rw [hftblDef]; exact fun p hp => hp)
  have honN : (outNamesL W AE).Nodup := by
    refine honP.nodup_iff.2 ?_
    rw [outNames_eq_tree]; exact nodup_of_namesDistinct hnames
  have htnEq : deepTagNames W AE = treeTagNames q.root := by
    rw [hAEDef]
    exact deepTagNames_node W tbl ftbl htab q.root 1 2 (by rw [htblDef]; exact fun p hp => hp)
      (by rw [hftblDef]; exact fun p hp => hp)
  have hkeys : KeysOK W AE := by
    intro e' he'
    rw [← kR.folds] at he'
    obtain ⟨f', hf', rfl⟩ := List.mem_map.1 he'
    have := hrf.keysOK f' hf'
    rw [(FKAllF_mem hfkAll (by rw [hcf]; exact hf')).1]
    exact this
  have hsim : SimHyps W [] AE := by
    refine ⟨nodup_of_sorted hsorted, ?_, honN, hkeys⟩
    simp only [List.map_nil, List.nil_append, htnEq]
    have := hperm.nodup_iff.1 (by rw [← hTeq]; exact hTn)
    exact this
  have hevC : AE = Ev.vtx 1 :: evsFields (nodeFields q.root) 2 := by
    rw [hAEDef]; cases q.root; rfl
  have hOG1 : W.OG 1 = outPairs (nodeFields q.root) := by
    have : (1, nodeFields q.root) ∈ tbl := by rw [htblDef]; cases q.root; simp [tblNode, nodeFields]
    exact (htab.tg _ _ this).2
  have hInOuts : (acc.outs.map fun o => (o.name, o.vid, o.field)).Perm (outTriples W (vtxs AE)) := by
    rw [hevC, vtxs_cons_vtx, outTriples_cons, hOG1]; exact hrf.outsP
  have hcoPerm : (W.comp.outputs.map fun o => (o.name, o.vid, o.field)).Perm
      (outTriples W (vtxs AE)) := by
    rw [hco]; exact ((sortOutputs_perm acc.outs).map _).trans hInOuts
  have houts : OutsOK W (vtxs AE) := by
    refine ⟨hcoPerm, ?_, ?_⟩
    · have := (hcoPerm.map (·.1)).nodup_iff.2 (outTriples_names_nodup W _ honN)
      simpa [Function.comp_def] using this
    · intro o ho
      have hm := hcoPerm.mem_iff.1 (List.mem_map.2 ⟨o, ho, rfl⟩)
      simp only [outTriples, List.mem_flatMap, List.mem_map] at hm
      obtain ⟨w, hw, p, _, hpe⟩ := hm
      simp only [Prod.mk.injEq] at hpe
      have hwv : o.vid ∈ vtxs AE := by rw [← hpe.2.1]; exact hw
      refine ⟨?_, hwv⟩
      rw [← vsk] at hwv
      obtain ⟨V, hVm, hVv⟩ := List.mem_map.1 hwv
      show (W.comp.vertices.find? _).isSome
      rw [hcv, List.find?_isSome]
      exact ⟨V, hVm, by simp [hVv]⟩
  have hRC : RootCert W q ⟨q.rootEdge, rootParams, vars, W.comp⟩ ss AE := by
    refine ⟨rfl, hWchain, ?_, ?_, ?_, hsim, houts, hfuel, ?_⟩
    · have := hstart
      simp only [beq_iff_eq] at this
      rw [hW]; exact this
    · have : W.comp.root = 1 := by rw [hWcomp]; rfl
      rw [this]; exact hcert
    · rw [hce, hcf, ← hrf.edges, ← hrf.folds]
      exact mergeStages_of_sorted ss _ hrf.sortedE (by rw [length_filterMap_split]; exact Nat.le_refl _)
    · have := foldHeight_lt q.root; omega
  have := interp_eq_spec_of_cert W q _ ss AE hRC
  rw [hWenv, hWsenv, hWcomp] at this
  exact this

end TF.InterpSpec
