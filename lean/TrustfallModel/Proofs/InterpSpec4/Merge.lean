/-
C01 main theorem, static part (with folds): the Eid-ordered merge of a component's edge and fold
maps is the DFS-ordered stage list.
-/
import TrustfallModel.Proofs.InterpSpec4.StaticKeys

namespace TF.InterpSpec
open TF TF.Engine TF.Spec TF.Frontend

def stEid : Stage → Eid
  | .edge e => e.eid
  | .fold f => f.eid

def stEdge? : Stage → Option IREdge
  | .edge e => some e
  | .fold _ => none

def stFold? : Stage → Option Fold
  | .edge _ => none
  | .fold f => some f

/-- The event a stage records. -/
def evOf : Stage → Ev
  | .edge e => .vtx e.toVid
  | .fold f => .fold f.eid

theorem all_edges_of_no_folds : ∀ (ss : List Stage), ss.filterMap stFold? = [] →
    ss = (ss.filterMap stEdge?).map .edge
  | [], _ => rfl
  | .edge e :: rest, h => by
    simp only [List.filterMap_cons, stFold?, stEdge?, List.map_cons] at h ⊢
    rw [← all_edges_of_no_folds rest h]
  | .fold f :: rest, h => by simp [List.filterMap_cons, stFold?] at h

theorem all_folds_of_no_edges : ∀ (ss : List Stage), ss.filterMap stEdge? = [] →
    ss = (ss.filterMap stFold?).map .fold
  | [], _ => rfl
  | .fold f :: rest, h => by
    simp only [List.filterMap_cons, stFold?, stEdge?, List.map_cons] at h ⊢
    rw [← all_folds_of_no_edges rest h]
  | .edge e :: rest, h => by simp [List.filterMap_cons, stEdge?] at h

theorem mergeStages_of_sorted : ∀ (ss : List Stage) (n : Nat),
    (ss.map stEid).Pairwise (· < ·) → ss.length ≤ n →
    mergeStages (ss.filterMap stEdge?) (ss.filterMap stFold?) n = .ok ss
  | [], n, _, _ => by simp [mergeStages]
  | .edge e :: rest, n, hs, hn => by
    have hs' := List.pairwise_cons.1 hs
    simp only [List.filterMap_cons, stEdge?, stFold?]
    cases hf : rest.filterMap stFold? with
    | nil =>
      have := all_edges_of_no_folds rest hf
      simp only [mergeStages, List.map_cons]
      rw [← this]
    | cons f fs =>
      obtain ⟨k, rfl⟩ : ∃ k, n = k + 1 := ⟨n - 1, by simp only [List.length_cons] at hn; omega⟩
      have hfe : e.eid < f.eid := by
        have hmem : f ∈ rest.filterMap stFold? := by rw [hf]; simp
        obtain ⟨s, hsm, hsf⟩ := List.mem_filterMap.1 hmem
        have : s = .fold f := by cases s <;> simp_all [stFold?]
        subst this
        exact hs'.1 f.eid (List.mem_map.2 ⟨_, hsm, rfl⟩)
      have ih := mergeStages_of_sorted rest k hs'.2 (by simp only [List.length_cons] at hn; omega)
      rw [hf] at ih
      simp only [mergeStages, hfe, if_true, gt_iff_lt, ih, R.map]
  | .fold f :: rest, n, hs, hn => by
    have hs' := List.pairwise_cons.1 hs
    simp only [List.filterMap_cons, stEdge?, stFold?]
    cases he : rest.filterMap stEdge? with
    | nil =>
      have := all_folds_of_no_edges rest he
      simp only [mergeStages, List.map_cons]
      rw [← this]
    | cons e es =>
      obtain ⟨k, rfl⟩ : ∃ k, n = k + 1 := ⟨n - 1, by simp only [List.length_cons] at hn; omega⟩
      have hfe : f.eid < e.eid := by
        have hmem : e ∈ rest.filterMap stEdge? := by rw [he]; simp
        obtain ⟨s, hsm, hsf⟩ := List.mem_filterMap.1 hmem
        have : s = .edge e := by cases s <;> simp_all [stEdge?]
        subst this
        exact hs'.1 e.eid (List.mem_map.2 ⟨_, hsm, rfl⟩)
      have ih := mergeStages_of_sorted rest k hs'.2 (by simp only [List.length_cons] at hn; omega)
      rw [he] at ih
      have hng : ¬ (f.eid > e.eid) := by
        intro h; exact Nat.lt_irrefl _ (Nat.lt_trans hfe h)
      simp only [mergeStages, hng, if_false, hfe, if_true, ih, R.map]

theorem length_filterMap_split (ss : List Stage) :
    (ss.filterMap stEdge?).length + (ss.filterMap stFold?).length = ss.length := by
  induction ss with
  | nil => rfl
  | cons s rest ih => cases s <;> simp [List.filterMap_cons, stEdge?, stFold?] <;> omega

end TF.InterpSpec
