/-
C01 main theorem, fragment F2: `expand_recursive_edge` on ONE context, in the form the simulation
needs.  Built on `Proofs/RecDfs.lean` (piggy-backed expansion = gated pre-order DFS).
-/
import TrustfallModel.Proofs.RecDfs
import TrustfallModel.Proofs.InterpSpec4.Stages

namespace TF.InterpSpec
open TF TF.Engine TF.Spec

/-! ### the recursion machinery depends on the adapter only -/

theorem recExpandLevel_env {env1 env2 : Env} (h : env1.adapter = env2.adapter) (e : IREdge)
    (t : Name) (ps : List PCtx) : recExpandLevel env1 e t ps = recExpandLevel env2 e t ps := by
  simp only [recExpandLevel, h]

theorem recCoerceLevel_env {env1 env2 : Env} (h : env1.adapter = env2.adapter) (e : IREdge)
    (et t : Name) (ps : List PCtx) : recCoerceLevel env1 e et t ps = recCoerceLevel env2 e et t ps := by
  simp only [recCoerceLevel, h]

theorem recLevels_env {env1 env2 : Env} (h : env1.adapter = env2.adapter) (e : IREdge)
    (et rf : Name) (ct : Option Name) (k : Nat) (ps : List PCtx) :
    recLevels env1 e et rf ct k ps = recLevels env2 e et rf ct k ps := by
  induction k generalizing ps with
  | zero => rfl
  | succ k ih =>
    simp only [recLevels]
    cases ct with
    | none =>
      have : recLevels env1 e et rf none k = recLevels env2 e et rf none k := funext ih
      simp only [recExpandLevel_env h, this]
    | some t =>
      have : recLevels env1 e et rf (some t) k = recLevels env2 e et rf (some t) k := funext ih
      simp only [recCoerceLevel_env h, recExpandLevel_env h, this]

theorem recFinish_env {env1 env2 : Env} (h : env1.adapter = env2.adapter) (e : IREdge)
    (r : Recursive) (fromV toV : IRVertex) (init : List Ctx) :
    recFinish env1 e r fromV toV init = recFinish env2 e r fromV toV init := by
  unfold recFinish
  simp only [recExpandLevel_env h]
  congr 1
  funext l1
  rw [recLevels_env h]

theorem World.env_adapter (W : World) : W.env.adapter = (Env.ofData W.D W.args).adapter := rfl

/-! ### an existing source vertex: the declarative `reach` -/

theorem reachN_eq_reach (d : Data) (n : Name) (ps : Params) (j : Nat) (v : VertexId) :
    reachN (fun w => d.nbrs w n ps) j v = Spec.reach d n ps j v := by
  induction j generalizing v with
  | zero => rfl
  | succ j ih =>
    simp only [reachN, Spec.reach]
    congr 1
    induction d.nbrs v n ps with
    | nil => rfl
    | cons a l ihl => simp [ih, ihl]

/-- The dataset convention for recursion: a vertex that fails the implicit coercion between
recursion levels has no such edge anyway. -/
def RecConv (d : Data) (e : IREdge) (r : Recursive) : Prop :=
  ∀ w, recGate d r.coerceTo (some w) = false → d.nbrs w e.name e.params = []

theorem recFinish_some (W : World) (e : IREdge) (r : Recursive) (fromV toV : IRVertex)
    (c0 : Ctx) (x : VertexId) (hx : c0.active = some x) (hd : 1 ≤ r.depth)
    (hconv : RecConv W.D e r) :
    recFinish W.env e r fromV toV [c0] =
      .ok ((Spec.reach W.D e.name e.params r.depth x).map fun w => { c0 with active := some w }) := by
  obtain ⟨k, hk⟩ : ∃ k, r.depth = k + 1 := ⟨r.depth - 1, by omega⟩
  rw [recFinish_env W.env_adapter, recFinish_table W.D W.args e r fromV toV c0 x k hx hk, hk]
  congr 1
  have : ∀ (l : List VertexId), l.map (fun w => c0.splitTo (some w)) =
      l.map fun w => { c0 with active := some w } := fun l => rfl
  rw [this]
  congr 1
  simp only [Spec.reach]
  congr 1
  induction W.D.nbrs x e.name e.params with
  | nil => rfl
  | cons a l ihl =>
    simp only [List.flatMap_cons, ihl]
    rw [dfsG_eq_reachN _ _ hconv, reachN_eq_reach]

/-! ### a missing source vertex: the context passes once, without a vertex -/

theorem levelsP_none (nb : Option VertexId → List VertexId) (gate : Option VertexId → Bool)
    (hnb : nb none = []) (c : Ctx) (hc : c.active = none) (k : Nat) :
    levelsP nb gate k [PCtx.mk c []] = [PCtx.mk c []] := by
  induction k with
  | zero => rfl
  | succ k ih =>
    simp only [levelsP, coerceLevelP, List.map_cons, List.map_nil]
    have h1 : (if gate c.active = true then PCtx.mk c [] else PCtx.mk c.ensureSuspended []) =
        PCtx.mk c [] := by
      split
      · rfl
      · rw [ensureSuspended_none c hc]
    rw [h1]
    simp only [expandLevelP, List.flatMap_cons, List.flatMap_nil, List.append_nil, hc, hnb,
      recExpandOne]
    exact ih

theorem recFinish_none (W : World) (e : IREdge) (r : Recursive) (fromV toV : IRVertex)
    (c0 : Ctx) (hx : c0.active = none) (rest : List (Option VertexId))
    (hs : c0.suspended = none :: rest) :
    recFinish W.env e r fromV toV [c0] = .ok [{ c0 with active := none, suspended := rest }] := by
  rw [recFinish_env W.env_adapter]
  unfold recFinish
  simp only [recExpandLevel_table, recLevels_table, R.bind_ok, List.map_cons, List.map_nil]
  have hnb : recNb W.D e none = [] := rfl
  have h1 : expandLevelP (recNb W.D e) [PCtx.mk c0 []] = [PCtx.mk c0 []] := by
    simp [expandLevelP, hx, hnb, recExpandOne]
  rw [h1, levelsP_none _ _ hnb c0 hx]
  simp [unpackList, unpack, mapR, Engine.Ctx.ensureUnsuspended, hx, hs]

theorem recFinish_nil (W : World) (e : IREdge) (r : Recursive) (fromV toV : IRVertex) :
    recFinish W.env e r fromV toV [] = .ok [] := by
  rw [recFinish_env W.env_adapter]
  unfold recFinish
  simp only [recExpandLevel_table, recLevels_table, R.bind_ok, List.map_nil]
  have h1 : expandLevelP (recNb W.D e) [] = [] := rfl
  have h2 : ∀ k, levelsP (recNb W.D e) (recGate W.D r.coerceTo) k [] = [] := by
    intro k; induction k with
    | zero => rfl
    | succ k ih => simpa [levelsP, coerceLevelP, expandLevelP] using ih
  rw [h1, h2]
  rfl

end TF.InterpSpec

namespace TF.InterpSpec
open TF TF.Engine TF.Spec

/-- The scopes a recursive edge continues in. -/
def recScopes (D : Data) (e : IREdge) (r : Recursive) (v : Option VertexId) : List (Option VertexId) :=
  match v with
  | none => [none]
  | some x => (Spec.reach D e.name e.params r.depth x).map some

/-- The incoming context of a recursion, with the `None` the first step pushes on the suspended
stack when there is no active vertex. -/
def recPrep (c : Ctx) : Ctx :=
  if c.active.isNone then { c with suspended := none :: c.suspended } else c

theorem recPrep_vertices (c : Ctx) : (recPrep c).vertices = c.vertices := by
  unfold recPrep; split <;> rfl

theorem recPrep_ext (c : Ctx) : Ext c (recPrep c) := by
  refine ⟨⟨[], by simp [recPrep_vertices]⟩, ⟨[], ?_⟩, ⟨[], ?_⟩, ?_, ?_⟩ <;>
    (unfold recPrep; split <;> simp)

theorem recInit_eq (e : IREdge) (c : Ctx) {v : Option VertexId}
    (h : c.vertexAt? e.fromVid = some v) : recInit e c = .ok { recPrep c with active := v } := by
  have hat : (recPrep c).vertexAt? e.fromVid = some v := by
    unfold Engine.Ctx.vertexAt? at h ⊢; rw [recPrep_vertices]; exact h
  exact activate_of_vertexAt hat

/-- A `@recurse` edge stage on one context: every vertex of the declarative `reach`, in order (or
the missing scope once), then the entry into the destination vertex. -/
theorem stageO_rec (W : World) (fuel : Nat) (e : IREdge) (r : Recursive) (c : Ctx)
    {fromV toV : IRVertex}
    (hf : W.comp.vertex? e.fromVid = some fromV) (ht : W.comp.vertex? e.toVid = some toV)
    (hrec : e.recursive = some r) {v : Option VertexId} (h : c.vertexAt? e.fromVid = some v)
    (hact : v = none → c.active = none) (hd : 1 ≤ r.depth) (hconv : RecConv W.D e r)
    (h0 : enterVertex W.env W.comp toV [] = .ok []) :
    ∃ c1, Ext c c1 ∧ c1.vertices = c.vertices ∧ c1.foldCounts = c.foldCounts ∧
      c1.foldedValues = c.foldedValues ∧ stageO W fuel (.edge e) c =
      flatMapO (fun s => (enterVertex W.env W.comp toV [{ c1 with active := s }]).toOption)
        (recScopes W.D e r v) := by
  have hhom := fun l => Hom.eq_flatMapO (enterVertex_hom W.env W.comp toV) (by simp [h0]) l
  have hexp : expandEdge W.env W.comp e [c] =
      (recFinish W.env e r fromV toV [{ recPrep c with active := v }]).bind
        (enterVertex W.env W.comp toV) := by
    simp only [expandEdge, hf, ht, hrec, expandRecursive, mapR_single, recInit_eq e c h, R.bind_ok]
  simp only [stageO, hexp]
  cases v with
  | none =>
    have hca := hact rfl
    refine ⟨c, Ext.refl c, rfl, rfl, rfl, ?_⟩
    have hs : ({ recPrep c with active := none } : Ctx).suspended = none :: c.suspended := by
      simp [recPrep, hca]
    rw [recFinish_none W e r fromV toV _ rfl c.suspended hs, R.bind_ok, hhom]
    simp only [recScopes, flatMapO_singleton]
    have : ({ ({ recPrep c with active := none } : Ctx) with active := none, suspended := c.suspended } : Ctx) =
        { c with active := none } := by
      simp [recPrep, hca]
    rw [this]
  | some x =>
    refine ⟨recPrep c, recPrep_ext c, recPrep_vertices c, by unfold recPrep; split <;> rfl,
      by unfold recPrep; split <;> rfl, ?_⟩
    rw [recFinish_some W e r fromV toV _ x rfl hd hconv, R.bind_ok, hhom]
    simp only [recScopes, flatMapO_map]

end TF.InterpSpec

namespace TF.InterpSpec
open TF TF.Engine TF.Spec

/-- Any edge stage of the fragment accepts the empty list. -/
theorem expandEdge_nil' (W : World) (e : IREdge) {fromV toV : IRVertex}
    (hf : W.comp.vertex? e.fromVid = some fromV) (ht : W.comp.vertex? e.toVid = some toV)
    (h0 : enterVertex W.env W.comp toV [] = .ok []) :
    (expandEdge W.env W.comp e []).toOption = some [] := by
  cases hrec : e.recursive with
  | none => exact expandEdge_nil W e hf ht hrec h0
  | some r =>
    simp [expandEdge, hf, ht, hrec, expandRecursive, mapR, recFinish_nil, h0]

end TF.InterpSpec
