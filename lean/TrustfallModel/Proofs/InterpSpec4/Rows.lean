/-
C01 main theorem, layer 7 (with folds): rows.  `construct_outputs` on a final context against the
specification's row: the component's own outputs and the folded values are, up to order, the
outputs the assignment collected; names are distinct, so the insertion sorts agree.
-/
import TrustfallModel.Proofs.InterpSpec4.Sim

namespace TF.InterpSpec
open TF TF.Engine TF.Spec

def sortRow (l : List (Name × Value)) : Row := l.foldr insertSorted []

def StrictSorted (l : List (Name × Value)) : Prop := l.Pairwise fun a b => a.1 < b.1

theorem insertSorted_perm (kv : Name × Value) (r : Row) : (insertSorted kv r).Perm (kv :: r) := by
  induction r with
  | nil => exact List.Perm.refl _
  | cons x xs ih =>
    simp only [insertSorted]
    split
    · exact List.Perm.refl _
    · exact (List.Perm.cons x ih).trans (List.Perm.swap kv x xs)

theorem sortRow_perm (l : List (Name × Value)) : (sortRow l).Perm l := by
  induction l with
  | nil => exact List.Perm.refl _
  | cons kv rest ih =>
    exact (insertSorted_perm kv _).trans (List.Perm.cons kv ih)

theorem insertSorted_sorted (kv : Name × Value) (r : Row) (hs : StrictSorted r)
    (hk : ∀ p ∈ r, p.1 ≠ kv.1) : StrictSorted (insertSorted kv r) := by
  induction r with
  | nil => simp [insertSorted, StrictSorted]
  | cons x xs ih =>
    simp only [insertSorted]
    have hs' := List.pairwise_cons.1 hs
    split
    · rename_i hlt
      refine List.pairwise_cons.2 ⟨?_, hs⟩
      intro p hp
      rcases List.mem_cons.1 hp with rfl | hp
      · exact hlt
      · exact String.lt_trans hlt (hs'.1 p hp)
    · rename_i hnlt
      have hx : x.1 < kv.1 := by
        rcases Std.lt_trichotomy kv.1 x.1 with h | h | h
        · exact absurd h hnlt
        · exact absurd h.symm (hk x (List.mem_cons_self ..))
        · exact h
      refine List.pairwise_cons.2 ⟨?_, ih hs'.2 fun p hp => hk p (List.mem_cons_of_mem _ hp)⟩
      intro p hp
      rcases List.mem_cons.1 ((insertSorted_perm kv xs).mem_iff.1 hp) with rfl | hp
      · exact hx
      · exact hs'.1 p hp

theorem sortRow_sorted (l : List (Name × Value)) (hn : (l.map (·.1)).Nodup) :
    StrictSorted (sortRow l) := by
  induction l with
  | nil => simp [sortRow, StrictSorted]
  | cons kv rest ih =>
    simp only [List.map_cons, List.nodup_cons] at hn
    refine insertSorted_sorted kv _ (ih hn.2) ?_
    intro p hp he
    apply hn.1
    rw [← he]
    exact List.mem_map.2 ⟨p, (sortRow_perm rest).mem_iff.1 hp, rfl⟩

theorem eq_of_perm_of_sorted {l1 l2 : List (Name × Value)} (hp : l1.Perm l2)
    (h1 : StrictSorted l1) (h2 : StrictSorted l2) : l1 = l2 := by
  induction l1 generalizing l2 with
  | nil => exact (List.Perm.nil_eq hp)
  | cons a t1 ih =>
    cases l2 with
    | nil => exact absurd hp.symm (by simp)
    | cons b t2 =>
      have h1' := List.pairwise_cons.1 h1
      have h2' := List.pairwise_cons.1 h2
      have hab : a = b := by
        have ha : a ∈ b :: t2 := hp.mem_iff.1 (List.mem_cons_self ..)
        have hb : b ∈ a :: t1 := hp.mem_iff.2 (List.mem_cons_self ..)
        rcases List.mem_cons.1 ha with h | h
        · exact h
        · rcases List.mem_cons.1 hb with h' | h'
          · exact h'.symm
          · exact absurd (h2'.1 a h) (String.lt_asymm (h1'.1 b h'))
      subst hab
      rw [ih (List.Perm.cons_inv hp) h1'.2 h2'.2]

/-- Insertion sort by distinct names does not depend on the order of the input. -/
theorem sortRow_eq_of_perm {l1 l2 : List (Name × Value)} (hp : l1.Perm l2)
    (hn : (l1.map (·.1)).Nodup) : sortRow l1 = sortRow l2 := by
  have hn2 : (l2.map (·.1)).Nodup := (hp.map (·.1)).nodup_iff.1 hn
  exact eq_of_perm_of_sorted ((sortRow_perm l1).trans (hp.trans (sortRow_perm l2).symm))
    (sortRow_sorted l1 hn) (sortRow_sorted l2 hn2)

theorem eraseDups_length_of_nodup {l : List Name} (h : l.Nodup) : l.eraseDups.length = l.length := by
  induction l with
  | nil => simp
  | cons a as ih =>
    rw [List.nodup_cons] at h
    have hf : as.filter (fun b => !b == a) = as := by
      rw [List.filter_eq_self]
      intro b hb
      have : b ≠ a := fun he => h.1 (he ▸ hb)
      simpa using this
    rw [List.eraseDups_cons, hf]
    simp [ih h.2]

/-- The events of a component, vertices first: a permutation of the DFS order. -/
theorem flatMap_events_perm {β : Type} (g : Ev → List β) (L : List Ev) :
    (L.flatMap g).Perm ((vtxs L).flatMap (fun w => g (.vtx w)) ++ (flds L).flatMap fun e => g (.fold e)) := by
  induction L with
  | nil => exact List.Perm.refl _
  | cons ev rest ih =>
    cases ev with
    | vtx w =>
      simp only [List.flatMap_cons, vtxs_cons_vtx, flds_cons_vtx, List.append_assoc]
      exact List.Perm.append_left _ ih
    | fold e =>
      simp only [List.flatMap_cons, vtxs_cons_fold, flds_cons_fold]
      refine (List.Perm.append_left _ ih).trans ?_
      rw [← List.append_assoc, ← List.append_assoc]
      exact List.Perm.append_right _ List.perm_append_comm

theorem look_of_mem {c : Ctx} (hk : (keys c).Nodup) {q : Vid × Option VertexId}
    (hq : q ∈ c.vertices) : look c q.1 = q.2 := by
  unfold look Engine.Ctx.vertexAt?
  have := vertexAt?_of_mem (vs := c.vertices) (w := q.1) (x := q.2) hk hq
  rw [this]; rfl

/-- The folded value found by name is the entry's own value (names are distinct). -/
theorem valByName_self {c : Ctx} (hn : (fvNames c).Nodup) {p : (Eid × Name) × Option Value}
    (hp : p ∈ c.foldedValues) : valByName c p.1.2 = p.2.getD Value.null := by
  unfold valByName
  have := find?_of_mem_nodup (l := c.foldedValues.map fun q => (q.1.2, q)) (k := p.1.2) (b := p)
    (by simpa [fvNames, Function.comp_def] using hn) (List.mem_map.2 ⟨p, hp, rfl⟩)
  rw [List.find?_map] at this
  cases hf : c.foldedValues.find? ((fun x => x.1 == p.1.2) ∘ fun q => (q.1.2, q)) with
  | none => simp [hf] at this
  | some q =>
    simp only [hf, Option.map_some, Option.some.injEq, Prod.mk.injEq] at this
    have hfq : c.foldedValues.find? (fun q => q.1.2 == p.1.2) = some q := hf
    rw [hfq, this.2]

/-- `construct_outputs` on a final context of a component. -/
theorem constructRow_final (W : World) (evs : List Ev) (ho : OutsOK W (vtxs evs)) (c : Ctx)
    (hi : Inv W c evs) (hk : KeysOK W evs) (hon : (outNamesL W evs).Nodup) (hnd : evs.Nodup) :
    constructRow W.env W.comp c = .ok (sortRow (absL W [] evs c).outs) := by
  have hkn : (keys c).Nodup := by rw [hi.vk]; exact vtxs_nodup hnd
  have hfn : (fvNames c).Nodup := fvNames_nodup_of_inv hi hk hon
  unfold constructRow
  simp only [R_bind_eq, R_pure_eq]
  rw [mapR_ok_of_all (g := fun o => (o.name, W.D.propOpt (look c o.vid) o.field))]
  rotate_left
  · intro o hoo
    obtain ⟨hsome, hmem⟩ := ho.verts o hoo
    obtain ⟨V, hV⟩ := Option.isSome_iff_exists.1 hsome
    rw [vertexAt?_eq_look (by rw [hi.vk]; exact hmem)]
    simp [typeOf_of_vertex hV]
  simp only [R.bind_ok]
  -- the two lists are permutations of each other
  have hperm : (W.comp.outputs.map (fun o => (o.name, W.D.propOpt (look c o.vid) o.field)) ++
      c.foldedValues.map fun p => (p.1.2, p.2.getD Value.null)).Perm (absL W [] evs c).outs := by
    simp only [absL]
    refine List.Perm.trans ?_ (flatMap_events_perm (outsEv W c) evs).symm
    refine List.Perm.append ?_ ?_
    · have := ho.perm.map fun t => (t.1, W.D.propOpt (look c t.2.1) t.2.2)
      simp only [List.map_map, Function.comp_def, outTriples, List.map_flatMap] at this
      simpa [outsEv, outBinds, Function.comp_def] using this
    · -- folded values, read back by name
      have h1 : c.foldedValues.map (fun p => (p.1.2, p.2.getD Value.null)) =
          (fvNames c).map fun n => (n, valByName c n) := by
        simp only [fvNames, List.map_map]
        apply List.map_congr_left
        intro p hp
        simp only [Function.comp, valByName_self hfn hp]
      rw [h1]
      refine ((hi.names hk).map _).trans ?_
      rw [List.map_flatMap]
      -- per fold: the two groups in either order
      have : ∀ l : List Eid, (l.flatMap fun e => (W.CO e ++ W.ON e).map fun n => (n, valByName c n)).Perm
          (l.flatMap fun e => outsEv W c (.fold e)) := by
        intro l
        induction l with
        | nil => exact List.Perm.refl _
        | cons e rest ih =>
          simp only [List.flatMap_cons]
          refine List.Perm.append ?_ ih
          simp only [outsEv]
          cases cnt c e with
          | some k => exact List.Perm.refl _
          | none =>
            simp only [List.map_append]
            exact List.perm_append_comm
      exact this _
  have hnames : ((W.comp.outputs.map (fun o => (o.name, W.D.propOpt (look c o.vid) o.field)) ++
      c.foldedValues.map fun p => (p.1.2, p.2.getD Value.null)).map (·.1)).Nodup := by
    refine (hperm.map (·.1)).nodup_iff.2 ?_
    exact (absL_outNames_perm W [] evs c).nodup_iff.2 hon
  rw [eraseDups_length_of_nodup hnames]
  simp only [bne_self_eq_false, Bool.false_eq_true, if_false]
  congr 1
  exact sortRow_eq_of_perm hperm hnames

end TF.InterpSpec
