/-
C01 main theorem (with folds), the scopes of a non-fold edge stage: plain, `@optional`, `@recurse`.
-/
import TrustfallModel.Proofs.InterpSpec4.FoldSim

namespace TF.InterpSpec
open TF TF.Engine TF.Spec

/-- The scopes an edge continues in: one per neighbour, and the missing scope when there is no
source vertex or the edge is optional and has no neighbour. -/
def scopes (opt : Bool) (v : Option VertexId) (ns : List VertexId) : List (Option VertexId) :=
  ns.map some ++ (if v.isNone || (ns.isEmpty && opt) then [none] else [])

theorem expandOne_eq_scopes (c : Ctx) (ns : List VertexId) (opt : Bool) :
    expandOne c ns opt = (scopes opt c.active ns).map fun s => { c with active := s } := by
  simp only [expandOne, scopes, List.map_append, List.map_map]
  congr 1
  split <;> rfl

/-- The scopes an edge stage continues in, for every edge kind of the fragment. -/
def edgeScopes (W : World) (e : IREdge) (v : Option VertexId) : List (Option VertexId) :=
  match e.recursive with
  | none => scopes e.optional v (W.D.nbrsOpt v e.name e.params)
  | some r => recScopes W.D e r v

theorem edgeScopes_none (W : World) (e : IREdge) : ∀ s ∈ edgeScopes W e none, s = none := by
  intro s hs
  unfold edgeScopes at hs
  cases hr : e.recursive with
  | none => simpa [hr, scopes, Data.nbrsOpt] using hs
  | some r => simpa [hr, recScopes] using hs

theorem reach_congr (D : Data) (n : Name) (ps1 ps2 : Params)
    (h : ∀ y, D.nbrs y n ps1 = D.nbrs y n ps2) (k : Nat) (x : VertexId) :
    Spec.reach D n ps1 k x = Spec.reach D n ps2 k x := by
  induction k generalizing x with
  | zero => rfl
  | succ k ih =>
    simp only [Spec.reach, h x]
    congr 1
    apply flatMap_congr'
    intro y _
    exact ih y

theorem reach_no_nbrs (D : Data) (n : Name) (ps : Params) (k : Nat) (x : VertexId)
    (h : D.nbrs x n ps = []) : Spec.reach D n ps k x = [x] := by
  cases k with
  | zero => rfl
  | succ k => simp [Spec.reach, h]

/-- The stage of any edge of the fragment, on one context. -/
theorem stageO_scopes (W : World) (fuel : Nat) (n : Name) (params : Params) (kind : Kind)
    (e : IREdge) (c : Ctx) {fromV toV : IRVertex} (hk : EdgeKindOK W n params kind e)
    (hf : W.comp.vertex? e.fromVid = some fromV) (ht : W.comp.vertex? e.toVid = some toV)
    {v : Option VertexId} (h : c.vertexAt? e.fromVid = some v) (hact : v = none → c.active = none)
    (h0 : enterVertex W.env W.comp toV [] = .ok []) :
    ∃ c1, Ext c c1 ∧ c1.vertices = c.vertices ∧ c1.foldCounts = c.foldCounts ∧
      c1.foldedValues = c.foldedValues ∧ stageO W fuel (.edge e) c =
      flatMapO (fun s => (enterVertex W.env W.comp toV [{ c1 with active := s }]).toOption)
        (edgeScopes W e v) := by
  have hnonrec : e.recursive = none → ∃ c1, Ext c c1 ∧ c1.vertices = c.vertices ∧
      c1.foldCounts = c.foldCounts ∧ c1.foldedValues = c.foldedValues ∧
      stageO W fuel (.edge e) c =
      flatMapO (fun s => (enterVertex W.env W.comp toV [{ c1 with active := s }]).toOption)
        (edgeScopes W e v) := by
    intro hrec
    refine ⟨c, Ext.refl c, rfl, rfl, rfl, ?_⟩
    rw [stageO_nonrec W fuel e c hf ht hrec h h0, expandOne_eq_scopes, flatMapO_map]
    simp only [edgeScopes, hrec]
  cases kind with
  | plain => exact hnonrec hk.2
  | optional => exact hnonrec hk.2
  | recurse d =>
    obtain ⟨r, hrec, hd, hd1, hconv, _⟩ := hk
    obtain ⟨c1, hext, hv1, hf1, hfv1, hst⟩ :=
      stageO_rec W fuel e r c hf ht hrec h hact (by omega) hconv h0
    exact ⟨c1, hext, hv1, hf1, hfv1, by rw [hst]; simp only [edgeScopes, hrec]⟩
  | fold fds => exact absurd hk (by simp [EdgeKindOK])

theorem evalEdge_scopes (W : World) (fuel : Nat) (n : Name) (params : Params) (kind : Kind)
    (child : QNode) (v : Option VertexId) (a : Asg) (e : IREdge) (hk : EdgeKindOK W n params kind e)
    (hp : ParamsAgree W n params e.params) (hn : e.name = n) :
    (evalEdge W.senv fuel (ownersOf W.D v) n params kind child v a).toOption =
      flatMapO (fun s => (evalNode W.senv fuel child s a).toOption) (edgeScopes W e v) := by
  have hns : specNbrs W.senv (ownersOf W.D v) n params v = W.D.nbrsOpt v e.name e.params := by
    cases v with
    | none => rfl
    | some x => simp only [specNbrs, ownersOf, Data.nbrsOpt, World.senv_data, hn]; exact hp x
  cases kind with
  | plain =>
    obtain ⟨ho, hr⟩ := hk
    rw [evalEdge_plain_toOption, hns]
    simp only [edgeScopes, hr, ho]
    cases v with
    | none => simp [scopes, Data.nbrsOpt]
    | some x => simp [scopes, flatMapO_map]
  | optional =>
    obtain ⟨ho, hr⟩ := hk
    rw [evalEdge_optional_toOption, hns]
    simp only [edgeScopes, hr, ho]
    by_cases hemp : (W.D.nbrsOpt v e.name e.params).isEmpty = true
    · have : W.D.nbrsOpt v e.name e.params = [] := by simpa using hemp
      simp [scopes, this]
    · have hv : v.isNone = false := by
        cases v with
        | none => exact absurd rfl hemp
        | some x => rfl
      simp [scopes, hemp, hv, flatMapO_map]
  | recurse d =>
    obtain ⟨r, hrec, hd, hd1, hconv, hpr⟩ := hk
    rw [evalEdge_recurse_toOption]
    simp only [edgeScopes, hrec]
    cases v with
    | none => simp [recScopes]
    | some x =>
      simp only [recScopes, flatMapO_map]
      have : reachDecl W.senv n params d x = Spec.reach W.D e.name e.params r.depth x := by
        simp only [reachDecl, World.senv_data, hd, hn]
        by_cases hx : W.D.nbrs x n e.params = []
        · rw [reach_no_nbrs _ _ _ _ _ hx, reach_no_nbrs]
          rw [hp x]; exact hx
        · exact reach_congr _ _ _ _ (hpr x hx) d x
      rw [this]
  | fold fds => exact absurd hk (by simp [EdgeKindOK])

end TF.InterpSpec
