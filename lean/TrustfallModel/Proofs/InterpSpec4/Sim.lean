/-
C01 main theorem, layer 6 (with folds): the simulation.  Under a certificate, the stage pipeline
of a sub-tree run on one context computes exactly the contexts whose assignments the declarative
semantics assigns to that sub-tree — by structural recursion on the query tree; a `@fold` recurses
into the fold's component (another `World`, the outer assignment's tags as `base`).
-/
import TrustfallModel.Proofs.InterpSpec4.CertLemmas

namespace TF.InterpSpec
open TF TF.Engine TF.Spec

mutual
/-- Fold nesting depth of a sub-tree: the fuel `compute_component` needs below this node. -/
def foldHeight : QNode → Nat
  | .mk _ fields => foldHeightFields fields
def foldHeightFields : List QField → Nat
  | [] => 0
  | .prop .. :: rest => foldHeightFields rest
  | .edge _ _ kind child :: rest =>
    max (match kind with
      | .fold _ => foldHeight child + 1
      | _ => foldHeight child) (foldHeightFields rest)
end

theorem nodup_prefix {α : Type} {l1 l2 : List α} (h : (l1 ++ l2).Nodup) : l1.Nodup :=
  (List.nodup_append.1 h).1

/-- The assignment of a context depends on its three maps only. -/
theorem absL_congr_maps (W : World) (base : List (Name × Tagged)) (L : List Ev) {c c1 : Ctx}
    (hv : c1.vertices = c.vertices) (hf : c1.foldCounts = c.foldCounts)
    (hfv : c1.foldedValues = c.foldedValues) : absL W base L c1 = absL W base L c := by
  have h1 : ∀ w, look c1 w = look c w := fun w => by
    unfold look Engine.Ctx.vertexAt?; rw [hv]
  have h2 : ∀ e, cnt c1 e = cnt c e := fun e => by
    unfold cnt Engine.Ctx.foldCount?; rw [hf]
  have h3 : ∀ n, valByName c1 n = valByName c n := fun n => by
    unfold valByName; rw [hfv]
  simp only [absL]
  rw [flatMap_congr' (g := tagsEv W c) (fun ev _ => by cases ev <;> simp [tagsEv, h1, h2]),
    flatMap_congr' (g := outsEv W c) (fun ev _ => by cases ev <;> simp [outsEv, h1, h2, h3])]

theorem Inv.congr_maps {W : World} {c c1 : Ctx} {L : List Ev} (hi : Inv W c L)
    (hv : c1.vertices = c.vertices) (hf : c1.foldCounts = c.foldCounts)
    (hfv : c1.foldedValues = c.foldedValues) : Inv W c1 L :=
  ⟨by rw [← hi.vk]; simp [keys, hv], by rw [← hi.fk]; simp [fkeys, hf],
    by have := hi.fv; simpa [fvKeys, hfv] using this⟩

mutual
theorem sim_node : ∀ (node : QNode) (W : World) (vid : Vid)
    (L : List Ev) (ss : List Stage) (evs : List Ev), NodeCert W node vid L ss evs →
    ∀ (fuel ifuel : Nat), height node ≤ fuel → foldHeight node ≤ ifuel →
    ∀ (base : List (Name × Tagged)) (c : Ctx), Inv W c L → ImportsOK W c base →
    SimHyps W base (L ++ evs) →
    SimO (absL W base (L ++ evs))
      (fun c' => Ext c c' ∧ Inv W c' (L ++ evs) ∧ (c.active = none → c'.active = none))
      (nodeO W ifuel vid ss c) (evalNode W.senv fuel node c.active (absL W base L c)).toOption
  | .mk ct fields, W, vid, L, ss, evs, hcert, fuel, ifuel, hfuel, hifuel, base, c, hi, himp, hs => by
    unfold NodeCert at hcert
    obtain ⟨V, evs', rfl, hV, hvid, hco, hfl, hTG, hOG, hF⟩ := hcert
    obtain ⟨f, rfl⟩ : ∃ f, fuel = f + 1 := by
      cases fuel with
      | zero => simp [height] at hfuel
      | succ f => exact ⟨f, rfl⟩
    have hfuel' : heightFields fields ≤ f := by simp only [height] at hfuel; omega
    have hifuel' : foldHeightFields fields ≤ ifuel := by simpa [foldHeight] using hifuel
    have hfresh : vid ∉ keys c := by
      rw [hi.vk]; intro hmem
      have hnd := hs.evNodup
      exact (List.nodup_append.1 hnd).2.2 _ (mem_vtxs.1 hmem) _ (List.mem_cons_self ..) rfl
    have hs1 : SimHyps W base (L ++ [.vtx vid]) := by
      have : L ++ Ev.vtx vid :: evs' = (L ++ [.vtx vid]) ++ evs' := by simp
      rw [this] at hs; exact hs.prefix
    have hkOK : KeysOK W L := hs.prefix.keys
    rw [evalNode_toOption, bindProps_absL W base L c c.active vid fields hTG hOG]
    simp only [nodeO, hV, World.senv_data]
    rw [enterVertex_single W vid V hV hvid ct hco c hfresh (TRefAt W vid L) _
      (tagSem_vertex W base hV hi himp hs1.tagNodup _) _ hfl]
    rw [← absL_record W base hi hkOK vid hfresh]
    by_cases hcoe : coercionOk W.D ct c.active = true
    · simp only [hcoe, if_true]
      generalize holdAll W.senv _ c.active (specFilters fields) = H
      rcases H with (_ | _) | _ | _
      · simp only [R.toOption_ok, Option.map_some, boolCtx, Option.bind_some]
        simp only [Bool.false_eq_true, if_false, runO_nil_ctx]
        exact SimO.nil _ _
      · simp only [R.toOption_ok, Option.map_some, boolCtx, Option.bind_some, if_true]
        have hrec := sim_fields fields W vid (L ++ [.vtx vid]) ss evs' hF f ifuel hfuel'
          hifuel' base (Ctx.record c vid) c.active (hi.record vid) (himp.of_imported rfl) (by simp)
          (vertexAt_record c vid hfresh) (fun h => h) (by simpa using hs)
        have hL : L ++ Ev.vtx vid :: evs' = (L ++ [.vtx vid]) ++ evs' := by simp
        rw [hL]
        refine hrec.mono ?_
        intro c' hc'
        exact ⟨(Ext.record c vid).trans hc'.1, hc'.2.1, hc'.2.2⟩
      · exact SimO.none _ _
      · exact SimO.none _ _
    · simp only [hcoe, Bool.false_eq_true, if_false, Option.bind_some, runO_nil_ctx]
      exact SimO.nil _ _
theorem sim_fields : ∀ (fields : List QField) (W : World)
    (vid : Vid) (L : List Ev) (ss : List Stage) (evs : List Ev),
    FieldsCert W fields vid L ss evs →
    ∀ (fuel ifuel : Nat), heightFields fields ≤ fuel → foldHeightFields fields ≤ ifuel →
    ∀ (base : List (Name × Tagged)) (c : Ctx) (v : Option VertexId), Inv W c L →
    ImportsOK W c base → Ev.vtx vid ∈ L → c.vertexAt? vid = some v → (v = none → c.active = none) →
    SimHyps W base (L ++ evs) →
    SimO (absL W base (L ++ evs))
      (fun c' => Ext c c' ∧ Inv W c' (L ++ evs) ∧ (v = none → c'.active = none))
      (runO W ifuel ss [c])
      (evalFields W.senv fuel (ownersOf W.D v) fields v [absL W base L c]).toOption
  | [], W, vid, L, ss, evs, hcert, fuel, ifuel, _, _, base, c, v, hi, _, _, _, hact, _ => by
    unfold FieldsCert at hcert
    obtain ⟨rfl, rfl⟩ := hcert
    simp only [runO, evalFields_nil, R.toOption_ok, List.append_nil]
    exact SimO.single _ ⟨Ext.refl c, hi, hact⟩
  | .prop n dirs :: rest, W, vid, L, ss, evs, hcert, fuel, ifuel, hfuel, hifuel, base, c, v,
      hi, himp, hvL, hv, hact, hs => by
    unfold FieldsCert at hcert
    rw [evalFields_prop]
    exact sim_fields rest W vid L ss evs hcert fuel ifuel
      (by simpa [heightFields] using hfuel) (by simpa [foldHeightFields] using hifuel) base c v hi himp
      hvL hv hact hs
  | .edge n params kind child :: rest, W, vid, L, ss, evs, hcert, fuel, ifuel, hfuel, hifuel,
      base, c, v, hi, himp, hvL, hv, hact, hs => by
    unfold FieldsCert at hcert
    have hfC : height child ≤ fuel := by simp only [heightFields] at hfuel; omega
    have hfR : heightFields rest ≤ fuel := by simp only [heightFields] at hfuel; omega
    have hifR : foldHeightFields rest ≤ ifuel := by simp only [foldHeightFields] at hifuel; omega
    -- what remains after the first stage: the siblings
    have hrestK : ∀ (evs1 evsR : List Ev) (ssR : List Stage)
        (hR : FieldsCert W rest vid (L ++ evs1) ssR evsR)
        (hsR : SimHyps W base ((L ++ evs1) ++ evsR)) (cs' : List Ctx),
        (∀ c' ∈ cs', Ext c c' ∧ Inv W c' (L ++ evs1) ∧ (v = none → c'.active = none)) →
        SimO (absL W base ((L ++ evs1) ++ evsR))
          (fun c'' => Ext c c'' ∧ Inv W c'' ((L ++ evs1) ++ evsR) ∧ (v = none → c''.active = none))
          (runO W ifuel ssR cs')
          (evalFields W.senv fuel (ownersOf W.D v) rest v
            (cs'.map (absL W base (L ++ evs1)))).toOption := by
      intro evs1 evsR ssR hR hsR cs' hcs'
      rw [runO_linear, evalFields_linear, flatMapO_map]
      apply SimO.flatMapO
      intro c' hc'
      obtain ⟨hext, hinv', hactc'⟩ := hcs' c' hc'
      have hvc' : c'.vertexAt? vid = some v := by
        have hk : vid ∈ keys c := by rw [hi.vk]; exact mem_vtxs.2 hvL
        rw [vertexAt?_eq_look (hext.keys_subset hk), look_stable hext hk]
        unfold look; rw [hv]; rfl
      have hrec := sim_fields rest W vid (L ++ evs1) ssR evsR hR fuel ifuel hfR hifR base c' v
        hinv' (himp.of_imported hext.imported) (List.mem_append_left _ hvL) hvc' hactc' hsR
      exact hrec.mono fun c'' h'' => ⟨hext.trans h''.1, h''.2.1, h''.2.2⟩
    cases kind
    case fold fds =>
      simp only at hcert
      obtain ⟨f, ssR, evsR, ssIn, evsIn, rfl, rfl, facts, hcertIn, hR⟩ := hcert
      obtain ⟨k, rfl⟩ : ∃ k, ifuel = k + 1 := by
        simp only [foldHeightFields] at hifuel
        exact ⟨ifuel - 1, by omega⟩
      have hifC : foldHeight child ≤ k := by simp only [foldHeightFields] at hifuel; omega
      have hs1 : SimHyps W base (L ++ [.fold f.eid]) := by
        have : L ++ Ev.fold f.eid :: evsR = (L ++ [.fold f.eid]) ++ evsR := by simp
        rw [this] at hs; exact hs.prefix
      have hndIn : (evsIn.map evVid).Nodup := facts.ndIn
      have hvisitIn : VisitOK [f.toVid] ssIn :=
        (visit_node child (W.inner f) f.toVid [] ssIn evsIn hcertIn (by simpa using hndIn)
          [f.toVid] (by simp [evVid])).1
      have hnilIn := nodeCert_stage_nil child (W.inner f) f.toVid [] ssIn evsIn hcertIn k
      have hin : ∀ (base' : List (Name × Tagged)) (c0 : Ctx), Inv (W.inner f) c0 [] →
          c0.active.isSome → SimHyps (W.inner f) base' evsIn → ImportsOK (W.inner f) c0 base' →
          SimO (absL (W.inner f) base' evsIn) (fun c' => Inv (W.inner f) c' evsIn)
            (nodeO (W.inner f) k f.toVid ssIn c0)
            (evalNode W.senv fuel child c0.active (absL (W.inner f) base' [] c0)).toOption := by
        intro base' c0 hinv0 _ hs0 himp0
        have := sim_node child (W.inner f) f.toVid [] ssIn evsIn hcertIn fuel k hfC hifC base'
          c0 hinv0 himp0 (by simpa using hs0)
        simp only [List.nil_append] at this
        exact this.mono fun c' h => h.2.1
      -- the fold stage itself
      have hstage : SimO (absL W base (L ++ [.fold f.eid]))
          (fun c' => Ext c c' ∧ Inv W c' (L ++ [.fold f.eid]) ∧ (v = none → c'.active = none))
          (stageO W (k + 1) (.fold f) c)
          (evalEdge W.senv fuel (ownersOf W.D v) n params (.fold fds) child v
            (absL W base L c)).toOption := by
        cases v with
        | none =>
          have := fold_stage_none W facts.lim facts hcertIn fuel k hvisitIn hnilIn base c hi himp hvL hv
            hs1
          exact this.mono fun c' h => ⟨h.1, h.2.1, fun _ => h.2.2⟩
        | some x =>
          have := fold_stage_some W facts.lim facts hcertIn fuel k hvisitIn hnilIn hndIn hin base c x hi himp hvL hv
            hs1
          exact this.mono fun c' h => ⟨h.1, h.2.1, fun hx => by cases hx⟩
      rw [runO_cons_single, evalFields_edge_toOption, flatMapO_singleton]
      have hL : L ++ Ev.fold f.eid :: evsR = (L ++ [.fold f.eid]) ++ evsR := by simp
      rw [hL]
      refine SimO.bind hstage ?_
      intro cs' hcs'
      exact hrestK [.fold f.eid] evsR ssR hR (by rw [← hL]; exact hs) cs' hcs'
    all_goals
      simp only at hcert
      obtain ⟨e, ssC, ssR, evsC, evsR, rfl, rfl, hfrom, hfromV, hname, hkind, hparams, hC, hR⟩ := hcert
      have hifC : foldHeight child ≤ ifuel := by simp only [foldHeightFields] at hifuel; omega
      have hsC : SimHyps W base (L ++ evsC) := by
        rw [← List.append_assoc] at hs; exact hs.prefix
      obtain ⟨toV, evsC', sfsC, _, htoV, htoVid, hflC⟩ := hC.dest
      have h0 : enterVertex W.env W.comp toV [] = .ok [] :=
        enterVertex_nil W e.toVid toV htoV htoVid _ _ hflC
      obtain ⟨fromV, hfromV⟩ := Option.isSome_iff_exists.1 hfromV
      obtain ⟨c1, hext1, hv1, hf1, hfv1, hst⟩ := stageO_scopes W ifuel n params _ e c
        (fromV := fromV) (toV := toV) hkind (by rw [hfrom]; exact hfromV) htoV
        (by rw [hfrom]; exact hv) hact h0
      have hI : runO W ifuel (.edge e :: (ssC ++ ssR)) [c] =
          (flatMapO (fun s => nodeO W ifuel e.toVid ssC { c1 with active := s })
            (edgeScopes W e v)).bind (runO W ifuel ssR) := by
        rw [runO_cons_single, hst]
        have : runO W ifuel (ssC ++ ssR) = fun cs => (runO W ifuel ssC cs).bind (runO W ifuel ssR) :=
          funext (runO_append W ifuel ssC ssR)
        rw [this]
        rw [← Option.bind_assoc]
        congr 1
        have hl' : ∀ cs, runO W ifuel ssC cs = flatMapO (fun c' => runO W ifuel ssC [c']) cs :=
          runO_linear W ifuel ssC
        conv => lhs; arg 2; ext cs; rw [hl' cs]
        rw [flatMapO_assoc]
        apply flatMapO_congr
        intro s _
        simp only [nodeO, htoV]
        congr 1
        funext cs
        exact (hl' cs).symm
      rw [hI, evalFields_edge_toOption, flatMapO_singleton,
        evalEdge_scopes W fuel n params _ child v (absL W base L c) e hkind hparams hname]
      rw [← List.append_assoc]
      refine SimO.bind (ab := absL W base (L ++ evsC))
        (P := fun c' => Ext c c' ∧ Inv W c' (L ++ evsC) ∧ (v = none → c'.active = none)) ?_ ?_
      · apply SimO.flatMapO
        intro s hs'
        have hi1 : Inv W ({ c1 with active := s } : Ctx) L := hi.congr_maps hv1 hf1 hfv1
        have hsim := sim_node child W e.toVid L ssC evsC hC fuel ifuel hfC hifC base
          { c1 with active := s } hi1 (himp.of_imported hext1.imported) hsC
        have habs : absL W base L ({ c1 with active := s } : Ctx) = absL W base L c :=
          absL_congr_maps W base L hv1 hf1 hfv1
        rw [habs] at hsim
        refine hsim.mono ?_
        intro c' hc'
        refine ⟨hext1.trans hc'.1.of_active, hc'.2.1, ?_⟩
        intro hvn
        subst hvn
        exact hc'.2.2 (edgeScopes_none W e s hs')
      · intro cs' hcs'
        exact hrestK evsC evsR ssR hR (by rw [List.append_assoc]; exact hs) cs' hcs'
end

end TF.InterpSpec
