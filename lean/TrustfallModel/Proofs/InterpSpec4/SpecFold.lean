/-
C01 main theorem, fragment F3, specification side: the `@fold` clause of `evalEdge` through
`toOption`, in closed form.
-/
import TrustfallModel.Proofs.InterpSpec4.Fold
import TrustfallModel.Proofs.InterpSpec4.HypsDef3

namespace TF.InterpSpec
open TF TF.Engine TF.Spec

/-- The result assignment of a fold that exists, with `count` elements `elems`. -/
def foldAsg (a : Asg) (fds : List FDir) (names : List Name) (elems : List Asg) : Asg :=
  let count := Value.uint64 (UInt64.ofNat elems.length)
  ⟨a.tags ++ (countTagNames fds).map fun n => (n, Tagged.some count),
    a.outs ++ ((countOutNames fds).map fun n => (n, count)) ++
      names.map fun n => (n, Value.list (elems.map fun e => lookupOut e.outs n))⟩

/-- The result assignment of a fold that does not exist (missing scope). -/
def foldAsgNone (a : Asg) (fds : List FDir) (names : List Name) : Asg :=
  ⟨a.tags ++ (countTagNames fds).map fun n => (n, Tagged.nonexistent),
    a.outs ++ (names.map fun n => (n, Value.null)) ++ (countOutNames fds).map fun n => (n, Value.null)⟩

theorem evalEdge_fold_none (env : SpecEnv) (fuel : Nat) (owners : List Name) (name : Name)
    (params : Params) (fds : List FDir) (child : QNode) (a : Asg) :
    evalEdge env fuel owners name params (.fold fds) child none a =
      .ok [foldAsgNone a fds (outNames child)] := by
  simp only [evalEdge, foldAsgNone]
  congr 2
  generalize hF : (fun (acc : Asg) (d : FDir) => _) = F
  have key : ∀ (b : Asg), fds.foldl F b =
      ⟨b.tags ++ (countTagNames fds).map (fun n => (n, Tagged.nonexistent)),
        b.outs ++ (countOutNames fds).map fun n => (n, Value.null)⟩ := by
    subst hF
    induction fds with
    | nil => intro b; simp [countTagNames, countOutNames]
    | cons d rest ih =>
      intro b
      rw [List.foldl_cons, ih]
      cases d <;> simp [countTagNames, countOutNames]
  rw [key]

theorem countTag_foldl (a : Asg) (fds : List FDir) (count : Value) :
    fds.foldl (fun (acc : Asg) d =>
      match d with
      | .countTag n => { acc with tags := acc.tags ++ [(n, Tagged.some count)] }
      | _ => acc) a =
    ⟨a.tags ++ (countTagNames fds).map fun n => (n, Tagged.some count), a.outs⟩ := by
  induction fds generalizing a with
  | nil => simp [countTagNames]
  | cons d rest ih =>
    rw [List.foldl_cons, ih]
    cases d <;> simp [countTagNames]

theorem evalEdge_fold_some (env : SpecEnv) (fuel : Nat) (owners : List Name) (name : Name)
    (params : Params) (fds : List FDir) (child : QNode) (x : VertexId) (a : Asg) :
    (evalEdge env fuel owners name params (.fold fds) child (some x) a).toOption =
      (flatMapO (fun n => (evalNode env fuel child (some n) { tags := a.tags, outs := [] }).toOption)
        (specNbrs env owners name params (some x))).bind fun elems =>
        (filtersHold env
            ⟨a.tags ++ (countTagNames fds).map fun n =>
              (n, Tagged.some (Value.uint64 (UInt64.ofNat elems.length))), a.outs⟩
            (some x) (Value.uint64 (UInt64.ofNat elems.length)) (countFilterPairs fds)).toOption.bind
          fun b => if b then some [foldAsg a fds (outNames child) elems] else some [] := by
  simp only [evalEdge, specNbrs]
  rw [← toOption_flatMapR]
  cases flatMapR (fun n => evalNode env fuel child (some n) { tags := a.tags, outs := [] })
      (env.data.nbrsOpt (some x) name (completeParams (declParams env owners name) params)) with
  | panic s => rfl
  | fuel => rfl
  | ok elems =>
    simp only [R.toOption_ok, Option.bind_some]
    generalize hF : (fun (acc : Asg) (d : FDir) => _) = F
    have hFold : fds.foldl F a =
        ⟨a.tags ++ (countTagNames fds).map fun n =>
          (n, Tagged.some (Value.uint64 (UInt64.ofNat elems.length))), a.outs⟩ := by
      subst hF
      generalize a = b
      induction fds generalizing b with
      | nil => simp [countTagNames]
      | cons d rest ih =>
        rw [List.foldl_cons, ih]
        cases d <;> simp [countTagNames]
    rw [hFold]
    clear hFold hF F
    generalize hG : (fun (d : FDir) => (_ : Option (FOp × QArg))) = G
    have hPairs : fds.filterMap G = countFilterPairs fds := by
      subst hG
      induction fds with
      | nil => rfl
      | cons d rest ih => cases d <;> simp_all [countFilterPairs, List.filterMap_cons]
    rw [hPairs]
    clear hPairs hG G
    generalize hH : (fun (d : FDir) => (_ : Option (Name × Value))) = H
    have hOuts : fds.filterMap H =
        (countOutNames fds).map fun n => (n, Value.uint64 (UInt64.ofNat elems.length)) := by
      subst hH
      induction fds with
      | nil => rfl
      | cons d rest ih => cases d <;> simp_all [countOutNames, List.filterMap_cons]
    rw [hOuts]
    clear hOuts hH H
    rcases filtersHold env _ (some x) (Value.uint64 (UInt64.ofNat elems.length))
      (countFilterPairs fds) with (_ | _) | _ | _
    · rfl
    · simp only [R.toOption_ok, Option.bind_some, if_true, foldAsg, Option.some.injEq,
        List.cons.injEq, and_true]
      congr 2
    · rfl
    · rfl

end TF.InterpSpec
