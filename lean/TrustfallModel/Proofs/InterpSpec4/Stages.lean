/-
C01 main theorem, layer 4: the stage pipeline.

`runO`: the Eid-ordered list of edge stages of a component as a Kleisli composition over `Option`;
it is linear in its contexts (`runO_linear`), splits at appends (`runO_append`: this is the
"flat pipeline = nested denotation" step: the stage list of a node is
`edge₁ :: stages child₁ ++ edge₂ :: stages child₂ ++ …`), and is what `runStages` /
`computeComponent` compute (`runStages_eq_runO`) when the `visited` assertions hold and every
stage accepts the empty list.
-/
import TrustfallModel.Proofs.InterpSpec4.Vertex

namespace TF.InterpSpec
open TF TF.Engine TF.Spec

/-- One stage on one context: an edge (`expand_edge` incl. the entry into the destination vertex)
or a fold (`compute_fold`; `fuel` bounds the nesting of the sub-components). -/
def stageO (W : World) (fuel : Nat) : Stage → Ctx → Option (List Ctx)
  | .edge e, c => (expandEdge W.env W.comp e [c]).toOption
  | .fold f, c => (computeFold W.env fuel W.comp f [c]).toOption

def runO (W : World) (fuel : Nat) : List Stage → List Ctx → Option (List Ctx)
  | [], cs => some cs
  | e :: es, cs => (flatMapO (stageO W fuel e) cs).bind (runO W fuel es)

theorem flatMapO_pure {α : Type} (cs : List α) : flatMapO (fun c => some [c]) cs = some cs := by
  rw [flatMapO_some]; simp

theorem runO_linear (W : World) (fuel : Nat) (es : List Stage) (cs : List Ctx) :
    runO W fuel es cs = flatMapO (fun c => runO W fuel es [c]) cs := by
  induction es generalizing cs with
  | nil => simp only [runO]; exact (flatMapO_pure cs).symm
  | cons e es ih =>
    simp only [runO, flatMapO_singleton]
    have : ∀ cs', runO W fuel es cs' = flatMapO (fun c => runO W fuel es [c]) cs' := ih
    conv => lhs; arg 2; ext cs'; rw [this cs']
    rw [flatMapO_assoc]
    apply flatMapO_congr
    intro c _
    congr 1
    funext cs'
    exact (this cs').symm

theorem runO_append (W : World) (fuel : Nat) (es1 es2 : List Stage) (cs : List Ctx) :
    runO W fuel (es1 ++ es2) cs = (runO W fuel es1 cs).bind (runO W fuel es2) := by
  induction es1 generalizing cs with
  | nil => rfl
  | cons e es ih =>
    simp only [List.cons_append, runO]
    cases flatMapO (stageO W fuel e) cs with
    | none => rfl
    | some cs' => simp [ih]

theorem runO_nil_ctx (W : World) (fuel : Nat) (es : List Stage) : runO W fuel es [] = some [] := by
  induction es with
  | nil => rfl
  | cons e es ih => simp [runO, ih]

theorem runO_cons_single (W : World) (fuel : Nat) (e : Stage) (es : List Stage) (c : Ctx) :
    runO W fuel (e :: es) [c] = (stageO W fuel e c).bind (runO W fuel es) := by
  simp [runO]

/-! ### `runStages` computes `runO` -/

def stFrom : Stage → Vid
  | .edge e => e.fromVid
  | .fold f => f.fromVid

def stTo : Stage → Vid
  | .edge e => e.toVid
  | .fold f => f.toVid

/-- The `visited_vids` assertions of `compute_component` hold along the stage list. -/
def VisitOK : List Vid → List Stage → Prop
  | _, [] => True
  | visited, s :: ss =>
    stFrom s ∈ visited ∧ stTo s ∉ visited ∧ stFrom s ≠ stTo s ∧ VisitOK (stTo s :: visited) ss

theorem checkVisited_ok {visited : List Vid} {f t : Vid} (h1 : f ∈ visited) (h2 : t ∉ visited)
    (h3 : f ≠ t) : checkVisited visited f t = .ok (t :: visited) := by
  simp [checkVisited, h1, h2, h3]

/-- The stage on the empty list of contexts succeeds with no context. -/
def StageNil (W : World) (fuel : Nat) : Stage → Prop
  | .edge e => (expandEdge W.env W.comp e []).toOption = some []
  | .fold f => (computeFold W.env fuel W.comp f []).toOption = some []

theorem runStages_eq_runO (W : World) (fuel : Nat) (ss : List Stage) (visited : List Vid)
    (hv : VisitOK visited ss) (h0 : ∀ s ∈ ss, StageNil W fuel s) (cs : List Ctx) :
    (runStages W.env fuel W.comp ss visited cs).toOption = runO W fuel ss cs := by
  induction ss generalizing visited cs with
  | nil => simp [runStages, runO]
  | cons s ss ih =>
    obtain ⟨h1, h2, h3, hrest⟩ := hv
    cases s with
    | edge e =>
      simp only [stFrom, stTo] at h1 h2 h3 hrest
      simp only [runStages, checkVisited_ok h1 h2 h3, R.bind_ok, R.toOption_bind, runO]
      rw [Hom.eq_flatMapO (expandEdge_hom W.env W.comp e) (h0 _ (List.mem_cons_self ..))]
      congr 1
      funext cs'
      exact ih _ hrest (fun s' hs' => h0 s' (List.mem_cons_of_mem _ hs')) cs'
    | fold f =>
      simp only [stFrom, stTo] at h1 h2 h3 hrest
      simp only [runStages, checkVisited_ok h1 h2 h3, R.bind_ok, R.toOption_bind, runO]
      rw [Hom.eq_flatMapO (computeFold_hom W.env fuel W.comp f) (h0 _ (List.mem_cons_self ..))]
      congr 1
      funext cs'
      exact ih _ hrest (fun s' hs' => h0 s' (List.mem_cons_of_mem _ hs')) cs'

/-- `compute_component` = enter the root, then the stages in Eid order. -/
theorem computeComponent_eq (W : World) (fuel : Nat) (rootV : IRVertex) (ss : List Stage)
    (hroot : W.comp.vertex? W.comp.root = some rootV)
    (hmerge : mergeStages W.comp.edges W.comp.folds (W.comp.edges.length + W.comp.folds.length) = .ok ss)
    (hv : VisitOK [W.comp.root] ss) (h0 : ∀ s ∈ ss, StageNil W fuel s) (cs : List Ctx) :
    (computeComponent W.env (fuel + 1) W.comp cs).toOption =
      (enterVertex W.env W.comp rootV cs).toOption.bind (runO W fuel ss) := by
  simp only [computeComponent, hroot, hmerge, R.bind_ok, R.toOption_bind]
  congr 1
  funext cs'
  exact runStages_eq_runO W fuel _ _ hv h0 cs'

/-! ### one non-recursive edge on one context -/

theorem activate_of_vertexAt {c : Ctx} {vid : Vid} {v : Option VertexId}
    (h : c.vertexAt? vid = some v) : c.activate vid = .ok { c with active := v } := by
  simp [Engine.Ctx.activate, h]

theorem expandNonRecursive_single (W : World) (fromT : Name) (e : IREdge) (c : Ctx)
    {v : Option VertexId} (h : c.vertexAt? e.fromVid = some v) :
    expandNonRecursive W.env fromT e [c] =
      .ok (expandOne { c with active := v } (W.D.nbrsOpt v e.name e.params) e.optional) := by
  simp [expandNonRecursive, flatMapR_single, activate_of_vertexAt h]

/-- A plain / optional edge stage on one context: expand, then enter the destination vertex from
each expanded context. -/
theorem stageO_nonrec (W : World) (fuel : Nat) (e : IREdge) (c : Ctx) {fromV toV : IRVertex}
    (hf : W.comp.vertex? e.fromVid = some fromV) (ht : W.comp.vertex? e.toVid = some toV)
    (hrec : e.recursive = none) {v : Option VertexId} (h : c.vertexAt? e.fromVid = some v)
    (h0 : enterVertex W.env W.comp toV [] = .ok []) :
    stageO W fuel (.edge e) c =
      flatMapO (fun c' => (enterVertex W.env W.comp toV [c']).toOption)
        (expandOne { c with active := v } (W.D.nbrsOpt v e.name e.params) e.optional) := by
  simp only [stageO, expandEdge, hf, ht, hrec, expandNonRecursive_single W _ e c h, R.bind_ok]
  exact Hom.eq_flatMapO (enterVertex_hom W.env W.comp toV) (by simp [h0]) _

theorem expandEdge_nil (W : World) (e : IREdge) {fromV toV : IRVertex}
    (hf : W.comp.vertex? e.fromVid = some fromV) (ht : W.comp.vertex? e.toVid = some toV)
    (hrec : e.recursive = none) (h0 : enterVertex W.env W.comp toV [] = .ok []) :
    (expandEdge W.env W.comp e []).toOption = some [] := by
  simp [expandEdge, hf, ht, hrec, expandNonRecursive, flatMapR, h0]

end TF.InterpSpec
