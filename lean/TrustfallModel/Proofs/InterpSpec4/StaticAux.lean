/-
C01 main theorem, static part (with folds): auxiliary lemmas (soundness of the Boolean hypotheses,
phase B of the frontend, sorting of outputs) — ported from the fold-free development.
-/
import TrustfallModel.Proofs.InterpSpec4.StaticFilters

namespace TF.InterpSpec
open TF TF.Engine TF.Spec TF.Frontend

theorem nbrs_nil_of_no_entry (D : Data) (x : VertexId) (n : Name) (ps : Params)
    (h : ∀ a ∈ D.adj, a.vertex ≠ x) : D.nbrs x n ps = [] := by
  unfold Data.nbrs
  have : D.adj.find? (fun e => e.vertex == x && e.edge == n && paramsEq e.params ps) = none := by
    rw [List.find?_eq_none]
    intro a ha
    have := h a ha
    simp [this]
  rw [this]


theorem paramsAgreeB_sound (H : HypEnv) (W : World) (hD : W.D = H.D) (ha : W.args = H.args)
    (he : W.edges = H.edges) (n : Name) (params ps : Params)
    (h : paramsAgreeB H n params ps = true) : ParamsAgree W n params ps := by
  have hs : W.senv = H.senv := by
    simp [World.senv, HypEnv.senv, hD, ha, he]
  intro x
  rw [hs, hD]
  by_cases hx : ∃ a ∈ H.D.adj, a.vertex = x
  · obtain ⟨a, hmem, rfl⟩ := hx
    simp only [paramsAgreeB, List.all_eq_true] at h
    simpa using h a hmem
  · have hno : ∀ a ∈ H.D.adj, a.vertex ≠ x := fun a ha he => hx ⟨a, ha, he⟩
    rw [nbrs_nil_of_no_entry _ _ _ _ hno, nbrs_nil_of_no_entry _ _ _ _ hno]


theorem coerce_some {S : SchemaView} {pre c post : Name} (h : coerce S pre (some c) = .ok post) :
    post = c := by
  simp only [coerce, bind_ok, pure_ok] at h
  obtain ⟨_, _, _, _, _, _, _, _, h⟩ := h
  exact h.symm


theorem paramsAgreeRecB_sound (H : HypEnv) (W : World) (hD : W.D = H.D) (ha : W.args = H.args)
    (he : W.edges = H.edges) (n : Name) (params ps : Params)
    (h : paramsAgreeRecB H n params ps = true) : ParamsAgreeRec W n params ps := by
  have hs : W.senv = H.senv := by
    simp [World.senv, HypEnv.senv, hD, ha, he]
  intro x hx y
  rw [hs, hD] at *
  have hxa : ∃ a ∈ H.D.adj, a.vertex = x := by
    apply Classical.byContradiction
    intro hno
    exact hx (nbrs_nil_of_no_entry _ _ _ _ fun a ha he => hno ⟨a, ha, he⟩)
  obtain ⟨a, hmem, rfl⟩ := hxa
  simp only [paramsAgreeRecB, List.all_eq_true, Bool.or_eq_true] at h
  rcases h a hmem with h1 | h1
  · exact absurd (by simpa using h1) hx
  · by_cases hy : ∃ b ∈ H.D.adj, b.vertex = y
    · obtain ⟨b, hb, rfl⟩ := hy
      simpa using h1 b hb
    · have hno : ∀ b ∈ H.D.adj, b.vertex ≠ y := fun b hb he => hy ⟨b, hb, he⟩
      rw [nbrs_nil_of_no_entry _ _ _ _ hno, nbrs_nil_of_no_entry _ _ _ _ hno]


theorem recConvB_sound (D : Data) (e : IREdge) (r : Recursive)
    (h : recConvB D e.name e.params r.coerceTo = true) : RecConv D e r := by
  intro w hw
  by_cases hx : ∃ a ∈ D.adj, a.vertex = w
  · obtain ⟨a, hmem, rfl⟩ := hx
    simp only [recConvB, List.all_eq_true, Bool.or_eq_true] at h
    rcases h a hmem with h1 | h1
    · rw [hw] at h1; cases h1
    · simpa using h1
  · exact nbrs_nil_of_no_entry _ _ _ _ fun a ha he => hx ⟨a, ha, he⟩


theorem makeVertices_mem {path l st vs ev st'} (h : makeVertices path l st = .ok (vs, ev, st')) :
    ∀ r ∈ l, ∃ fs ev' stX stY, stX.tags = st.tags ∧
      resolveFilters path r.vid r.pending stX = .ok (fs, ev', stY) ∧
      (⟨r.vid, r.typeName, r.coercedFrom, fs⟩ : IRVertex) ∈ vs := by
  induction l generalizing st vs ev with
  | nil => intro r hr; cases hr
  | cons v rest ih =>
    rw [makeVertices] at h
    simp only [bind_ok, pure_ok, makeVertex] at h
    obtain ⟨⟨x, ev1, st1⟩, ⟨⟨fs, ev0, st0⟩, h0, hx⟩, ⟨xs, ev2, st2⟩, h2, h3⟩ := h
    simp only [Prod.mk.injEq] at h3 hx
    obtain ⟨rfl, _, rfl⟩ := h3
    obtain ⟨rfl, _, rfl⟩ := hx
    intro r hr
    rcases List.mem_cons.1 hr with rfl | hr
    · exact ⟨fs, ev0, st, st0, rfl, h0, by simp⟩
    · obtain ⟨fs', ev', stX, stY, hT, hres, hmem⟩ := ih h2 r hr
      exact ⟨fs', ev', stX, stY, by rw [hT, (resolveFilters_core h0).2.2], hres,
        List.mem_cons_of_mem _ hmem⟩


theorem find?_vertex_of_mem {vs : List IRVertex} {V : IRVertex} (hn : (vs.map (·.vid)).Nodup)
    (hm : V ∈ vs) : vs.find? (·.vid == V.vid) = some V := by
  induction vs with
  | nil => cases hm
  | cons p rest ih =>
    simp only [List.map_cons, List.nodup_cons] at hn
    rcases List.mem_cons.1 hm with h | h
    · subst h; simp
    · have hne : p.vid ≠ V.vid := by
        intro he
        apply hn.1
        rw [he]
        exact List.mem_map.2 ⟨V, h, rfl⟩
      simp [List.find?_cons, hne, ih hn.2 h]


theorem tblLookup_of_mem {tbl : List (Vid × List QField)} (hn : (keysT tbl).Nodup) {w : Vid}
    {fs : List QField} (hm : (w, fs) ∈ tbl) : tblLookup tbl w = fs := by
  unfold tblLookup
  induction tbl with
  | nil => cases hm
  | cons p rest ih =>
    simp only [keysT, List.map_cons, List.nodup_cons] at hn
    rcases List.mem_cons.1 hm with h | h
    · subst h; simp
    · have hne : p.1 ≠ w := by
        intro he
        apply hn.1
        rw [he]
        exact List.mem_map.2 ⟨(w, fs), h, rfl⟩
      have hb : (p.1 == w) = false := by simpa using hne
      simp only [List.find?_cons, hb]
      exact ih hn.2 h


theorem insertOutput_perm (o : OutputDef) (l : List OutputDef) : (insertOutput o l).Perm (o :: l) := by
  induction l with
  | nil => exact List.Perm.refl _
  | cons x xs ih =>
    simp only [insertOutput]
    split
    · exact List.Perm.refl _
    · exact (List.Perm.cons x ih).trans (List.Perm.swap o x xs)

theorem sortOutputs_perm (l : List OutputDef) : (sortOutputs l).Perm l := by
  induction l with
  | nil => exact List.Perm.refl _
  | cons o rest ih => exact (insertOutput_perm o _).trans (List.Perm.cons o ih)

theorem nodup_of_namesDistinct {l : List Name} (h : namesDistinct l = true) : l.Nodup := by
  induction l with
  | nil => exact List.nodup_nil
  | cons n rest ih =>
    simp only [namesDistinct, Bool.and_eq_true, Bool.not_eq_true', List.contains_eq_mem,
      decide_eq_false_iff_not] at h
    exact List.nodup_cons.2 ⟨h.1, ih h.2⟩


theorem filterDirs_left (n : Name) (ty : QTy) (dirs : List Dir) :
    ∀ pf ∈ filterDirs n ty dirs, ∃ t, pf.left = .loc (leftName pf.left) t := by
  induction dirs with
  | nil => intro pf h; cases h
  | cons d rest ih =>
    cases d with
    | filter op arg =>
      intro pf h
      simp only [filterDirs, List.mem_cons] at h
      rcases h with rfl | h
      · exact ⟨ty, rfl⟩
      · exact ih pf h
    | tag t => simpa [filterDirs] using ih
    | output o => simpa [filterDirs] using ih

theorem nodeFilters_left (S : SchemaView) (ty : Name) (fields : List QField) :
    ∀ pf ∈ nodeFilters S ty fields, ∃ t, pf.left = .loc (leftName pf.left) t := by
  intro pf h
  simp only [nodeFilters, List.mem_flatMap] at h
  obtain ⟨n, _, hn⟩ := h
  cases hp : S.propTy? ty n with
  | none => simp [hp] at hn
  | some pty =>
    simp only [hp] at hn
    exact filterDirs_left n pty _ pf hn


end TF.InterpSpec
