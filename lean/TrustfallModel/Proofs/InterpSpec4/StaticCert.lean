/-
C01 main theorem, static part (with folds): a successful run of phase A of the frontend, under the
hypotheses `hyps3Node` (the imports of the folds being in order: `CompOK.impok`, a consequence of
`toIR` — `importsOKC_of_toIR`), yields the certificate `NodeCert` for the finished
component — including, for every `@fold`, the certificate of the fold's component.
-/
import TrustfallModel.Proofs.InterpSpec4.StaticCertAux

namespace TF.InterpSpec
open TF TF.Engine TF.Spec TF.Frontend

/-- Every vertex record has been resolved (phase B) against a prefix of the tag table `T` into the
IR vertex found in the component. -/
def HV (W : World) (T : List TagEntry) (path : List Vid) (verts : List VertexRec) : Prop :=
  ∀ r ∈ verts, ∃ fs ev stX stY, (∀ e ∈ stX.tags, e ∈ T) ∧
    resolveFilters path r.vid r.pending stX = .ok (fs, ev, stY) ∧
    W.comp.vertex? r.vid = some ⟨r.vid, r.typeName, r.coercedFrom, fs⟩

/-- What a run contributes to the component, in stage order. -/
structure RunFacts (W : World) (vid : Vid) (fields : List QField) (acc : Acc) (ss : List Stage)
    (evs : List Ev) (e0 e1 : Nat) : Prop where
  edges : ss.filterMap stEdge? = acc.edges
  folds : ss.filterMap stFold? = acc.folds
  evsEq : evs = ss.map evOf
  sortedE : (ss.map stEid).Pairwise (· < ·)
  bounds : ∀ s ∈ ss, e0 ≤ stEid s ∧ stEid s < e1
  keysOK : ∀ f ∈ acc.folds, ((foldKeys f).map (·.2)).Perm (W.CO f.eid ++ W.ON f.eid)
  outsP : (acc.outs.map fun o => (o.name, o.vid, o.field)).Perm
      (((outPairs fields).map fun p => (p.1, vid, p.2)) ++ outTriples W (vtxs evs))

theorem Forall2.mono_mem {α β : Type} {r s : α → β → Prop} {as : List α} {bs : List β}
    (h : Forall2 r as bs) (hrs : ∀ a ∈ as, ∀ b, r a b → s a b) : Forall2 s as bs := by
  induction h with
  | nil => exact .nil
  | cons h _ ih =>
    exact .cons (hrs _ (List.mem_cons_self ..) _ h)
      (ih fun a ha b hr => hrs a (List.mem_cons_of_mem _ ha) b hr)

theorem refOK_vertex {W : World} {L : List Ev} {vid : Vid} (hfresh : Ev.vtx vid ∉ L) {t : Name}
    {r : FieldRef} (h : RefOK W L (.vtx vid) t r) : TRefAt W vid L t r := by
  rcases h with ⟨w, fld, ty, rfl, hm, hw, hs⟩ | ⟨e, root, rfl, hm, hw, hs⟩ | h3
  · left
    refine ⟨w, fld, ty, rfl, hm, ?_⟩
    rcases hw with hw | hw
    · left; simpa using hw
    · right
      refine ⟨hw, ?_, hs⟩
      intro he; subst he; exact hfresh hw
  · right; left
    rcases hw with hw | hw
    · cases hw
    · exact ⟨e, root, rfl, hm, hw, hs⟩
  · exact Or.inr (Or.inr h3)

theorem refOK_post {W : World} {L : List Ev} {vid : Vid} {eid : Eid} {t : Name}
    {r : FieldRef} (h : RefOK W L (.fold eid) t r) : TRefPost W vid L eid t r := by
  rcases h with ⟨w, fld, ty, rfl, hm, hw, hs⟩ | ⟨e, root, rfl, hm, hw, hs⟩ | h3
  · left; left
    refine ⟨w, fld, ty, rfl, hm, ?_⟩
    rcases hw with hw | hw
    · cases hw
    · by_cases he : w = vid
      · exact Or.inl he
      · exact Or.inr ⟨hw, he, hs⟩
  · rcases hw with hw | hw
    · right
      have : e = eid := by simpa using hw
      subst this
      exact ⟨root, rfl, hm⟩
    · left; right; left
      exact ⟨e, root, rfl, hm, hw, hs⟩
  · exact Or.inl (Or.inr (Or.inr h3))

theorem kindIn3_edgeKindOK (S : SchemaView) (H : HypEnv) (hS : H.S = S) (W : World) (he : EnvOK H W)
    {ty : Name} {ed : EdgeInfo} {kind : Kind} (hk : ∀ fds, kind = .fold fds → False)
    {r : Option Recursive} (h : recursiveOf S ty ed kind = .ok r)
    (eid fromVid toVid : Nat) (n : Name) (params ps : Params)
    (hrec : recOK H ty ed n params ps kind = true) :
    EdgeKindOK W n params kind ⟨eid, fromVid, toVid, n, ps, isOptionalKind kind, r⟩ := by
  cases kind with
  | plain => simp [recursiveOf] at h; simp [EdgeKindOK, isOptionalKind, h]
  | optional => simp [recursiveOf] at h; simp [EdgeKindOK, isOptionalKind, h]
  | recurse d =>
    have h' := h
    simp only [recursiveOf, bind_ok, pure_ok, check_ok] at h'
    obtain ⟨_, hd, c, _, hr⟩ := h'
    subst hr
    simp only [recOK, hS, h, Bool.and_eq_true] at hrec
    refine ⟨⟨d, c⟩, rfl, rfl, ?_, ?_, ?_⟩
    · have : d ≠ 0 := by simpa using hd
      omega
    · rw [he.d]; exact recConvB_sound H.D _ _ hrec.1
    · exact paramsAgreeRecB_sound H W he.d he.a he.e n params ps hrec.2
  | fold fds => exact absurd rfl (hk fds)

end TF.InterpSpec

namespace TF.InterpSpec
open TF TF.Engine TF.Spec TF.Frontend

theorem vtx_not_mem_prefix {L R : List Ev} {cur : Ev}
    (hs : ((L ++ cur :: R).map evVid).Pairwise (· < ·)) : cur ∉ L := by
  intro hm
  rw [List.map_append, List.map_cons] at hs
  have := (List.pairwise_append.1 hs).2.2 (evVid cur) (List.mem_map.2 ⟨cur, hm, rfl⟩) (evVid cur)
    (List.mem_cons_self ..)
  exact Nat.lt_irrefl _ this

/-- The vertex-output names of a component's events form a duplicate-free list. -/
theorem outTriples_names_nodup (W : World) (L : List Ev) (h : (outNamesL W L).Nodup) :
    ((outTriples W (vtxs L)).map (·.1)).Nodup := by
  have hp := flatMap_events_perm (evOutNames W) L
  have hnd := hp.nodup_iff.1 h
  have : (outTriples W (vtxs L)).map (·.1) = (vtxs L).flatMap fun w => evOutNames W (.vtx w) := by
    simp [outTriples, List.map_flatMap, evOutNames, Function.comp_def]
  rw [this]
  exact (List.nodup_append.1 hnd).1

section
variable (S : SchemaView) (H : HypEnv) (hS : H.S = S) (T : List TagEntry)
  (tbl : List (Vid × List QField)) (ftbl : List (Eid × List FDir × QNode))
  (hT : TagsT T tbl ftbl)

include hS hT in
theorem cert_fill3 :
    (∀ path vid pre node st acc st', fillNode S path vid pre node st = .ok (acc, st') →
      ∀ (W : World) (L Rest AE : List Ev), EnvOK H W → TablesOK W tbl ftbl →
        (∀ t r, W.NR t r ↔ ∃ e ∈ T, e.name = t ∧ e.field = r) → CompOK W AE → (W.lim = false ∨ noFold node = true) → hyps3Node H pre node = true → (treeOutputNames node).Nodup →
        st.nextVid = st.nextEid + 1 → AE = L ++ evsNode node vid st.nextVid ++ Rest →
        (∀ p ∈ tblNode node vid st.nextVid, p ∈ tbl) → (∀ p ∈ ftblNode node st.nextVid, p ∈ ftbl) →
        HV W T path acc.verts → (∀ f ∈ acc.folds, f ∈ W.comp.folds) → (∀ e ∈ st'.tags, e ∈ T) →
        ∃ ss, NodeCert W node vid L ss (evsNode node vid st.nextVid) ∧
          RunFacts W vid (nodeFields node) acc ss (evsFields (nodeFields node) st.nextVid)
            st.nextEid st'.nextEid) ∧
    (∀ path vid ty fields st acc st', fillFields S path vid ty fields st = .ok (acc, st') →
      ∀ (W : World) (L Rest AE : List Ev), EnvOK H W → TablesOK W tbl ftbl →
        (∀ t r, W.NR t r ↔ ∃ e ∈ T, e.name = t ∧ e.field = r) → CompOK W AE → (W.lim = false ∨ noFoldFields fields = true) → hyps3Fields H ty fields = true → (fieldsOutputNames fields).Nodup →
        st.nextVid = st.nextEid + 1 → Ev.vtx vid ∈ L → (W.comp.vertex? vid).isSome →
        AE = L ++ evsFields fields st.nextVid ++ Rest →
        (∀ p ∈ tblFields fields st.nextVid, p ∈ tbl) → (∀ p ∈ ftblFields fields st.nextVid, p ∈ ftbl) →
        HV W T path acc.verts → (∀ f ∈ acc.folds, f ∈ W.comp.folds) → (∀ e ∈ st'.tags, e ∈ T) →
        ∃ ss, FieldsCert W fields vid L ss (evsFields fields st.nextVid) ∧
          RunFacts W vid fields acc ss (evsFields fields st.nextVid) st.nextEid st'.nextEid) := by
  apply fill_induct S
    (P1 := fun path vid pre node st acc st' =>
      ∀ (W : World) (L Rest AE : List Ev), EnvOK H W → TablesOK W tbl ftbl →
        (∀ t r, W.NR t r ↔ ∃ e ∈ T, e.name = t ∧ e.field = r) → CompOK W AE → (W.lim = false ∨ noFold node = true) → hyps3Node H pre node = true → (treeOutputNames node).Nodup →
        st.nextVid = st.nextEid + 1 → AE = L ++ evsNode node vid st.nextVid ++ Rest →
        (∀ p ∈ tblNode node vid st.nextVid, p ∈ tbl) → (∀ p ∈ ftblNode node st.nextVid, p ∈ ftbl) →
        HV W T path acc.verts → (∀ f ∈ acc.folds, f ∈ W.comp.folds) → (∀ e ∈ st'.tags, e ∈ T) →
        ∃ ss, NodeCert W node vid L ss (evsNode node vid st.nextVid) ∧
          RunFacts W vid (nodeFields node) acc ss (evsFields (nodeFields node) st.nextVid)
            st.nextEid st'.nextEid)
    (P2 := fun path vid ty fields st acc st' =>
      ∀ (W : World) (L Rest AE : List Ev), EnvOK H W → TablesOK W tbl ftbl →
        (∀ t r, W.NR t r ↔ ∃ e ∈ T, e.name = t ∧ e.field = r) → CompOK W AE → (W.lim = false ∨ noFoldFields fields = true) → hyps3Fields H ty fields = true → (fieldsOutputNames fields).Nodup →
        st.nextVid = st.nextEid + 1 → Ev.vtx vid ∈ L → (W.comp.vertex? vid).isSome →
        AE = L ++ evsFields fields st.nextVid ++ Rest →
        (∀ p ∈ tblFields fields st.nextVid, p ∈ tbl) → (∀ p ∈ ftblFields fields st.nextVid, p ∈ ftbl) →
        HV W T path acc.verts → (∀ f ∈ acc.folds, f ∈ W.comp.folds) → (∀ e ∈ st'.tags, e ∈ T) →
        ∃ ss, FieldsCert W fields vid L ss (evsFields fields st.nextVid) ∧
          RunFacts W vid fields acc ss (evsFields fields st.nextVid) st.nextEid st'.nextEid)
  · -- node
    intro path vid pre ct fields st post acc1 st' hco hfill ih W L Rest AE he htab hnr hc hlim hh hon h0
      hA htbl hftbl hv hf hTs
    simp only [hyps3Node, hS, hco, Bool.and_eq_true] at hh
    obtain ⟨⟨hord, hvar⟩, hfields⟩ := hh
    obtain ⟨fs, ev, stX, stY, hTX, hres, hV⟩ :=
      hv ⟨vid, post, ct.map fun _ => pre, nodeFilters S post fields⟩ (by simp)
    simp only at hres hV
    have hA' : AE = L ++ Ev.vtx vid :: (evsFields fields st.nextVid ++ Rest) := by
      rw [hA]; simp [evsNode]
    have hs := hc.sorted
    rw [hA'] at hs
    have hfresh : Ev.vtx vid ∉ L := vtx_not_mem_prefix hs
    have hpt : pendingTriples (nodeFilters S post fields) = specFilters fields := by
      simpa [filtersInOrder] using hord
    have hVmem : (⟨vid, post, ct.map fun _ => pre, fs⟩ : IRVertex) ∈ W.comp.vertices :=
      List.mem_of_find?_eq_some hV
    have htok := wfTagsC_vertex hc.wft hVmem
    have hNR : ∀ e ∈ T, W.NR e.name e.field := fun e he' => (hnr _ _).2 ⟨e, he', rfl, rfl⟩
    have hF2 := resolveFilters_ArgOK H W he hT htab hc hA' (cur := .vtx vid) (useVid := vid) rfl hres
      hTX hNR (fun flt hflt r hr => tagsOkAt_tag htok hflt hr) (by rw [hpt]; exact hvar)
    have hFOK : Forall2 (FilterOK W (TRefAt W vid L)) (specFilters fields) fs := by
      rw [← hpt]
      apply Forall2.of_map (g := fun pf : PendingFilter => (leftName pf.left, pf.op, pf.arg))
      refine hF2.mono_mem ?_
      intro pf hpf f ⟨hl, ha⟩
      obtain ⟨ty, hty⟩ := nodeFilters_left S post fields pf hpf
      exact ⟨⟨ty, by rw [hl]; exact hty⟩, ha.mono fun t r hr => refOK_vertex hfresh hr⟩
    obtain ⟨ss, hcert, hrf⟩ := ih W (L ++ [.vtx vid]) Rest AE he htab hnr hc
      (by simpa [noFold] using hlim) hfields
      (by simpa [treeOutputNames] using hon) h0 (by simp)
      (by rw [hV]; rfl) (by rw [hA']; simp)
      (fun p hp => htbl p (by simp [tblNode, hp])) (fun p hp => hftbl p (by simpa [ftblNode] using hp))
      (fun r hr => hv r (by simp [hr])) (fun f hf' => hf f (by simpa using hf')) hTs
    refine ⟨ss, ?_, ?_⟩
    · unfold NodeCert
      refine ⟨_, evsFields fields st.nextVid, rfl, hV, rfl, ?_, hFOK,
        (htab.tg vid fields (htbl _ (by simp [tblNode]))).1,
        (htab.tg vid fields (htbl _ (by simp [tblNode]))).2, hcert⟩
      cases ct with
      | none => simp [CoerceOK]
      | some c => exact ⟨⟨pre, rfl⟩, coerce_some hco⟩
    · exact ⟨by simpa using hrf.edges, by simpa using hrf.folds, hrf.evsEq, hrf.sortedE, hrf.bounds,
        fun f hf' => hrf.keysOK f (by simpa using hf'), by simpa [nodeFields] using hrf.outsP⟩
  · -- nil
    intro path vid ty st W L Rest AE _ _ _ _ _ _ _ _ _ _ _ _ _ _ _ _
    refine ⟨[], ?_, ?_⟩
    · unfold FieldsCert; exact ⟨rfl, rfl⟩
    · exact ⟨rfl, rfl, rfl, by simp, by simp, by simp, by simp [outPairs, evsFields, outTriples]⟩
  · -- prop
    intro path vid ty n dirs rest st pty st1 acc1 st' _ h2 _ ih W L Rest AE he htab hnr hc hlim hh hon h0
      hvL hvS hA htbl hftbl hv hf hTs
    obtain ⟨e1, e2, _, _⟩ := registerTags_inv h2
    obtain ⟨ss, hcert, hrf⟩ := ih W L Rest AE he htab hnr hc (by simpa [noFoldFields] using hlim)
      (by simpa [hyps3Fields] using hh)
      (by
        have := outputDirs_names vid n pty dirs rest
        rw [← this] at hon
        exact (List.nodup_append.1 hon).2.1)
      (by rw [e1, e2]; exact h0) hvL hvS (by simpa [evsFields, e1] using hA)
      (fun p hp => htbl p (by simpa [tblFields, e1] using hp))
      (fun p hp => hftbl p (by simpa [ftblFields, e1] using hp))
      (fun r hr => hv r (by simpa using hr)) (fun f hf' => hf f (by simpa using hf')) hTs
    rw [e1] at hcert
    rw [e1, e2] at hrf
    refine ⟨ss, ?_, ?_⟩
    · unfold FieldsCert; simpa [evsFields] using hcert
    · refine ⟨by simpa using hrf.edges, by simpa using hrf.folds, by simpa [evsFields] using hrf.evsEq,
        hrf.sortedE, hrf.bounds, fun f hf' => hrf.keysOK f (by simpa using hf'), ?_⟩
      simp only [Acc.append_outs, List.map_append, outputDirs_triples, outPairs, evsFields,
        List.append_assoc]
      exact List.Perm.append_left _ hrf.outsP
  · -- fold
    intro path vid ty n params fds child rest st ed ps accIn st2 comp evs st3 post evPost st4 st5 accR
      st' h1 h2 h3 h4 h5 h6 h7 ihC ihR W L Rest AE he htab hnr hc hlim hh hon h0 hvL hvS hA htbl hftbl hv
      hf hTs
    have hWlim : W.lim = false := by
      rcases hlim with h | h
      · exact h
      · simp [noFoldFields] at h
    simp only [hyps3Fields, hS, h1, h2, Bool.and_eq_true] at hh
    obtain ⟨⟨⟨hpar, _⟩, hvars, hchild⟩, hrest⟩ := hh
    have b1 : st.bump.nextVid = st.nextVid + 1 := rfl
    have b2 : st.bump.nextEid = st.nextEid + 1 := rfl
    have hs := (size_fill S).1 _ _ _ _ _ _ _ h3
    rw [b1] at hs
    have kC := (keys_fill3 S).1 _ _ _ _ _ _ _ h3 (by rw [b1, b2, h0])
    rw [b1] at kC
    have cC := (counted S).1 _ _ _ _ _ _ _ h3
    rw [b2] at cC
    obtain ⟨vs, ev', hmk, hcomp, _⟩ := finishComponent_inv h4
    obtain ⟨_, _, hcore⟩ := allVids_finish h4
    have c34 := resolveFilters_core h5
    obtain ⟨hv5, he5, _, ht5⟩ := registerTags_inv h6
    have hn5 : st5.nextVid = st.nextVid + 1 + size child := by rw [hv5, ← c34.1, ← hcore.1, hs]
    have hne5 : st5.nextEid = st2.nextEid := by rw [he5, ← c34.2.1, ← hcore.2.1]
    have h05 : st5.nextVid = st5.nextEid + 1 := by rw [hn5, hne5, ← hs]; exact kC.sync
    have cR := (counted S).2 _ _ _ _ _ _ _ h7
    rw [hne5] at cR
    have hveid : st.nextVid - 1 = st.nextEid := by simp only [Vid, Eid] at *; omega
    have hev : evsFields (.edge n params (.fold fds) child :: rest) st.nextVid =
        Ev.fold st.nextEid :: evsFields rest (st.nextVid + 1 + size child) := by
      simp [evsFields, hveid]
    have hft : ftblFields (.edge n params (.fold fds) child :: rest) st.nextVid =
        (st.nextEid, fds, child) :: (ftblNode child (st.nextVid + 1) ++
          ftblFields rest (st.nextVid + 1 + size child)) := by
      simp [ftblFields, hveid]
    have hfon : fieldsOutputNames (.edge n params (.fold fds) child :: rest) =
        countOutputNames fds ++ treeOutputNames child ++ fieldsOutputNames rest := rfl
    rw [hfon, countOutputNames_eq] at hon
    rw [hev] at hA
    -- tags known so far are in the table
    have hT5 : ∀ e ∈ st5.tags, e ∈ T := fun e he' => hTs e ((tags_mono S).2 _ _ _ _ _ _ _ h7 e he')
    have hT4 : ∀ e ∈ st4.tags, e ∈ T := fun e he' => hT5 e (by rw [ht5]; exact List.mem_append_left _ he')
    have hT3 : ∀ e ∈ st3.tags, e ∈ T := fun e he' => hT4 e (by rw [← c34.2.2]; exact he')
    have hT2 : ∀ e ∈ st2.tags, e ∈ T := fun e he' => hT3 e (by rw [← hcore.2.2]; exact he')
    -- the fold
    obtain ⟨F, hF⟩ : ∃ F, F = mkFold path vid st n ps comp evs fds post := ⟨_, rfl⟩
    have hFeid : F.eid = st.nextEid := by rw [hF]; rfl
    have hFto : F.toVid = st.nextVid := by rw [hF]; rfl
    have hFcomp : F.component = comp := by rw [hF]; rfl
    have hFpost : F.post = post := by rw [hF]; rfl
    have hFfouts : F.fouts = countOutputs fds := by rw [hF]; rfl
    have hFmem : F ∈ W.comp.folds := hf F (by rw [hF]; simp)
    obtain ⟨himpNd, himpFresh, himpIn⟩ := importsOKF_mem (importsOKC_folds hc.impok) hFmem
    have hwfF := wfTagsC_fold hc.wft hFmem
    have hNR : ∀ e ∈ T, W.NR e.name e.field := fun e he' => (hnr _ _).2 ⟨e, he', rfl, rfl⟩
    obtain ⟨hfkF, hfkIn⟩ := FKAllF_mem hc.fk hFmem
    have hWi : (W.inner F).comp = comp := hFcomp
    have hcv : comp.vertices = vs := by rw [hcomp]; rfl
    have hce : comp.edges = accIn.edges := by rw [hcomp]; rfl
    have hcf : comp.folds = accIn.folds := by rw [hcomp]; rfl
    have hco : comp.outputs = sortOutputs accIn.outs := by rw [hcomp]; rfl
    have hcr : comp.root = st.nextVid := by rw [hcomp]; rfl
    have hsortedIn := evsNode_sorted child st.nextVid (st.nextVid + 1) (by simp only [Vid] at *; omega)
    have hndIn : (evsNode child st.nextVid (st.nextVid + 1)).Nodup := nodup_of_sorted_evVid hsortedIn
    have vsk : vs.map (·.vid) = vtxs (evsNode child st.nextVid (st.nextVid + 1)) := by
      rw [(makeVertices_inv hmk).2]; exact kC.verts
    have hndv : (vs.map (·.vid)).Nodup := by rw [vsk]; exact vtxs_nodup hndIn
    have hvIn : ∀ w, ((W.inner F).comp.vertex? w).isSome →
        Ev.vtx w ∈ evsNode child st.nextVid (st.nextVid + 1) := by
      intro w hw
      rw [hWi] at hw
      obtain ⟨V, hV⟩ := Option.isSome_iff_exists.1 hw
      have hVm : V ∈ vs := by rw [← hcv]; exact List.mem_of_find?_eq_some hV
      have hVv : V.vid = w := by
        have := List.find?_some hV; simpa using this
      apply mem_vtxs.1
      rw [← vsk, ← hVv]
      exact List.mem_map.2 ⟨V, hVm, rfl⟩
    have hcIn : CompOK (W.inner F) (evsNode child st.nextVid (st.nextVid + 1)) := by
      refine ⟨by rw [hWi, ← hFcomp]; exact hwfF.2,
        by rw [hWi, ← hFcomp]; simpa [World.inner, List.map_append] using himpIn,
        hsortedIn, hvIn, ?_, by rw [hWi, ← hFcomp]; exact hfkIn⟩
      intro f' hf'
      rw [hWi, hcf] at hf'
      refine ⟨?_, kC.foldTo f' hf'⟩
      apply mem_flds.1
      rw [← kC.folds]
      exact List.mem_map.2 ⟨f', hf', rfl⟩
    have hvInHV : HV (W.inner F) T (path ++ [st.nextVid]) accIn.verts := by
      intro r' hr'
      obtain ⟨fs', ev'', stX, stY, hTX, hres, hmem⟩ := makeVertices_mem hmk r' hr'
      refine ⟨fs', ev'', stX, stY, fun e he' => hT2 e (by rw [← hTX]; exact he'), hres, ?_⟩
      rw [hWi]
      show comp.vertices.find? _ = _
      rw [hcv]
      exact find?_vertex_of_mem (V := ⟨r'.vid, r'.typeName, r'.coercedFrom, fs'⟩) hndv hmem
    have htabIn : TablesOK (W.inner F) tbl ftbl := ⟨htab.tg, htab.ft⟩
    obtain ⟨ssIn, hcertIn, hrfIn⟩ := ihC (W.inner F) [] [] _ ⟨he.d, he.a, he.e⟩ htabIn hnr hcIn
      (Or.inl hWlim) hchild
      (List.nodup_append.1 (List.nodup_append.1 hon).1).2.1 (by rw [b1, b2, h0]) (by rw [b1]; simp)
      (fun p hp => htbl p (by
        simp only [tblFields, List.mem_append]; exact Or.inl (by simpa [b1] using hp)))
      (fun p hp => hftbl p (by
        rw [hft]; exact List.mem_cons_of_mem _ (List.mem_append_left _ (by simpa [b1] using hp))))
      hvInHV (fun f' hf' => by rw [hWi, hcf]; exact hf') hT2
    rw [b1, b2] at hrfIn
    rw [b1] at hcertIn
    have hevC : evsNode child st.nextVid (st.nextVid + 1) =
        Ev.vtx st.nextVid :: evsFields (nodeFields child) (st.nextVid + 1) := by
      cases child; rfl
    -- the table entries of the fold
    have hftE := htab.ft st.nextEid fds child (hftbl _ (by rw [hft]; exact List.mem_cons_self ..))
    have hOGv : W.OG st.nextVid = outPairs (nodeFields child) := by
      have := htbl (st.nextVid, nodeFields child) (by
        simp only [tblFields, List.mem_append]; left; cases child; simp [tblNode, nodeFields])
      exact (htab.tg _ _ this).2
    have honIn : (outNamesL (W.inner F) (evsNode child st.nextVid (st.nextVid + 1))).Perm
        (outNames child) :=
      outNamesL_node (W.inner F) tbl ftbl htabIn child st.nextVid (st.nextVid + 1)
        (fun p hp => htbl p (by simp only [tblFields, List.mem_append]; exact Or.inl hp))
        (fun p hp => hftbl p (by
          rw [hft]; exact List.mem_cons_of_mem _ (List.mem_append_left _ hp)))
    have honInNd : (outNamesL (W.inner F) (evsNode child st.nextVid (st.nextVid + 1))).Nodup := by
      refine honIn.nodup_iff.2 ?_
      rw [outNames_eq_tree]
      exact (List.nodup_append.1 (List.nodup_append.1 hon).1).2.1
    -- outputs of the fold's component
    have hInOuts : (accIn.outs.map fun o => (o.name, o.vid, o.field)).Perm
        (outTriples (W.inner F) (vtxs (evsNode child st.nextVid (st.nextVid + 1)))) := by
      rw [hevC, vtxs_cons_vtx, outTriples_cons]
      have : (W.inner F).OG st.nextVid = outPairs (nodeFields child) := hOGv
      rw [this]; exact hrfIn.outsP
    have hcoPerm : ((W.inner F).comp.outputs.map fun o => (o.name, o.vid, o.field)).Perm
        (outTriples (W.inner F) (vtxs (evsNode child st.nextVid (st.nextVid + 1)))) := by
      rw [hWi, hco]
      exact ((sortOutputs_perm accIn.outs).map _).trans hInOuts
    have houtsIn : OutsOK (W.inner F) (vtxs (evsNode child st.nextVid (st.nextVid + 1))) := by
      refine ⟨hcoPerm, ?_, ?_⟩
      · have := (hcoPerm.map (·.1)).nodup_iff.2 (outTriples_names_nodup (W.inner F) _ honInNd)
        simpa [Function.comp_def] using this
      · intro o ho
        have hm := hcoPerm.mem_iff.1 (List.mem_map.2 ⟨o, ho, rfl⟩)
        simp only [outTriples, List.mem_flatMap, List.mem_map] at hm
        obtain ⟨w, hw, p, _, hpe⟩ := hm
        simp only [Prod.mk.injEq] at hpe
        have hwv : o.vid ∈ vtxs (evsNode child st.nextVid (st.nextVid + 1)) := by rw [← hpe.2.1]; exact hw
        refine ⟨?_, hwv⟩
        rw [hWi]
        rw [← vsk] at hwv
        obtain ⟨V, hVm, hVv⟩ := List.mem_map.1 hwv
        show (comp.vertices.find? _).isSome
        rw [hcv, List.find?_isSome]
        exact ⟨V, hVm, by simp [hVv]⟩
    have hnestedIn : (flds (evsNode child st.nextVid (st.nextVid + 1))).flatMap W.FK =
        nestedKeys F.component := by
      rw [nestedKeys_eq_flatMap, hFcomp, hcf, ← kC.folds, List.flatMap_map]
      apply flatMap_congr'
      intro f' hf'
      exact (FKAllF_mem hfkIn (by rw [hFcomp, hcf]; exact hf')).1
    have hkeysIn : KeysOK (W.inner F) (evsNode child st.nextVid (st.nextVid + 1)) := by
      intro e' he'
      rw [← kC.folds] at he'
      obtain ⟨f', hf', rfl⟩ := List.mem_map.1 he'
      have := hrfIn.keysOK f' hf'
      have hfk' := (FKAllF_mem hfkIn (by rw [hFcomp, hcf]; exact hf')).1
      show ((W.FK f'.eid).map (·.2)).Perm _
      rw [hfk']; exact this
    -- the fold's own keys
    have hfoutsP : F.fouts.Perm (countOutNames fds) := by
      rw [hFfouts]
      exact countOutputs_perm fds (List.nodup_append.1 (List.nodup_append.1 hon).1).1
    have hkeysF : ((foldKeys F).map (·.2)).Perm (W.CO F.eid ++ W.ON F.eid) := by
      rw [hFeid, hftE.2.1, hftE.2.2.1]
      simp only [foldKeys, List.map_append, List.map_map, Function.comp_def, List.map_id']
      rw [List.append_assoc]
      refine hfoutsP.append ?_
      -- the component's own output names and the nested keys' names: every output name below
      refine List.Perm.trans ?_ honIn
      refine List.Perm.trans ?_ (flatMap_events_perm (evOutNames (W.inner F)) _).symm
      refine List.Perm.append ?_ ?_
      · have := hcoPerm.map (·.1)
        rw [hWi] at this
        simpa [outTriples, List.map_flatMap, evOutNames, Function.comp_def, hFcomp] using this
      · rw [← hnestedIn, List.map_flatMap]
        have : ∀ l : List Eid, (∀ e' ∈ l, ((W.FK e').map (·.2)).Perm (W.CO e' ++ W.ON e')) →
            (l.flatMap fun e' => (W.FK e').map (·.2)).Perm
              (l.flatMap fun e' => evOutNames (W.inner F) (.fold e')) := by
          intro l hl
          induction l with
          | nil => exact List.Perm.refl _
          | cons e' rest' ih' =>
            simp only [List.flatMap_cons]
            exact (hl e' (List.mem_cons_self ..)).append
              (ih' fun e'' he'' => hl e'' (List.mem_cons_of_mem _ he''))
        exact this _ hkeysIn
    -- post-filters
    have hAF : AE = L ++ Ev.fold st.nextEid :: (evsFields rest (st.nextVid + 1 + size child) ++ Rest) := by
      rw [hA]; simp
    have hpostF2 := resolveFilters_ArgOK H W he hT htab hc hAF (cur := .fold st.nextEid)
      (useVid := st.nextVid) (by simp only [evVid]; exact h0.symm) h5 hT3 hNR
      (fun flt hflt r hr => by
        have := hwfF.1
        rw [hFto, hFpost] at this
        exact tagsOkAt_tag this hflt hr)
      (countFilters_vars H fds hvars)
    have hpostOK : Forall2 (fun p flt => ArgOK W (TRefPost W vid L F.eid) p.1 p.2 flt)
        (countFilterPairs fds) F.post := by
      rw [hFpost, hFeid]
      rw [countFilters_eq_map] at hpostF2
      refine (Forall2.unmap_left hpostF2).mono ?_
      intro p flt ⟨_, ha⟩
      exact ha.mono fun t r hr => refOK_post hr
    have hmergeIn : mergeStages F.component.edges F.component.folds
        (F.component.edges.length + F.component.folds.length) = .ok ssIn := by
      rw [hFcomp, hce, hcf, ← hrfIn.edges, ← hrfIn.folds]
      exact mergeStages_of_sorted ssIn _ hrfIn.sortedE (by rw [length_filterMap_split]; exact Nat.le_refl _)
    have hitIn : (deepTagNames (W.inner F) (evsNode child st.nextVid (st.nextVid + 1))).Perm
        (W.IT F.eid) := by
      rw [hFeid, hftE.2.2.2,
        deepTagNames_node (W.inner F) tbl ftbl htabIn child st.nextVid (st.nextVid + 1)
          (fun p hp => htbl p (by simp only [tblFields, List.mem_append]; exact Or.inl hp))
          (fun p hp => hftbl p (by
            rw [hft]; exact List.mem_cons_of_mem _ (List.mem_append_left _ hp)))]
    have himpLocal : ∀ r ∈ F.imports, Importable W L r ∧ NRLocal W r := by
      intro r hr
      obtain ⟨hdef, hle⟩ := wfTagsC_imports hc.wft hFmem r hr
      have hs' := hc.sorted
      rw [hAF] at hs'
      rw [hFto] at hle
      refine ⟨?_, ?_⟩
      · cases r with
        | ctx w fld ty =>
          have hsome : (W.comp.vertex? w).isSome := vertex?_of_mem_vids (by simpa [definedIn] using hdef)
          have hwA : Ev.vtx w ∈ L ++ Ev.fold st.nextEid :: (evsFields rest (st.nextVid + 1 + size child) ++ Rest) := by
            rw [← hAF]; exact hc.vmem w hsome
          rcases mem_prefix_of_sorted_ev hs' hwA (by
            simp only [evVid, definedAt] at hle ⊢; rw [← h0]; exact hle) with h | h
          · cases h
          · exact ⟨h, hsome⟩
        | fcount e root =>
          simp only [definedIn, List.any_eq_true, Bool.and_eq_true, beq_iff_eq] at hdef
          obtain ⟨g, hg, hge, hgt⟩ := hdef
          obtain ⟨hgA, hgto⟩ := hc.fmem g hg
          rw [hge] at hgA hgto
          rcases mem_prefix_of_sorted_ev hs' (by rw [← hAF]; exact hgA) (by
            simp only [evVid, definedAt] at hle ⊢; rw [← hgto, hgt, ← h0]; exact hle) with h | h
          · exfalso
            have : e = st.nextEid := by simpa using h
            have := (himpFresh _ hr).2
            simp only [FieldRef.key, hFeid] at this
            exact this (by rw [‹e = st.nextEid›])
          · exact h
      · intro t hnrt
        obtain ⟨e', he'T, hn', hf'⟩ := (hnr t r).1 hnrt
        rcases hT e' he'T with ⟨w, fld, ty, fs, hfield, htblm, hpair⟩ |
          ⟨eid', root', fds', child', hfield, _, hftm, hct⟩
        · rw [hf'] at hfield
          subst hfield
          simp only
          rw [(htab.tg w fs htblm).1, ← hn']; exact hpair
        · rw [hf'] at hfield
          subst hfield
          simp only
          rw [(htab.ft eid' fds' child' hftm).1, ← hn']; exact hct
    have facts : FoldFacts W n params fds child vid L F ssIn
        (evsNode child st.nextVid (st.nextVid + 1)) :=
      { lim := hWlim
        from_ := by rw [hF]; rfl
        fromV := hvS
        inComp := by rw [List.any_eq_true]; exact ⟨F, hFmem, by simp⟩
        name := by rw [hF]; rfl
        params := by
          have : F.params = ps := by rw [hF]; rfl
          rw [this]; exact paramsAgreeB_sound H W he.d he.a he.e n params ps hpar
        impLocal := himpLocal
        impNodup := himpNd
        impFresh := fun r hr => (himpFresh r hr).1
        ct := by rw [hFeid]; exact hftE.1
        co := by rw [hFeid]; exact hftE.2.1
        on := by rw [hFeid]; exact hftE.2.2.1
        fk := hfkF
        fouts := hfoutsP
        post := hpostOK
        root := by rw [hFcomp, hcr, hFto]
        merge := hmergeIn
        outs := houtsIn
        nested := hnestedIn
        onPerm := honIn
        itPerm := hitIn
        keysIn := hkeysIn
        toVid := by rw [hFto, hFeid]; exact h0
        ndIn := nodup_of_sorted hsortedIn }
    -- the remaining selections
    obtain ⟨ssR, hcertR, hrfR⟩ := ihR W (L ++ [.fold st.nextEid]) Rest AE he htab hnr hc (Or.inl hWlim)
      hrest
      (List.nodup_append.1 hon).2.1 h05 (List.mem_append_left _ hvL) hvS
      (by rw [hA, hn5]; simp)
      (fun p hp => htbl p (by
        simp only [tblFields, List.mem_append]; exact Or.inr (by simpa [hn5] using hp)))
      (fun p hp => hftbl p (by
        rw [hft]; exact List.mem_cons_of_mem _ (List.mem_append_right _ (by simpa [hn5] using hp))))
      (fun r' hr => hv r' (by simpa using hr)) (fun f hf' => hf f (by simp [hf'])) hTs
    rw [hn5] at hrfR hcertR
    rw [hne5] at hrfR
    refine ⟨.fold F :: ssR, ?_, ?_⟩
    · unfold FieldsCert
      simp only
      refine ⟨F, ssR, evsFields rest (st.nextVid + 1 + size child), ssIn,
        evsNode child st.nextVid (st.nextVid + 1), rfl, by rw [hev, hFeid], facts, ?_, ?_⟩
      · rw [hFto]; exact hcertIn
      · rw [hFeid]; exact hcertR
    · have hb1 := cC.emono
      have hb2 := cR.emono
      refine ⟨?_, ?_, ?_, ?_, ?_, ?_, ?_⟩
      · simp only [List.filterMap_cons, stEdge?, hrfR.edges]
        simp
      · simp only [List.filterMap_cons, stFold?, hrfR.folds, hF]
        simp
      · rw [hev, hrfR.evsEq]; simp [evOf, hFeid]
      · simp only [List.map_cons, stEid, hFeid]
        refine List.pairwise_cons.2 ⟨?_, hrfR.sortedE⟩
        intro x hx
        obtain ⟨s', hs', rfl⟩ := List.mem_map.1 hx
        have := (hrfR.bounds s' hs').1; simp only [Eid] at *; omega
      · intro s' hs'
        rcases List.mem_cons.1 hs' with rfl | hs'
        · simp only [stEid, hFeid, Eid] at *; omega
        · have := hrfR.bounds s' hs'; simp only [Eid] at *; omega
      · intro f hf'
        simp only [Acc.append_folds, List.mem_append, List.mem_singleton] at hf'
        rcases hf' with hf' | hf'
        · rw [hf', ← hF]; exact hkeysF
        · exact hrfR.keysOK f hf'
      · simp only [Acc.append_outs, List.nil_append, outPairs, hev, vtxs_cons_fold]
        exact hrfR.outsP
  · -- plain / optional / recursive edge
    intro path vid ty n params kind child rest st ed ps r accC st2 accR st' hk h1 h2 h3 h4 h5 ihC ihR
      W L Rest AE he htab hnr hc hlim hh hon h0 hvL hvS hA htbl hftbl hv hf hTs
    simp only [hyps3Fields, hS, h1, h2, Bool.and_eq_true] at hh
    obtain ⟨⟨⟨hpar, hrecok⟩, hchild0⟩, hrest⟩ := hh
    have hlimC : W.lim = false ∨ noFold child = true := by
      rcases hlim with h | h
      · exact Or.inl h
      · simp only [noFoldFields, Bool.and_eq_true] at h; exact Or.inr h.1.2
    have hlimR : W.lim = false ∨ noFoldFields rest = true := by
      rcases hlim with h | h
      · exact Or.inl h
      · simp only [noFoldFields, Bool.and_eq_true] at h; exact Or.inr h.2
    have hchild : hyps3Node H ed.target child = true := by
      cases kind with
      | fold fds => exact absurd rfl (hk fds)
      | plain => simpa using hchild0
      | optional => simpa using hchild0
      | recurse d => simpa using hchild0
    have b1 : st.bump.nextVid = st.nextVid + 1 := rfl
    have b2 : st.bump.nextEid = st.nextEid + 1 := rfl
    have hs := (size_fill S).1 _ _ _ _ _ _ _ h4
    rw [b1] at hs
    have kC := (keys_fill3 S).1 _ _ _ _ _ _ _ h4 (by rw [b1, b2, h0])
    have cC := (counted S).1 _ _ _ _ _ _ _ h4
    have cR := (counted S).2 _ _ _ _ _ _ _ h5
    rw [b2] at cC
    have hev : evsFields (.edge n params kind child :: rest) st.nextVid =
        evsNode child st.nextVid (st.nextVid + 1) ++ evsFields rest (st.nextVid + 1 + size child) := by
      cases kind with
      | fold fds => exact absurd rfl (hk fds)
      | plain => rfl
      | optional => rfl
      | recurse d => rfl
    have hft : ftblFields (.edge n params kind child :: rest) st.nextVid =
        ftblNode child (st.nextVid + 1) ++ ftblFields rest (st.nextVid + 1 + size child) := by
      cases kind with
      | fold fds => exact absurd rfl (hk fds)
      | plain => rfl
      | optional => rfl
      | recurse d => rfl
    have hfon : fieldsOutputNames (.edge n params kind child :: rest) =
        treeOutputNames child ++ fieldsOutputNames rest := by
      cases kind with
      | fold fds => exact absurd rfl (hk fds)
      | plain => rfl
      | optional => rfl
      | recurse d => rfl
    rw [hfon] at hon
    rw [hev] at hA
    obtain ⟨ssC, hcertC, hrfC⟩ := ihC W L
      (evsFields rest (st.nextVid + 1 + size child) ++ Rest) AE he htab hnr hc hlimC hchild
      (List.nodup_append.1 hon).1 (by rw [b1, b2, h0]) (by rw [hA, b1]; simp)
      (fun p hp => htbl p (by simp only [tblFields, List.mem_append]; exact Or.inl (by simpa [b1] using hp)))
      (fun p hp => hftbl p (by rw [hft]; exact List.mem_append_left _ (by simpa [b1] using hp)))
      (fun r' hr => hv r' (by simp [hr])) (fun f hf' => hf f (by simp [hf']))
      (fun e' he' => hTs e' ((tags_mono S).2 _ _ _ _ _ _ _ h5 e' he'))
    rw [b1, b2] at hrfC
    rw [b1] at hcertC
    obtain ⟨ssR, hcertR, hrfR⟩ := ihR W (L ++ evsNode child st.nextVid (st.nextVid + 1)) Rest AE
      he htab hnr hc hlimR hrest (List.nodup_append.1 hon).2.1 kC.sync (List.mem_append_left _ hvL) hvS
      (by rw [hA, hs]; simp)
      (fun p hp => htbl p (by
        simp only [tblFields, List.mem_append]; exact Or.inr (by simpa [hs, Nat.add_assoc] using hp)))
      (fun p hp => hftbl p (by rw [hft]; exact List.mem_append_right _ (by simpa [hs, Nat.add_assoc] using hp)))
      (fun r' hr => hv r' (by simp [hr])) (fun f hf' => hf f (by simp [hf'])) hTs
    rw [hs] at hrfR hcertR
    have hevC : evsNode child st.nextVid (st.nextVid + 1) =
        Ev.vtx st.nextVid :: evsFields (nodeFields child) (st.nextVid + 1) := by
      cases child; rfl
    refine ⟨.edge ⟨st.nextEid, vid, st.nextVid, n, ps, isOptionalKind kind, r⟩ :: (ssC ++ ssR), ?_, ?_⟩
    · have hcore : ∃ e ssC' ssR' evsC evsR,
          Stage.edge ⟨st.nextEid, vid, st.nextVid, n, ps, isOptionalKind kind, r⟩ :: (ssC ++ ssR) =
            .edge e :: (ssC' ++ ssR') ∧
          evsFields (.edge n params kind child :: rest) st.nextVid = evsC ++ evsR ∧
          e.fromVid = vid ∧ (W.comp.vertex? vid).isSome ∧ e.name = n ∧ EdgeKindOK W n params kind e ∧
          ParamsAgree W n params e.params ∧
          NodeCert W child e.toVid L ssC' evsC ∧
          FieldsCert W rest vid (L ++ evsC) ssR' evsR :=
        ⟨_, ssC, ssR, _, _, rfl, hev, rfl, hvS, rfl,
          kindIn3_edgeKindOK S H hS W he hk h3 _ _ _ n params ps hrecok,
          paramsAgreeB_sound H W he.d he.a he.e n params ps hpar, hcertC, hcertR⟩
      unfold FieldsCert
      cases kind with
      | fold fds => exact absurd rfl (hk fds)
      | plain => exact hcore
      | optional => exact hcore
      | recurse d => exact hcore
    · have hb1 := cC.emono
      have hb2 := cR.emono
      refine ⟨?_, ?_, ?_, ?_, ?_, ?_, ?_⟩
      · simp [List.filterMap_cons, stEdge?, List.filterMap_append, hrfC.edges, hrfR.edges]
      · simp [List.filterMap_cons, stFold?, List.filterMap_append, hrfC.folds, hrfR.folds]
      · rw [hev, hevC, hrfC.evsEq, hrfR.evsEq]
        simp [evOf]
      · simp only [List.map_cons, List.map_append, stEid]
        refine List.pairwise_cons.2 ⟨?_, ?_⟩
        · intro x hx
          rcases List.mem_append.1 hx with hx | hx
          · obtain ⟨s', hs', rfl⟩ := List.mem_map.1 hx
            have := (hrfC.bounds s' hs').1; simp only [Eid] at *; omega
          · obtain ⟨s', hs', rfl⟩ := List.mem_map.1 hx
            have := (hrfR.bounds s' hs').1; simp only [Eid] at *; omega
        · refine List.pairwise_append.2 ⟨hrfC.sortedE, hrfR.sortedE, ?_⟩
          intro a ha b hb
          obtain ⟨s1, hs1, rfl⟩ := List.mem_map.1 ha
          obtain ⟨s2, hs2, rfl⟩ := List.mem_map.1 hb
          have := (hrfC.bounds s1 hs1).2; have := (hrfR.bounds s2 hs2).1
          simp only [Eid] at *; omega
      · intro s' hs'
        rcases List.mem_cons.1 hs' with rfl | hs'
        · simp only [stEid, Eid] at *; omega
        · rcases List.mem_append.1 hs' with hs' | hs'
          · have := hrfC.bounds s' hs'; simp only [Eid] at *; omega
          · have := hrfR.bounds s' hs'; simp only [Eid] at *; omega
      · intro f hf'
        simp only [Acc.append_folds, List.mem_append] at hf'
        rcases hf' with (hf' | hf') | hf'
        · cases hf'
        · exact hrfC.keysOK f hf'
        · exact hrfR.keysOK f hf'
      · have hOG : W.OG st.nextVid = outPairs (nodeFields child) := by
          have := htbl (st.nextVid, nodeFields child) (by
            simp only [tblFields, List.mem_append]; left; cases child; simp [tblNode, nodeFields])
          exact (htab.tg _ _ this).2
        have hC' : (accC.outs.map fun o => (o.name, o.vid, o.field)).Perm
            (outTriples W (vtxs (evsNode child st.nextVid (st.nextVid + 1)))) := by
          rw [hevC, vtxs_cons_vtx, outTriples_cons, hOG]; exact hrfC.outsP
        simp only [Acc.append_outs, List.nil_append, List.map_append, outPairs, hev, vtxs_append,
          outTriples_append]
        exact perm_swap_middle hC' hrfR.outsP
end

end TF.InterpSpec
