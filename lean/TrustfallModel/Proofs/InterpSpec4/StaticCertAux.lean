/-
C01 main theorem, static part (with folds): small lemmas used by the certificate construction.
-/
import TrustfallModel.Proofs.InterpSpec4.StaticAux

namespace TF.InterpSpec
open TF TF.Engine TF.Spec TF.Frontend

/-- Tags are only ever added. -/
theorem tags_mono (S : SchemaView) :
    (∀ path vid pre node st acc st', fillNode S path vid pre node st = .ok (acc, st') →
      ∀ e ∈ st.tags, e ∈ st'.tags) ∧
    (∀ path vid ty fields st acc st', fillFields S path vid ty fields st = .ok (acc, st') →
      ∀ e ∈ st.tags, e ∈ st'.tags) := by
  apply fill_induct S
    (P1 := fun _ _ _ _ st _ st' => ∀ e ∈ st.tags, e ∈ st'.tags)
    (P2 := fun _ _ _ _ st _ st' => ∀ e ∈ st.tags, e ∈ st'.tags)
  · intro path vid pre ct fields st post acc1 st' _ _ ih; exact ih
  · intro path vid ty st e he; exact he
  · intro path vid ty n dirs rest st pty st1 acc1 st' _ h2 _ ih e he
    obtain ⟨_, _, _, ht⟩ := registerTags_inv h2
    exact ih e (by rw [ht]; exact List.mem_append_left _ he)
  · intro path vid ty n params fds child rest st ed ps accIn st2 comp evs st3 post evPost st4 st5
      accR st' _ _ _ h4 h5 h6 _ ihC ihR e he
    obtain ⟨_, _, hcore⟩ := allVids_finish h4
    have c34 := resolveFilters_core h5
    obtain ⟨_, _, _, ht⟩ := registerTags_inv h6
    apply ihR
    rw [ht, ← c34.2.2, ← hcore.2.2]
    exact List.mem_append_left _ (ihC e he)
  · intro path vid ty n params kind child rest st ed ps r accC st2 accR st' _ _ _ _ _ _ ihC ihR e he
    exact ihR e (ihC e he)

theorem insertName_perm (n : Name) (l : List Name) (h : n ∉ l) : (insertName n l).Perm (n :: l) := by
  induction l with
  | nil => exact List.Perm.refl _
  | cons x xs ih =>
    simp only [insertName]
    have hne : n ≠ x := fun he => h (he ▸ List.mem_cons_self ..)
    split
    · exact List.Perm.refl _
    · have : (n == x) = false := by simpa using hne
      simp only [this, Bool.false_eq_true, if_false]
      exact (List.Perm.cons x (ih fun hm => h (List.mem_cons_of_mem _ hm))).trans
        (List.Perm.swap n x xs)

theorem countOutputs_perm (fds : List FDir) (h : (countOutNames fds).Nodup) :
    (countOutputs fds).Perm (countOutNames fds) := by
  induction fds with
  | nil => exact List.Perm.refl _
  | cons d rest ih =>
    cases d with
    | countOutput o =>
      simp only [countOutNames, List.nodup_cons] at h
      simp only [countOutputs, countOutNames]
      have ih' := ih h.2
      exact (insertName_perm o _ (fun hm => h.1 (ih'.mem_iff.1 hm))).trans (List.Perm.cons o ih')
    | countTag t => simpa [countOutputs, countOutNames] using ih (by simpa [countOutNames] using h)
    | countFilter op arg =>
      simpa [countOutputs, countOutNames] using ih (by simpa [countOutNames] using h)

def nodeFields : QNode → List QField
  | .mk _ fields => fields

/-- `(output name, Vid, property)` of a list of Vids distributes over append. -/
theorem outTriples_append (W : World) (a b : List Vid) :
    outTriples W (a ++ b) = outTriples W a ++ outTriples W b := by
  simp [outTriples]

theorem outTriples_cons (W : World) (w : Vid) (l : List Vid) :
    outTriples W (w :: l) = ((W.OG w).map fun p => (p.1, w, p.2)) ++ outTriples W l := by
  simp [outTriples]

/-- Relations between two lists through a map of the first. -/
theorem Forall2.of_map {α β γ : Type} {r : γ → β → Prop} {g : α → γ} {as : List α} {bs : List β}
    (h : Forall2 (fun a b => r (g a) b) as bs) : Forall2 r (as.map g) bs := by
  induction h with
  | nil => exact .nil
  | cons h _ ih => exact .cons h ih

theorem Forall2.mem_right {α β : Type} {r : α → β → Prop} {as : List α} {bs : List β}
    (h : Forall2 r as bs) {b : β} (hb : b ∈ bs) : ∃ a ∈ as, r a b := by
  induction h with
  | nil => cases hb
  | @cons a b' as' bs' h _ ih =>
    rcases List.mem_cons.1 hb with rfl | hb
    · exact ⟨a, List.mem_cons_self .., h⟩
    · obtain ⟨a', ha', hr⟩ := ih hb
      exact ⟨a', List.mem_cons_of_mem _ ha', hr⟩

theorem countFilters_triples (fds : List FDir) :
    pendingTriples (countFilters fds) = (countFilterPairs fds).map fun p => ("", p.1, p.2) := by
  induction fds with
  | nil => rfl
  | cons d rest ih =>
    cases d <;> simp_all [countFilters, countFilterPairs, pendingTriples, leftName]

theorem countFilters_eq_map (fds : List FDir) :
    countFilters fds = (countFilterPairs fds).map fun p => ⟨.count, countTy, p.1, p.2⟩ := by
  induction fds with
  | nil => rfl
  | cons d rest ih => cases d <;> simp_all [countFilters, countFilterPairs]

theorem resolveFilters_nil_out {path vid st fs ev st'}
    (h : resolveFilters path vid [] st = .ok (fs, ev, st')) : fs = [] := by
  simp [resolveFilters] at h; exact h.1

theorem Forall2.unmap_left {α β γ : Type} {r : γ → β → Prop} {g : α → γ} :
    ∀ {as : List α} {bs : List β}, Forall2 r (as.map g) bs → Forall2 (fun a b => r (g a) b) as bs
  | [], _, h => by cases h; exact .nil
  | a :: as, _, h => by
    cases h with
    | cons h1 h2 => exact .cons h1 (Forall2.unmap_left h2)

theorem nodup_of_sorted_evVid {l : List Ev} (h : (l.map evVid).Pairwise (· < ·)) : l.Nodup := by
  apply nodup_of_map_nodup (f := evVid)
  exact nodup_of_sorted h

theorem countFilters_vars (H : HypEnv) (fds : List FDir)
    (h : (fds.all fun d => match d with
      | .countFilter op arg => varOK H ("", op, arg)
      | _ => true) = true) :
    (pendingTriples (countFilters fds)).all (varOK H) = true := by
  induction fds with
  | nil => rfl
  | cons d rest ih =>
    cases d with
    | countFilter op arg =>
      simp only [List.all_cons, Bool.and_eq_true] at h
      simp only [countFilters, pendingTriples, List.map_cons, List.all_cons, leftName, h.1,
        Bool.true_and]
      exact ih h.2
    | countTag t => simpa [countFilters] using ih (by simpa using h)
    | countOutput o => simpa [countFilters] using ih (by simpa using h)

theorem countFilters_nil_of_none (fds : List FDir)
    (h : (fds.all fun d => match d with | .countFilter _ _ => false | _ => true) = true) :
    countFilters fds = [] := by
  induction fds with
  | nil => rfl
  | cons d rest ih =>
    cases d with
    | countFilter op arg => simp at h
    | countTag t => simpa [countFilters] using ih (by simpa using h)
    | countOutput o => simpa [countFilters] using ih (by simpa using h)

end TF.InterpSpec
