/-
C01 main theorem, static part (with folds): the filters the frontend resolves are the compiled
forms (`ArgOK`) of the specification's filters; tag operands are located through the tag table
`T` (name ↦ field reference), the tree tables, and `wfTagsC` (locality).
-/
import TrustfallModel.Proofs.InterpSpec4.StaticIR

namespace TF.InterpSpec
open TF TF.Engine TF.Spec TF.Frontend

structure EnvOK (H : HypEnv) (W : World) : Prop where
  d : W.D = H.D
  a : W.args = H.args
  e : W.edges = H.edges

/-- Every entry of the tag table comes from a `@tag` of the tree table or from a count tag of the
fold table. -/
def TagsT (T : List TagEntry) (tbl : List (Vid × List QField))
    (ftbl : List (Eid × List FDir × QNode)) : Prop :=
  ∀ e ∈ T,
    (∃ w fld ty fs, e.field = .ctx w fld ty ∧ (w, fs) ∈ tbl ∧ (e.name, fld) ∈ tagPairs fs) ∨
    (∃ eid root fds child, e.field = .fcount eid root ∧ root = eid + 1 ∧ (eid, fds, child) ∈ ftbl ∧
      e.name ∈ countTagNames fds)

/-- Facts about the component `W.comp` with events `AE`. -/
structure CompOK (W : World) (AE : List Ev) : Prop where
  wft : wfTagsC W.chain W.comp = true
  impok : importsOKC (W.chain.map FieldRef.key) W.comp = true
  sorted : (AE.map evVid).Pairwise (· < ·)
  vmem : ∀ w, (W.comp.vertex? w).isSome → Ev.vtx w ∈ AE
  fmem : ∀ f ∈ W.comp.folds, Ev.fold f.eid ∈ AE ∧ f.toVid = f.eid + 1
  fk : FKAllF W.FK W.comp.folds

/-- A reference compiled for a filter evaluated when the events `L` are recorded and `cur` is being
processed. -/
def RefOK (W : World) (L : List Ev) (cur : Ev) (t : Name) (r : FieldRef) : Prop :=
  (∃ w fld ty, r = .ctx w fld ty ∧ (t, fld) ∈ W.TG w ∧ (Ev.vtx w = cur ∨ Ev.vtx w ∈ L) ∧
      (W.comp.vertex? w).isSome) ∨
  (∃ e root, r = .fcount e root ∧ t ∈ W.CT e ∧ (Ev.fold e = cur ∨ Ev.fold e ∈ L) ∧
      W.comp.folds.any (·.eid == e) = true) ∨
  (r ∈ W.chain ∧ W.NR t r ∧ NotLocal W r)

theorem ArgOK.mono {W : World} {T1 T2 : Name → FieldRef → Prop} (h : ∀ t r, T1 t r → T2 t r)
    {op : FOp} {arg : QArg} {f : IRFilter} (ha : ArgOK W T1 op arg f) : ArgOK W T2 op arg f := by
  obtain ⟨h1, h2⟩ := ha
  refine ⟨h1, ?_⟩
  cases op with
  | un o => trivial
  | bin o =>
    cases arg with
    | none => exact h2
    | var m => exact h2
    | tag t =>
      obtain ⟨r, hr, ht⟩ := h2
      exact ⟨r, hr, h t r ht⟩

/-- In `L ++ cur :: R` with strictly increasing `evVid`, an event not after `cur` is `cur` or in `L`. -/
theorem mem_prefix_of_sorted_ev {L R : List Ev} {cur ev : Ev}
    (hs : ((L ++ cur :: R).map evVid).Pairwise (· < ·)) (hm : ev ∈ L ++ cur :: R)
    (hle : evVid ev ≤ evVid cur) : ev = cur ∨ ev ∈ L := by
  rcases List.mem_append.1 hm with h | h
  · exact Or.inr h
  · rcases List.mem_cons.1 h with h | h
    · exact Or.inl h
    · rw [List.map_append, List.map_cons] at hs
      have := (List.pairwise_append.1 hs).2.1
      have := (List.pairwise_cons.1 this).1 (evVid ev) (List.mem_map.2 ⟨ev, h, rfl⟩)
      simp only [Vid] at *
      omega

theorem varOK_sound3 (H : HypEnv) (W : World) (he : EnvOK H W)
    (n : Name) (o : Filter.BinOp) (m : Name) (h : varOK H (n, .bin o, .var m) = true) :
    ∃ val, W.args.find? (·.1 == m) = some (m, val) ∧
      (isRegexOp o = true → ∃ r, Filter.compileStaticRegex W.D.regex val = .ok r) := by
  simp only [varOK] at h
  rw [he.a, he.d]
  cases hf : H.args.find? (·.1 == m) with
  | none => simp [hf] at h
  | some p =>
    obtain ⟨k, val⟩ := p
    have hk : k = m := by
      have := List.find?_some hf
      simpa using this
    subst hk
    refine ⟨val, rfl, ?_⟩
    intro hr
    simp only [hf, hr, Bool.not_true, Bool.false_or] at h
    cases hc : Filter.compileStaticRegex H.D.regex val with
    | ok r => exact ⟨r, rfl⟩
    | panic => simp [hc] at h

/-- One resolved filter (vertex filter or post-filter). -/
theorem resolveFilter_ArgOK (H : HypEnv) (W : World) (he : EnvOK H W)
    {T tbl ftbl} (hT : TagsT T tbl ftbl) (htab : TablesOK W tbl ftbl)
    {AE L R : List Ev} {cur : Ev} (hc : CompOK W AE) (hA : AE = L ++ cur :: R)
    {path : List Vid} {useVid : Vid} (hcur : evVid cur = useVid)
    {pf : PendingFilter} {st st' : St} {f : IRFilter} {ev}
    (h : resolveFilter path useVid pf st = .ok (f, ev, st')) (hsub : ∀ e ∈ st.tags, e ∈ T)
    (hNR : ∀ e ∈ T, W.NR e.name e.field)
    (hloc : ∀ r, f.right = some (.tag r) →
      definedAt r ≤ useVid ∧ (definedIn W.comp.vertices W.comp.folds r = true ∨ r ∈ W.chain))
    (hvar : varOK H (leftName pf.left, pf.op, pf.arg) = true) :
    f.left = pf.left ∧ ArgOK W (RefOK W L cur) pf.op pf.arg f := by
  obtain ⟨left, leftTy, op, arg⟩ := pf
  simp only at hvar ⊢
  cases op with
  | un o =>
    cases arg with
    | none =>
      simp only [resolveFilter, bind_ok, pure_ok] at h
      obtain ⟨_, _, h⟩ := h
      simp only [Prod.mk.injEq] at h
      obtain ⟨rfl, _, _⟩ := h
      exact ⟨rfl, rfl, trivial⟩
    | var m => simp [resolveFilter] at h
    | tag t => simp [resolveFilter] at h
  | bin o =>
    cases arg with
    | none => simp [resolveFilter] at h
    | var m =>
      simp only [resolveFilter, bind_ok, pure_ok] at h
      obtain ⟨vt, _, _, _, h⟩ := h
      simp only [Prod.mk.injEq] at h
      obtain ⟨rfl, _, _⟩ := h
      exact ⟨rfl, rfl, ⟨vt, rfl⟩, varOK_sound3 H W he _ o m hvar⟩
    | tag t =>
      simp only [resolveFilter, bind_ok, pure_ok] at h
      obtain ⟨⟨r, ev1, st1⟩, h1, _, _, h⟩ := h
      simp only [Prod.mk.injEq] at h
      obtain ⟨rfl, _, _⟩ := h
      obtain ⟨e, hfind, _, _, rfl, _, _⟩ := refTag_inv h1
      have hmem : e ∈ T := hsub e (List.mem_of_find?_eq_some hfind)
      have hname : e.name = t := by
        have := List.find?_some hfind
        simpa using this
      obtain ⟨hle, hdef⟩ := hloc e.field rfl
      have hs := hc.sorted
      rw [hA] at hs
      refine ⟨rfl, rfl, e.field, rfl, ?_⟩
      rcases hT e hmem with ⟨w, fld, ty, fs, hfield, htbl, hpair⟩ |
        ⟨eid, root, fds, child, hfield, hroot, hft, hct⟩
      · rw [hfield] at hle hdef ⊢
        by_cases hsome : (W.comp.vertex? w).isSome
        · left
          have hwA : Ev.vtx w ∈ L ++ cur :: R := by rw [← hA]; exact hc.vmem w hsome
          refine ⟨w, fld, ty, rfl, ?_, ?_, hsome⟩
          · rw [(htab.tg w fs htbl).1, ← hname]; exact hpair
          · exact mem_prefix_of_sorted_ev hs hwA (by rw [hcur]; simpa [evVid, definedAt] using hle)
        · right; right
          have hnone : W.comp.vertex? w = none := by simpa using hsome
          refine ⟨?_, ?_, hnone⟩
          · rcases hdef with hd | hd
            · exact absurd (vertex?_of_mem_vids (by simpa [definedIn] using hd)) hsome
            · exact hd
          · have := hNR e hmem
            rw [hname, hfield] at this; exact this
      · rw [hfield] at hle hdef ⊢
        by_cases hany : W.comp.folds.any (·.eid == eid) = true
        · right; left
          rw [List.any_eq_true] at hany
          obtain ⟨g, hg, hge⟩ := hany
          have hge' : g.eid = eid := by simpa using hge
          obtain ⟨hgA, hgto⟩ := hc.fmem g hg
          rw [hge'] at hgA
          refine ⟨eid, root, rfl, ?_, ?_, ?_⟩
          · rw [(htab.ft eid fds child hft).1, ← hname]; exact hct
          · refine mem_prefix_of_sorted_ev hs (by rw [← hA]; exact hgA) ?_
            rw [hcur]
            simp only [evVid, definedAt] at hle ⊢
            rw [← hroot]; exact hle
          · rw [List.any_eq_true]; exact ⟨g, hg, hge⟩
        · right; right
          have hfalse : W.comp.folds.any (·.eid == eid) = false := by simpa using hany
          refine ⟨?_, ?_, hfalse⟩
          · rcases hdef with hd | hd
            · exfalso
              simp only [definedIn, List.any_eq_true, Bool.and_eq_true, beq_iff_eq] at hd
              obtain ⟨g, hg, hge, _⟩ := hd
              apply hany
              rw [List.any_eq_true]; exact ⟨g, hg, by simp [hge]⟩
            · exact hd
          · have := hNR e hmem
            rw [hname, hfield] at this; exact this

/-- All filters of a vertex, or all post-filters of a fold. -/
theorem resolveFilters_ArgOK (H : HypEnv) (W : World) (he : EnvOK H W)
    {T tbl ftbl} (hT : TagsT T tbl ftbl) (htab : TablesOK W tbl ftbl)
    {AE L R : List Ev} {cur : Ev} (hc : CompOK W AE) (hA : AE = L ++ cur :: R)
    {path : List Vid} {useVid : Vid} (hcur : evVid cur = useVid)
    {pend : List PendingFilter} {st st' : St} {fs : List IRFilter} {ev}
    (h : resolveFilters path useVid pend st = .ok (fs, ev, st')) (hsub : ∀ e ∈ st.tags, e ∈ T)
    (hNR : ∀ e ∈ T, W.NR e.name e.field)
    (hloc : ∀ flt ∈ fs, ∀ r, flt.right = some (.tag r) →
      definedAt r ≤ useVid ∧ (definedIn W.comp.vertices W.comp.folds r = true ∨ r ∈ W.chain))
    (hvar : (pendingTriples pend).all (varOK H) = true) :
    Forall2 (fun pf f => f.left = pf.left ∧ ArgOK W (RefOK W L cur) pf.op pf.arg f) pend fs := by
  induction pend generalizing st fs ev with
  | nil =>
    simp [resolveFilters] at h
    rw [h.1]; exact .nil
  | cons pf rest ih =>
    rw [resolveFilters] at h
    simp only [bind_ok, pure_ok] at h
    obtain ⟨⟨f, ev1, st1⟩, h1, ⟨fs2, ev2, st2⟩, h2, h3⟩ := h
    simp only [Prod.mk.injEq] at h3
    obtain ⟨rfl, _, rfl⟩ := h3
    simp only [pendingTriples, List.map_cons, List.all_cons, Bool.and_eq_true] at hvar
    refine .cons (resolveFilter_ArgOK H W he hT htab hc hA hcur h1 hsub hNR
      (hloc f (List.mem_cons_self ..)) hvar.1) ?_
    exact ih h2 (by rw [← (resolveFilter_core h1).2.2]; exact hsub)
      (fun flt hf => hloc flt (List.mem_cons_of_mem _ hf)) hvar.2

end TF.InterpSpec
