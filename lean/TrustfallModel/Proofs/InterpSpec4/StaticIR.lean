/-
C01 main theorem, static part (with folds): IR-level facts used by the certificate construction —
what `wfTagsC` (C11, proved for `toIR` by agent-c11) gives when no fold imports a tag, and the
table of `folded_values` keys.
-/
import TrustfallModel.Proofs.FrontendTags
import TrustfallModel.Proofs.InterpSpec4.Merge

namespace TF.InterpSpec
open TF TF.Engine TF.Spec TF.Frontend

mutual
/-- The table `FK` has the keys of every fold of the component, at every depth. -/
def FKAllC (FK : Eid → List (Eid × Name)) : Component → Prop
  | .mk _ _ _ folds _ => FKAllF FK folds
def FKAllF (FK : Eid → List (Eid × Name)) : List Fold → Prop
  | [] => True
  | .mk e fr to n ps comp imp fo post :: rest =>
    FK e = foldKeys (.mk e fr to n ps comp imp fo post) ∧ FKAllC FK comp ∧ FKAllF FK rest
end

theorem FKAllF_mem {FK : Eid → List (Eid × Name)} {fs : List Fold} (h : FKAllF FK fs) {f : Fold}
    (hf : f ∈ fs) : FK f.eid = foldKeys f ∧ FKAllF FK f.component.folds := by
  induction fs with
  | nil => cases hf
  | cons g rest ih =>
    cases g with
    | mk e fr to n ps comp imp fo post =>
      simp only [FKAllF] at h
      rcases List.mem_cons.1 hf with rfl | hf
      · refine ⟨h.1, ?_⟩
        cases comp with
        | mk r vs es fs' os => simpa [FKAllC, Fold.component, Component.folds] using h.2.1
      · exact ih h.2.2 hf

theorem keyEq_iff (a b : TagKey) : keyEq a b = true ↔ a = b := by
  cases a <;> cases b <;> simp [keyEq]

theorem nodup_of_keysDistinct {l : List TagKey} (h : keysDistinct l = true) : l.Nodup := by
  induction l with
  | nil => exact List.nodup_nil
  | cons k rest ih =>
    simp only [keysDistinct, Bool.and_eq_true, Bool.not_eq_true', List.any_eq_false] at h
    refine List.nodup_cons.2 ⟨?_, ih h.2⟩
    intro hm
    have := h.1 k hm
    simp [(keyEq_iff k k).2 rfl] at this

theorem importsOKF_mem {chain : List TagKey} {fs : List Fold} (h : importsOKF chain fs = true)
    {f : Fold} (hf : f ∈ fs) :
    (f.imports.map FieldRef.key).Nodup ∧
      (∀ r ∈ f.imports, r.key ∉ chain ∧ r.key ≠ .fcount f.eid) ∧
      importsOKC (f.imports.map FieldRef.key ++ chain) f.component = true := by
  induction fs with
  | nil => cases hf
  | cons g rest ih =>
    cases g with
    | mk e fr to n ps comp imp fo post =>
      simp only [importsOKF, Bool.and_eq_true, List.all_eq_true, Bool.not_eq_true',
        List.any_eq_false] at h
      rcases List.mem_cons.1 hf with rfl | hf
      · refine ⟨nodup_of_keysDistinct h.1.1.1, ?_, h.1.2⟩
        intro r hr
        obtain ⟨h1, h2⟩ := h.1.1.2 r hr
        refine ⟨?_, ?_⟩
        · intro hm
          have := h1 _ hm
          simp [(keyEq_iff r.key r.key).2 rfl] at this
        · intro he
          have : keyEq r.key (.fcount e) = true := (keyEq_iff _ _).2 he
          simp [Fold.eid] at he
          rw [this] at h2; cases h2
      · exact ih h.2 hf

theorem importsOKC_folds {chain : List TagKey} {c : Component} (h : importsOKC chain c = true) :
    importsOKF chain c.folds = true := by
  cases c; simpa [importsOKC, Component.folds] using h

theorem fieldRefEq_eq {a b : FieldRef} (h : IRWF.fieldRefEq a b = true) : a = b := by
  cases a <;> cases b <;> simp_all [IRWF.fieldRefEq]

theorem mem_of_refMem {r : FieldRef} {l : List FieldRef} (h : IRWF.refMem r l = true) : r ∈ l := by
  simp only [IRWF.refMem, List.any_eq_true] at h
  obtain ⟨x, hx, hxe⟩ := h
  rw [fieldRefEq_eq hxe]; exact hx

theorem wfTagsF_imports {pvs : List IRVertex} {pfs : List Fold} {chain : List FieldRef}
    {fs : List Fold} (h : wfTagsF pvs pfs chain fs = true) {f : Fold} (hf : f ∈ fs) :
    ∀ r ∈ f.imports, definedIn pvs pfs r = true ∧ definedAt r ≤ f.toVid := by
  induction fs with
  | nil => cases hf
  | cons g rest ih =>
    cases g with
    | mk e fr to n ps comp imp fo post =>
      simp only [wfTagsF, Bool.and_eq_true, List.all_eq_true, decide_eq_true_eq] at h
      rcases List.mem_cons.1 hf with rfl | hf
      · intro r hr; exact h.1.1.2 r hr
      · exact ih h.2 hf

theorem wfTagsC_imports {chain : List FieldRef} {c : Component} (h : wfTagsC chain c = true)
    {f : Fold} (hf : f ∈ c.folds) :
    ∀ r ∈ f.imports, definedIn c.vertices c.folds r = true ∧ definedAt r ≤ f.toVid := by
  cases c with
  | mk r vs es fs os =>
    simp only [wfTagsC, Bool.and_eq_true] at h
    exact wfTagsF_imports h.2 hf

theorem noImportsF_mem {fs : List Fold} (h : noImportsF fs = true) {f : Fold} (hf : f ∈ fs) :
    f.imports = [] ∧ noImportsC f.component = true := by
  induction fs with
  | nil => cases hf
  | cons g rest ih =>
    cases g with
    | mk e fr to n ps comp imp fo post =>
      simp only [noImportsF, Bool.and_eq_true, List.isEmpty_iff] at h
      rcases List.mem_cons.1 hf with rfl | hf
      · exact ⟨h.1.1, h.1.2⟩
      · exact ih h.2 hf

theorem noImportsC_folds {c : Component} (h : noImportsC c = true) : noImportsF c.folds = true := by
  cases c; simpa [noImportsC, Component.folds] using h

theorem wfTagsF_mem {pvs : List IRVertex} {pfs : List Fold} {chain : List FieldRef} {fs : List Fold}
    (h : wfTagsF pvs pfs chain fs = true) {f : Fold} (hf : f ∈ fs) :
    tagsOkAt pvs pfs chain f.toVid f.post = true ∧ wfTagsC (f.imports ++ chain) f.component = true := by
  induction fs with
  | nil => cases hf
  | cons g rest ih =>
    cases g with
    | mk e fr to n ps comp imp fo post =>
      simp only [wfTagsF, Bool.and_eq_true] at h
      rcases List.mem_cons.1 hf with rfl | hf
      · exact ⟨h.1.1.1, h.1.2⟩
      · exact ih h.2 hf

theorem wfTagsC_vertex {chain : List FieldRef} {c : Component} (h : wfTagsC chain c = true)
    {V : IRVertex} (hV : V ∈ c.vertices) :
    tagsOkAt c.vertices c.folds chain V.vid V.filters = true := by
  cases c with
  | mk r vs es fs os =>
    simp only [wfTagsC, Bool.and_eq_true, List.all_eq_true] at h
    exact h.1 V hV

theorem wfTagsC_fold {chain : List FieldRef} {c : Component} (h : wfTagsC chain c = true)
    {f : Fold} (hf : f ∈ c.folds) :
    tagsOkAt c.vertices c.folds chain f.toVid f.post = true ∧
      wfTagsC (f.imports ++ chain) f.component = true := by
  cases c with
  | mk r vs es fs os =>
    simp only [wfTagsC, Bool.and_eq_true] at h
    exact wfTagsF_mem h.2 hf

/-- A tag operand of a filter checked by `tagsOkAt` with an empty import chain is defined in the
component, not later than the using vertex. -/
theorem tagsOkAt_tag {vs : List IRVertex} {fs : List Fold} {chain : List FieldRef} {useVid : Vid}
    {filters : List IRFilter}
    (h : tagsOkAt vs fs chain useVid filters = true) {flt : IRFilter} (hm : flt ∈ filters)
    {r : FieldRef} (hr : flt.right = some (.tag r)) :
    definedAt r ≤ useVid ∧ (definedIn vs fs r = true ∨ r ∈ chain) := by
  simp only [tagsOkAt, List.all_eq_true, List.mem_flatMap, Bool.and_eq_true, decide_eq_true_eq,
    Bool.or_eq_true] at h
  have := h r ⟨flt, hm, by simp [filterTags, hr]⟩
  refine ⟨this.1, ?_⟩
  rcases this.2 with h' | h'
  · exact Or.inl h'
  · exact Or.inr (mem_of_refMem h')

theorem vertex?_of_mem_vids {c : Component} {w : Vid} (h : (vertexVids c.vertices).contains w = true) :
    (c.vertex? w).isSome := by
  simp only [vertexVids, List.contains_eq_mem, List.mem_map, decide_eq_true_eq] at h
  obtain ⟨V, hV, rfl⟩ := h
  unfold Component.vertex?
  rw [List.find?_isSome]
  exact ⟨V, hV, by simp⟩

end TF.InterpSpec
