/-
C01 main theorem, static part: the imported tags of every fold of a compiled query are in order —
`importsOKC [] ir.rootComponent` is a THEOREM about `toIR` (since the fix of F-10: `reference_tag`
pushes a tag onto a fold's `imported_tags` only if it is not there yet), no longer a hypothesis:

* a fold imports every tag once (`nodup_importsAt`), and two imported tags with the same key — the same
  `(vertex, property)` resp. the same fold — are the same `FieldRef`: every tag registered on the
  property `n` of the vertex `vid` carries the type `S.propTy? ty n` for the one type `ty` of that vertex
  (`TagFun`, an invariant of the frontend's tag table);
* a fold does not import a tag an enclosing fold imports (those are defined in other components), nor
  its own count (its count tags are registered after its component is finished).
-/
import TrustfallModel.Proofs.InterpSpec4.StaticIR

namespace TF.InterpSpec
open TF TF.Engine TF.Spec TF.Frontend

/-! ### the Boolean check, fold by fold -/

theorem keysDistinct_of_nodup {l : List TagKey} (h : l.Nodup) : keysDistinct l = true := by
  induction l with
  | nil => rfl
  | cons k rest ih =>
    obtain ⟨h1, h2⟩ := List.nodup_cons.1 h
    simp only [keysDistinct, Bool.and_eq_true, Bool.not_eq_true', List.any_eq_false]
    refine ⟨?_, ih h2⟩
    intro x hx hke
    rw [keyEq_iff] at hke
    subst hke
    exact h1 hx

theorem nodup_map_of_injOn {α β : Type} {f : α → β} {l : List α} (hn : l.Nodup)
    (hinj : ∀ x ∈ l, ∀ y ∈ l, f x = f y → x = y) : (l.map f).Nodup := by
  induction l with
  | nil => exact List.nodup_nil
  | cons a rest ih =>
    obtain ⟨h1, h2⟩ := List.nodup_cons.1 hn
    rw [List.map_cons, List.nodup_cons]
    refine ⟨?_, ih h2 (fun x hx y hy =>
      hinj x (List.mem_cons_of_mem _ hx) y (List.mem_cons_of_mem _ hy))⟩
    intro hm
    obtain ⟨y, hy, hfy⟩ := List.mem_map.1 hm
    have := hinj y (List.mem_cons_of_mem _ hy) a (List.mem_cons_self ..) hfy
    exact h1 (this ▸ hy)

theorem importsOKF_of {chain : List TagKey} {fs : List Fold}
    (h : ∀ f ∈ fs, keysDistinct (f.imports.map FieldRef.key) = true ∧
      (∀ r ∈ f.imports, r.key ∉ chain ∧ r.key ≠ .fcount f.eid) ∧
      importsOKC (f.imports.map FieldRef.key ++ chain) f.component = true) :
    importsOKF chain fs = true := by
  induction fs with
  | nil => rfl
  | cons g rest ih =>
    have hg := h g (List.mem_cons_self ..)
    have hrest := ih fun f hf => h f (List.mem_cons_of_mem _ hf)
    cases g with
    | mk e fr to n ps comp imp fo post =>
      simp only [importsOKF, Bool.and_eq_true]
      refine ⟨⟨⟨hg.1, ?_⟩, hg.2.2⟩, hrest⟩
      rw [List.all_eq_true]
      intro r hr
      obtain ⟨h1, h2⟩ := hg.2.1 r hr
      simp only [Bool.and_eq_true, Bool.not_eq_true', List.any_eq_false]
      refine ⟨?_, ?_⟩
      · intro x hx hk
        rw [keyEq_iff] at hk
        exact h1 (hk ▸ hx)
      · cases hk : keyEq r.key (.fcount e) with
        | false => rfl
        | true => exact absurd ((keyEq_iff _ _).1 hk) h2

/-! ### invariants of the tag table -/

/-- Two entries of the tag table on the same `(vertex, property)` resp. on the count of the same fold
are the same field (same type), registered in the same component. -/
def TagFun (T : List TagEntry) : Prop :=
  ∀ e1 ∈ T, ∀ e2 ∈ T, e1.field.key = e2.field.key → e1.field = e2.field ∧ e1.path = e2.path

/-- The count of the fold with Eid `x` is defined at the fold's root vertex, `x + 1`. -/
def FcRoot (T : List TagEntry) : Prop :=
  ∀ e ∈ T, ∀ x r, e.field = .fcount x r → r = x + 1

/-- The tags on the properties of the vertex `vid` (type `ty`, component path `P`) registered so far. -/
def VtxTags (S : SchemaView) (T : List TagEntry) (P : List Vid) (vid : Vid) (ty : Name) : Prop :=
  ∀ e ∈ T, ∀ n t, e.field = .ctx vid n t → e.path = P ∧ S.propTy? ty n = some t

theorem tagFun_append {T new : List TagEntry} (hT : TagFun T)
    (hnew : ∀ e1 ∈ new, ∀ e2 ∈ new, e1.field.key = e2.field.key →
      e1.field = e2.field ∧ e1.path = e2.path)
    (hx : ∀ e1 ∈ T, ∀ e2 ∈ new, e1.field.key = e2.field.key →
      e1.field = e2.field ∧ e1.path = e2.path) : TagFun (T ++ new) := by
  intro e1 h1 e2 h2 hk
  rw [List.mem_append] at h1 h2
  rcases h1 with h1 | h1 <;> rcases h2 with h2 | h2
  · exact hT e1 h1 e2 h2 hk
  · exact hx e1 h1 e2 h2 hk
  · obtain ⟨a, b⟩ := hx e2 h2 e1 h1 hk.symm
    exact ⟨a.symm, b.symm⟩
  · exact hnew e1 h1 e2 h2 hk

theorem tagsBounded_append {st st' : St} {new : List TagEntry} (h : TagsBounded st)
    (ht : st'.tags = st.tags ++ new) (hv : st.nextVid ≤ st'.nextVid) (he : st.nextEid ≤ st'.nextEid)
    (hn : ∀ e ∈ new, definedAt e.field < st'.nextVid ∧
      (∀ x r, e.field = .fcount x r → x < st'.nextEid) ∧ ∀ x ∈ e.path, x < st'.nextVid) :
    TagsBounded st' := by
  refine ⟨?_, ?_, ?_⟩
  · intro e hm; rw [ht, List.mem_append] at hm
    rcases hm with hm | hm
    · have := h.defAt e hm; nomega
    · exact (hn e hm).1
  · intro e hm x r hx; rw [ht, List.mem_append] at hm
    rcases hm with hm | hm
    · have := h.eidB e hm x r hx; nomega
    · exact (hn e hm).2.1 x r hx
  · intro e hm x hx; rw [ht, List.mem_append] at hm
    rcases hm with hm | hm
    · have := h.pathB e hm x hx; nomega
    · exact (hn e hm).2.2 x hx

theorem tagPre_of {P : List Vid} {vid : Vid} {st st' : St} (h : TagPre P vid st)
    (hb : TagsBounded st') (hv : st.nextVid ≤ st'.nextVid) (hs : st'.nextVid = st'.nextEid + 1) :
    TagPre P vid st' :=
  ⟨by have := h.vlt; nomega, hs, hb, fun x hx => by have := h.pathB x hx; nomega⟩

/-! ### the induction over phase A -/

/-- What is established about a finished fold `f` whose parent component has path `P`, against a tag
table `T`: for every chain of keys imported further up that avoids the tags of this component and of
the components below it, the fold passes `importsOKF`. -/
def ImpsOK (P : List Vid) (T : List TagEntry) (f : Fold) : Prop :=
  ∀ chain : List TagKey, (∀ e ∈ T, P <+: e.path → e.field.key ∉ chain) →
    keysDistinct (f.imports.map FieldRef.key) = true ∧
    (∀ r ∈ f.imports, r.key ∉ chain ∧ r.key ≠ .fcount f.eid) ∧
    importsOKC (f.imports.map FieldRef.key ++ chain) f.component = true

/-- What a successful run of phase A establishes. -/
def ImpPost (P : List Vid) (st' : St) (acc : Acc) : Prop :=
  TagFun st'.tags ∧ FcRoot st'.tags ∧
    ∀ T, (∀ e ∈ st'.tags, e ∈ T) → TagFun T → FcRoot T → ∀ f ∈ acc.folds, ImpsOK P T f

theorem imports_spec (S : SchemaView) :
    (∀ path vid pre node st acc st', fillNode S path vid pre node st = .ok (acc, st') →
      TagPre path vid st → (∀ e ∈ st.tags, ∀ n t, e.field ≠ .ctx vid n t) → TagFun st.tags →
      FcRoot st.tags → ImpPost path st' acc) ∧
    (∀ path vid ty fields st acc st', fillFields S path vid ty fields st = .ok (acc, st') →
      TagPre path vid st → VtxTags S st.tags path vid ty → TagFun st.tags →
      FcRoot st.tags → ImpPost path st' acc) := by
  apply fill_induct S
    (P1 := fun path vid _ _ st acc st' => TagPre path vid st →
      (∀ e ∈ st.tags, ∀ n t, e.field ≠ .ctx vid n t) → TagFun st.tags → FcRoot st.tags →
      ImpPost path st' acc)
    (P2 := fun path vid ty _ st acc st' => TagPre path vid st → VtxTags S st.tags path vid ty →
      TagFun st.tags → FcRoot st.tags → ImpPost path st' acc)
  · -- node
    intro path vid pre coerceTo fields st post acc1 st' _ _ ih hpre hno hfun hfc
    have p := ih hpre (fun e he n t hf => absurd hf (hno e he n t)) hfun hfc
    refine ⟨p.1, p.2.1, ?_⟩
    intro T hT hTf hTc f hf
    simp only [Acc.append_folds, List.nil_append] at hf
    exact p.2.2 T hT hTf hTc f hf
  · -- nil
    intro path vid ty st _ _ hfun hfc
    refine ⟨hfun, hfc, ?_⟩
    intro T _ _ _ f hf
    simp at hf
  · -- prop
    intro path vid ty n dirs rest st pty st1 acc1 st' hpty h2 h3 ih hpre hvt hfun hfc
    obtain ⟨hv1, he1, _, ht1⟩ := registerTags_inv h2
    have hreg : ∀ e ∈ (tagDirs vid n pty dirs).map (fun (x : Name × FieldRef) =>
        (⟨x.1, x.2, path⟩ : TagEntry)), e.path = path ∧ e.field = .ctx vid n pty := by
      intro e he
      simp only [List.mem_map] at he
      obtain ⟨x, hx, rfl⟩ := he
      exact ⟨rfl, mem_tagDirs hx⟩
    have hb1 : TagsBounded st1 := by
      refine tagsBounded_append hpre.bounded ht1 (by nomega) (by nomega) ?_
      intro e he
      obtain ⟨hp, hf⟩ := hreg e he
      refine ⟨?_, ?_, ?_⟩
      · rw [hf]; simp only [definedAt]; have := hpre.vlt; nomega
      · intro x r hx; rw [hf] at hx; cases hx
      · intro x hx; rw [hp] at hx; have := hpre.pathB x hx; nomega
    have hpre1 : TagPre path vid st1 :=
      tagPre_of hpre hb1 (by nomega) (by have := hpre.sync; nomega)
    have hfun1 : TagFun st1.tags := by
      rw [ht1]
      refine tagFun_append hfun ?_ ?_
      · intro e1 h1 e2 h2 _
        obtain ⟨p1, f1⟩ := hreg e1 h1
        obtain ⟨p2, f2⟩ := hreg e2 h2
        exact ⟨by rw [f1, f2], by rw [p1, p2]⟩
      · intro e1 h1 e2 h2 hk
        obtain ⟨p2, f2⟩ := hreg e2 h2
        rw [f2] at hk
        cases hf1 : e1.field with
        | fcount x r => rw [hf1] at hk; cases hk
        | ctx u m t =>
          rw [hf1] at hk
          simp only [FieldRef.key, TagKey.ctx.injEq] at hk
          obtain ⟨rfl, rfl⟩ := hk
          obtain ⟨hp, hty⟩ := hvt e1 h1 m t hf1
          rw [hpty] at hty
          cases hty
          exact ⟨by rw [f2], by rw [hp, p2]⟩
    have hfc1 : FcRoot st1.tags := by
      intro e he x r hx
      rw [ht1, List.mem_append] at he
      rcases he with he | he
      · exact hfc e he x r hx
      · obtain ⟨_, hf⟩ := hreg e he
        rw [hf] at hx; cases hx
    have hvt1 : VtxTags S st1.tags path vid ty := by
      intro e he m t hf
      rw [ht1, List.mem_append] at he
      rcases he with he | he
      · exact hvt e he m t hf
      · obtain ⟨hp, hf'⟩ := hreg e he
        rw [hf'] at hf
        cases hf
        exact ⟨hp, hpty⟩
    have p := ih hpre1 hvt1 hfun1 hfc1
    refine ⟨p.1, p.2.1, ?_⟩
    intro T hT hTf hTc f hf
    simp only [Acc.append_folds, List.nil_append] at hf
    exact p.2.2 T hT hTf hTc f hf
  · -- fold
    intro path vid ty n params fds child rest st ed ps accIn st2 comp evs st3 post evPost st4 st5
      accR st' _ _ h3 h4 h5 h6 h7 ihC ihR hpre hvt hfun hfc
    have cC := (counted S).1 _ _ _ _ _ _ _ h3
    have cR := (counted S).2 _ _ _ _ _ _ _ h7
    have b1 : st.bump.nextVid = st.nextVid + 1 := rfl
    have b2 : st.bump.nextEid = st.nextEid + 1 := rfl
    have b3 : st.bump.tags = st.tags := rfl
    rw [b1, b2] at cC
    have hCv := cC.vmono; have hCe := cC.emono; have hCs := cC.sync
    have hRv := cR.vmono; have hRe := cR.emono
    have hvlt := hpre.vlt; have hsync := hpre.sync
    -- the folded component
    have preC : TagPre (path ++ [st.nextVid]) st.nextVid st.bump := by
      refine ⟨by rw [b1]; nomega, by rw [b1, b2]; nomega,
        hpre.bounded.mono b3 (by rw [b1]; nomega) (by rw [b2]; nomega), ?_⟩
      intro x hx
      rw [List.mem_append, List.mem_singleton] at hx
      rcases hx with hx | rfl
      · have := hpre.pathB x hx; rw [b1]; nomega
      · rw [b1]; nomega
    have hnoC : ∀ e ∈ st.bump.tags, ∀ m t, e.field ≠ .ctx st.nextVid m t := by
      intro e he m t hf
      have := hpre.bounded.defAt e he
      rw [hf] at this
      simp only [definedAt] at this
      nomega
    obtain ⟨hinC, tC⟩ := (tags_spec S).1 _ _ _ _ _ _ _ h3 preC
    have pC := ihC preC hnoC hfun hfc
    obtain ⟨newC, htC, hnC⟩ := tC.new
    have hold : ∀ e ∈ st.bump.tags, e.path ≠ path ++ [st.nextVid] ∧ definedAt e.field < st.nextVid ∧
        ∀ x r, e.field = .fcount x r → x < st.bump.nextEid := by
      intro e he
      rw [b3] at he
      refine ⟨?_, hpre.bounded.defAt e he, ?_⟩
      · intro hp
        have := hpre.bounded.pathB e he st.nextVid (by rw [hp]; simp)
        nomega
      · intro x r hx; have := hpre.bounded.eidB e he x r hx; rw [b2]; nomega
    have cs := compSpec_of_finish hinC htC hnC hold (by rw [b1, b2]; exact cC)
      (by rw [b1]; nomega) tC.certs tC.uses h4
    obtain ⟨_, _, hcore23⟩ := allVids_finish h4
    have hcore34 := resolveFilters_core h5
    obtain ⟨hv5, he5, _, ht5⟩ := registerTags_inv h6
    have ht2 : st2.tags = st.tags ++ newC := by rw [htC, b3]
    have ht3 : st3.tags = st.tags ++ newC := by rw [← hcore23.2.2, ht2]
    have ht4 : st4.tags = st.tags ++ newC := by rw [← hcore34.2.2, ht3]
    rw [b1, b2] at hnC
    have hreg : ∀ e ∈ (countTags st.nextEid st.nextVid fds).map (fun (x : Name × FieldRef) =>
        (⟨x.1, x.2, path⟩ : TagEntry)), e.path = path ∧ e.field = .fcount st.nextEid st.nextVid := by
      intro e he
      simp only [List.mem_map] at he
      obtain ⟨x, hx, rfl⟩ := he
      exact ⟨rfl, mem_countTags hx⟩
    have e23v := hcore23.1; have e23e := hcore23.2.1
    have e34v := hcore34.1; have e34e := hcore34.2.1
    have bnd2 : TagsBounded st2 := tC.bounded preC.bounded (by rw [b1]; nomega) (by rw [b2]; nomega)
    have bnd4 : TagsBounded st4 :=
      bnd2.mono (by rw [ht4, ht2]) (by nomega) (by nomega)
    have bnd5 : TagsBounded st5 := by
      refine tagsBounded_append bnd4 ht5 (by nomega) (by nomega) ?_
      intro e he
      obtain ⟨hp, hf⟩ := hreg e he
      refine ⟨?_, ?_, ?_⟩
      · rw [hf]; simp only [definedAt]; nomega
      · intro x r hx; rw [hf] at hx; cases hx; nomega
      · intro x hx; rw [hp] at hx; have := hpre.pathB x hx; nomega
    have preR : TagPre path vid st5 := tagPre_of hpre bnd5 (by nomega) (by nomega)
    -- the table invariants after the fold's count tags are registered
    have hfun4 : TagFun st4.tags := by rw [ht4, ← ht2]; exact pC.1
    have hfc4 : FcRoot st4.tags := by rw [ht4, ← ht2]; exact pC.2.1
    have hfun5 : TagFun st5.tags := by
      rw [ht5]
      refine tagFun_append hfun4 ?_ ?_
      · intro e1 h1 e2 h2 _
        obtain ⟨p1, f1⟩ := hreg e1 h1
        obtain ⟨p2, f2⟩ := hreg e2 h2
        exact ⟨by rw [f1, f2], by rw [p1, p2]⟩
      · intro e1 h1 e2 h2 hk
        exfalso
        obtain ⟨_, f2⟩ := hreg e2 h2
        rw [f2] at hk
        cases hf1 : e1.field with
        | ctx u m t => rw [hf1] at hk; cases hk
        | fcount x r =>
          rw [hf1] at hk
          simp only [FieldRef.key, TagKey.fcount.injEq] at hk
          rw [ht4, List.mem_append] at h1
          rcases h1 with h1 | h1
          · have := hpre.bounded.eidB e1 h1 x r hf1; nomega
          · have := ((hnC e1 h1).eid x r hf1).1; nomega
    have hfc5 : FcRoot st5.tags := by
      intro e he x r hx
      rw [ht5, List.mem_append] at he
      rcases he with he | he
      · exact hfc4 e he x r hx
      · obtain ⟨_, hf⟩ := hreg e he
        rw [hf] at hx; cases hx; nomega
    have hvt5 : VtxTags S st5.tags path vid ty := by
      intro e he m t hf
      rw [ht5, ht4, List.mem_append, List.mem_append] at he
      rcases he with (he | he) | he
      · exact hvt e he m t hf
      · exfalso
        have hlo := (hnC e he).lo
        rw [hf] at hlo
        simp only [definedAt] at hlo
        rcases hlo with h | h <;> nomega
      · obtain ⟨_, hf'⟩ := hreg e he
        rw [hf'] at hf; cases hf
    have pR := ihR preR hvt5 hfun5 hfc5
    have tR := (tags_spec S).2 _ _ _ _ _ _ _ h7 preR
    obtain ⟨newR, htR, _⟩ := tR.new
    have hT3 : ∀ e ∈ st3.tags, e ∈ st'.tags := by
      intro e he
      rw [htR, ht5, ht4, ← ht3]
      exact List.mem_append_left _ (List.mem_append_left _ he)
    have hPf : path <+: path ++ [st.nextVid] := List.prefix_append _ _
    have hlen : (path ++ [st.nextVid]).length = path.length + 1 := by simp
    refine ⟨pR.1, pR.2.1, ?_⟩
    intro T hT hTf hTc f hf
    simp only [Acc.append_folds, List.cons_append, List.nil_append, List.mem_cons] at hf
    rcases hf with rfl | hf
    · -- the fold itself
      intro chain hchain
      have himp : ∀ r ∈ importsAt path.length evs, definedAt r < st.nextVid ∧
          ∃ e ∈ T, e.path = path ∧ e.field = r := by
        intro r hr
        rw [mem_importsAt] at hr
        obtain ⟨_, _, e, he, h3', h4', h5'⟩ := cs.U2 _ hr
        simp only at h3' h4'
        have hpe : e.path = path :=
          (List.prefix_of_prefix_length_le h5' hPf (by omega)).eq_of_length h4'
        refine ⟨?_, e, hT e (hT3 e he), hpe, h3'⟩
        rw [ht3, List.mem_append] at he
        rcases he with he | he
        · rw [← h3']; exact hpre.bounded.defAt e he
        · have := (hnC e he).pre.length_le
          rw [hlen, h4'] at this; omega
      refine ⟨?_, ?_, ?_⟩
      · apply keysDistinct_of_nodup
        show ((importsAt path.length evs).map FieldRef.key).Nodup
        refine nodup_map_of_injOn (nodup_importsAt _ _) ?_
        intro r1 hr1 r2 hr2 hk
        obtain ⟨_, e1, he1, _, hf1⟩ := himp r1 hr1
        obtain ⟨_, e2, he2, _, hf2⟩ := himp r2 hr2
        have := (hTf e1 he1 e2 he2 (by rw [hf1, hf2]; exact hk)).1
        rw [hf1, hf2] at this
        exact this
      · intro r hr
        have hr' : r ∈ importsAt path.length evs := hr
        obtain ⟨hd, e, heT, hpe, hfe⟩ := himp r hr'
        refine ⟨?_, ?_⟩
        · rw [← hfe]
          exact hchain e heT (by rw [hpe]; exact List.prefix_refl _)
        · show r.key ≠ .fcount st.nextEid
          intro hk
          cases hr0 : r with
          | ctx u m t => rw [hr0] at hk; cases hk
          | fcount x root =>
            rw [hr0] at hk hd
            simp only [FieldRef.key, TagKey.fcount.injEq] at hk
            simp only [definedAt] at hd
            have := hTc e heT x root (by rw [hfe, hr0])
            nomega
      · show importsOKC _ comp = true
        obtain ⟨vs, evB, _, hcomp, _⟩ := finishComponent_inv h4
        rw [hcomp]
        simp only [importsOKC]
        apply importsOKF_of
        intro f' hf'
        refine pC.2.2 T (fun e he => hT e (hT3 e (by rw [← hcore23.2.2]; exact he))) hTf hTc f' hf' _ ?_
        intro e he hpre' hmem
        rw [List.mem_append] at hmem
        rcases hmem with hmem | hmem
        · obtain ⟨r, hr, hrk⟩ := List.mem_map.1 hmem
          have hr' : r ∈ importsAt path.length evs := hr
          obtain ⟨_, e', he'T, hpe', hfe'⟩ := himp r hr'
          have := (hTf e he e' he'T (by rw [hfe']; exact hrk.symm)).2
          have hl := hpre'.length_le
          rw [this, hpe', hlen] at hl
          omega
        · exact hchain e he (hPf.trans hpre') hmem
    · exact pR.2.2 T hT hTf hTc f hf
  · -- plain / optional / recursive edge
    intro path vid ty n params kind child rest st ed ps r accC st2 accR st' _ _ _ _ h4 h5 ihC ihR hpre
      hvt hfun hfc
    have cC := (counted S).1 _ _ _ _ _ _ _ h4
    have cR := (counted S).2 _ _ _ _ _ _ _ h5
    have b1 : st.bump.nextVid = st.nextVid + 1 := rfl
    have b2 : st.bump.nextEid = st.nextEid + 1 := rfl
    have b3 : st.bump.tags = st.tags := rfl
    rw [b1, b2] at cC
    have hCv := cC.vmono; have hCe := cC.emono; have hCs := cC.sync
    have hRv := cR.vmono; have hRe := cR.emono
    have hvlt := hpre.vlt; have hsync := hpre.sync
    have preC : TagPre path st.nextVid st.bump :=
      ⟨by rw [b1]; nomega, by rw [b1, b2]; nomega,
        hpre.bounded.mono b3 (by rw [b1]; nomega) (by rw [b2]; nomega),
        fun x hx => by have := hpre.pathB x hx; rw [b1]; nomega⟩
    have hnoC : ∀ e ∈ st.bump.tags, ∀ m t, e.field ≠ .ctx st.nextVid m t := by
      intro e he m t hf
      have := hpre.bounded.defAt e he
      rw [hf] at this
      simp only [definedAt] at this
      nomega
    obtain ⟨_, tC⟩ := (tags_spec S).1 _ _ _ _ _ _ _ h4 preC
    have pC := ihC preC hnoC hfun hfc
    obtain ⟨newC, htC, hnC⟩ := tC.new
    rw [b1, b2] at hnC
    rw [b3] at htC
    have bnd2 : TagsBounded st2 := tC.bounded preC.bounded (by rw [b1]; nomega) (by rw [b2]; nomega)
    have preR : TagPre path vid st2 := tagPre_of hpre bnd2 (by nomega) (by nomega)
    have hvt2 : VtxTags S st2.tags path vid ty := by
      intro e he m t hf
      rw [htC, List.mem_append] at he
      rcases he with he | he
      · exact hvt e he m t hf
      · exfalso
        have hlo := (hnC e he).lo
        rw [hf] at hlo
        simp only [definedAt] at hlo
        rcases hlo with h | h <;> nomega
    have pR := ihR preR hvt2 pC.1 pC.2.1
    have tR := (tags_spec S).2 _ _ _ _ _ _ _ h5 preR
    obtain ⟨newR, htR, _⟩ := tR.new
    refine ⟨pR.1, pR.2.1, ?_⟩
    intro T hT hTf hTc f hf
    simp only [Acc.append_folds, List.nil_append, List.mem_append] at hf
    rcases hf with hf | hf
    · exact pC.2.2 T (fun e he => hT e (by rw [htR]; exact List.mem_append_left _ he)) hTf hTc f hf
    · exact pR.2.2 T hT hTf hTc f hf

/-- **The imports of a compiled query are in order** (formerly the second half of `Hyps3`, the
"F-10 guard"): every fold imports each tag once, none that an enclosing fold imports, and not its own
count. -/
theorem importsOKC_of_toIR {S : SchemaView} {q : Query} {ir : IRQuery} (h : toIR S q = .ok ir) :
    importsOKC [] ir.rootComponent = true := by
  obtain ⟨root, rootParams, acc, st1, comp, evs, st2, vars, _, _, h3, h4, _, _, _, rfl⟩ := toIR_inv h
  have i1 : St.init.nextVid = 2 := rfl
  have i2 : St.init.nextEid = 1 := rfl
  have i3 : St.init.tags = [] := rfl
  have pre : TagPre [1] 1 St.init := by
    refine ⟨by rw [i1]; decide, by rw [i1, i2], ⟨?_, ?_, ?_⟩, ?_⟩
    · intro e he; rw [i3] at he; simp at he
    · intro e he; rw [i3] at he; simp at he
    · intro e he; rw [i3] at he; simp at he
    · intro x hx; simp only [List.mem_singleton] at hx; rw [hx, i1]; decide
  have p := (imports_spec S).1 _ _ _ _ _ _ _ h3 pre
    (by intro e he; rw [i3] at he; simp at he)
    (by intro e he; rw [i3] at he; simp at he)
    (by intro e he; rw [i3] at he; simp at he)
  obtain ⟨vs, ev, _, rfl, _⟩ := finishComponent_inv h4
  show importsOKC [] (Component.mk 1 vs acc.edges acc.folds (sortOutputs acc.outs)) = true
  simp only [importsOKC]
  apply importsOKF_of
  intro f hf
  exact p.2.2 st1.tags (fun e he => he) p.1 p.2.1 f hf [] (fun _ _ _ => by simp)

end TF.InterpSpec
