/-
C01 main theorem, static part (with folds): which vertices / edges / folds a run of phase A of the
frontend puts into the component under construction, in terms of the tree function `evsNode`.
-/
import TrustfallModel.Proofs.InterpSpec4.Tree

namespace TF.InterpSpec
open TF TF.Engine TF.Spec TF.Frontend

/-- The vertices and folds of the pieces are the events of the tree, in order; destinations are
numbered `eid + 1`. -/
structure KeysFacts (acc : Acc) (evs : List Ev) (st st' : St) : Prop where
  verts : acc.verts.map (·.vid) = vtxs evs
  folds : acc.folds.map (·.eid) = flds evs
  sync : st'.nextVid = st'.nextEid + 1
  foldTo : ∀ f ∈ acc.folds, f.toVid = f.eid + 1
  edgeTo : ∀ e ∈ acc.edges, e.toVid = e.eid + 1

theorem keys_fill3 (S : SchemaView) :
    (∀ path vid pre node st acc st', fillNode S path vid pre node st = .ok (acc, st') →
      st.nextVid = st.nextEid + 1 → KeysFacts acc (evsNode node vid st.nextVid) st st') ∧
    (∀ path vid ty fields st acc st', fillFields S path vid ty fields st = .ok (acc, st') →
      st.nextVid = st.nextEid + 1 → KeysFacts acc (evsFields fields st.nextVid) st st') := by
  apply fill_induct S
    (P1 := fun _ vid _ node st acc st' => st.nextVid = st.nextEid + 1 →
      KeysFacts acc (evsNode node vid st.nextVid) st st')
    (P2 := fun _ _ _ fields st acc st' => st.nextVid = st.nextEid + 1 →
      KeysFacts acc (evsFields fields st.nextVid) st st')
  · intro path vid pre ct fields st post acc1 st' _ _ ih h0
    obtain ⟨h1, h2, h3, h4, h5⟩ := ih h0
    exact ⟨by simp [evsNode, h1], by simpa [evsNode] using h2, h3, by simpa using h4, by simpa using h5⟩
  · intro path vid ty st h0
    exact ⟨by simp [evsFields], by simp [evsFields], h0, by simp, by simp⟩
  · intro path vid ty n dirs rest st pty st1 acc1 st' _ h2 _ ih h0
    obtain ⟨e1, e2, _, _⟩ := registerTags_inv h2
    obtain ⟨h1, h2', h3, h4, h5⟩ := ih (by rw [e1, e2]; exact h0)
    rw [e1] at h1 h2'
    exact ⟨by simpa [evsFields] using h1, by simpa [evsFields] using h2', h3, by simpa using h4,
      by simpa using h5⟩
  · intro path vid ty n params fds child rest st ed ps accIn st2 comp evs st3 post evPost st4 st5
      accR st' _ _ h3 h4 h5 h6 _ ihC ihR h0
    have b1 : st.bump.nextVid = st.nextVid + 1 := rfl
    have b2 : st.bump.nextEid = st.nextEid + 1 := rfl
    have kC := ihC (by rw [b1, b2, h0])
    obtain ⟨_, _, hcore⟩ := allVids_finish h4
    have c34 := resolveFilters_core h5
    obtain ⟨hv5, he5, _, _⟩ := registerTags_inv h6
    have hs := (size_fill S).1 _ _ _ _ _ _ _ h3
    rw [b1] at hs
    have h05 : st5.nextVid = st5.nextEid + 1 := by
      rw [hv5, he5, ← c34.1, ← c34.2.1, ← hcore.1, ← hcore.2.1]; exact kC.sync
    obtain ⟨r1, r2, r3, r4, r5⟩ := ihR h05
    have hn5 : st5.nextVid = st.nextVid + 1 + size child := by
      rw [hv5, ← c34.1, ← hcore.1, hs]
    rw [hn5] at r1 r2
    refine ⟨?_, ?_, r3, ?_, ?_⟩
    · simpa [evsFields] using r1
    · have hthis : st.nextVid - 1 = st.nextEid := by simp only [Vid, Eid] at *; omega
      have hme : (mkFold path vid st n ps comp evs fds post).eid = st.nextEid := rfl
      simp only [Acc.append_folds, List.map_append, List.map_cons, List.map_nil, evsFields,
        flds_append, flds_cons_fold, flds_nil, r2, hme, hthis]
    · intro f hf
      simp only [Acc.append_folds, List.mem_append, List.mem_singleton] at hf
      rcases hf with rfl | hf
      · simp only [mkFold, Fold.toVid, Fold.eid]; exact h0
      · exact r4 f hf
    · intro e he
      exact r5 e (by simpa using he)
  · intro path vid ty n params kind child rest st ed ps r accC st2 accR st' hk _ _ _ h4 _ ihC ihR h0
    have b1 : st.bump.nextVid = st.nextVid + 1 := rfl
    have b2 : st.bump.nextEid = st.nextEid + 1 := rfl
    obtain ⟨c1, c2, c3, c4, c5⟩ := ihC (by rw [b1, b2, h0])
    obtain ⟨r1, r2, r3, r4, r5⟩ := ihR c3
    have hs := (size_fill S).1 _ _ _ _ _ _ _ h4
    rw [b1] at hs c1 c2
    rw [hs] at r1 r2
    have hev : evsFields (.edge n params kind child :: rest) st.nextVid =
        evsNode child st.nextVid (st.nextVid + 1) ++ evsFields rest (st.nextVid + 1 + size child) := by
      cases kind with
      | fold fds => exact absurd rfl (hk fds)
      | plain => rfl
      | optional => rfl
      | recurse d => rfl
    rw [hev]
    refine ⟨by simp [c1, r1], by simp [c2, r2], r3, ?_, ?_⟩
    · intro f hf
      simp only [Acc.append_folds, List.mem_append] at hf
      rcases hf with (hf | hf) | hf
      · cases hf
      · exact c4 f hf
      · exact r4 f hf
    · intro e he
      simp only [Acc.append_edges, List.mem_append, List.mem_singleton] at he
      rcases he with (rfl | he) | he
      · exact h0
      · exact c5 e he
      · exact r5 e he

end TF.InterpSpec
