/-
C01 main theorem, static part (with folds): tables of the whole query — the fold table has
distinct Eids; the key table `FK` read off the IR is right at every depth (Eids are unique);
fold nesting is bounded by the height.
-/
import TrustfallModel.Proofs.InterpSpec4.StaticTags3

namespace TF.InterpSpec
open TF TF.Engine TF.Spec TF.Frontend

mutual
theorem ftblNode_bounds : ∀ (node : QNode) (next : Vid), 1 ≤ next →
    (∀ x ∈ (ftblNode node next).map (·.1), next - 1 ≤ x ∧ x < next - 1 + size node) ∧
      ((ftblNode node next).map (·.1)).Pairwise (· < ·)
  | .mk ct fields, next, h1 => by
    simpa [ftblNode, size] using ftblFields_bounds fields next h1
theorem ftblFields_bounds : ∀ (fields : List QField) (next : Vid), 1 ≤ next →
    (∀ x ∈ (ftblFields fields next).map (·.1), next - 1 ≤ x ∧ x < next - 1 + sizeFields fields) ∧
      ((ftblFields fields next).map (·.1)).Pairwise (· < ·)
  | [], next, _ => by simp [ftblFields]
  | .prop _ _ :: rest, next, h1 => by
    simpa [ftblFields, sizeFields] using ftblFields_bounds rest next h1
  | .edge nm pr kind child :: rest, next, h1 => by
    have hC := ftblNode_bounds child (next + 1) (by simp only [Vid] at *; omega)
    have hR := ftblFields_bounds rest (next + 1 + size child) (by simp only [Vid] at *; omega)
    obtain ⟨first, hfirstDef⟩ : ∃ first : List (Eid × List FDir × QNode),
        first = (match kind with
          | .fold fds => [(next - 1, fds, child)]
          | _ => []) := ⟨_, rfl⟩
    have hfirst : (∀ x ∈ first.map (fun p => p.1), x = next - 1) ∧
        (first.map (fun p => p.1)).Pairwise (· < ·) := by
      rw [hfirstDef]; cases kind <;> simp
    have hff : ftblFields (.edge nm pr kind child :: rest) next =
        first ++ ftblNode child (next + 1) ++ ftblFields rest (next + 1 + size child) := by
      rw [hfirstDef]; rfl
    rw [hff]
    simp only [List.map_append, sizeFields]
    constructor
    · intro x hx
      rcases List.mem_append.1 hx with h | h
      · rcases List.mem_append.1 h with h | h
        · have := hfirst.1 x h; simp only [Vid, Eid] at *; omega
        · have := hC.1 x h; simp only [Vid, Eid] at *; omega
      · have := hR.1 x h; simp only [Vid, Eid] at *; omega
    · apply pairwise_append_of
      · apply pairwise_append_of hfirst.2 hC.2
        intro a ha b hb
        have := hfirst.1 a ha; have := hC.1 b hb; simp only [Vid, Eid] at *; omega
      · exact hR.2
      · intro a ha b hb
        have hb' := hR.1 b hb
        rcases List.mem_append.1 ha with h | h
        · have := hfirst.1 a h; simp only [Vid, Eid] at *; omega
        · have := hC.1 a h; simp only [Vid, Eid] at *; omega
end

theorem ftblLookup_of_mem {ftbl : List (Eid × List FDir × QNode)} (hn : (ftbl.map (·.1)).Nodup)
    {e : Eid} {fds : List FDir} {child : QNode} (hm : (e, fds, child) ∈ ftbl) :
    ftblLookup ftbl e = some (fds, child) := by
  unfold ftblLookup
  induction ftbl with
  | nil => cases hm
  | cons p rest ih =>
    simp only [List.map_cons, List.nodup_cons] at hn
    rcases List.mem_cons.1 hm with h | h
    · subst h; simp
    · have hne : p.1 ≠ e := by
        intro he
        apply hn.1
        rw [he]
        exact List.mem_map.2 ⟨(e, fds, child), h, rfl⟩
      have hb : (p.1 == e) = false := by simpa using hne
      simp only [List.find?_cons, hb]
      exact ih hn.2 h

/-! ### all folds of a component -/

mutual
def allFoldsC : Component → List Fold
  | .mk _ _ _ folds _ => allFoldsF folds
def allFoldsF : List Fold → List Fold
  | [] => []
  | .mk e fr to n ps comp imp fo post :: rest =>
    .mk e fr to n ps comp imp fo post :: (allFoldsC comp ++ allFoldsF rest)
end

mutual
theorem allFoldsC_eids : ∀ (c : Component), ((allFoldsC c).map (·.eid)).Sublist (allEids c)
  | .mk r vs es fs os => by
    simp only [allFoldsC, allEids]
    exact (allFoldsF_eids fs).trans (List.sublist_append_right _ _)
theorem allFoldsF_eids : ∀ (fs : List Fold), ((allFoldsF fs).map (·.eid)).Sublist (foldsEids fs)
  | [] => List.Sublist.refl _
  | .mk e fr to n ps comp imp fo post :: rest => by
    simp only [allFoldsF, foldsEids, List.map_cons, List.map_append, Fold.eid]
    exact List.Sublist.cons_cons _ (List.Sublist.append (allFoldsC_eids comp) (allFoldsF_eids rest))
end

/-- The key table read off the IR. -/
def fkOf (comp : Component) (e : Eid) : List (Eid × Name) :=
  match (allFoldsC comp).find? (·.eid == e) with
  | some f => foldKeys f
  | none => []

theorem find?_fold_of_mem {fs : List Fold} {f : Fold} (hn : (fs.map (·.eid)).Nodup) (hm : f ∈ fs) :
    fs.find? (·.eid == f.eid) = some f := by
  induction fs with
  | nil => cases hm
  | cons p rest ih =>
    simp only [List.map_cons, List.nodup_cons] at hn
    rcases List.mem_cons.1 hm with h | h
    · subst h; simp
    · have hne : p.eid ≠ f.eid := by
        intro he
        apply hn.1
        rw [he]
        exact List.mem_map.2 ⟨f, h, rfl⟩
      have hb : (p.eid == f.eid) = false := by simpa using hne
      simp only [List.find?_cons, hb]
      exact ih hn.2 h

mutual
theorem FKAllC_of : ∀ (FK : Eid → List (Eid × Name)) (c : Component),
    (∀ f ∈ allFoldsC c, FK f.eid = foldKeys f) → FKAllC FK c
  | FK, .mk r vs es fs os, h => by
    simp only [FKAllC]
    exact FKAllF_of FK fs (by simpa [allFoldsC] using h)
theorem FKAllF_of : ∀ (FK : Eid → List (Eid × Name)) (fs : List Fold),
    (∀ f ∈ allFoldsF fs, FK f.eid = foldKeys f) → FKAllF FK fs
  | _, [], _ => trivial
  | FK, .mk e fr to n ps comp imp fo post :: rest, h => by
    simp only [FKAllF]
    refine ⟨h (.mk e fr to n ps comp imp fo post) (by simp [allFoldsF]), FKAllC_of FK comp fun f hf => h f (by simp [allFoldsF, hf]),
      FKAllF_of FK rest fun f hf => h f (by simp [allFoldsF, hf])⟩
end

theorem nodup_of_natsDistinct {l : List Nat} (h : natsDistinct l = true) : l.Nodup := by
  induction l with
  | nil => exact List.nodup_nil
  | cons n rest ih =>
    simp only [natsDistinct, Bool.and_eq_true, Bool.not_eq_true', List.contains_eq_mem,
      decide_eq_false_iff_not] at h
    exact List.nodup_cons.2 ⟨h.1, ih h.2⟩

theorem fkAll_of_unique (comp : Component) (h : natsDistinct (allEids comp) = true) :
    FKAllF (fkOf comp) comp.folds := by
  have hnd : ((allFoldsC comp).map (·.eid)).Nodup :=
    List.Nodup.sublist (allFoldsC_eids comp) (nodup_of_natsDistinct h)
  have : FKAllC (fkOf comp) comp := by
    apply FKAllC_of
    intro f hf
    unfold fkOf
    rw [find?_fold_of_mem hnd hf]
  cases comp
  simpa [FKAllC, Component.folds] using this

/-! ### fold nesting vs height -/

mutual
theorem foldHeight_lt : ∀ (node : QNode), foldHeight node + 1 ≤ height node
  | .mk ct fields => by
    simp only [foldHeight, height]
    have := foldHeightFields_le fields
    omega
theorem foldHeightFields_le : ∀ (fields : List QField), foldHeightFields fields ≤ heightFields fields
  | [] => by simp [foldHeightFields, heightFields]
  | .prop _ _ :: rest => by
    simpa [foldHeightFields, heightFields] using foldHeightFields_le rest
  | .edge _ _ kind child :: rest => by
    have h1 := foldHeight_lt child
    have h2 := foldHeightFields_le rest
    simp only [foldHeightFields, heightFields]
    cases kind <;> simp only <;> omega
end

end TF.InterpSpec
