/-
C01 main theorem, static part (with folds): the tag table after phase A, in terms of the tree
tables — property tags come from the node table, count tags from the fold table; the names are
the tag names of the tree.
-/
import TrustfallModel.Proofs.InterpSpec4.StaticCert

namespace TF.InterpSpec
open TF TF.Engine TF.Spec TF.Frontend

/-- The tag entry comes from the given node / fold tables. -/
def TagFrom (tblS : List (Vid × List QField)) (ftblS : List (Eid × List FDir × QNode))
    (e : TagEntry) : Prop :=
  (∃ w fld ty fs, e.field = .ctx w fld ty ∧ (w, fs) ∈ tblS ∧ (e.name, fld) ∈ tagPairs fs) ∨
  (∃ eid root fds child, e.field = .fcount eid root ∧ root = eid + 1 ∧ (eid, fds, child) ∈ ftblS ∧
    e.name ∈ countTagNames fds)

theorem TagFrom.mono {t1 t2 : List (Vid × List QField)} {f1 f2 : List (Eid × List FDir × QNode)}
    (ht : ∀ p ∈ t1, p ∈ t2) (hf : ∀ p ∈ f1, p ∈ f2) {e : TagEntry} (h : TagFrom t1 f1 e) :
    TagFrom t2 f2 e := by
  rcases h with ⟨w, fld, ty, fs, h1, h2, h3⟩ | ⟨eid, root, fds, child, h1, hr, h2, h3⟩
  · exact Or.inl ⟨w, fld, ty, fs, h1, ht _ h2, h3⟩
  · exact Or.inr ⟨eid, root, fds, child, h1, hr, hf _ h2, h3⟩

theorem tagDirs_names (vid : Vid) (n : Name) (pty : QTy) (dirs : List Dir) :
    (tagDirs vid n pty dirs).map (·.1) = (dirTags n dirs).map (·.1) := by
  induction dirs with
  | nil => rfl
  | cons d rest ih => cases d <;> simp_all [tagDirs, dirTags, List.filterMap_cons]

theorem tagDirs_from (vid : Vid) (n : Name) (pty : QTy) (dirs : List Dir) :
    ∀ p ∈ tagDirs vid n pty dirs, ∃ ty, p.2 = .ctx vid n ty ∧ (p.1, n) ∈ dirTags n dirs := by
  induction dirs with
  | nil => intro p hp; cases hp
  | cons d rest ih =>
    cases d with
    | filter op arg => simpa [tagDirs, dirTags, List.filterMap_cons] using ih
    | output o => simpa [tagDirs, dirTags, List.filterMap_cons] using ih
    | tag t =>
      intro p hp
      simp only [tagDirs, List.mem_cons] at hp
      rcases hp with rfl | hp
      · exact ⟨pty, rfl, by simp [dirTags, List.filterMap_cons]⟩
      · obtain ⟨ty, h1, h2⟩ := ih p hp
        exact ⟨ty, h1, by simp [dirTags, List.filterMap_cons] at h2 ⊢; exact Or.inr h2⟩

theorem countTags_names (e : Eid) (root : Vid) (fds : List FDir) :
    (countTags e root fds).map (·.1) = countTagNames fds := by
  induction fds with
  | nil => rfl
  | cons d rest ih => cases d <;> simp_all [countTags, countTagNames]

theorem countTags_from (e : Eid) (root : Vid) (fds : List FDir) :
    ∀ p ∈ countTags e root fds, p.2 = .fcount e root ∧ p.1 ∈ countTagNames fds := by
  induction fds with
  | nil => intro p hp; cases hp
  | cons d rest ih =>
    cases d with
    | countTag t =>
      intro p hp
      simp only [countTags, List.mem_cons] at hp
      rcases hp with rfl | hp
      · exact ⟨rfl, by simp [countTagNames]⟩
      · exact ⟨(ih p hp).1, by simp [countTagNames, (ih p hp).2]⟩
    | countOutput o => simpa [countTags, countTagNames] using ih
    | countFilter op arg => simpa [countTags, countTagNames] using ih

/-- A tag entry of the node `vid` itself. -/
def OwnTag (vid : Vid) (fields : List QField) (e : TagEntry) : Prop :=
  ∃ fld ty, e.field = .ctx vid fld ty ∧ (e.name, fld) ∈ tagPairs fields

/-- The tags registered while a sub-tree (with folds) is walked. -/
theorem tags_fill3 (S : SchemaView) :
    (∀ path vid pre node st acc st', fillNode S path vid pre node st = .ok (acc, st') →
      st.nextVid = st.nextEid + 1 →
      ∃ new, st'.tags = st.tags ++ new ∧ (new.map (·.name)).Perm (treeTagNames node) ∧
        ∀ e ∈ new, TagFrom (tblNode node vid st.nextVid) (ftblNode node st.nextVid) e) ∧
    (∀ path vid ty fields st acc st', fillFields S path vid ty fields st = .ok (acc, st') →
      st.nextVid = st.nextEid + 1 →
      ∃ new, st'.tags = st.tags ++ new ∧
        (new.map (·.name)).Perm ((tagPairs fields).map (·.1) ++ fieldsTagNames fields) ∧
        ∀ e ∈ new, OwnTag vid fields e ∨
          TagFrom (tblFields fields st.nextVid) (ftblFields fields st.nextVid) e) := by
  apply fill_induct S
    (P1 := fun _ vid _ node st _ st' => st.nextVid = st.nextEid + 1 →
      ∃ new, st'.tags = st.tags ++ new ∧ (new.map (·.name)).Perm (treeTagNames node) ∧
        ∀ e ∈ new, TagFrom (tblNode node vid st.nextVid) (ftblNode node st.nextVid) e)
    (P2 := fun _ vid _ fields st _ st' => st.nextVid = st.nextEid + 1 →
      ∃ new, st'.tags = st.tags ++ new ∧
        (new.map (·.name)).Perm ((tagPairs fields).map (·.1) ++ fieldsTagNames fields) ∧
        ∀ e ∈ new, OwnTag vid fields e ∨
          TagFrom (tblFields fields st.nextVid) (ftblFields fields st.nextVid) e)
  · intro path vid pre ct fields st post acc1 st' _ _ ih h0
    obtain ⟨new, h1, h2, h3⟩ := ih h0
    refine ⟨new, h1, by simpa [treeTagNames] using h2, ?_⟩
    intro e he
    rcases h3 e he with ⟨fld, ty, hf, hp⟩ | h
    · exact Or.inl ⟨vid, fld, ty, fields, hf, by simp [tblNode], hp⟩
    · exact h.mono (fun p hp => by simp [tblNode, hp]) (fun p hp => by simpa [ftblNode] using hp)
  · intro path vid ty st _
    exact ⟨[], by simp, by simp [tagPairs, fieldsTagNames], by simp⟩
  · intro path vid ty n dirs rest st pty st1 acc1 st' _ h2 _ ih h0
    obtain ⟨e1, e2, _, ht⟩ := registerTags_inv h2
    obtain ⟨newR, r1, r2, r3⟩ := ih (by rw [e1, e2]; exact h0)
    rw [e1] at r3
    refine ⟨(tagDirs vid n pty dirs).map (fun (p : Name × FieldRef) => ⟨p.1, p.2, path⟩) ++ newR,
      by rw [r1, ht, List.append_assoc], ?_, ?_⟩
    · have hn := tagDirs_names vid n pty dirs
      simp only [List.map_append, List.map_map, Function.comp_def, tagPairs, fieldsTagNames,
        List.append_assoc] at hn ⊢
      rw [hn]
      exact List.Perm.append_left _ r2
    · intro e he
      rcases List.mem_append.1 he with h | h
      · obtain ⟨p, hp, rfl⟩ := List.mem_map.1 h
        obtain ⟨ty', hp2, hp1⟩ := tagDirs_from vid n pty dirs p hp
        exact Or.inl ⟨n, ty', hp2, by simp only [tagPairs, List.mem_append]; exact Or.inl hp1⟩
      · rcases r3 e h with ⟨fld, ty', hf, hp⟩ | h'
        · exact Or.inl ⟨fld, ty', hf, by simp only [tagPairs, List.mem_append]; exact Or.inr hp⟩
        · exact Or.inr (h'.mono (fun p hp => by simpa [tblFields] using hp)
            (fun p hp => by simpa [ftblFields] using hp))
  · intro path vid ty n params fds child rest st ed ps accIn st2 comp evs st3 post evPost st4 st5
      accR st' _ _ h3 h4 h5 h6 _ ihC ihR h0
    have b1 : st.bump.nextVid = st.nextVid + 1 := rfl
    have b2 : st.bump.nextEid = st.nextEid + 1 := rfl
    have b3 : st.bump.tags = st.tags := rfl
    obtain ⟨newC, c1, c2, c3⟩ := ihC (by rw [b1, b2, h0])
    rw [b1] at c3
    rw [b3] at c1
    obtain ⟨_, _, hcore⟩ := allVids_finish h4
    have c34 := resolveFilters_core h5
    obtain ⟨hv5, he5, _, ht5⟩ := registerTags_inv h6
    have kC := (keys_fill3 S).1 _ _ _ _ _ _ _ h3 (by rw [b1, b2, h0])
    have hs := (size_fill S).1 _ _ _ _ _ _ _ h3
    rw [b1] at hs
    have hn5 : st5.nextVid = st.nextVid + 1 + size child := by rw [hv5, ← c34.1, ← hcore.1, hs]
    have h05 : st5.nextVid = st5.nextEid + 1 := by
      rw [hv5, he5, ← c34.1, ← c34.2.1, ← hcore.1, ← hcore.2.1]; exact kC.sync
    obtain ⟨newR, r1, r2, r3⟩ := ihR h05
    rw [hn5] at r3
    have hveid : st.nextVid - 1 = st.nextEid := by simp only [Vid, Eid] at *; omega
    have hft : ftblFields (.edge n params (.fold fds) child :: rest) st.nextVid =
        (st.nextEid, fds, child) :: (ftblNode child (st.nextVid + 1) ++
          ftblFields rest (st.nextVid + 1 + size child)) := by
      simp [ftblFields, hveid]
    refine ⟨newC ++ (countTags st.nextEid st.nextVid fds).map
        (fun (p : Name × FieldRef) => ⟨p.1, p.2, path⟩) ++ newR, ?_, ?_, ?_⟩
    · rw [r1, ht5, ← c34.2.2, ← hcore.2.2, c1]; simp [List.append_assoc]
    · have hcn := countTags_names st.nextEid st.nextVid fds
      simp only [List.map_append, List.map_map, Function.comp_def, tagPairs, fieldsTagNames] at hcn ⊢
      rw [hcn]
      -- newC ++ cnt ++ newR  ~  P ++ (cnt ++ treeTags child ++ rest')
      have h1 : (newC.map (·.name) ++ countTagNames fds ++ newR.map (·.name)).Perm
          (treeTagNames child ++ countTagNames fds ++
            ((tagPairs rest).map (·.1) ++ fieldsTagNames rest)) :=
        (c2.append (List.Perm.refl _)).append r2
      refine h1.trans ((perm_move_front _ _ _).trans (List.Perm.append_left _ ?_))
      exact List.Perm.append_right _ List.perm_append_comm
    · intro e he
      simp only [List.mem_append] at he
      rcases he with (h | h) | h
      · exact Or.inr ((c3 e h).mono
          (fun p hp => by simp only [tblFields, List.mem_append]; exact Or.inl hp)
          (fun p hp => by rw [hft]; exact List.mem_cons_of_mem _ (List.mem_append_left _ hp)))
      · obtain ⟨p, hp, rfl⟩ := List.mem_map.1 h
        obtain ⟨hp2, hp1⟩ := countTags_from st.nextEid st.nextVid fds p hp
        exact Or.inr (Or.inr ⟨st.nextEid, st.nextVid, fds, child, hp2, h0,
          by rw [hft]; exact List.mem_cons_self .., hp1⟩)
      · rcases r3 e h with ⟨fld, ty', hf, hp⟩ | h'
        · exact Or.inl ⟨fld, ty', hf, by simpa [tagPairs] using hp⟩
        · exact Or.inr (h'.mono
            (fun p hp => by simp only [tblFields, List.mem_append]; exact Or.inr hp)
            (fun p hp => by rw [hft]; exact List.mem_cons_of_mem _ (List.mem_append_right _ hp)))
  · intro path vid ty n params kind child rest st ed ps r accC st2 accR st' hk _ _ _ h4 _ ihC ihR h0
    have b1 : st.bump.nextVid = st.nextVid + 1 := rfl
    have b2 : st.bump.nextEid = st.nextEid + 1 := rfl
    have b3 : st.bump.tags = st.tags := rfl
    obtain ⟨newC, c1, c2, c3⟩ := ihC (by rw [b1, b2, h0])
    rw [b1] at c3
    rw [b3] at c1
    have kC := (keys_fill3 S).1 _ _ _ _ _ _ _ h4 (by rw [b1, b2, h0])
    have hs := (size_fill S).1 _ _ _ _ _ _ _ h4
    rw [b1] at hs
    obtain ⟨newR, r1, r2, r3⟩ := ihR kC.sync
    rw [hs] at r3
    have hft : ftblFields (.edge n params kind child :: rest) st.nextVid =
        ftblNode child (st.nextVid + 1) ++ ftblFields rest (st.nextVid + 1 + size child) := by
      cases kind with
      | fold fds => exact absurd rfl (hk fds)
      | plain => rfl
      | optional => rfl
      | recurse d => rfl
    have hftn : fieldsTagNames (.edge n params kind child :: rest) =
        treeTagNames child ++ fieldsTagNames rest := by
      cases kind with
      | fold fds => exact absurd rfl (hk fds)
      | plain => rfl
      | optional => rfl
      | recurse d => rfl
    refine ⟨newC ++ newR, by rw [r1, c1, List.append_assoc], ?_, ?_⟩
    · rw [List.map_append, hftn]
      simp only [tagPairs]
      exact (c2.append r2).trans (perm_move_front _ _ _)
    · intro e he
      rcases List.mem_append.1 he with h | h
      · exact Or.inr ((c3 e h).mono
          (fun p hp => by simp only [tblFields, List.mem_append]; exact Or.inl hp)
          (fun p hp => by rw [hft]; exact List.mem_append_left _ hp))
      · rcases r3 e h with ⟨fld, ty', hf, hp⟩ | h'
        · exact Or.inl ⟨fld, ty', hf, by simpa [tagPairs] using hp⟩
        · exact Or.inr (h'.mono
            (fun p hp => by simp only [tblFields, List.mem_append]; exact Or.inr hp)
            (fun p hp => by rw [hft]; exact List.mem_append_right _ hp))

end TF.InterpSpec
