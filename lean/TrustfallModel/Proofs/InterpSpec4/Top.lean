/-
C01 main theorem, layer 8 (with folds): from a certificate for the whole query to the equality of
rows.
-/
import TrustfallModel.Proofs.InterpSpec4.Rows

namespace TF.InterpSpec
open TF TF.Engine TF.Spec

/-- Everything the correspondence needs about one query and its IR. -/
structure RootCert (W : World) (q : Query) (ir : IRQuery) (ss : List Stage) (evs : List Ev) : Prop where
  comp_eq : ir.rootComponent = W.comp
  chain : W.chain = []
  start : W.D.start q.rootEdge
      (Spec.completeParams (declParams W.senv [""] q.rootEdge) q.rootParams) =
    W.D.start ir.rootName ir.rootParams
  node : NodeCert W q.root W.comp.root [] ss evs
  merge : mergeStages W.comp.edges W.comp.folds (W.comp.edges.length + W.comp.folds.length) = .ok ss
  hyps : SimHyps W [] evs
  outs : OutsOK W (vtxs evs)
  fuel : height q.root ≤ 64
  ifuel : foldHeight q.root ≤ 63

theorem rows_toOption (env : SpecEnv) (q : Query) :
    (Spec.rows env q).toOption =
      (flatMapO (fun v => (evalNode env sizeBound q.root (some v) { tags := [], outs := [] }).toOption)
        (env.data.start q.rootEdge
          (Spec.completeParams (declParams env [""] q.rootEdge) q.rootParams))).map
        (List.map fun a => sortRow a.outs) := by
  unfold Spec.rows
  simp only [← toOption_flatMapR]
  cases flatMapR _ _ <;> rfl

theorem interp_eq_spec_of_cert (W : World) (q : Query) (ir : IRQuery) (ss : List Stage)
    (evs : List Ev) (h : RootCert W q ir ss evs) :
    (interpret W.env ir).toOption = (Spec.rows W.senv q).toOption := by
  obtain ⟨V, evs', sfs, hvs, hV, hVid, hfl⟩ := h.node.dest
  have h0 := nodeCert_stage_nil q.root W W.comp.root [] ss evs h.node 63
  have hvisit : VisitOK [W.comp.root] ss :=
    (visit_node q.root W W.comp.root [] ss evs h.node (by simpa using h.hyps.nd)
      [W.comp.root] (by simp [evVid])).1
  rw [rows_toOption, World.senv_data, h.start]
  unfold interpret interpretFrom
  simp only [h.comp_eq, fuelFor]
  have hstart : W.env.adapter.start ir.rootName ir.rootParams W.comp.root =
      .ok (W.D.start ir.rootName ir.rootParams) := rfl
  rw [hstart, R.bind_ok, R.toOption_bind,
    computeComponent_eq W 63 V ss hV h.merge hvisit h0,
    Hom.eq_flatMapO (enterVertex_hom W.env W.comp V)
      (by rw [enterVertex_nil W W.comp.root V hV hVid _ sfs hfl]; rfl)]
  have hl : runO W 63 ss = flatMapO (fun c' => runO W 63 ss [c']) :=
    funext (runO_linear W 63 ss)
  rw [hl, flatMapO_assoc, flatMapO_map]
  have hsim : SimO (absL W [] evs) (fun c' => Inv W c' evs)
      (flatMapO (fun x => (enterVertex W.env W.comp V [Ctx.new (some x)]).toOption.bind
          (flatMapO fun c' => runO W 63 ss [c'])) (W.D.start ir.rootName ir.rootParams))
      (flatMapO (fun v => (evalNode W.senv sizeBound q.root (some v) { tags := [], outs := [] }).toOption)
        (W.D.start ir.rootName ir.rootParams)) := by
    apply SimO.flatMapO
    intro x _
    have := sim_node q.root W W.comp.root [] ss evs h.node 64 63 h.fuel h.ifuel []
      (Ctx.new (some x)) ⟨rfl, rfl, by simp [fvKeys, Ctx.new]⟩
      ⟨by simp [Ctx.new], by simp [Ctx.new, h.chain], by simp [h.chain]⟩ (by simpa using h.hyps)
    simp only [nodeO, hV, List.nil_append, absL_nil] at this
    rw [← hl]
    exact this.mono fun c' hc' => hc'.2.1
  revert hsim
  generalize flatMapO (fun x => (enterVertex W.env W.comp V [Ctx.new (some x)]).toOption.bind
    (flatMapO fun c' => runO W 63 ss [c'])) (W.D.start ir.rootName ir.rootParams) = I
  generalize flatMapO (fun v => (evalNode W.senv sizeBound q.root (some v)
    { tags := [], outs := [] }).toOption) (W.D.start ir.rootName ir.rootParams) = Sp
  intro hsim
  cases I with
  | none => cases Sp <;> simp_all [SimO]
  | some cs =>
    cases Sp with
    | none => simp_all [SimO]
    | some as =>
      obtain ⟨rfl, hP⟩ := hsim
      simp only [Option.bind_some, Option.map_some]
      rw [mapR_ok_of_all (g := fun c => sortRow (absL W [] evs c).outs)]
      · simp [Function.comp_def]
      · intro c hc
        exact constructRow_final W evs h.outs c (hP c hc) h.hyps.keys h.hyps.on h.hyps.evNodup

end TF.InterpSpec
