/-
C01 main theorem, static part (with folds): the events of a component as a function of the query
tree and the numbering, and what the static tables say about them.
-/
import TrustfallModel.Proofs.InterpSpec4.Top
import TrustfallModel.Proofs.InterpSpec4.HypsDef3
import TrustfallModel.Proofs.InterpSpec.StaticTags

namespace TF.InterpSpec
open TF TF.Engine TF.Spec TF.Frontend

mutual
/-- The events of the component whose (sub-)tree is `node` numbered `vid`, fresh Vids from `next`:
the node, then per selection the events of a plain/optional/recursive child, or the fold itself
(the fold's component is another component). -/
def evsNode : QNode → Vid → Vid → List Ev
  | .mk _ fields, vid, next => .vtx vid :: evsFields fields next
def evsFields : List QField → Vid → List Ev
  | [], _ => []
  | .prop _ _ :: rest, next => evsFields rest next
  | .edge _ _ kind child :: rest, next =>
    (match kind with
      | .fold _ => [.fold (next - 1)]
      | _ => evsNode child next (next + 1)) ++ evsFields rest (next + 1 + size child)
end

mutual
theorem evsNode_bounds : ∀ (node : QNode) (vid next : Vid), 1 ≤ next →
    (∀ x ∈ (evsFields (match node with | .mk _ fs => fs) next).map evVid,
        next ≤ x ∧ x < next + size node) ∧
      ((evsFields (match node with | .mk _ fs => fs) next).map evVid).Pairwise (· < ·)
  | .mk ct fields, vid, next, h1 => by
    simpa [size] using evsFields_bounds fields next h1
theorem evsFields_bounds : ∀ (fields : List QField) (next : Vid), 1 ≤ next →
    (∀ x ∈ (evsFields fields next).map evVid, next ≤ x ∧ x < next + sizeFields fields) ∧
      ((evsFields fields next).map evVid).Pairwise (· < ·)
  | [], next, _ => by simp [evsFields]
  | .prop _ _ :: rest, next, h1 => by
    simpa [evsFields, sizeFields] using evsFields_bounds rest next h1
  | .edge _ _ kind (.mk ct cf) :: rest, next, h1 => by
    have hC := evsNode_bounds (.mk ct cf) next (next + 1) (by simp only [Vid] at *; omega)
    have hR := evsFields_bounds rest (next + 1 + size (.mk ct cf)) (by simp only [Vid] at *; omega)
    simp only at hC
    -- the events of the first selection: all in `[next, next + 1 + size child)`, increasing
    have hfirst : (∀ x ∈ ((match kind with
          | .fold _ => [Ev.fold (next - 1)]
          | _ => evsNode (.mk ct cf) next (next + 1)).map evVid),
          next ≤ x ∧ x < next + 1 + size (.mk ct cf)) ∧
        ((match kind with
          | .fold _ => [Ev.fold (next - 1)]
          | _ => evsNode (.mk ct cf) next (next + 1)).map evVid).Pairwise (· < ·) := by
      have hnode : (∀ x ∈ (evsNode (.mk ct cf) next (next + 1)).map evVid,
            next ≤ x ∧ x < next + 1 + size (.mk ct cf)) ∧
          ((evsNode (.mk ct cf) next (next + 1)).map evVid).Pairwise (· < ·) := by
        simp only [evsNode, List.map_cons, evVid]
        constructor
        · intro x hx
          rcases List.mem_cons.1 hx with rfl | hx
          · simp only [Vid] at *; omega
          · have := hC.1 x hx; simp only [Vid] at *; omega
        · refine List.pairwise_cons.2 ⟨?_, hC.2⟩
          intro x hx; have := hC.1 x hx; simp only [Vid] at *; omega
      cases kind with
      | fold fds =>
        simp only [List.map_cons, List.map_nil, evVid, List.mem_singleton]
        refine ⟨fun x hx => by subst hx; simp only [Vid, Eid] at *; omega, by simp⟩
      | plain => exact hnode
      | optional => exact hnode
      | recurse d => exact hnode
    simp only [evsFields, List.map_append, sizeFields]
    constructor
    · intro x hx
      rcases List.mem_append.1 hx with h | h
      · have := hfirst.1 x h; simp only [Vid] at *; omega
      · have := hR.1 x h; simp only [Vid] at *; omega
    · apply pairwise_append_of hfirst.2 hR.2
      intro a ha b hb
      have := hfirst.1 a ha; have := hR.1 b hb; simp only [Vid] at *; omega
end

/-- The events of a component occupy strictly increasing Vids. -/
theorem evsNode_sorted (node : QNode) (vid next : Vid) (h : vid < next) :
    ((evsNode node vid next).map evVid).Pairwise (· < ·) := by
  cases node with
  | mk ct fields =>
    have hb := evsFields_bounds fields next (by simp only [Vid] at *; omega)
    simp only [evsNode, List.map_cons, evVid]
    refine List.pairwise_cons.2 ⟨?_, hb.2⟩
    intro x hx
    have := hb.1 x hx
    simp only [Vid] at *; omega

end TF.InterpSpec

namespace TF.InterpSpec
open TF TF.Engine TF.Spec TF.Frontend

/-- The static tables of a world agree with the tree tables. -/
structure TablesOK (W : World) (tbl : List (Vid × List QField))
    (ftbl : List (Eid × List FDir × QNode)) : Prop where
  tg : ∀ w fs, (w, fs) ∈ tbl → W.TG w = tagPairs fs ∧ W.OG w = outPairs fs
  ft : ∀ e fds child, (e, fds, child) ∈ ftbl →
    W.CT e = countTagNames fds ∧ W.CO e = countOutNames fds ∧ W.ON e = outNames child ∧
      W.IT e = treeTagNames child

theorem countTagNames_eq (fds : List FDir) :
    (fds.filterMap fun d => match d with | .countTag n => some n | _ => none) = countTagNames fds := by
  induction fds with
  | nil => rfl
  | cons d rest ih => cases d <;> simp_all [countTagNames, List.filterMap_cons]

theorem countOutNames_eq (fds : List FDir) :
    (fds.filterMap fun d => match d with | .countOutput n => some n | _ => none) = countOutNames fds := by
  induction fds with
  | nil => rfl
  | cons d rest ih => cases d <;> simp_all [countOutNames, List.filterMap_cons]

theorem countOutputNames_eq (fds : List FDir) : countOutputNames fds = countOutNames fds := by
  induction fds with
  | nil => rfl
  | cons d rest ih => cases d <;> simp_all [countOutNames, countOutputNames]

mutual
/-- The specification's and the frontend's lists of output names coincide. -/
theorem outNames_eq_tree : ∀ (node : QNode), outNames node = treeOutputNames node
  | .mk ct fields => by
    simp only [outNames, treeOutputNames]; exact outNamesFields_eq_tree fields
theorem outNamesFields_eq_tree : ∀ (fields : List QField),
    outNamesFields fields = fieldsOutputNames fields
  | [] => rfl
  | .prop n dirs :: rest => by
    simp only [outNamesFields, fieldsOutputNames, outNamesFields_eq_tree rest]
    congr 1
  | .edge n ps kind child :: rest => by
    cases kind with
    | fold fds =>
      simp only [outNamesFields, fieldsOutputNames, outNames_eq_tree child,
        outNamesFields_eq_tree rest, countOutputNames_eq]
      congr 2
      induction fds with
      | nil => rfl
      | cons d ds ih => cases d <;> simp_all [countOutNames, List.filterMap_cons]
    | plain => simp [outNamesFields, fieldsOutputNames, outNames_eq_tree child, outNamesFields_eq_tree rest]
    | optional => simp [outNamesFields, fieldsOutputNames, outNames_eq_tree child, outNamesFields_eq_tree rest]
    | recurse d => simp [outNamesFields, fieldsOutputNames, outNames_eq_tree child, outNamesFields_eq_tree rest]
end

mutual
/-- The tag names of the events of a component (incl. everything inside its folds), in DFS order:
the tag names of the tree. -/
theorem deepTagNames_node (W : World) (tbl : List (Vid × List QField))
    (ftbl : List (Eid × List FDir × QNode)) (ht : TablesOK W tbl ftbl) :
    ∀ (node : QNode) (vid next : Vid), (∀ p ∈ tblNode node vid next, p ∈ tbl) →
    (∀ p ∈ ftblNode node next, p ∈ ftbl) →
    deepTagNames W (evsNode node vid next) = treeTagNames node
  | .mk ct fields, vid, next, h1, h2 => by
    have := deepTagNames_fields W tbl ftbl ht fields next
      (fun p hp => h1 p (by simp [tblNode, hp])) (fun p hp => h2 p (by simpa [ftblNode] using hp))
    simp only [evsNode, deepTagNames, List.flatMap_cons, evDeepTagNames, treeTagNames]
    rw [(ht.tg vid fields (h1 _ (by simp [tblNode]))).1]
    congr 1
theorem deepTagNames_fields (W : World) (tbl : List (Vid × List QField))
    (ftbl : List (Eid × List FDir × QNode)) (ht : TablesOK W tbl ftbl) :
    ∀ (fields : List QField) (next : Vid), (∀ p ∈ tblFields fields next, p ∈ tbl) →
    (∀ p ∈ ftblFields fields next, p ∈ ftbl) →
    deepTagNames W (evsFields fields next) = fieldsTagNames fields
  | [], next, _, _ => rfl
  | .prop n dirs :: rest, next, h1, h2 => by
    simpa [evsFields, fieldsTagNames] using deepTagNames_fields W tbl ftbl ht rest next
      (fun p hp => h1 p (by simpa [tblFields] using hp)) (fun p hp => h2 p (by simpa [ftblFields] using hp))
  | .edge n ps kind child :: rest, next, h1, h2 => by
    have hR := deepTagNames_fields W tbl ftbl ht rest (next + 1 + size child)
      (fun p hp => h1 p (by simp [tblFields, hp])) (fun p hp => h2 p (by simp [ftblFields, hp]))
    cases kind with
    | fold fds =>
      have hf := ht.ft (next - 1) fds child (h2 _ (by simp [ftblFields]))
      simp only [evsFields, deepTagNames, List.flatMap_append, List.flatMap_cons, List.flatMap_nil,
        List.append_nil, evDeepTagNames, fieldsTagNames] at hR ⊢
      rw [hR, hf.1, hf.2.2.2, List.append_assoc]
    | plain =>
      have hC := deepTagNames_node W tbl ftbl ht child next (next + 1)
        (fun p hp => h1 p (by simp [tblFields, hp])) (fun p hp => h2 p (by simp [ftblFields, hp]))
      simp only [evsFields, deepTagNames_append, fieldsTagNames, hC, hR, List.nil_append]
    | optional =>
      have hC := deepTagNames_node W tbl ftbl ht child next (next + 1)
        (fun p hp => h1 p (by simp [tblFields, hp])) (fun p hp => h2 p (by simp [ftblFields, hp]))
      simp only [evsFields, deepTagNames_append, fieldsTagNames, hC, hR, List.nil_append]
    | recurse d =>
      have hC := deepTagNames_node W tbl ftbl ht child next (next + 1)
        (fun p hp => h1 p (by simp [tblFields, hp])) (fun p hp => h2 p (by simp [ftblFields, hp]))
      simp only [evsFields, deepTagNames_append, fieldsTagNames, hC, hR, List.nil_append]
end

end TF.InterpSpec

namespace TF.InterpSpec
open TF TF.Engine TF.Spec TF.Frontend

theorem perm_move_front {α : Type} (p e r : List α) : (p ++ (e ++ r)).Perm (e ++ (p ++ r)) := by
  rw [← List.append_assoc, ← List.append_assoc]
  exact List.Perm.append_right r List.perm_append_comm

theorem dirOuts_names (n : Name) (dirs : List Dir) :
    (dirOuts n dirs).map (·.1) = dirs.filterMap fun d => match d with | .output o => some o | _ => none := by
  induction dirs with
  | nil => rfl
  | cons d rest ih => cases d <;> simp_all [dirOuts, List.filterMap_cons]

mutual
/-- The output names of the events of a component (incl. everything below its folds): the output
names of the tree, up to order. -/
theorem outNamesL_node (W : World) (tbl : List (Vid × List QField))
    (ftbl : List (Eid × List FDir × QNode)) (ht : TablesOK W tbl ftbl) :
    ∀ (node : QNode) (vid next : Vid), (∀ p ∈ tblNode node vid next, p ∈ tbl) →
    (∀ p ∈ ftblNode node next, p ∈ ftbl) →
    (outNamesL W (evsNode node vid next)).Perm (outNames node)
  | .mk ct fields, vid, next, h1, h2 => by
    have := outNamesL_fields W tbl ftbl ht fields next
      (fun p hp => h1 p (by simp [tblNode, hp])) (fun p hp => h2 p (by simpa [ftblNode] using hp))
    simp only [evsNode, outNamesL, List.flatMap_cons, evOutNames, outNames]
    rw [(ht.tg vid fields (h1 _ (by simp [tblNode]))).2]
    exact this
theorem outNamesL_fields (W : World) (tbl : List (Vid × List QField))
    (ftbl : List (Eid × List FDir × QNode)) (ht : TablesOK W tbl ftbl) :
    ∀ (fields : List QField) (next : Vid), (∀ p ∈ tblFields fields next, p ∈ tbl) →
    (∀ p ∈ ftblFields fields next, p ∈ ftbl) →
    ((outPairs fields).map (·.1) ++ outNamesL W (evsFields fields next)).Perm (outNamesFields fields)
  | [], next, _, _ => by simp [outPairs, evsFields, outNamesL, outNamesFields]
  | .prop n dirs :: rest, next, h1, h2 => by
    have hR := outNamesL_fields W tbl ftbl ht rest next
      (fun p hp => h1 p (by simpa [tblFields] using hp)) (fun p hp => h2 p (by simpa [ftblFields] using hp))
    simp only [outPairs, evsFields, outNamesFields, List.map_append, List.append_assoc]
    rw [dirOuts_names]
    have hm : ∀ (l : List Dir),
        (l.filterMap fun d => match d with | .output o => some o | _ => none) =
        (l.filterMap fun d => match d with | Dir.output n => some n | _ => none) := fun _ => rfl
    exact List.Perm.append_left _ hR
  | .edge n ps kind child :: rest, next, h1, h2 => by
    have hR := outNamesL_fields W tbl ftbl ht rest (next + 1 + size child)
      (fun p hp => h1 p (by simp [tblFields, hp])) (fun p hp => h2 p (by simp [ftblFields, hp]))
    have hnode := fun (_ : True) => outNamesL_node W tbl ftbl ht child next (next + 1)
      (fun p hp => h1 p (by simp [tblFields, hp])) (fun p hp => h2 p (by simp [ftblFields, hp]))
    cases kind with
    | fold fds =>
      have hf := ht.ft (next - 1) fds child (h2 _ (by simp [ftblFields]))
      simp only [outPairs, evsFields, outNamesL, List.flatMap_append, List.flatMap_cons,
        List.flatMap_nil, List.append_nil, evOutNames, outNamesFields, hf.2.1, hf.2.2.1] at hR ⊢
      generalize hG : (fun (d : FDir) => (_ : Option Name)) = G
      have hco : fds.filterMap G = countOutNames fds := by
        subst hG
        clear hf h1 h2 hR hnode
        induction fds with
        | nil => rfl
        | cons d ds ih => cases d <;> simp_all [countOutNames, List.filterMap_cons]
      rw [hco]
      have h1 := perm_move_front ((outPairs rest).map (·.1)) (countOutNames fds ++ outNames child)
        (List.flatMap (evOutNames W) (evsFields rest (next + 1 + size child)))
      exact h1.trans ((List.Perm.refl _).append hR)
    | plain =>
      simp only [outPairs, evsFields, outNamesL, List.flatMap_append, outNamesFields,
        List.nil_append] at hR ⊢
      have h1 := perm_move_front ((outPairs rest).map (·.1))
        (List.flatMap (evOutNames W) (evsNode child next (next + 1)))
        (List.flatMap (evOutNames W) (evsFields rest (next + 1 + size child)))
      exact h1.trans ((hnode trivial).append hR)
    | optional =>
      simp only [outPairs, evsFields, outNamesL, List.flatMap_append, outNamesFields,
        List.nil_append] at hR ⊢
      have h1 := perm_move_front ((outPairs rest).map (·.1))
        (List.flatMap (evOutNames W) (evsNode child next (next + 1)))
        (List.flatMap (evOutNames W) (evsFields rest (next + 1 + size child)))
      exact h1.trans ((hnode trivial).append hR)
    | recurse d =>
      simp only [outPairs, evsFields, outNamesL, List.flatMap_append, outNamesFields,
        List.nil_append] at hR ⊢
      have h1 := perm_move_front ((outPairs rest).map (·.1))
        (List.flatMap (evOutNames W) (evsNode child next (next + 1)))
        (List.flatMap (evOutNames W) (evsFields rest (next + 1 + size child)))
      exact h1.trans ((hnode trivial).append hR)
end

end TF.InterpSpec
