/-
C01 main theorem, layer 3: entering a vertex.

`perform_entry_into_new_vertex` (coercion, local filters in IR order, `record_vertex`) on ONE
context, against the node-local part of the specification (`coercionOk`, `bindProps`, the filters
in selection order).  `FilterOK` is the static relation between a specification filter and the IR
filter the frontend compiles it to.
-/
import TrustfallModel.Proofs.InterpSpec4.World

namespace TF.InterpSpec
open TF TF.Engine TF.Spec

theorem filterMapR_single {α β : Type} (f : α → R (Option β)) (x : α) :
    filterMapR f [x] = (f x).bind fun o => .ok o.toList := by
  simp only [filterMapR]
  cases f x <;> simp
  rename_i o; cases o <;> rfl

theorem mapR_single {α β : Type} (f : α → R β) (x : α) :
    mapR f [x] = (f x).bind fun y => .ok [y] := by
  simp only [mapR]
  cases f x <;> simp

theorem flatMapR_single {α β : Type} (f : α → R (List β)) (x : α) :
    flatMapR f [x] = f x := by
  simp only [flatMapR]
  cases f x <;> simp

theorem pop_push (c : Ctx) (v : Value) : (c.pushValue v).popValue = .ok (v, c) := by
  cases c; rfl

@[simp] theorem pushValue_active (c : Ctx) (v : Value) : (c.pushValue v).active = c.active := rfl
@[simp] theorem pushValue_vertexAt (c : Ctx) (v : Value) (w) : (c.pushValue v).vertexAt? w = c.vertexAt? w := rfl
@[simp] theorem pushValue_tag (c : Ctx) (v : Value) (k) : (c.pushValue v).tag? k = c.tag? k := rfl
@[simp] theorem pushValue_foldCount (c : Ctx) (v : Value) (k) : (c.pushValue v).foldCount? k = c.foldCount? k := rfl

theorem tagValue_push (env : Env) (comp : Component) (vid : Vid) (r : FieldRef) (c : Ctx) (v : Value) :
    tagValue env comp vid r (c.pushValue v) = tagValue env comp vid r c := by
  unfold tagValue
  cases r <;> simp

theorem computeLocalField_single (W : World) (vid : Vid) (t f : Name) (c : Ctx) :
    computeLocalField W.env vid t f [c] = .ok [c.pushValue (W.D.propOpt c.active f)] := by
  simp [computeLocalField, mapR]

theorem applyFilter_un (W : World) (vid : Vid) (o : Filter.UnOp) (l : Left) (r : Option Arg)
    (c : Ctx) (left : Value) :
    applyFilter W.env W.comp vid ⟨.un o, l, r⟩ [c.pushValue left] =
      .ok (if c.active.isNone || Filter.applyUnary o left then [c] else []) := by
  simp only [applyFilter, filterMapR_single, pop_push, R_bind_eq, R.bind_ok, R_pure_eq]
  cases c.active.isNone <;> cases Filter.applyUnary o left <;> rfl

theorem applyFilter_var (W : World) (vid : Vid) (o : Filter.BinOp) (l : Left) (m : Name) (ty : QTy)
    (c : Ctx) (left right : Value) (harg : W.env.arg m = .ok right)
    (hrx : isRegexOp o = true → ∃ r, Filter.compileStaticRegex W.D.regex right = .ok r) :
    applyFilter W.env W.comp vid ⟨.bin o, l, some (.var m ty)⟩ [c.pushValue left] =
      if c.active.isNone then .ok [c]
      else (R.ofOutcome "filter operator: unreachable!" (Filter.applyStatic W.D.regex o left right)).bind
        fun b => .ok (if b then [c] else []) := by
  simp only [applyFilter, harg, R_bind_eq, R.bind_ok, filterMapR_single, pop_push, R_pure_eq]
  have : (if isRegexOp o = true then
        (R.ofOutcome "regex argument was not a valid regex"
          (Filter.compileStaticRegex W.env.regex right)).map (fun _ => ())
      else R.ok ()) = R.ok () := by
    by_cases h : isRegexOp o = true
    · obtain ⟨r, hr⟩ := hrx h
      simp [h, hr, R.ofOutcome, R.map]
    · simp [h]
  rw [this]
  simp only [R.bind_ok]
  by_cases h : c.active.isNone = true
  · simp [h]
  · simp only [h]
    simp
    cases R.ofOutcome "filter operator: unreachable!" (Filter.applyStatic W.D.regex o left right) <;> simp
    rename_i b; cases b <;> rfl
end TF.InterpSpec

namespace TF.InterpSpec
open TF TF.Engine TF.Spec

def tagCont (W : World) (o : Filter.BinOp) (c : Ctx) (left : Value) : Tagged → R (List Ctx)
  | .nonexistent => .ok [c]
  | .some right =>
    if c.active.isNone then .ok [c]
    else (R.ofOutcome "filter operator: unreachable!" (Filter.applyTagged W.D.regex o left right)).bind
      fun b => .ok (if b then [c] else [])

theorem applyFilter_tag (W : World) (vid : Vid) (o : Filter.BinOp) (l : Left) (r : FieldRef)
    (c : Ctx) (left : Value) :
    applyFilter W.env W.comp vid ⟨.bin o, l, some (.tag r)⟩ [c.pushValue left] =
      (tagValue W.env W.comp vid r c).bind (tagCont W o c left) := by
  simp only [applyFilter, filterMapR_single, tagValue_push, pop_push, R_bind_eq, R_pure_eq]
  cases tagValue W.env W.comp vid r c with
  | panic s => rfl
  | fuel => rfl
  | ok t =>
    cases t with
    | nonexistent => rfl
    | some right =>
      simp only [R.bind_ok, tagCont]
      by_cases h : c.active.isNone = true
      · simp [h]
      · simp only [h]
        simp
        cases R.ofOutcome "filter operator: unreachable!" (Filter.applyTagged W.D.regex o left right) <;> simp
        rename_i b; cases b <;> rfl

theorem typeOf_of_vertex {comp : Component} {vid : Vid} {V : IRVertex} (h : comp.vertex? vid = some V) :
    comp.typeOf vid = .ok V.typeName := by
  simp [Component.typeOf, h]

theorem tagValue_local (W : World) (vid : Vid) (fld : Name) (ty : QTy) (c : Ctx) {V : IRVertex}
    (hV : W.comp.vertex? vid = some V) :
    tagValue W.env W.comp vid (.ctx vid fld ty) c = .ok (.some (W.D.propOpt c.active fld)) := by
  simp [tagValue, typeOf_of_vertex hV]

theorem tagValue_other (W : World) (vid w : Vid) (fld : Name) (ty : QTy) (c : Ctx) {Vw : IRVertex}
    (hne : w ≠ vid) (hV : W.comp.vertex? w = some Vw) {target : Option VertexId}
    (ht : c.vertexAt? w = some target) :
    tagValue W.env W.comp vid (.ctx w fld ty) c = .ok (tagOf W.D target fld) := by
  simp only [tagValue, hV, ht]
  have : (w == vid) = false := by simpa using hne
  simp [this, tagOf]
  cases target <;> rfl

end TF.InterpSpec

namespace TF.InterpSpec
open TF TF.Engine TF.Spec

theorem tagValue_fcount (W : World) (vid : Vid) (e : Eid) (root : Vid) (c : Ctx)
    (hf : W.comp.folds.any (·.eid == e) = true) {k : Option Nat} (hc : c.foldCount? e = some k) :
    tagValue W.env W.comp vid (.fcount e root) c = .ok (cntTag k) := by
  simp only [tagValue, hf, if_true, hc]
  cases k <;> rfl

theorem tagValue_imported_ctx (W : World) (vid w : Vid) (fld : Name) (ty : QTy) (c : Ctx)
    (hne : w ≠ vid) (hV : W.comp.vertex? w = none) {tv : Tagged} (ht : c.tag? (.ctx w fld) = some tv) :
    tagValue W.env W.comp vid (.ctx w fld ty) c = .ok tv := by
  have : (w == vid) = false := by simpa using hne
  simp [tagValue, this, hV, ht]

theorem tagValue_imported_fcount (W : World) (vid : Vid) (e : Eid) (root : Vid) (c : Ctx)
    (hf : W.comp.folds.any (·.eid == e) = false) {tv : Tagged} (ht : c.tag? (.fcount e) = some tv) :
    tagValue W.env W.comp vid (.fcount e root) c = .ok tv := by
  simp [tagValue, hf, ht]

/-- The operator and right operand of the IR filter `f` are the compiled form of the specification
filter `(op, arg)`; `TRef t r`: the tag named `t` is compiled to the field reference `r`. -/
def ArgOK (W : World) (TRef : Name → FieldRef → Prop) (op : FOp) (arg : QArg) (f : IRFilter) : Prop :=
  f.op = op ∧
  match op, arg with
  | .un _, _ => True
  | .bin o, .var m => (∃ ty, f.right = some (.var m ty)) ∧
      ∃ val, W.args.find? (·.1 == m) = some (m, val) ∧
        (isRegexOp o = true → ∃ r, Filter.compileStaticRegex W.D.regex val = .ok r)
  | .bin _, .tag t => ∃ r, f.right = some (.tag r) ∧ TRef t r
  | .bin _, .none => False

/-- The IR filter `f` of a vertex is the compiled form of the specification filter `sf`. -/
def FilterOK (W : World) (TRef : Name → FieldRef → Prop) (sf : Name × FOp × QArg) (f : IRFilter) :
    Prop :=
  (∃ ty, f.left = .loc sf.1 ty) ∧ ArgOK W TRef sf.2.1 sf.2.2 f

/-- What the compiled tag references mean for the context `c` (at vertex `vid`) against the
assignment `a1`: the engine finds the value the specification has bound under the tag's name (it
may differ when there is no active vertex — then the filter passes on both sides anyway). -/
def TagSem (W : World) (vid : Vid) (c : Ctx) (a1 : Asg) (TRef : Name → FieldRef → Prop) : Prop :=
  ∀ t r, TRef t r → ∃ tv, tagValue W.env W.comp vid r c = .ok tv ∧ (a1.tag? t).isSome ∧
    (c.active.isSome → a1.tag? t = some tv)

def boolCtx (c : Ctx) (b : Bool) : List Ctx := if b then [c] else []

/-- One filter, the left operand on the value stack, one context. -/
theorem applyFilter_sem (W : World) (vid : Vid) (TRef : Name → FieldRef → Prop) (c : Ctx) (a1 : Asg)
    (hsem : TagSem W vid c a1 TRef) (op : FOp) (arg : QArg) (f : IRFilter)
    (hf : ArgOK W TRef op arg f) (left : Value) :
    (applyFilter W.env W.comp vid f [c.pushValue left]).toOption =
      (filterHolds W.senv a1 c.active left op arg).toOption.map (boolCtx c) := by
  obtain ⟨fop, fl, fr⟩ := f
  obtain ⟨hop, hr⟩ := hf
  simp only at hop hr
  subst hop
  cases fop with
  | un o =>
    rw [applyFilter_un]
    cases hact : c.active with
    | none => simp [filterHolds, boolCtx]
    | some x => simp [filterHolds, boolCtx]
  | bin o =>
    cases arg with
    | none => exact absurd hr (by simp)
    | var m =>
      obtain ⟨⟨vt, hfr⟩, val, hfind, hrx⟩ := hr
      subst hfr
      have harg : W.env.arg m = .ok val := by simp [Env.arg, hfind]
      rw [applyFilter_var W vid o _ m vt c _ val harg hrx]
      cases hact : c.active with
      | none => simp [filterHolds, boolCtx]
      | some x =>
        simp only [filterHolds, World.senv_args, hfind, World.senv_data, Option.isNone_some]
        cases Filter.applyStatic W.D.regex o left val <;> simp [R.ofOutcome, boolCtx]
    | tag t =>
      obtain ⟨r, hfr, href⟩ := hr
      subst hfr
      rw [applyFilter_tag]
      obtain ⟨tv, htv, hsome, heq⟩ := hsem t r href
      rw [htv]
      cases hact : c.active with
      | none =>
        simp only [R.bind_ok, filterHolds, R.toOption_ok, Option.map_some, boolCtx]
        cases tv <;> simp [tagCont, hact]
      | some x =>
        have := heq (by simp [hact])
        simp only [R.bind_ok, filterHolds, this, World.senv_data]
        cases tv with
        | nonexistent => simp [tagCont, boolCtx]
        | some right =>
          simp only [tagCont, hact, Option.isNone_some]
          cases Filter.applyTagged W.D.regex o left right <;> simp [R.ofOutcome, boolCtx]

theorem applyFilter_nil (W : World) (vid : Vid) (TRef : Name → FieldRef → Prop) (op : FOp)
    (arg : QArg) (f : IRFilter) (hf : ArgOK W TRef op arg f) :
    applyFilter W.env W.comp vid f [] = .ok [] := by
  obtain ⟨fop, fl, fr⟩ := f
  obtain ⟨hop, hr⟩ := hf
  simp only at hop hr
  subst hop
  cases fop with
  | un o => simp [applyFilter, filterMapR]
  | bin o =>
    cases arg with
    | none => exact absurd hr (by simp)
    | var m =>
      obtain ⟨⟨vt, hfr⟩, val, hfind, hrx⟩ := hr
      subst hfr
      have harg : W.env.arg m = .ok val := by simp [Env.arg, hfind]
      simp only [applyFilter, harg, R_bind_eq, R.bind_ok, filterMapR]
      by_cases h : isRegexOp o = true
      · obtain ⟨r, hr⟩ := hrx h
        simp [h, hr, R.ofOutcome, R.map]
      · simp [h]
    | tag t =>
      obtain ⟨r, hfr, _⟩ := hr
      subst hfr
      simp [applyFilter, filterMapR]

theorem applyLocalFieldFilter_single (W : World) (vid : Vid) (V : IRVertex)
    (hV : W.comp.vertex? vid = some V) (TRef : Name → FieldRef → Prop) (c : Ctx) (a1 : Asg)
    (hsem : TagSem W vid c a1 TRef)
    (sf : Name × FOp × QArg) (f : IRFilter) (hf : FilterOK W TRef sf f) :
    (applyLocalFieldFilter W.env W.comp vid f [c]).toOption =
      (filterHolds W.senv a1 c.active (W.D.propOpt c.active sf.1) sf.2.1 sf.2.2).toOption.map
        (boolCtx c) := by
  obtain ⟨⟨ty, hl⟩, harg⟩ := hf
  simp only [applyLocalFieldFilter, hl, typeOf_of_vertex hV, R.bind_ok, computeLocalField_single]
  exact applyFilter_sem W vid TRef c a1 hsem _ _ f harg _

theorem applyLocalFieldFilter_nil (W : World) (vid : Vid) (V : IRVertex)
    (hV : W.comp.vertex? vid = some V) (TRef : Name → FieldRef → Prop)
    (sf : Name × FOp × QArg) (f : IRFilter) (hf : FilterOK W TRef sf f) :
    applyLocalFieldFilter W.env W.comp vid f [] = .ok [] := by
  obtain ⟨⟨ty, hl⟩, harg⟩ := hf
  simp only [applyLocalFieldFilter, hl, typeOf_of_vertex hV, R.bind_ok, computeLocalField, mapR]
  exact applyFilter_nil W vid TRef _ _ f harg

theorem applyLocalFilters_nil (W : World) (vid : Vid) (V : IRVertex)
    (hV : W.comp.vertex? vid = some V) (TRef : Name → FieldRef → Prop)
    (sfs : List (Name × FOp × QArg)) (fs : List IRFilter)
    (h : Forall2 (FilterOK W TRef) sfs fs) :
    applyLocalFilters W.env W.comp vid fs [] = .ok [] := by
  induction h with
  | nil => rfl
  | cons hf _ ih => simp [applyLocalFilters, applyLocalFieldFilter_nil W vid V hV TRef _ _ hf, ih]

theorem applyLocalFilters_single (W : World) (vid : Vid) (V : IRVertex)
    (hV : W.comp.vertex? vid = some V) (TRef : Name → FieldRef → Prop) (c : Ctx) (a1 : Asg)
    (hsem : TagSem W vid c a1 TRef)
    (sfs : List (Name × FOp × QArg)) (fs : List IRFilter)
    (h : Forall2 (FilterOK W TRef) sfs fs) :
    (applyLocalFilters W.env W.comp vid fs [c]).toOption =
      (holdAll W.senv a1 c.active sfs).toOption.map (boolCtx c) := by
  induction h with
  | nil => simp [applyLocalFilters, holdAll, boolCtx]
  | @cons sf f sfs' fs' hf hrest ih =>
    obtain ⟨n, op, arg⟩ := sf
    simp only [applyLocalFilters, R.toOption_bind, holdAll]
    rw [applyLocalFieldFilter_single W vid V hV TRef c a1 hsem _ _ hf]
    simp only [World.senv_data]
    rcases filterHolds W.senv a1 c.active (W.D.propOpt c.active n) op arg with (_ | _) | _ | _
    · simp [boolCtx, applyLocalFilters_nil W vid V hV TRef _ _ hrest]
    · simpa [boolCtx] using ih
    · rfl
    · rfl

/-- The coercion recorded in the IR vertex is the one written at the node. -/
def CoerceOK (ct : Option Name) (V : IRVertex) : Prop :=
  match ct with
  | none => V.coercedFrom = none
  | some t => (∃ pre, V.coercedFrom = some pre) ∧ V.typeName = t

/-- `record_vertex` on a context that has not seen `vid`. -/
def Ctx.record (c : Ctx) (vid : Vid) : Ctx := { c with vertices := c.vertices ++ [(vid, c.active)] }

theorem vertexAt?_none_of_fresh (c : Ctx) (vid : Vid) (hfresh : vid ∉ keys c) :
    c.vertexAt? vid = none := by
  unfold Engine.Ctx.vertexAt?
  rw [Option.map_eq_none_iff, List.find?_eq_none]
  intro p hp hpe
  apply hfresh
  have : p.1 = vid := by simpa using hpe
  exact List.mem_map.2 ⟨p, hp, this⟩

theorem recordVertex_fresh (c : Ctx) (vid : Vid) (hfresh : vid ∉ keys c) :
    c.recordVertex vid = .ok (Ctx.record c vid) := by
  unfold Engine.Ctx.recordVertex
  simp [vertexAt?_none_of_fresh c vid hfresh, Ctx.record]

theorem coerceIfNeeded_single (W : World) (ct : Option Name) (V : IRVertex) (hc : CoerceOK ct V)
    (c : Ctx) :
    coerceIfNeeded W.env V [c] = .ok (boolCtx c (coercionOk W.D ct c.active)) := by
  unfold coerceIfNeeded
  cases ct with
  | none =>
    simp only [CoerceOK] at hc
    simp [hc, coercionOk, boolCtx]
  | some t =>
    obtain ⟨⟨pre, hpre⟩, hty⟩ := hc
    simp only [hpre, filterMapR_single, World.env_coerce, R_bind_eq, R.bind_ok, R_pure_eq, hty]
    cases hact : c.active with
    | none => simp [coercionOk, boolCtx]
    | some x => cases h : W.D.isA x t <;> simp [coercionOk, boolCtx, h]

theorem coerceIfNeeded_nil (env : Env) (V : IRVertex) : coerceIfNeeded env V [] = .ok [] := by
  unfold coerceIfNeeded
  cases V.coercedFrom <;> simp [filterMapR]

/-- Entering a vertex with no context: nothing happens (the per-filter set-up succeeds). -/
theorem enterVertex_nil (W : World) (vid : Vid) (V : IRVertex) (hV : W.comp.vertex? vid = some V)
    (hvid : V.vid = vid) (TRef : Name → FieldRef → Prop) (sfs : List (Name × FOp × QArg))
    (h : Forall2 (FilterOK W TRef) sfs V.filters) :
    enterVertex W.env W.comp V [] = .ok [] := by
  simp [enterVertex, coerceIfNeeded_nil, hvid, applyLocalFilters_nil W vid V hV TRef sfs _ h, mapR]

/-- Entering a vertex, one context: the coercion, the filters in order, then the vertex is
recorded — exactly the node-local part of `evalNode`, for the assignment `a1` (the incoming one
extended by the node's tags and outputs). -/
theorem enterVertex_single (W : World) (vid : Vid) (V : IRVertex) (hV : W.comp.vertex? vid = some V)
    (hvid : V.vid = vid) (ct : Option Name) (hc : CoerceOK ct V) (c : Ctx)
    (hfresh : vid ∉ keys c) (TRef : Name → FieldRef → Prop) (a1 : Asg)
    (hsem : TagSem W vid c a1 TRef) (sfs : List (Name × FOp × QArg))
    (h : Forall2 (FilterOK W TRef) sfs V.filters) :
    (enterVertex W.env W.comp V [c]).toOption =
      if coercionOk W.D ct c.active then
        (holdAll W.senv a1 c.active sfs).toOption.map (boolCtx (Ctx.record c vid))
      else some [] := by
  simp only [enterVertex, coerceIfNeeded_single W ct V hc c, R.bind_ok, hvid]
  by_cases hco : coercionOk W.D ct c.active = true
  · simp only [hco, boolCtx, if_true, R.toOption_bind]
    rw [applyLocalFilters_single W vid V hV TRef c a1 hsem sfs _ h]
    rcases holdAll W.senv a1 c.active sfs with (_ | _) | _ | _
    · simp [boolCtx, mapR]
    · simp [boolCtx, mapR_single, recordVertex_fresh c vid hfresh]
    · rfl
    · rfl
  · simp only [hco, boolCtx]
    simp [applyLocalFilters_nil W vid V hV TRef sfs _ h, mapR]

end TF.InterpSpec
