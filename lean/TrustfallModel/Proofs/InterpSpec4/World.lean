/-
C01 main theorem, layer 2: the abstraction function from engine contexts to specification
assignments.

A context records, per Vid, the vertex (or `none`: missing optional scope) it went through; the
specification's assignment holds tag values by NAME and outputs by name.  Given the static tables
`TG vid` / `OG vid` (the `(name, property)` pairs of the `@tag`s / `@output`s written at the node
numbered `vid`, in the order the specification binds them), the assignment of a context is a
*function* of its `vertices` map:

    abs c = ⟨ c.vertices.flatMap (vid, x) ↦ tags of TG vid at x ,
              c.vertices.flatMap (vid, x) ↦ outputs of OG vid at x ⟩

so recording a vertex on the engine side is exactly `bindProps` on the specification side.
-/
import TrustfallModel.Proofs.InterpSpec.SpecO

namespace TF.InterpSpec
open TF TF.Engine TF.Spec

@[simp] theorem R_bind_eq {α β : Type} (x : R α) (f : α → R β) : (x >>= f) = x.bind f := rfl
@[simp] theorem R_pure_eq {α : Type} (a : α) : (pure a : R α) = .ok a := rfl

/-- Pointwise relation between two lists of the same length. -/
inductive Forall2 {α β : Type} (r : α → β → Prop) : List α → List β → Prop
  | nil : Forall2 r [] []
  | cons {a b as bs} : r a b → Forall2 r as bs → Forall2 r (a :: as) (b :: bs)

theorem Forall2.mono {α β : Type} {r s : α → β → Prop} {as bs} (h : Forall2 r as bs)
    (hrs : ∀ a b, r a b → s a b) : Forall2 s as bs := by
  induction h with
  | nil => exact .nil
  | cons h _ ih => exact .cons (hrs _ _ h) ih

/-- What a stage records in a context: the destination vertex of an edge, or a fold. -/
inductive Ev where
  | vtx (vid : Vid)
  | fold (eid : Eid)
  deriving DecidableEq, Repr

def Ev.vtx? : Ev → Option Vid
  | .vtx w => some w
  | .fold _ => none

def Ev.fold? : Ev → Option Eid
  | .vtx _ => none
  | .fold e => some e

/-- The Vid an event occupies in the `visited_vids` set of `compute_component` (the destination of
edge/fold number `e` is `e + 1`). -/
def evVid : Ev → Vid
  | .vtx w => w
  | .fold e => e + 1

def vtxs (L : List Ev) : List Vid := L.filterMap Ev.vtx?
def flds (L : List Ev) : List Eid := L.filterMap Ev.fold?

@[simp] theorem vtxs_nil : vtxs [] = [] := rfl
@[simp] theorem flds_nil : flds [] = [] := rfl
@[simp] theorem vtxs_append (a b : List Ev) : vtxs (a ++ b) = vtxs a ++ vtxs b := by simp [vtxs]
@[simp] theorem flds_append (a b : List Ev) : flds (a ++ b) = flds a ++ flds b := by simp [flds]
@[simp] theorem vtxs_cons_vtx (w : Vid) (l : List Ev) : vtxs (.vtx w :: l) = w :: vtxs l := by
  simp [vtxs, Ev.vtx?]
@[simp] theorem vtxs_cons_fold (e : Eid) (l : List Ev) : vtxs (.fold e :: l) = vtxs l := by
  simp [vtxs, List.filterMap_cons, Ev.vtx?]
@[simp] theorem flds_cons_vtx (w : Vid) (l : List Ev) : flds (.vtx w :: l) = flds l := by
  simp [flds, List.filterMap_cons, Ev.fold?]
@[simp] theorem flds_cons_fold (e : Eid) (l : List Ev) : flds (.fold e :: l) = e :: flds l := by
  simp [flds, Ev.fold?]

theorem mem_vtxs {L : List Ev} {w : Vid} : w ∈ vtxs L ↔ Ev.vtx w ∈ L := by
  simp only [vtxs, List.mem_filterMap]
  constructor
  · rintro ⟨ev, hev, h⟩
    cases ev <;> simp [Ev.vtx?] at h
    subst h; exact hev
  · intro h; exact ⟨_, h, rfl⟩

theorem mem_flds {L : List Ev} {e : Eid} : e ∈ flds L ↔ Ev.fold e ∈ L := by
  simp only [flds, List.mem_filterMap]
  constructor
  · rintro ⟨ev, hev, h⟩
    cases ev <;> simp [Ev.fold?] at h
    subst h; exact hev
  · intro h; exact ⟨_, h, rfl⟩

theorem nodup_filterMap_of_nodup {α β : Type} {f : α → Option β} {l : List α}
    (hinj : ∀ a b c, f a = some c → f b = some c → a = b) (h : l.Nodup) : (l.filterMap f).Nodup := by
  induction l with
  | nil => exact List.nodup_nil
  | cons x xs ih =>
    rw [List.nodup_cons] at h
    rw [List.filterMap_cons]
    cases hx : f x with
    | none => exact ih h.2
    | some y =>
      refine List.nodup_cons.2 ⟨?_, ih h.2⟩
      intro hm
      obtain ⟨z, hz, hzy⟩ := List.mem_filterMap.1 hm
      have := hinj x z y hx hzy
      exact h.1 (this ▸ hz)

theorem vtxs_nodup {L : List Ev} (h : L.Nodup) : (vtxs L).Nodup :=
  nodup_filterMap_of_nodup (by
    intro a b c ha hb; cases a <;> cases b <;> simp_all [Ev.vtx?]) h

theorem flds_nodup {L : List Ev} (h : L.Nodup) : (flds L).Nodup :=
  nodup_filterMap_of_nodup (by
    intro a b c ha hb; cases a <;> cases b <;> simp_all [Ev.fold?]) h

/-- Everything fixed during one correspondence proof: dataset, arguments, the specification's edge
declarations, the component being executed, and the static tables: `TG`/`OG` the `(name,
property)` pairs of the `@tag`s / `@output`s written at the node numbered `vid`; `CT`/`CO` the
count-tag / count-output names of the fold numbered `eid` (in the order written); `ON` every
output name below that fold. -/
structure World where
  D : Data
  args : List (Name × Value)
  edges : List EdgeDecl
  comp : Component
  TG : Vid → List (Name × Name)
  OG : Vid → List (Name × Name)
  /-- whether the engine's fold-count shortcuts are enabled (irrelevant without folds) -/
  lim : Bool := false
  CT : Eid → List Name := fun _ => []
  CO : Eid → List Name := fun _ => []
  ON : Eid → List Name := fun _ => []
  /-- the `folded_values` keys the fold numbered `eid` contributes -/
  FK : Eid → List (Eid × Name) := fun _ => []
  /-- every tag name defined inside the fold numbered `eid` (at any depth) -/
  IT : Eid → List Name := fun _ => []
  /-- the tags imported by the folds enclosing the component (innermost fold first) -/
  chain : List FieldRef := []
  /-- "the tag named `t` is the field reference `r`" (the frontend's tag table) -/
  NR : Name → FieldRef → Prop := fun _ _ => False

namespace World

def env (W : World) : Env := { Env.ofData W.D W.args with useLimits := W.lim }
def senv (W : World) : SpecEnv := ⟨W.D, W.args, W.edges⟩

@[simp] theorem senv_data (W : World) : W.senv.data = W.D := rfl
@[simp] theorem senv_args (W : World) : W.senv.args = W.args := rfl
@[simp] theorem env_args (W : World) : W.env.args = W.args := rfl
@[simp] theorem env_regex (W : World) : W.env.regex = W.D.regex := rfl
@[simp] theorem env_prop (W : World) (vid t f v) : W.env.adapter.prop vid t f v = .ok (W.D.propOpt v f) := rfl
@[simp] theorem env_nbrs (W : World) (eid t e ps v) :
    W.env.adapter.nbrs eid t e ps v = .ok (W.D.nbrsOpt v e ps) := rfl
@[simp] theorem env_coerce (W : World) (vid t to v) :
    W.env.adapter.coerce vid t to v = .ok (match v with | some x => W.D.isA x to | none => false) := rfl
@[simp] theorem env_useLimits (W : World) : W.env.useLimits = W.lim := rfl

end World

/-- The Vids recorded in a context, in recording order. -/
def keys (c : Ctx) : List Vid := c.vertices.map (·.1)
/-- The folds recorded in a context, in recording order. -/
def fkeys (c : Ctx) : List Eid := c.foldCounts.map (·.1)
/-- The keys of `folded_values`. -/
def fvKeys (c : Ctx) : List (Eid × Name) := c.foldedValues.map (·.1)
/-- The output names in `folded_values`. -/
def fvNames (c : Ctx) : List Name := c.foldedValues.map (·.1.2)

theorem fvNames_eq (c : Ctx) : fvNames c = (fvKeys c).map (·.2) := by
  simp [fvNames, fvKeys]

/-- The vertex recorded for `w` (`none` also when nothing is recorded). -/
def look (c : Ctx) (w : Vid) : Option VertexId := (c.vertexAt? w).getD none
/-- The element count recorded for fold `e` (`none`: the fold does not exist). -/
def cnt (c : Ctx) (e : Eid) : Option Nat := (c.foldCount? e).getD none

def cntTag : Option Nat → Tagged
  | some k => Tagged.some (.uint64 (UInt64.ofNat k))
  | none => Tagged.nonexistent

/-- The folded value stored under the output name `n` (null when absent or nonexistent). -/
def valByName (c : Ctx) (n : Name) : Value :=
  match c.foldedValues.find? (·.1.2 == n) with
  | some p => p.2.getD Value.null
  | none => Value.null

/-- The tag bindings the specification makes when the event happens. -/
def tagsEv (W : World) (c : Ctx) : Ev → List (Name × Tagged)
  | .vtx w => tagBinds W.D (look c w) (W.TG w)
  | .fold e => (W.CT e).map fun n => (n, cntTag (cnt c e))

/-- The outputs the specification appends when the event happens (for a fold: counts first when
it exists, after the nulls of the element outputs when it does not). -/
def outsEv (W : World) (c : Ctx) : Ev → List (Name × Value)
  | .vtx w => outBinds W.D (look c w) (W.OG w)
  | .fold e =>
    match cnt c e with
    | some _ => (W.CO e ++ W.ON e).map fun n => (n, valByName c n)
    | none => (W.ON e ++ W.CO e).map fun n => (n, valByName c n)

/-- The assignment a context stands for after the events `L` (in this order), on top of the tags
`base` inherited from the enclosing components. -/
def absL (W : World) (base : List (Name × Tagged)) (L : List Ev) (c : Ctx) : Asg :=
  ⟨base ++ L.flatMap (tagsEv W c), L.flatMap (outsEv W c)⟩

theorem absL_snoc (W : World) (base : List (Name × Tagged)) (L : List Ev) (ev : Ev) (c : Ctx) :
    absL W base (L ++ [ev]) c =
      ⟨(absL W base L c).tags ++ tagsEv W c ev, (absL W base L c).outs ++ outsEv W c ev⟩ := by
  simp [absL, List.append_assoc]

theorem absL_nil (W : World) (base : List (Name × Tagged)) (c : Ctx) :
    absL W base [] c = ⟨base, []⟩ := by
  simp [absL]

/-- Tag names bound by an event (independent of the context). -/
def evTagNames (W : World) : Ev → List Name
  | .vtx w => (W.TG w).map (·.1)
  | .fold e => W.CT e

def tagNames (W : World) (L : List Ev) : List Name := L.flatMap (evTagNames W)

theorem tagsEv_names (W : World) (c : Ctx) (ev : Ev) :
    (tagsEv W c ev).map (·.1) = evTagNames W ev := by
  cases ev <;> simp [tagsEv, evTagNames, tagBinds, Function.comp_def]

theorem absL_tagNames (W : World) (base : List (Name × Tagged)) (L : List Ev) (c : Ctx) :
    (absL W base L c).tags.map (·.1) = base.map (·.1) ++ tagNames W L := by
  simp only [absL, List.map_append, List.map_flatMap, tagNames]
  congr 1
  induction L with
  | nil => rfl
  | cons ev rest ih => simp [List.flatMap_cons, tagsEv_names, ih]

theorem tagNames_append (W : World) (L1 L2 : List Ev) :
    tagNames W (L1 ++ L2) = tagNames W L1 ++ tagNames W L2 := by
  simp [tagNames]

/-- Tag names bound by an event or defined inside it (a fold's component). -/
def evDeepTagNames (W : World) : Ev → List Name
  | .vtx w => (W.TG w).map (·.1)
  | .fold e => W.CT e ++ W.IT e

def deepTagNames (W : World) (L : List Ev) : List Name := L.flatMap (evDeepTagNames W)

theorem deepTagNames_append (W : World) (L1 L2 : List Ev) :
    deepTagNames W (L1 ++ L2) = deepTagNames W L1 ++ deepTagNames W L2 := by
  simp [deepTagNames]

theorem tagNames_sublist_deep (W : World) (L : List Ev) :
    (tagNames W L).Sublist (deepTagNames W L) := by
  induction L with
  | nil => exact List.Sublist.refl _
  | cons ev rest ih =>
    simp only [tagNames, deepTagNames, List.flatMap_cons] at *
    refine List.Sublist.append ?_ ih
    cases ev with
    | vtx w => exact List.Sublist.refl _
    | fold e => exact List.sublist_append_left _ _

theorem find?_of_mem_nodup {β : Type} {l : List (Name × β)} {k : Name} {b : β}
    (hn : (l.map (·.1)).Nodup) (hm : (k, b) ∈ l) : l.find? (·.1 == k) = some (k, b) := by
  induction l with
  | nil => cases hm
  | cons p rest ih =>
    simp only [List.map_cons, List.nodup_cons] at hn
    rcases List.mem_cons.1 hm with h | h
    · subst h; simp
    · have hne : p.1 ≠ k := by
        intro he
        apply hn.1
        rw [he]
        exact List.mem_map.2 ⟨(k, b), h, rfl⟩
      simp [List.find?_cons, hne, ih hn.2 h]

theorem vertexAt?_of_mem {vs : List (Vid × Option VertexId)} {w : Vid} {x : Option VertexId}
    (hn : (vs.map (·.1)).Nodup) (hm : (w, x) ∈ vs) :
    (vs.find? (·.1 == w)).map (·.2) = some x := by
  induction vs with
  | nil => cases hm
  | cons p rest ih =>
    simp only [List.map_cons, List.nodup_cons] at hn
    rcases List.mem_cons.1 hm with h | h
    · subst h; simp
    · have hne : p.1 ≠ w := by
        intro he
        apply hn.1
        rw [he]
        exact List.mem_map.2 ⟨(w, x), h, rfl⟩
      simp [List.find?_cons, hne, ih hn.2 h]

/-- Looking a tag up by name: a tag bound at a recorded vertex. -/
theorem absL_tag?_vtx (W : World) {base : List (Name × Tagged)} {L : List Ev} {c : Ctx} {w : Vid}
    {t fld : Name} (hn : (base.map (·.1) ++ tagNames W L).Nodup) (hm : Ev.vtx w ∈ L)
    (ht : (t, fld) ∈ W.TG w) : (absL W base L c).tag? t = some (tagOf W.D (look c w) fld) := by
  unfold Asg.tag?
  have hmem : (t, tagOf W.D (look c w) fld) ∈ (absL W base L c).tags := by
    simp only [absL, List.mem_append, List.mem_flatMap]
    refine Or.inr ⟨.vtx w, hm, ?_⟩
    simp only [tagsEv, tagBinds, List.mem_map]
    exact ⟨(t, fld), ht, rfl⟩
  rw [find?_of_mem_nodup (by rw [absL_tagNames]; exact hn) hmem]; rfl

/-- Looking a tag up by name: the count tag of a recorded fold. -/
theorem absL_tag?_fold (W : World) {base : List (Name × Tagged)} {L : List Ev} {c : Ctx} {e : Eid}
    {t : Name} (hn : (base.map (·.1) ++ tagNames W L).Nodup) (hm : Ev.fold e ∈ L)
    (ht : t ∈ W.CT e) : (absL W base L c).tag? t = some (cntTag (cnt c e)) := by
  unfold Asg.tag?
  have hmem : (t, cntTag (cnt c e)) ∈ (absL W base L c).tags := by
    simp only [absL, List.mem_append, List.mem_flatMap]
    refine Or.inr ⟨.fold e, hm, ?_⟩
    simp only [tagsEv, List.mem_map]
    exact ⟨t, ht, rfl⟩
  rw [find?_of_mem_nodup (by rw [absL_tagNames]; exact hn) hmem]; rfl

/-! ### invariants of a context, and how contexts grow -/

/-- The context has recorded exactly the events `L`. -/
structure Inv (W : World) (c : Ctx) (L : List Ev) : Prop where
  vk : keys c = vtxs L
  fk : fkeys c = flds L
  fv : (fvKeys c).Perm ((flds L).flatMap W.FK)

/-- The static tables agree: the keys a fold contributes carry its count-output names and the
output names below it. -/
def KeysOK (W : World) (L : List Ev) : Prop :=
  ∀ e ∈ flds L, ((W.FK e).map (·.2)).Perm (W.CO e ++ W.ON e)

theorem Inv.names {W : World} {c : Ctx} {L : List Ev} (h : Inv W c L) (hk : KeysOK W L) :
    (fvNames c).Perm ((flds L).flatMap fun e => W.CO e ++ W.ON e) := by
  rw [fvNames_eq]
  refine (h.fv.map (·.2)).trans ?_
  rw [List.map_flatMap]
  have hk' : ∀ e ∈ flds L, ((W.FK e).map (·.2)).Perm (W.CO e ++ W.ON e) := hk
  revert hk'
  generalize flds L = l
  intro hk
  induction l with
  | nil => exact List.Perm.refl _
  | cons e rest ih =>
    simp only [List.flatMap_cons]
    exact (hk e (List.mem_cons_self ..)).append (ih fun e' he' => hk e' (List.mem_cons_of_mem _ he'))

/-- `c'` is `c` after more stages: the three maps grew at the end; the value stack and the imported
tags are as before (the active vertex and the `suspended` stack may differ). -/
structure Ext (c c' : Ctx) : Prop where
  verts : ∃ ext, c'.vertices = c.vertices ++ ext
  counts : ∃ ext, c'.foldCounts = c.foldCounts ++ ext
  folded : ∃ ext, c'.foldedValues = c.foldedValues ++ ext
  values : c'.values = c.values
  imported : c'.importedTags = c.importedTags

theorem Ext.refl (c : Ctx) : Ext c c := ⟨⟨[], by simp⟩, ⟨[], by simp⟩, ⟨[], by simp⟩, rfl, rfl⟩

theorem Ext.trans {c c' c'' : Ctx} (h1 : Ext c c') (h2 : Ext c' c'') : Ext c c'' := by
  obtain ⟨⟨a1, ha1⟩, ⟨b1, hb1⟩, ⟨d1, hd1⟩, v1, i1⟩ := h1
  obtain ⟨⟨a2, ha2⟩, ⟨b2, hb2⟩, ⟨d2, hd2⟩, v2, i2⟩ := h2
  exact ⟨⟨a1 ++ a2, by rw [ha2, ha1, List.append_assoc]⟩, ⟨b1 ++ b2, by rw [hb2, hb1, List.append_assoc]⟩,
    ⟨d1 ++ d2, by rw [hd2, hd1, List.append_assoc]⟩, v2.trans v1, i2.trans i1⟩

/-- The active vertex of the starting context does not matter. -/
theorem Ext.of_active {c c' : Ctx} {s : Option VertexId} (h : Ext { c with active := s } c') :
    Ext c c' := ⟨h.verts, h.counts, h.folded, h.values, h.imported⟩

theorem tagKey_beq_iff (a b : TagKey) : (a == b) = true ↔ a = b := by
  cases a <;> cases b <;> simp [BEq.beq, instBEqTagKey.beq]

instance : LawfulBEq TagKey where
  eq_of_beq := fun h => (tagKey_beq_iff _ _).1 h
  rfl := (tagKey_beq_iff _ _).2 rfl

/-- The imported tags of a context are those of the enclosing folds' imports, with the values the
enclosing assignment `base` has under the tags' names. -/
structure ImportsOK (W : World) (c : Ctx) (base : List (Name × Tagged)) : Prop where
  nodup : (c.importedTags.map (·.1)).Nodup
  keys : ∀ k, k ∈ c.importedTags.map (·.1) ↔ k ∈ W.chain.map FieldRef.key
  vals : ∀ r ∈ W.chain, ∃ tv, c.tag? r.key = some tv ∧
    ∀ t, W.NR t r → (⟨base, []⟩ : Asg).tag? t = some tv

theorem ImportsOK.of_imported {W : World} {c c' : Ctx} {base : List (Name × Tagged)}
    (h : ImportsOK W c base) (he : c'.importedTags = c.importedTags) : ImportsOK W c' base := by
  refine ⟨by rw [he]; exact h.nodup, by rw [he]; exact h.keys, ?_⟩
  intro r hr
  obtain ⟨tv, h1, h2⟩ := h.vals r hr
  exact ⟨tv, by unfold Engine.Ctx.tag? at *; rw [he]; exact h1, h2⟩

theorem find?_append_of_mem {α : Type} {p : α → Bool} {l ext : List α}
    (h : (l.find? p).isSome) : (l ++ ext).find? p = l.find? p := by
  rw [List.find?_append]
  cases hf : l.find? p with
  | none => simp [hf] at h
  | some a => rfl

theorem look_stable {c c' : Ctx} (h : Ext c c') {w : Vid} (hw : w ∈ keys c) : look c' w = look c w := by
  obtain ⟨ext, he⟩ := h.verts
  unfold look Engine.Ctx.vertexAt?
  rw [he, find?_append_of_mem]
  obtain ⟨p, hp, hp1⟩ := List.mem_map.1 hw
  rw [List.find?_isSome]
  exact ⟨p, hp, by simp [hp1]⟩

theorem cnt_stable {c c' : Ctx} (h : Ext c c') {e : Eid} (he : e ∈ fkeys c) : cnt c' e = cnt c e := by
  obtain ⟨ext, hx⟩ := h.counts
  unfold cnt Engine.Ctx.foldCount?
  rw [hx, find?_append_of_mem]
  obtain ⟨p, hp, hp1⟩ := List.mem_map.1 he
  rw [List.find?_isSome]
  exact ⟨p, hp, by simp [hp1]⟩

theorem valByName_stable {c c' : Ctx} (h : Ext c c') {n : Name} (hn : n ∈ fvNames c) :
    valByName c' n = valByName c n := by
  obtain ⟨ext, hx⟩ := h.folded
  unfold valByName
  rw [hx, find?_append_of_mem]
  obtain ⟨p, hp, hp1⟩ := List.mem_map.1 hn
  rw [List.find?_isSome]
  exact ⟨p, hp, by simp [hp1]⟩

theorem flatMap_congr' {α β : Type} {f g : α → List β} {l : List α} (h : ∀ x ∈ l, f x = g x) :
    l.flatMap f = l.flatMap g := by
  induction l with
  | nil => rfl
  | cons x xs ih =>
    simp only [List.flatMap_cons, h x (List.mem_cons_self ..)]
    rw [ih fun y hy => h y (List.mem_cons_of_mem _ hy)]

theorem tagsEv_stable (W : World) {c c' : Ctx} {L : List Ev} (h : Ext c c') (hi : Inv W c L)
    {ev : Ev} (hev : ev ∈ L) : tagsEv W c' ev = tagsEv W c ev := by
  cases ev with
  | vtx w => simp only [tagsEv]; rw [look_stable h (by rw [hi.vk]; exact mem_vtxs.2 hev)]
  | fold e => simp only [tagsEv]; rw [cnt_stable h (by rw [hi.fk]; exact mem_flds.2 hev)]

theorem outsEv_stable (W : World) {c c' : Ctx} {L : List Ev} (h : Ext c c') (hi : Inv W c L)
    (hk : KeysOK W L) {ev : Ev} (hev : ev ∈ L) : outsEv W c' ev = outsEv W c ev := by
  cases ev with
  | vtx w => simp only [outsEv]; rw [look_stable h (by rw [hi.vk]; exact mem_vtxs.2 hev)]
  | fold e =>
    have hm : ∀ n ∈ W.CO e ++ W.ON e, valByName c' n = valByName c n := by
      intro n hn
      apply valByName_stable h
      apply (hi.names hk).mem_iff.2
      exact List.mem_flatMap.2 ⟨e, mem_flds.2 hev, hn⟩
    simp only [outsEv]
    rw [cnt_stable h (by rw [hi.fk]; exact mem_flds.2 hev)]
    cases cnt c e with
    | some k =>
      simp only
      apply List.map_congr_left
      intro n hn; rw [hm n hn]
    | none =>
      simp only
      apply List.map_congr_left
      intro n hn; rw [hm n (by simpa [or_comm] using hn)]

/-- Later stages do not change the assignment of the events already recorded. -/
theorem absL_stable (W : World) (base : List (Name × Tagged)) {c c' : Ctx} {L : List Ev}
    (h : Ext c c') (hi : Inv W c L) (hk : KeysOK W L) : absL W base L c' = absL W base L c := by
  simp only [absL]
  rw [flatMap_congr' fun ev hev => tagsEv_stable W h hi hev,
    flatMap_congr' fun ev hev => outsEv_stable W h hi hk hev]

end TF.InterpSpec
