/-
Lemmas about the top-level pull machine (`Model/Lazy.lean`): the rows handed out are a prefix of the
eager result, and the number of sources pulled after `k` rows is exactly the demand `pullsFor … k`,
which is the least number of sources whose rows already contain `k` rows.
-/
import TrustfallModel.Model.Lazy
namespace TF.Lazy
variable {α β : Type}

/-- demand, declaratively: the least `n` such that the first `n` sources already yield `k` rows -/
theorem pullsFor_enough (per : α → List β) (xs : List α) (k : Nat)
    (hk : k ≤ (xs.flatMap per).length) :
    k ≤ ((xs.take (pullsFor per xs k)).flatMap per).length := by
  induction xs generalizing k with
  | nil => simp at hk; simp [hk]
  | cons x xs ih =>
    simp only [pullsFor]
    split
    · omega
    · split
      · simp; omega
      · rename_i h0 h1
        simp only [List.flatMap_cons, List.length_append] at hk
        have := ih (k - (per x).length) (by omega)
        rw [Nat.add_comm 1, List.take_succ_cons]
        simp only [List.flatMap_cons, List.length_append]
        omega

theorem pullsFor_least (per : α → List β) (xs : List α) (k : Nat) (hk : 1 ≤ k) (m : Nat)
    (hm : m < pullsFor per xs k) : ((xs.take m).flatMap per).length < k := by
  induction xs generalizing k m with
  | nil => simp [pullsFor] at hm
  | cons x xs ih =>
    simp only [pullsFor] at hm
    split at hm
    · omega
    · split at hm
      · have : m = 0 := by omega
        subst this; simp; omega
      · rename_i h0 h1
        cases m with
        | zero => simp; omega
        | succ m =>
          simp only [List.take_succ_cons, List.flatMap_cons, List.length_append]
          have := ih (k - (per x).length) (by omega) m (by omega)
          omega
end TF.Lazy
namespace TF.Lazy
variable {α β : Type}

theorem pullUntil_none (per : α → List β) (xs : List α) (n : Nat) {rest : List α} {n' : Nat}
    (h : pullUntil per xs n = (none, rest, n')) : xs.flatMap per = [] ∧ rest = [] := by
  induction xs generalizing n with
  | nil => simp [pullUntil] at h; simp [h]
  | cons x xs ih =>
    simp only [pullUntil] at h
    split at h
    · rename_i hx; have := ih _ h; simp [hx, this]
    · simp at h

theorem pullUntil_some (per : α → List β) (xs : List α) (n : Nat) {b : β} {bs : List β}
    {rest : List α} {n' : Nat} (h : pullUntil per xs n = (some (b, bs), rest, n')) :
    xs.flatMap per = b :: bs ++ rest.flatMap per ∧
    (∀ k, 1 ≤ k → k ≤ bs.length + 1 → n' = n + pullsFor per xs k) ∧
    (∀ k, bs.length + 1 < k → n + pullsFor per xs k = n' + pullsFor per rest (k - (bs.length + 1))) := by
  induction xs generalizing n with
  | nil => simp [pullUntil] at h
  | cons x xs ih =>
    simp only [pullUntil] at h
    split at h
    · rename_i hx
      obtain ⟨h1, h2, h3⟩ := ih _ h
      refine ⟨by simp [hx, h1], ?_, ?_⟩
      · intro k hk1 hk2
        have := h2 k hk1 hk2
        simp only [pullsFor, hx, List.length_nil, Nat.sub_zero]
        split
        · omega
        · first | omega | (split <;> omega)
      · intro k hk
        have := h3 k hk
        simp only [pullsFor, hx, List.length_nil, Nat.sub_zero]
        split
        · omega
        · first | omega | (split <;> omega)
    · rename_i b' bs' hx
      simp only [Prod.mk.injEq, Option.some.injEq] at h
      obtain ⟨⟨hb, hbs⟩, hrest, hn⟩ := h
      subst hb hbs hrest hn
      refine ⟨by simp [hx], ?_, ?_⟩
      · intro k hk1 hk2
        simp only [pullsFor, hx, List.length_cons]
        split
        · omega
        · first | omega | (split <;> omega)
      · intro k hk
        simp only [pullsFor, hx, List.length_cons]
        split
        · omega
        · first | omega | (split <;> omega)

/-- The rows handed out by `k` calls of `next()` are the first `k` rows of the eager result. -/
theorem run_items (per : α → List β) (k : Nat) (m : M α β) :
    (M.run per k m).1 = (m.buffer ++ m.remaining.flatMap per).take k := by
  induction k generalizing m with
  | zero => simp [M.run]
  | succ k ih =>
    obtain ⟨rem, buf, n⟩ := m
    simp only [M.run, M.next]
    cases buf with
    | cons b bs => simp [ih]
    | nil =>
      simp only []
      rcases hp : pullUntil per rem n with ⟨o, rest, n'⟩
      cases o with
      | none =>
        have := pullUntil_none per rem n hp
        simp [this.1]
      | some p =>
        obtain ⟨b, bs⟩ := p
        have := pullUntil_some per rem n hp
        simp [ih, this.1]

/-- After `k ≥ 1` rows have been handed out the machine has pulled exactly `pullsFor … k` sources
beyond those it had pulled before (when the buffer was empty at the start). -/
theorem run_pulled (per : α → List β) (k : Nat) (m : M α β)
    (hk : k ≤ (m.buffer ++ m.remaining.flatMap per).length) :
    (M.run per k m).2.pulled =
      m.pulled + (if k ≤ m.buffer.length then 0 else pullsFor per m.remaining (k - m.buffer.length)) := by
  induction k generalizing m with
  | zero => simp [M.run]
  | succ k ih =>
    obtain ⟨rem, buf, n⟩ := m
    simp only [M.run, M.next]
    cases buf with
    | cons b bs =>
      simp only [List.cons_append, List.length_cons] at hk
      have := ih ⟨rem, bs, n⟩ (by simpa using (by omega : k ≤ (bs ++ rem.flatMap per).length))
      simp only [this, List.length_cons]
      split <;> split <;> first | omega | (congr 1; congr 1; omega)
    | nil =>
      simp only [List.nil_append, List.length_nil] at hk ⊢
      rcases hp : pullUntil per rem n with ⟨o, rest, n'⟩
      cases o with
      | none =>
        have := pullUntil_none per rem n hp
        simp [this.1] at hk
      | some p =>
        obtain ⟨b, bs⟩ := p
        obtain ⟨h1, h2, h3⟩ := pullUntil_some per rem n hp
        simp only []
        rw [h1] at hk
        simp only [List.cons_append, List.length_cons] at hk
        have := ih ⟨rest, bs, n'⟩ (by simpa using (by omega : k ≤ (bs ++ rest.flatMap per).length))
        simp only [this]
        split
        · rename_i hle
          have := h2 (k + 1) (by omega) (by omega)
          simp; omega
        · rename_i hgt
          have := h3 (k + 1) (by omega)
          simp only [Nat.add_sub_add_right] at this
          simp; omega
end TF.Lazy
