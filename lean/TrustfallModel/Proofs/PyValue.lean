/-
Helper lemmas for C27 (`Model/PyValue.lean`): the list check only depends on (is-null, tag) pairs;
round trip `Value → Py → Value`; characterisation of rejected Python objects.  Core Lean only.
-/
import TrustfallModel.Model.PyValue
namespace TF.PyValue
open TF Value
/-! ### the list check only looks at (is-null, tag) -/

theorem checkBy_map {α : Type} (n : α → Bool) (d : α → Nat) (l : List α) :
    checkBy n d l = checkBy Prod.fst Prod.snd (l.map fun a => (n a, d a)) := by
  unfold checkBy
  induction l with
  | nil => rfl
  | cons a as ih =>
    simp only [List.map_cons, List.dropWhile_cons]
    by_cases h : n a = true
    · simp only [h, ↓reduceIte]; exact ih
    · simp only [h, Bool.false_eq_true, ↓reduceIte, List.all_map]
      rfl

theorem checkBy_congr {α β : Type} {nA : α → Bool} {dA : α → Nat} {nB : β → Bool} {dB : β → Nat}
    {la : List α} {lb : List β}
    (h : la.map (fun a => (nA a, dA a)) = lb.map (fun b => (nB b, dB b))) :
    checkBy nA dA la = checkBy nB dB lb := by
  rw [checkBy_map nA dA, checkBy_map nB dB, h]

/-! ### integers -/

theorem pow63 : (2:Int)^63 = 9223372036854775808 := by decide
theorem pow64 : (2:Int)^64 = 18446744073709551616 := by decide

theorem fromInt_i64 (i : Int64) : fromInt i.toInt = .ok (.int64 i) := by
  have h1 := Int64.toInt_lt i
  have h2 := Int64.le_toInt i
  unfold fromInt fitsI64
  rw [if_pos (by simp; omega), Int64.ofInt_toInt]

theorem fromInt_u64_small (u : UInt64) (h : u.toNat < 2 ^ 63) :
    fromInt (u.toNat : Int) = .ok (.int64 (Int64.ofInt u.toNat)) := by
  unfold fromInt fitsI64
  rw [if_pos (by simp; omega)]

theorem fromInt_u64_big (u : UInt64) (h : ¬ u.toNat < 2 ^ 63) :
    fromInt (u.toNat : Int) = .ok (.uint64 u) := by
  have h3 := UInt64.toNat_lt u
  unfold fromInt fitsI64 fitsU64
  rw [if_neg (by simp; omega), if_pos (by simp; omega)]
  simp


/-- What the round trip preserves, element by element. -/
def tagNow (v : Value) : Bool × Nat := (isNull v, kindDisc v)

theorem beq_int64_self (i : Int64) : Value.beq (.int64 i) (.int64 i) = true := by simp [Value.beq]

theorem beq_small (u : UInt64) (h : u.toNat < 2 ^ 63) :
    Value.beq (.int64 (Int64.ofInt u.toNat)) (.uint64 u) = true := by
  have : (Int64.ofInt (u.toNat : Int)).toInt = u.toNat :=
    Int64.toInt_ofInt_of_le (by omega) (by omega)
  simp [Value.beq, cmpI64U64, h, this]

mutual
theorem rt (v : Value) (hE : noEnum v = true) (hH : homogeneous v = true) :
    ∃ p v', toPy v = some p ∧ fromPy p = .ok v' ∧ Value.beq v' v = true ∧ tagNow v' = tagNow v := by
  match v with
  | .null => exact ⟨_, _, rfl, rfl, rfl, rfl⟩
  | .int64 i => exact ⟨_, _, rfl, by simp [fromPy, fromInt_i64], beq_int64_self i, rfl⟩
  | .uint64 u =>
    by_cases h : u.toNat < 2 ^ 63
    · exact ⟨_, _, rfl, by simp only [fromPy]; exact fromInt_u64_small u h, beq_small u h, by
        simp [tagNow, isNull, kindDisc, Value.disc]⟩
    · exact ⟨_, _, rfl, by simp only [fromPy]; exact fromInt_u64_big u h, by simp [Value.beq], by
        simp [tagNow, isNull, kindDisc]⟩
  | .float64 k => exact ⟨_, _, rfl, rfl, by simp [Value.beq], rfl⟩
  | .string s => exact ⟨_, _, rfl, rfl, by simp [Value.beq], rfl⟩
  | .boolean b => exact ⟨_, _, rfl, rfl, by simp [Value.beq], rfl⟩
  | .enum s => simp [noEnum] at hE
  | .list l =>
    simp only [noEnum] at hE
    simp only [homogeneous, Bool.and_eq_true] at hH
    obtain ⟨ps, l', h1, h2, h3, h4⟩ := rtList l hE hH.1
    have hc : listCheck l' = true := by
      have : listCheck l' = listCheck l := checkBy_congr h4
      rw [this]; exact hH.2
    refine ⟨.list ps, .list l', by simp [toPy, h1], by simp [fromPy, h2, hc], by simpa [Value.beq] using h3, rfl⟩
theorem rtList (l : List Value) (hE : noEnumList l = true) (hH : homogeneousList l = true) :
    ∃ ps l', toPyList l = some ps ∧ fromPyList ps = .ok l' ∧ Value.beqList l' l = true ∧
      l'.map tagNow = l.map tagNow := by
  match l with
  | [] => exact ⟨[], [], rfl, rfl, rfl, rfl⟩
  | v :: vs =>
    simp only [noEnumList, Bool.and_eq_true] at hE
    simp only [homogeneousList, Bool.and_eq_true] at hH
    obtain ⟨p, v', a1, a2, a3, a4⟩ := rt v hE.1 hH.1
    obtain ⟨ps, l', b1, b2, b3, b4⟩ := rtList vs hE.2 hH.2
    exact ⟨p :: ps, v' :: l', by simp [toPyList, a1, b1], by simp [fromPyList, a2, b2],
      by simp [Value.beqList, a3, b3], by simp [a4, b4]⟩
end


def ptag (p : Py) : Bool × Nat := (pyIsNone p, pyDisc p)

theorem fromInt_spec (z : Int) :
    isOk (fromInt z) = !(!fitsI64 z && !fitsU64 z) ∧
    ∀ v, fromInt z = .ok v → tagNow v = ptag (.int z) := by
  unfold fromInt
  by_cases h1 : fitsI64 z = true
  · simp [h1, isOk, tagNow, ptag, isNull, pyIsNone, pyDisc, kindDisc, Value.disc]
  · by_cases h2 : fitsU64 z = true
    · simp [h1, h2, isOk, tagNow, ptag, pyIsNone, pyDisc, kindDisc, isNull]
    · simp [h1, h2, isOk]

mutual
theorem rej (p : Py) :
    isOk (fromPy p) = !rejects p ∧ ∀ v, fromPy p = .ok v → tagNow v = ptag p := by
  match p with
  | .none => simp [fromPy, isOk, rejects, tagNow, ptag, isNull, pyIsNone, pyDisc, kindDisc, Value.disc]
  | .bool b => simp [fromPy, isOk, rejects, tagNow, ptag, isNull, pyIsNone, pyDisc, kindDisc, Value.disc]
  | .int z => simpa [fromPy, rejects] using fromInt_spec z
  | .float k => simp [fromPy, isOk, rejects, tagNow, ptag, isNull, pyIsNone, pyDisc, kindDisc, Value.disc]
  | .floatNonFinite => simp [fromPy, isOk, rejects]
  | .str s => simp [fromPy, isOk, rejects, tagNow, ptag, isNull, pyIsNone, pyDisc, kindDisc, Value.disc]
  | .other => simp [fromPy, isOk, rejects]
  | .list l =>
    obtain ⟨h1, h2⟩ := rejList l
    simp only [fromPy, rejects]
    cases hl : fromPyList l with
    | error e =>
      rw [hl] at h1
      simp [isOk] at h1
      simp [isOk, h1]
    | ok vs =>
      rw [hl] at h1
      have hm := h2 vs hl
      have hc : listCheck vs = pyListCheck l := checkBy_congr hm
      simp only [isOk, Bool.true_eq, Bool.not_eq_true'] at h1
      by_cases hk : pyListCheck l = true
      · simp [hc, hk, isOk, h1, tagNow, ptag, isNull, pyIsNone, pyDisc, kindDisc, Value.disc]
      · simp [hc, hk, isOk, h1]
theorem rejList (ps : List Py) :
    isOk (fromPyList ps) = !rejectsAny ps ∧
      ∀ vs, fromPyList ps = .ok vs → vs.map tagNow = ps.map ptag := by
  match ps with
  | [] => simp [fromPyList, isOk, rejectsAny]
  | p :: ps =>
    obtain ⟨a1, a2⟩ := rej p
    obtain ⟨b1, b2⟩ := rejList ps
    simp only [fromPyList, rejectsAny]
    cases hp : fromPy p with
    | error e => rw [hp] at a1; simp [isOk] at a1; simp [isOk, a1]
    | ok v =>
      rw [hp] at a1; simp only [isOk, Bool.true_eq, Bool.not_eq_true'] at a1
      cases hps : fromPyList ps with
      | error e => rw [hps] at b1; simp [isOk] at b1; simp [isOk, a1, b1]
      | ok vs =>
        rw [hps] at b1; simp only [isOk, Bool.true_eq, Bool.not_eq_true'] at b1
        simp [isOk, a1, b1]
        exact ⟨a2 v hp, b2 vs hps⟩
end

/-! ### Python → Rust → Python -/

theorem fromInt_back (z : Int) (v : Value) (hv : fromInt z = .ok v) : toPy v = some (.int z) := by
  unfold fromInt at hv
  by_cases h1 : fitsI64 z = true
  · simp [h1] at hv; subst hv
    simp only [fitsI64, Bool.and_eq_true, decide_eq_true_eq] at h1
    simp [toPy, Int64.toInt_ofInt_of_le h1.1 h1.2]
  · by_cases h2 : fitsU64 z = true
    · simp [h1, h2] at hv; subst hv
      simp only [fitsU64, Bool.and_eq_true, decide_eq_true_eq] at h2
      have : z.toNat < UInt64.size := by
        have := h2.2; simp [UInt64.size]; omega
      simp [toPy, UInt64.toNat_ofNat_of_lt' this]
      omega
    · simp [h1, h2] at hv

mutual
theorem back (p : Py) (v : Value) (hv : fromPy p = .ok v) : toPy v = some p := by
  match p with
  | .none => simp [fromPy] at hv; subst hv; rfl
  | .bool b => simp [fromPy] at hv; subst hv; rfl
  | .int z => exact fromInt_back z v (by simpa [fromPy] using hv)
  | .float k => simp [fromPy] at hv; subst hv; rfl
  | .floatNonFinite => simp [fromPy] at hv
  | .str s => simp [fromPy] at hv; subst hv; rfl
  | .other => simp [fromPy] at hv
  | .list l =>
    simp only [fromPy] at hv
    cases hl : fromPyList l with
    | error e => simp [hl] at hv
    | ok vs =>
      simp only [hl] at hv
      split at hv
      · simp at hv; subst hv
        simp [toPy, backList l vs hl]
      · simp at hv
theorem backList (ps : List Py) (vs : List Value) (hv : fromPyList ps = .ok vs) :
    toPyList vs = some ps := by
  match ps with
  | [] => simp [fromPyList] at hv; subst hv; rfl
  | p :: ps =>
    simp only [fromPyList] at hv
    cases hp : fromPy p with
    | error e => simp [hp] at hv
    | ok v =>
      cases hps : fromPyList ps with
      | error e => simp [hp, hps] at hv
      | ok vs' =>
        simp [hp, hps] at hv; subst hv
        simp [toPyList, back p v hp, backList ps vs' hps]
end
end TF.PyValue
