/-
Helper lemmas for C10, parse layer: no step of `Model/QueryParse.lean` other than
`try_get_query_root` can panic; where and when `try_get_query_root` does.
Site-by-site (each `unwrap/expect/unreachable!/assert!` of query.rs / directives.rs):
* directives.rs:118 `chars().next().unwrap()`, :140 `unreachable!()` — `parseOperand_noPanic`
* directives.rs:172–189 `parsed_args.pop().unwrap()` — `filterOperation_noPanic` (the argument count
  was checked against the operator's arity two lines earlier)
* directives.rs:263 / :411 `argument_node.unwrap()` — `parseOptionalName_noPanic`
* query.rs:506 `assert!(directive_iter.next().is_none())` — `transformGroupLoop_spec`
* query.rs:287 `unreachable!()` — `selectionGuard_noPanic`
* query.rs:523–525 — `makeFieldConnection_no_dirs`
* query.rs:186 `unreachable!` — `parseOperationDefinition_panic` (only `root_items[1]`, query.rs:172,
  can fire, and only on an empty selection set, which the text grammar excludes)
* query.rs:132 (`nth(1)` since the fix of F-6), :139, :172 — `tryGetQueryRoot_panic`
-/
import TrustfallModel.Model.QueryParse
namespace TF.FE
namespace Res
variable {ε α β : Type}

@[simp] theorem bind_ok (a : α) (f : α → Res ε β) : (Res.ok a >>= f) = f a := rfl
@[simp] theorem bind_err (e : ε) (f : α → Res ε β) : ((Res.err e : Res ε α) >>= f) = .err e := rfl
@[simp] theorem bind_panic (s : Site) (f : α → Res ε β) : ((Res.panic s : Res ε α) >>= f) = .panic s := rfl
@[simp] theorem pure_eq (a : α) : (pure a : Res ε α) = .ok a := rfl

@[simp] theorem noPanic_ok (a : α) : (Res.ok a : Res ε α).NoPanic := by intro s h; cases h
@[simp] theorem noPanic_err (e : ε) : (Res.err e : Res ε α).NoPanic := by intro s h; cases h
@[simp] theorem noPanic_panic (s : Site) : ¬ (Res.panic s : Res ε α).NoPanic := by intro h; exact h s rfl

theorem noPanic_bind {x : Res ε α} {f : α → Res ε β} (hx : x.NoPanic)
    (hf : ∀ a, x = .ok a → (f a).NoPanic) : (x >>= f).NoPanic := by
  cases x with
  | ok a => simpa using hf a rfl
  | err e => simp
  | panic s => exact absurd hx (by simp)

theorem bind_eq_panic {x : Res ε α} {f : α → Res ε β} {s : Site} :
    (x >>= f) = .panic s ↔ x = .panic s ∨ ∃ a, x = .ok a ∧ f a = .panic s := by
  cases x <;> simp

theorem bind_eq_ok {x : Res ε α} {f : α → Res ε β} {b : β} :
    (x >>= f) = .ok b ↔ ∃ a, x = .ok a ∧ f a = .ok b := by
  cases x <;> simp

@[simp] theorem noPanic_ofOption (e : ε) (o : Option α) : (Res.ofOption e o).NoPanic := by
  cases o <;> simp [Res.ofOption]
end Res

open Res

theorem parseOperand_noPanic (v : GValue) : (parseOperand v).NoPanic := by
  unfold parseOperand
  split
  · split
    · simp
    · rename_i c name _
      split
      · simp
      · split
        · simp
        · split
          · rename_i h1 h2; simp_all
          · split
            · simp
            · split
              · simp
              · split
                · simp
                · split
                  · simp
                  · rename_i h1 _ _ _ _ h5 h6
                    simp_all
  · simp

theorem parseOperands_noPanic (l : List GValue) : (parseOperands l).NoPanic := by
  induction l with
  | nil => simp [parseOperands]
  | cons v vs ih =>
    simp only [parseOperands]
    exact noPanic_bind (parseOperand_noPanic v) fun a _ => noPanic_bind ih fun b _ => by simp

theorem parseOperands_length {l : List GValue} {r : List OpArg} (h : parseOperands l = .ok r) :
    r.length = l.length := by
  induction l generalizing r with
  | nil => simp [parseOperands] at h; subst h; rfl
  | cons v vs ih =>
    simp only [parseOperands, bind_eq_ok] at h
    obtain ⟨a, _, b, hb, h⟩ := h
    simp at h
    subst h
    simp [ih hb]

theorem filterOpOfName_bin {op : String} {b : BinOp} (h : filterOpOfName op = some (.bin b)) :
    expectedArgCount op = 1 := by
  unfold filterOpOfName at h
  simp only [Option.map_eq_some_iff] at h
  obtain ⟨⟨n, g⟩, hfind, hg⟩ := h
  have hmem := List.mem_of_find?_eq_some hfind
  have hp := List.find?_some hfind
  simp at hp hg
  subst hp hg
  simp only [filterOpTable, List.mem_cons, Prod.mk.injEq, List.not_mem_nil, or_false] at hmem
  rcases hmem with h|h|h|h|h|h|h|h|h|h|h|h|h|h|h|h|h|h|h|h <;> obtain ⟨rfl, h2⟩ := h <;>
    first | (cases h2; done) | (clear hfind; decide)

theorem filterOperation_noPanic (op : String) (parsedArgs : List OpArg) :
    (filterOperation op parsedArgs).NoPanic := by
  intro s hs
  unfold filterOperation at hs
  split at hs
  · cases hs
  · rename_i hlen
    split at hs
    · cases hs
    · cases hs
    · cases hs
    · rename_i b hf
      have hu := filterOpOfName_bin hf
      split at hs
      · cases hs
      · rename_i hnone
        rw [List.getLast?_eq_none_iff] at hnone
        subst hnone
        simp [hu] at hlen

theorem parseFilter_noPanic (d : Directive) : (parseFilter d).NoPanic := by
  unfold parseFilter
  refine noPanic_bind (by simp) fun opArgument _ => ?_
  refine noPanic_bind ?_ fun op _ => ?_
  · unfold stringArgument; split <;> simp
  split
  · simp
  · refine noPanic_bind ?_ fun parsedArgs hp => filterOperation_noPanic _ _
    unfold filterValueArgument
    split <;> simp [parseOperands_noPanic]

theorem checkSingleArgName_noPanic (n : String) (l : List Arg) (seen : Bool) :
    (checkSingleArgName n l seen).NoPanic := by
  induction l generalizing seen with
  | nil => simp [checkSingleArgName]
  | cons a rest ih =>
    simp only [checkSingleArgName]
    split
    · split
      · exact ih _
      · simp
    · simp

theorem parseOptionalName_noPanic (d : Directive) (e : ParseErr) (s : Site) :
    (parseOptionalName d e s).NoPanic := by
  unfold parseOptionalName
  refine noPanic_bind (checkSingleArgName_noPanic _ _ _) fun _ _ => ?_
  refine noPanic_bind ?_ fun parsed hp => ?_
  · unfold optionalStringArgument; split <;> simp
  · unfold checkOptionalName
    split
    · simp
    · split
      · simp
      · split
        · simp
        · rename_i hnode
          rw [hnode] at hp
          simp [optionalStringArgument] at hp

theorem parseOutput_noPanic (d : Directive) : (parseOutput d).NoPanic := by
  unfold parseOutput
  exact noPanic_bind (parseOptionalName_noPanic _ _ _) fun _ _ => by simp

theorem parseTag_noPanic (d : Directive) : (parseTag d).NoPanic := by
  unfold parseTag
  exact noPanic_bind (parseOptionalName_noPanic _ _ _) fun _ _ => by simp

theorem parseTransform_noPanic (d : Directive) : (parseTransform d).NoPanic := by
  unfold parseTransform
  refine noPanic_bind (checkSingleArgName_noPanic _ _ _) fun _ _ => ?_
  refine noPanic_bind (by simp) fun node _ => ?_
  split
  · split <;> simp
  · simp

theorem parseNoArgs_noPanic (d : Directive) : (parseNoArgs d).NoPanic := by
  unfold parseNoArgs
  split <;> simp

theorem parseRecurse_noPanic (d : Directive) : (parseRecurse d).NoPanic := by
  unfold parseRecurse
  refine noPanic_bind (checkSingleArgName_noPanic _ _ _) fun _ _ => ?_
  refine noPanic_bind (by simp) fun node _ => ?_
  split
  · split <;> simp
  · simp

theorem makeDirective_noPanic (d : Directive) : (makeDirective d).NoPanic := by
  unfold makeDirective
  split
  · exact noPanic_bind (parseFilter_noPanic d) fun _ _ => by simp
  split
  · exact noPanic_bind (parseOutput_noPanic d) fun _ _ => by simp
  split
  · exact noPanic_bind (parseTag_noPanic d) fun _ _ => by simp
  split
  · exact noPanic_bind (parseTransform_noPanic d) fun _ _ => by simp
  split
  · exact noPanic_bind (parseNoArgs_noPanic d) fun _ _ => by simp
  split
  · exact noPanic_bind (parseRecurse_noPanic d) fun _ _ => by simp
  split
  · exact noPanic_bind (parseNoArgs_noPanic d) fun _ _ => by simp
  · simp

theorem makeDirectives_noPanic (l : List Directive) : (makeDirectives l).NoPanic := by
  induction l with
  | nil => simp [makeDirectives]
  | cons d ds ih =>
    simp only [makeDirectives]
    exact noPanic_bind (makeDirective_noPanic d) fun _ _ => noPanic_bind ih fun _ _ => by simp

theorem makeDirectives_nil : makeDirectives [] = .ok [] := rfl

/-- `make_transform_group` consumes the whole iterator: the `assert!` at query.rs:506 holds. -/
theorem transformGroupLoop_spec (l : List PDir) :
    ∀ outs tags filts, (transformGroupLoop outs tags filts l).NoPanic ∧
      ∀ g left, transformGroupLoop outs tags filts l = .ok (g, left) → left = [] := by
  induction l with
  | nil => intro o t f; simp [transformGroupLoop]
  | cons x rest ih =>
    intro o t f
    cases x with
    | filter x => simpa [transformGroupLoop] using ih o t (x :: f)
    | output x => simpa [transformGroupLoop] using ih (x :: o) t f
    | tag x => simpa [transformGroupLoop] using ih o (x :: t) f
    | fold => simp [transformGroupLoop]
    | optional => simp [transformGroupLoop]
    | recurse r => simp [transformGroupLoop]
    | transform => simp [transformGroupLoop]

theorem makeTransformGroup_noPanic (l : List PDir) : (makeTransformGroup l).NoPanic :=
  (transformGroupLoop_spec l [] [] []).1

theorem makeFoldGroup_noPanic (l : List PDir) : (makeFoldGroup l).NoPanic := by
  unfold makeFoldGroup
  split
  · simp
  · exact noPanic_bind (makeTransformGroup_noPanic _) fun _ _ => by simp
  · simp
  · simp

theorem connectionArguments_noPanic (acc : List (String × FV)) (l : List Arg) :
    (connectionArguments acc l).NoPanic := by
  induction l generalizing acc with
  | nil => simp [connectionArguments]
  | cons a rest ih =>
    simp only [connectionArguments]
    split
    · simp
    · split
      · simp
      · exact ih _

theorem connectionLoop_noPanic (o : Bool) (r : Option RecurseDirective) (l : List PDir) :
    (connectionLoop o r l).NoPanic := by
  induction l generalizing o r with
  | nil => simp [connectionLoop]
  | cons x rest ih =>
    cases x <;> simp only [connectionLoop]
    case filter => exact ih _ _
    case output => exact ih _ _
    case tag => exact ih _ _
    case fold => simp
    case transform => simp
    case optional => split; exact ih _ _; simp
    case recurse => split; exact ih _ _; simp

theorem foldGroupAfter_noPanic (o : Option (List PDir)) : (foldGroupAfter o).NoPanic := by
  unfold foldGroupAfter
  split
  · simp
  · exact noPanic_bind (makeFoldGroup_noPanic _) fun _ _ => by simp

theorem makeFieldConnection_noPanic (h : FieldHead) : (makeFieldConnection h).NoPanic := by
  unfold makeFieldConnection
  refine noPanic_bind (connectionArguments_noPanic _ _) fun _ _ => ?_
  refine noPanic_bind (makeDirectives_noPanic _) fun _ _ => ?_
  refine noPanic_bind (connectionLoop_noPanic _ _ _) fun r _ => ?_
  exact noPanic_bind (foldGroupAfter_noPanic _) fun _ _ => by simp

/-- A field without directives yields a connection without `@optional`/`@recurse`/`@fold`:
the three `assert!`s at query.rs:523–525 hold after the check at query.rs:515. -/
theorem makeFieldConnection_no_dirs {h : FieldHead} {c : FieldConnection} (hd : h.dirs = [])
    (hc : makeFieldConnection h = .ok c) : c.optional = false ∧ c.recurse = none ∧ c.fold = none := by
  unfold makeFieldConnection at hc
  rw [hd] at hc
  simp only [makeDirectives_nil, bind_eq_ok] at hc
  obtain ⟨args, _, ds, hds, st, hst, fg, hfg, hc⟩ := hc
  cases hds
  simp [connectionLoop] at hst
  subst hst
  simp [foldGroupAfter] at hfg
  subst hfg
  simp at hc
  subst hc
  simp

theorem transformGroupAfter_noPanic (o : Option (List PDir)) : (transformGroupAfter o).NoPanic := by
  unfold transformGroupAfter
  split
  · simp
  · exact noPanic_bind (makeTransformGroup_noPanic _) fun _ _ => by simp

theorem nodeDirectives_noPanic (l : List Directive) : (nodeDirectives l).NoPanic := by
  unfold nodeDirectives
  refine noPanic_bind (makeDirectives_noPanic _) fun ds _ => ?_
  exact noPanic_bind (transformGroupAfter_noPanic _) fun _ _ => by simp

theorem assembleNode_noPanic (h : FieldHead) (c : Option String)
    {conns : PRes (List (FieldConnection × FieldNode))} (hc : conns.NoPanic) :
    (assembleNode h c conns).NoPanic := by
  unfold assembleNode
  refine noPanic_bind (nodeDirectives_noPanic _) fun r _ => ?_
  exact noPanic_bind hc fun _ _ => by simp

/-- `selectionGuard` never yields the `unreachable!()` of query.rs:287 in the branch where it is
consulted (the selection set is not exactly one inline fragment). -/
theorem selectionGuard_noPanic {sels : List Selection}
    (hne : ∀ tc d inner, sels = [.inline tc d inner] → False) {r : PRes FieldNode}
    (h : selectionGuard sels = some r) : r.NoPanic := by
  unfold selectionGuard at h
  split at h
  · cases h; simp
  · split at h
    · split at h
      · cases h; simp
      · rename_i hsp hin hlen
        exfalso
        match sels, hne, hin, hlen with
        | [], _, hin, _ => simp at hin
        | [.inline tc d inner], hne, _, _ => exact hne tc d inner rfl
        | [.field _ _], _, hin, _ => simp [Selection.isInline] at hin
        | [.spread _ _], _, hin, _ => simp [Selection.isInline] at hin
        | _ :: _ :: _, _, _, hlen => simp at hlen
    · cases h

mutual
theorem makeConnection_noPanic : ∀ s : Selection, (makeConnection s).NoPanic
  | .spread _ _ => by simp [makeConnection]
  | .inline _ _ _ => by simp [makeConnection]
  | .field h sels => by
    unfold makeConnection
    refine noPanic_bind (makeFieldConnection_noPanic h) fun _ _ => ?_
    refine noPanic_bind ?_ fun _ _ => by simp
    split
    · rename_i tc d inner
      exact assembleNode_noPanic _ _ (makeConnections_noPanic inner)
    · rename_i hne
      split
      · rename_i r hr
        exact selectionGuard_noPanic (fun tc d inner h => hne tc d inner h) hr
      · exact assembleNode_noPanic _ _ (makeConnections_noPanic sels)
theorem makeConnections_noPanic : ∀ l : List Selection, (makeConnections l).NoPanic
  | [] => by simp [makeConnections]
  | s :: rest => by
    unfold makeConnections
    exact noPanic_bind (makeConnection_noPanic s) fun _ _ =>
      noPanic_bind (makeConnections_noPanic rest) fun _ _ => by simp
end

theorem makeFieldNode_noPanic (h : FieldHead) (sels : List Selection) :
    (makeFieldNode h sels).NoPanic := by
  unfold makeFieldNode
  split
  · exact assembleNode_noPanic _ _ (makeConnections_noPanic _)
  · rename_i hne
    split
    · rename_i r hr
      exact selectionGuard_noPanic (fun tc d inner h => hne tc d inner h) hr
    · exact assembleNode_noPanic _ _ (makeConnections_noPanic sels)

/-- `parse_operation_definition` panics exactly on an empty selection set (`root_items[1]`). -/
theorem parseOperationDefinition_panic {op : Operation} {s : Site}
    (h : parseOperationDefinition op = .panic s) : s = .rootItemsIndex ∧ op.sels = [] := by
  unfold parseOperationDefinition at h
  split at h
  · cases h
  split at h
  · cases h
  split at h
  · cases h
  split at h
  · rename_i hlen
    split at h
    · cases h
    · rename_i hnone
      cases h
      refine ⟨rfl, ?_⟩
      match hs : op.sels with
      | [] => rfl
      | [_] => simp [hs] at hlen
      | _ :: _ :: _ => simp [hs] at hnone
  · rename_i hlen
    split at h
    · cases h
    · cases h
    · cases h
    · rename_i hnone
      simp at hlen
      simp [List.head?_eq_none_iff] at hnone
      simp [hnone] at hlen

theorem parseOperationDefinition_nonempty {op : Operation} (h : op.sels ≠ []) :
    (parseOperationDefinition op).NoPanic := by
  intro s hs
  exact h (parseOperationDefinition_panic hs).2

/-- The operation `try_get_query_root` looks at: the single one, or the only entry of the map. -/
def Doc.soleOperation? (doc : Doc) : Option Operation :=
  match doc.ops with
  | .single op => some op
  | .multiple [(_, op)] => some op
  | .multiple _ => none

/-- Number of operations in the document. -/
def Doc.opCount (doc : Doc) : Nat :=
  match doc.ops with
  | .single _ => 1
  | .multiple l => l.length

/-- Where and when `try_get_query_root` panics: only on structures the text grammar excludes
(since the fix of F-6, `nth(1)` exists whenever the map has more than one entry). -/
theorem tryGetQueryRoot_panic {doc : Doc} {s : Site} (h : tryGetQueryRoot doc = .panic s) :
    doc.frags = [] ∧
    ((s = .opsMultipleEmpty ∧ doc.ops = .multiple []) ∨
     (s = .rootItemsIndex ∧ ∃ op, doc.soleOperation? = some op ∧ op.sels = [])) := by
  unfold tryGetQueryRoot at h
  split at h
  · cases h
  · rename_i hfr
    refine ⟨by simpa using hfr, ?_⟩
    split at h
    · rename_i mult hops
      split at h
      · rename_i hlen
        split at h
        · cases h
        · rename_i hnone
          exfalso
          rw [List.getElem?_eq_none_iff] at hnone
          simp at hlen
          omega
      · rename_i hlen
        split at h
        · rename_i n op hhead
          right
          obtain ⟨hs, hsel⟩ := parseOperationDefinition_panic h
          refine ⟨hs, op, ?_, hsel⟩
          match mult, hlen, hhead with
          | [(n', op')], _, hhead =>
            simp at hhead
            simp [Doc.soleOperation?, hops, hhead.2]
          | _ :: _ :: _, hlen, _ => simp at hlen
        · rename_i hnone
          cases h
          left
          simp [List.head?_eq_none_iff] at hnone
          exact ⟨rfl, by rw [hops, hnone]⟩
    · rename_i op hops
      right
      obtain ⟨hs, hsel⟩ := parseOperationDefinition_panic h
      exact ⟨hs, op, by simp [Doc.soleOperation?, hops], hsel⟩

/-- Every panic of `parse_document` is a panic of `try_get_query_root`. -/
theorem parseDocument_panic {doc : Doc} {s : Site} (h : parseDocument doc = .panic s) :
    tryGetQueryRoot doc = .panic s := by
  unfold parseDocument at h
  rw [bind_eq_panic] at h
  rcases h with h | ⟨⟨hd, sels⟩, hroot, h⟩
  · exact h
  · exfalso
    dsimp only at h
    split at h
    · cases h
    · rename_i hdirs
      rw [bind_eq_panic] at h
      rcases h with h | ⟨c, hc, h⟩
      · exact makeFieldConnection_noPanic _ _ h
      · have hd' : hd.dirs = [] := by simpa using hdirs
        obtain ⟨h1, h2, h3⟩ := makeFieldConnection_no_dirs hd' hc
        simp [Res.assert, h1, h2, h3] at h
        rw [bind_eq_panic] at h
        rcases h with h | ⟨n, _, h⟩
        · exact makeFieldNode_noPanic _ _ _ h
        · cases h

end TF.FE
