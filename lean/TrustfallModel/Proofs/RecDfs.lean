/-
Recursion is pre-order depth-first search: the piggy-backed, level-by-level expansion of
`expand_recursive_edge` (+ `unpack_piggyback`, `ensure_unsuspended`) of the interpreter model yields,
for a context at vertex `x`, one context per vertex of the (coercion-gated) depth-first pre-order
to the requested depth, in that order.  Core lemma (iv) of C01.
-/
import TrustfallModel.Model.Interp
namespace TF.Engine

/-- effect of `ensure_unsuspended` when it does not panic -/
def Ctx.norm (c : Ctx) : Ctx :=
  match c.active with
  | some _ => c
  | none =>
    match c.suspended with
    | top :: rest => { c with active := top, suspended := rest }
    | [] => c

def Ctx.good (c : Ctx) : Bool := c.active.isSome || !c.suspended.isEmpty

theorem ensureUnsuspended_of_good (c : Ctx) (h : c.good) : c.ensureUnsuspended = .ok c.norm := by
  unfold Ctx.ensureUnsuspended Ctx.norm Ctx.good at *
  cases ha : c.active with
  | some v => rfl
  | none =>
    cases hs : c.suspended with
    | nil => simp [ha, hs] at h
    | cons t r => rfl

theorem norm_ensureSuspended (c : Ctx) (v : VertexId) (h : c.active = some v) :
    c.ensureSuspended.norm = c := by
  unfold Ctx.ensureSuspended Ctx.norm
  simp [h]
  cases c; simp_all

/-- gated depth-first pre-order: `gate` decides whether a vertex may be expanded further -/
def dfsG (nb : VertexId → List VertexId) (gate : VertexId → Bool) : Nat → VertexId → List VertexId
  | 0, v => [v]
  | k + 1, v => v :: (if gate v then (nb v).flatMap (dfsG nb gate k) else [])

variable (nb : Option VertexId → List VertexId) (gate : Option VertexId → Bool)

/-- pure form of `recExpandLevel` for an adapter whose `nbrs` never fails -/
def expandLevelP (ps : List PCtx) : List PCtx :=
  ps.flatMap fun p => match p with | .mk c piggy => recExpandOne (nb c.active) (.mk c piggy)

/-- pure form of `recCoerceLevel` -/
def coerceLevelP (ps : List PCtx) : List PCtx :=
  ps.map fun p => match p with
    | .mk c piggy => if gate c.active then PCtx.mk c piggy else PCtx.mk c.ensureSuspended piggy

def levelsP : Nat → List PCtx → List PCtx
  | 0, ps => ps
  | k + 1, ps => levelsP k (expandLevelP nb (coerceLevelP gate ps))

/-- what one top-level element contributes after `j` more (gated) levels, normalised -/
def expansion (j : Nat) (c : Ctx) : List Ctx :=
  match c.active with
  | none => [c.norm]
  | some v => (dfsG (fun w => nb (some w)) (fun w => gate (some w)) j v).map fun w => c.splitTo (some w)

end TF.Engine
namespace TF.Engine
variable (nb : Option VertexId → List VertexId) (gate : Option VertexId → Bool)

theorem splitTo_self (c : Ctx) (v : VertexId) (h : c.active = some v) : c.splitTo (some v) = c := by
  cases c; simp_all [Ctx.splitTo]

theorem splitTo_splitTo (c : Ctx) (a b : Option VertexId) : (c.splitTo a).splitTo b = c.splitTo b := by
  simp [Ctx.splitTo]

theorem norm_of_active (c : Ctx) (v : VertexId) (h : c.active = some v) : c.norm = c := by
  simp [Ctx.norm, h]

theorem ensureSuspended_none (c : Ctx) (h : c.active = none) : c.ensureSuspended = c := by
  simp [Ctx.ensureSuspended, h]

theorem ensureSuspended_active (c : Ctx) (v : VertexId) (h : c.active = some v) :
    c.ensureSuspended.active = none := by
  simp [Ctx.ensureSuspended, h]

theorem dfsG_leaf (nbv : VertexId → List VertexId) (g : VertexId → Bool) (j : Nat) (v : VertexId)
    (h : nbv v = []) : dfsG nbv g j v = [v] := by
  cases j <;> simp [dfsG, h]

theorem unpackList_append' (xs ys : List PCtx) :
    unpackList (xs ++ ys) = unpackList xs ++ unpackList ys := by
  induction xs with
  | nil => simp [unpackList]
  | cons x xs ih => simp [unpackList, ih]

theorem unpackList_flatMap {α : Type} (f : α → List PCtx) (l : List α) :
    unpackList (l.flatMap f) = l.flatMap fun a => unpackList (f a) := by
  induction l with
  | nil => simp [unpackList]
  | cons x xs ih => simp [unpackList_append', ih]

/-- contribution of one top-level element after `j` levels -/
def contrib (j : Nat) : PCtx → List Ctx
  | .mk c piggy => (unpackList piggy).map Ctx.norm ++ expansion nb gate j c

theorem unpackList_map_rest (c : Ctx) (rest : List VertexId) (j : Nat) :
    (rest.map fun m => PCtx.mk ((c.splitTo none).splitTo (some m)) []).flatMap (contrib nb gate j) =
      rest.flatMap fun m =>
        (dfsG (fun w => nb (some w)) (fun w => gate (some w)) j m).map fun w => c.splitTo (some w) := by
  induction rest with
  | nil => simp
  | cons m rest ih =>
    simp only [List.map_cons, List.flatMap_cons, ih]
    simp [contrib, expansion, unpackList, Ctx.splitTo]

/-- One expansion step of one element (gated by `g`), followed by `j` more levels, contributes what
`j + 1` levels contribute from the element itself. -/
theorem step_contrib (hnone : nb none = []) (j : Nat) (c : Ctx) (piggy : List PCtx) (g : Bool) :
    (recExpandOne (nb (if g then c else c.ensureSuspended).active)
        (.mk (if g then c else c.ensureSuspended) piggy)).flatMap (contrib nb gate j) =
      (unpackList piggy).map Ctx.norm ++
        (match c.active with
          | none => [c.norm]
          | some v => (v :: (if g then (nb (some v)).flatMap
              (dfsG (fun w => nb (some w)) (fun w => gate (some w)) j) else [])).map
                fun w => c.splitTo (some w)) := by
  cases ha : c.active with
  | none =>
    have : (if g then c else c.ensureSuspended) = c := by
      cases g <;> simp [ensureSuspended_none c ha]
    simp [this, ha, hnone, recExpandOne, contrib, expansion]
  | some v =>
    cases g with
    | false =>
      simp only [Bool.false_eq_true, if_false, ensureSuspended_active c v ha, hnone, recExpandOne]
      simp [contrib, expansion, ensureSuspended_active c v ha, norm_ensureSuspended c v ha,
        splitTo_self c v ha]
    | true =>
      simp only [if_true, ha]
      cases hn : nb (some v) with
      | nil =>
        simp [recExpandOne, contrib, expansion, ha, dfsG_leaf (fun w => nb (some w)) _ j v hn, splitTo_self c v ha]
      | cons n rest =>
        simp only [recExpandOne, List.flatMap_cons, unpackList_map_rest]
        simp [contrib, expansion, unpackList, unpack, norm_ensureSuspended c v ha, Ctx.splitTo,
          splitTo_self c v ha]
        cases c; simp_all [Ctx.splitTo, List.map_flatMap]

end TF.Engine
namespace TF.Engine
variable (nb : Option VertexId → List VertexId) (gate : Option VertexId → Bool)

theorem contrib_succ (hnone : nb none = []) (j : Nat) (c : Ctx) (piggy : List PCtx) :
    contrib nb gate (j + 1) (.mk c piggy) =
      (unpackList piggy).map Ctx.norm ++
        (match c.active with
          | none => [c.norm]
          | some v => (v :: (if gate (some v) then (nb (some v)).flatMap
              (dfsG (fun w => nb (some w)) (fun w => gate (some w)) j) else [])).map
                fun w => c.splitTo (some w)) := by
  simp only [contrib, expansion]
  cases c.active <;> simp [dfsG]

/-- The unpacked, normalised result of `j` gated levels is the concatenation of what each
top-level element contributes. -/
theorem levels_unpack (hnone : nb none = []) (j : Nat) (ps : List PCtx) :
    (unpackList (levelsP nb gate j ps)).map Ctx.norm = ps.flatMap (contrib nb gate j) := by
  induction j generalizing ps with
  | zero =>
    simp only [levelsP]
    induction ps with
    | nil => simp [unpackList]
    | cons p ps ih =>
      obtain ⟨c, piggy⟩ := p
      simp only [unpackList, unpack, List.map_append, List.flatMap_cons, ih]
      simp only [contrib, expansion]
      cases ha : c.active with
      | none => simp
      | some v => simp [dfsG, norm_of_active c v ha, splitTo_self c v ha]
  | succ j ih =>
    simp only [levelsP, ih]
    induction ps with
    | nil => simp [expandLevelP, coerceLevelP]
    | cons p ps ihp =>
      obtain ⟨c, piggy⟩ := p
      simp only [coerceLevelP, expandLevelP, List.map_cons, List.flatMap_cons, List.flatMap_append] at ihp ⊢
      rw [ihp, contrib_succ nb gate hnone]
      congr 1
      have := step_contrib nb gate hnone j c piggy (gate c.active)
      cases ha : c.active with
      | none =>
        simp only [ha] at this ⊢
        cases hg : gate none <;> simp only [hg] at this ⊢ <;> simpa using this
      | some v =>
        simp only [ha] at this ⊢
        cases hg : gate (some v) <;> simp only [hg] at this ⊢ <;> simpa using this

end TF.Engine
namespace TF.Engine

theorem mapR_ok {α β : Type} (f : α → R β) (g : α → β) (h : ∀ x, f x = .ok (g x)) (l : List α) :
    mapR f l = .ok (l.map g) := by
  induction l with
  | nil => rfl
  | cons x xs ih => simp [mapR, h, ih]

theorem mapR_ok_mem {α β : Type} (f : α → R β) (g : α → β) (l : List α)
    (h : ∀ x ∈ l, f x = .ok (g x)) : mapR f l = .ok (l.map g) := by
  induction l with
  | nil => rfl
  | cons x xs ih =>
    simp [mapR, h x (by simp), ih (fun y hy => h y (by simp [hy]))]

theorem flatMapR_ok {α β : Type} (f : α → R (List β)) (g : α → List β) (h : ∀ x, f x = .ok (g x))
    (l : List α) : flatMapR f l = .ok (l.flatMap g) := by
  induction l with
  | nil => rfl
  | cons x xs ih => simp [flatMapR, h, ih]

def allGood (ps : List PCtx) : Prop := ∀ c ∈ unpackList ps, c.good = true

variable (nb : Option VertexId → List VertexId) (gate : Option VertexId → Bool)

theorem good_ensureSuspended (c : Ctx) (h : c.good = true) : c.ensureSuspended.good = true := by
  unfold Ctx.ensureSuspended
  cases ha : c.active with
  | none => simpa [ha] using h
  | some v => simp [Ctx.good]

theorem good_splitTo_some (c : Ctx) (n : VertexId) : (c.splitTo (some n)).good = true := by
  simp [Ctx.good, Ctx.splitTo]

theorem allGood_coerce (ps : List PCtx) (h : allGood ps) : allGood (coerceLevelP gate ps) := by
  induction ps with
  | nil => simpa [coerceLevelP] using h
  | cons p ps ih =>
    obtain ⟨c, piggy⟩ := p
    intro x hx
    simp only [coerceLevelP, List.map_cons, unpackList, unpack, List.mem_append] at hx
    have hp : ∀ y ∈ unpackList piggy ++ [c], y.good = true := fun y hy =>
      h y (by simp only [unpackList, unpack, List.mem_append]; exact Or.inl (by simpa using hy))
    have hrest : allGood ps := fun y hy =>
      h y (by simp only [unpackList, List.mem_append]; exact Or.inr hy)
    rcases hx with hx | hx
    · split at hx
      · exact hp x (by simpa [unpack] using hx)
      · simp only [unpack, List.mem_append, List.mem_singleton] at hx
        rcases hx with hx | hx
        · exact hp x (by simp [hx])
        · subst hx; exact good_ensureSuspended c (hp c (by simp))
    · exact ih hrest x (by simpa [coerceLevelP] using hx)

theorem allGood_expand (ps : List PCtx) (h : allGood ps) : allGood (expandLevelP nb ps) := by
  induction ps with
  | nil => simpa [expandLevelP] using h
  | cons p ps ih =>
    obtain ⟨c, piggy⟩ := p
    intro x hx
    simp only [expandLevelP, List.flatMap_cons, unpackList_append', List.mem_append] at hx
    have hp : ∀ y ∈ unpackList piggy ++ [c], y.good = true := fun y hy =>
      h y (by simp only [unpackList, unpack, List.mem_append]; exact Or.inl (by simpa using hy))
    have hrest : allGood ps := fun y hy =>
      h y (by simp only [unpackList, List.mem_append]; exact Or.inr hy)
    rcases hx with hx | hx
    · simp only [recExpandOne] at hx
      split at hx
      · exact hp x (by simpa [unpackList, unpack] using hx)
      · rename_i n rest _
        simp only [unpackList, unpack, List.mem_append, List.mem_singleton, List.append_nil] at hx
        rcases hx with ((hx | hx) | hx) | hx
        · exact hp x (by simp [hx])
        · subst hx; exact good_ensureSuspended c (hp c (by simp))
        · subst hx; exact good_splitTo_some c n
        · have : ∀ (l : List VertexId), x ∈ unpackList (l.map fun m =>
              PCtx.mk ((c.splitTo none).splitTo (some m)) []) → x.good = true := by
            intro l
            induction l with
            | nil => simp [unpackList]
            | cons m l ihl =>
              simp only [List.map_cons, unpackList, unpack, List.mem_append, List.nil_append,
                List.mem_singleton]
              rintro (hx | hx)
              · subst hx; simp [Ctx.good, Ctx.splitTo]
              · exact ihl hx
          exact this rest hx
    · exact ih hrest x (by simpa [expandLevelP] using hx)

theorem allGood_levels (j : Nat) (ps : List PCtx) (h : allGood ps) : allGood (levelsP nb gate j ps) := by
  induction j generalizing ps with
  | zero => simpa [levelsP] using h
  | succ j ih => exact ih _ (allGood_expand nb _ (allGood_coerce gate _ h))

end TF.Engine
namespace TF.Engine

/-- neighbours along the recursed edge, as the table adapter answers them -/
def recNb (d : Data) (e : IREdge) : Option VertexId → List VertexId :=
  fun a => d.nbrsOpt a e.name e.params

/-- may an element be expanded at the next level? (`resolve_coercion` to the implicit
`coerce_to`, when there is one) -/
def recGate (d : Data) (coerceTo : Option Name) : Option VertexId → Bool :=
  fun a => match coerceTo with
    | none => true
    | some t => match a with
      | some x => d.isA x t
      | none => false

theorem recExpandLevel_table (d : Data) (args) (e : IREdge) (ty : Name) (ps : List PCtx) :
    recExpandLevel (Env.ofData d args) e ty ps = .ok (expandLevelP (recNb d e) ps) := by
  unfold recExpandLevel expandLevelP
  apply flatMapR_ok
  intro p; cases p; rfl

theorem coerceLevelP_true (ps : List PCtx) : coerceLevelP (fun _ => true) ps = ps := by
  induction ps with
  | nil => rfl
  | cons p ps ih =>
    cases p
    simp only [coerceLevelP, List.map_cons, if_true] at ih ⊢
    rw [ih]

theorem recCoerceLevel_table (d : Data) (args) (e : IREdge) (et t : Name) (ps : List PCtx) :
    recCoerceLevel (Env.ofData d args) e et t ps = .ok (coerceLevelP (recGate d (some t)) ps) := by
  simp only [recCoerceLevel, coerceLevelP]
  apply mapR_ok
  intro p; cases p with
  | mk c piggy =>
    cases hca : c.active <;> simp [Env.ofData, Data.adapter, recGate, hca, R.bind, bind, pure]

theorem recLevels_table (d : Data) (args) (e : IREdge) (et rf : Name) (ct : Option Name) (k : Nat)
    (ps : List PCtx) :
    recLevels (Env.ofData d args) e et rf ct k ps = .ok (levelsP (recNb d e) (recGate d ct) k ps) := by
  induction k generalizing ps with
  | zero => rfl
  | succ k ih =>
    cases ct with
    | none =>
      have hg : recGate d none = fun _ => true := by funext a; rfl
      simp only [recLevels, levelsP, R.bind, recExpandLevel_table, ih, hg, coerceLevelP_true]
    | some t =>
      simp only [recLevels, levelsP, R.bind, recCoerceLevel_table, recExpandLevel_table, ih]

/-- **Recursion is pre-order depth-first search.**  For a context whose active vertex is `x`, the
piggy-backed level-by-level expansion of `expand_recursive_edge`, followed by
`unpack_piggyback` and `ensure_unsuspended`, yields one context per vertex of the gated
depth-first pre-order to depth `k + 1` from `x`, in that order, each equal to the original context
moved to that vertex. -/
theorem recFinish_table (d : Data) (args) (e : IREdge) (r : Recursive) (fromV toV : IRVertex)
    (c0 : Ctx) (x : VertexId) (k : Nat) (hx : c0.active = some x) (hd : r.depth = k + 1) :
    recFinish (Env.ofData d args) e r fromV toV [c0] =
      .ok ((x :: (d.nbrs x e.name e.params).flatMap
          (dfsG (fun w => d.nbrs w e.name e.params) (fun w => recGate d r.coerceTo (some w)) k)).map
            fun w => c0.splitTo (some w)) := by
  unfold recFinish
  simp only [recExpandLevel_table, recLevels_table, R.bind, hd, Nat.add_sub_cancel, List.map_cons,
    List.map_nil]
  have hgood0 : allGood [PCtx.mk c0 []] := by
    intro c hc
    simp only [unpackList, unpack, List.nil_append, List.append_nil, List.mem_singleton] at hc
    subst hc; simp [Ctx.good, hx]
  have hgood := allGood_levels (recNb d e) (recGate d r.coerceTo) k _
    (allGood_expand (recNb d e) _ hgood0)
  rw [mapR_ok_mem Ctx.ensureUnsuspended Ctx.norm _
    (fun c hc => ensureUnsuspended_of_good c (hgood c hc))]
  congr 1
  rw [levels_unpack (recNb d e) (recGate d r.coerceTo) (by rfl)]
  have := step_contrib (recNb d e) (recGate d r.coerceTo) (by rfl) k c0 [] true
  simp only [if_true, hx] at this
  simp only [expandLevelP, List.flatMap_cons, List.flatMap_nil, List.append_nil, hx]
  rw [this]
  simp [unpackList, recNb, Data.nbrsOpt]

end TF.Engine

namespace TF.Engine

/-- un-gated pre-order to depth `k` (the `reach` of the declarative semantics) -/
def reachN (nb : VertexId → List VertexId) : Nat → VertexId → List VertexId
  | 0, v => [v]
  | k + 1, v => v :: (nb v).flatMap (reachN nb k)

/-- When vertices that fail the gate have no neighbours anyway (the implicit coercion only stops
vertices whose type lacks the edge), gating is invisible. -/
theorem dfsG_eq_reachN (nb : VertexId → List VertexId) (gate : VertexId → Bool)
    (h : ∀ w, gate w = false → nb w = []) (k : Nat) (v : VertexId) :
    dfsG nb gate k v = reachN nb k v := by
  induction k generalizing v with
  | zero => rfl
  | succ k ih =>
    simp only [dfsG, reachN]
    cases hg : gate v with
    | true =>
      simp only [if_true]
      congr 1
      induction nb v with
      | nil => rfl
      | cons a l ihl => simp [ih, ihl]
    | false => simp [h v hg]

end TF.Engine
