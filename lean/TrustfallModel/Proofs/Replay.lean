/-
The record / replay principle (C15), generically: lemmas about `run`, `tap`, `replayEnv` of
`Model/Replay.lean`.  Core Lean only.
-/
import TrustfallModel.Model.Replay

namespace TF.Replay
variable {A R : Type}

theorem run_zero (σ : Strategy A R) (E : Env A R) (h : History A R) (s : E.S) :
    run σ E 0 h s = ⟨h, .outOfFuel, s⟩ := rfl

theorem run_succ_stop (σ : Strategy A R) (E : Env A R) (n : Nat) (h : History A R) (s : E.S)
    (hσ : σ h = none) : run σ E (n + 1) h s = ⟨h, .stopped, s⟩ := by
  simp [run, hσ]

theorem run_succ_fail (σ : Strategy A R) (E : Env A R) (n : Nat) (h : History A R) (s : E.S)
    (a : A) (hσ : σ h = some a) (hE : E.step s a = none) :
    run σ E (n + 1) h s = ⟨h, .envFailed, s⟩ := by
  simp [run, hσ, hE]

theorem run_succ_step (σ : Strategy A R) (E : Env A R) (n : Nat) (h : History A R) (s : E.S)
    (a : A) (r : R) (s' : E.S) (hσ : σ h = some a) (hE : E.step s a = some (r, s')) :
    run σ E (n + 1) h s = run σ E n (h ++ [(a, r)]) s' := by
  simp [run, hσ, hE]

/-- A run only ever extends the interaction it started from. -/
theorem run_hist_extends (σ : Strategy A R) (E : Env A R) (n : Nat) (h : History A R) (s : E.S) :
    ∃ ext, (run σ E n h s).hist = h ++ ext := by
  induction n generalizing h s with
  | zero => exact ⟨[], by simp [run]⟩
  | succ n ih =>
    cases hσ : σ h with
    | none => exact ⟨[], by simp [run_succ_stop _ _ _ _ _ hσ]⟩
    | some a =>
      cases hE : E.step s a with
      | none => exact ⟨[], by simp [run_succ_fail _ _ _ _ _ a hσ hE]⟩
      | some p =>
        obtain ⟨r, s'⟩ := p
        obtain ⟨ext, hext⟩ := ih (h ++ [(a, r)]) s'
        exact ⟨(a, r) :: ext, by rw [run_succ_step _ _ _ _ _ a r s' hσ hE, hext]; simp⟩

/-- More fuel does not change a run that did not run out of fuel. -/
theorem run_fuel_mono (σ : Strategy A R) (E : Env A R) (n : Nat) (h : History A R) (s : E.S)
    (hstop : (run σ E n h s).status ≠ .outOfFuel) (m : Nat) (hm : n ≤ m) :
    run σ E m h s = run σ E n h s := by
  induction n generalizing h s m with
  | zero => simp [run] at hstop
  | succ n ih =>
    cases m with
    | zero => omega
    | succ m =>
      cases hσ : σ h with
      | none => rw [run_succ_stop _ _ _ _ _ hσ, run_succ_stop _ _ _ _ _ hσ]
      | some a =>
        cases hE : E.step s a with
        | none => rw [run_succ_fail _ _ _ _ _ a hσ hE, run_succ_fail _ _ _ _ _ a hσ hE]
        | some p =>
          obtain ⟨r, s'⟩ := p
          rw [run_succ_step _ _ _ _ _ a r s' hσ hE] at hstop ⊢
          rw [run_succ_step _ _ _ _ _ a r s' hσ hE]
          exact ih _ _ hstop m (by omega)

/-- Replaying a recorded run step by step: the replaying environment, holding exactly the part of
the recording that the original run added to `h`, reproduces the run — same interaction, same way of
ending — and ends with the recording used up. -/
theorem replay_run [DecidableEq A] (σ : Strategy A R) (E : Env A R) (t₀ : History A R) (n : Nat)
    (h : History A R) (s : E.S) (ext : History A R)
    (hext : (run σ E n h s).hist = h ++ ext) :
    (run σ (replayEnv t₀) n h ext).hist = h ++ ext ∧
      (run σ (replayEnv t₀) n h ext).status = (run σ E n h s).status ∧
      (run σ (replayEnv t₀) n h ext).envState = ([] : History A R) := by
  induction n generalizing h s ext with
  | zero =>
    have : ext = [] := by simpa [run] using hext
    subst this; simp [run]
  | succ n ih =>
    cases hσ : σ h with
    | none =>
      rw [run_succ_stop _ _ _ _ _ hσ] at hext ⊢
      have : ext = [] := by simpa using hext
      subst this
      rw [run_succ_stop _ _ _ _ _ hσ]; simp
    | some a =>
      cases hE : E.step s a with
      | none =>
        rw [run_succ_fail _ _ _ _ _ a hσ hE] at hext ⊢
        have : ext = [] := by simpa using hext
        subst this
        rw [run_succ_fail σ (replayEnv t₀) _ _ _ a hσ (by simp [replayEnv])]; simp
      | some p =>
        obtain ⟨r, s'⟩ := p
        rw [run_succ_step _ _ _ _ _ a r s' hσ hE] at hext ⊢
        obtain ⟨ext', hext'⟩ := run_hist_extends σ E n (h ++ [(a, r)]) s'
        have hx : ext = (a, r) :: ext' := by
          rw [hext'] at hext
          simpa using hext.symm
        subst hx
        rw [run_succ_step σ (replayEnv t₀) _ _ _ a r ext' hσ (by simp [replayEnv])]
        have := ih (h ++ [(a, r)]) s' ext' hext'
        simpa using this

/-- The tapped environment answers as the original one, and its log grows by the interaction. -/
theorem tap_run (σ : Strategy A R) (E : Env A R) (n : Nat) (h : History A R) (s : E.S)
    (log : History A R) :
    (run σ (tap E) n h (s, log)).hist = (run σ E n h s).hist ∧
      (run σ (tap E) n h (s, log)).status = (run σ E n h s).status ∧
      (run σ (tap E) n h (s, log)).envState.1 = (run σ E n h s).envState ∧
      ∀ ext, (run σ E n h s).hist = h ++ ext →
        (run σ (tap E) n h (s, log)).envState.2 = log ++ ext := by
  induction n generalizing h s log with
  | zero =>
    refine ⟨rfl, rfl, rfl, ?_⟩
    intro ext hext
    have : ext = [] := by simpa [run] using hext
    subst this; simp [run]
  | succ n ih =>
    cases hσ : σ h with
    | none =>
      rw [run_succ_stop _ _ _ _ _ hσ, run_succ_stop _ _ _ _ _ hσ]
      refine ⟨rfl, rfl, rfl, ?_⟩
      intro ext hext
      have : ext = [] := by simpa using hext
      subst this; simp
    | some a =>
      cases hE : E.step s a with
      | none =>
        rw [run_succ_fail _ _ _ _ _ a hσ hE,
          run_succ_fail σ (tap E) _ _ _ a hσ (by simp [tap, hE])]
        refine ⟨rfl, rfl, rfl, ?_⟩
        intro ext hext
        have : ext = [] := by simpa using hext
        subst this; simp
      | some p =>
        obtain ⟨r, s'⟩ := p
        rw [run_succ_step _ _ _ _ _ a r s' hσ hE,
          run_succ_step σ (tap E) _ _ _ a r (s', log ++ [(a, r)]) hσ (by simp [tap, hE])]
        obtain ⟨h1, h2, h3, h4⟩ := ih (h ++ [(a, r)]) s' (log ++ [(a, r)])
        refine ⟨h1, h2, h3, ?_⟩
        intro ext hext
        obtain ⟨ext', hext'⟩ := run_hist_extends σ E n (h ++ [(a, r)]) s'
        have hx : ext = (a, r) :: ext' := by
          rw [hext'] at hext
          simpa using hext.symm
        subst hx
        rw [h4 ext' hext']; simp

end TF.Replay
