/-
Record / replay on the list-level interpreter: the interpreter is *monotone in the adapter*
(`interpret_le`): run with an adapter that answers as `B` does or not at all (`Miss`: the panic
site of `replayAdapter` for a call that is not in its table), it computes what it computes with
`B`, or stops at a call without an answer.  Consequently a truthful table replays to the result of
the direct run as soon as it is complete for the run, and `record` produces truthful tables.
-/
import TrustfallModel.Model.ReplayInterp

namespace TF.Engine

def Miss {α : Type} (r : R α) : Prop := ∃ s, r = .panic (missingSite ++ s)
def Le {α : Type} (r r' : R α) : Prop := r = r' ∨ Miss r

theorem Le.refl {α : Type} (r : R α) : Le r r := Or.inl rfl
theorem Le.of_eq {α : Type} {r r' : R α} (h : r = r') : Le r r' := Or.inl h

theorem Le.bind {α β : Type} {m m' : R α} {k k' : α → R β} (hm : Le m m')
    (hk : ∀ x, Le (k x) (k' x)) : Le (m.bind k) (m'.bind k') := by
  rcases hm with rfl | ⟨s, rfl⟩
  · cases m with
    | ok a => exact hk a
    | panic s => exact Or.inl rfl
    | fuel => exact Or.inl rfl
  · exact Or.inr ⟨s, rfl⟩

theorem Le.bind' {α β : Type} {m m' : R α} {k k' : α → R β} (hm : Le m m')
    (hk : ∀ x, Le (k x) (k' x)) : Le (m >>= k) (m' >>= k') := Le.bind hm hk

theorem Le.map {α β : Type} {m m' : R α} (f : α → β) (hm : Le m m') : Le (m.map f) (m'.map f) := by
  rcases hm with rfl | ⟨s, rfl⟩
  · exact Le.refl _
  · exact Or.inr ⟨s, rfl⟩

theorem Le.mapR {α β : Type} {f g : α → R β} (h : ∀ x, Le (f x) (g x)) (xs : List α) :
    Le (mapR f xs) (mapR g xs) := by
  induction xs with
  | nil => exact Le.refl _
  | cons x xs ih =>
    simp only [TF.Engine.mapR]
    rcases h x with hx | ⟨s, hx⟩
    · rw [hx]
      cases g x with
      | ok y =>
        rcases ih with ih | ⟨s, ih⟩
        · rw [ih]; exact Le.refl _
        · rw [ih]; exact Or.inr ⟨s, rfl⟩
      | panic s => exact Le.refl _
      | fuel => exact Le.refl _
    · rw [hx]; exact Or.inr ⟨s, rfl⟩

theorem Le.filterMapR {α β : Type} {f g : α → R (Option β)} (h : ∀ x, Le (f x) (g x)) (xs : List α) :
    Le (filterMapR f xs) (filterMapR g xs) := by
  induction xs with
  | nil => exact Le.refl _
  | cons x xs ih =>
    simp only [TF.Engine.filterMapR]
    rcases h x with hx | ⟨s, hx⟩
    · rw [hx]
      cases g x with
      | ok y =>
        rcases ih with ih | ⟨s, ih⟩
        · rw [ih]; exact Le.refl _
        · rw [ih]; exact Or.inr ⟨s, rfl⟩
      | panic s => exact Le.refl _
      | fuel => exact Le.refl _
    · rw [hx]; exact Or.inr ⟨s, rfl⟩

theorem Le.flatMapR {α β : Type} {f g : α → R (List β)} (h : ∀ x, Le (f x) (g x)) (xs : List α) :
    Le (flatMapR f xs) (flatMapR g xs) := by
  induction xs with
  | nil => exact Le.refl _
  | cons x xs ih =>
    simp only [TF.Engine.flatMapR]
    rcases h x with hx | ⟨s, hx⟩
    · rw [hx]
      cases g x with
      | ok y =>
        rcases ih with ih | ⟨s, ih⟩
        · rw [ih]; exact Le.refl _
        · rw [ih]; exact Or.inr ⟨s, rfl⟩
      | panic s => exact Le.refl _
      | fuel => exact Le.refl _
    · rw [hx]; exact Or.inr ⟨s, rfl⟩

structure Below (A B : Adapter) : Prop where
  start : ∀ e ps vid, Le (A.start e ps vid) (B.start e ps vid)
  prop : ∀ vid t f v, Le (A.prop vid t f v) (B.prop vid t f v)
  nbrs : ∀ eid t e ps v, Le (A.nbrs eid t e ps v) (B.nbrs eid t e ps v)
  coerce : ∀ vid t c v, Le (A.coerce vid t c v) (B.coerce vid t c v)

section mono
variable {A B : Adapter} (env : Env) (hAB : Below A B)
include hAB

theorem coerceIfNeeded_le (v : IRVertex) (ctxs : List Ctx) :
    Le (coerceIfNeeded (env.withAdapter A) v ctxs) (coerceIfNeeded (env.withAdapter B) v ctxs) := by
  unfold coerceIfNeeded
  split
  · exact Le.refl _
  · apply Le.filterMapR; intro c
    apply Le.bind' (hAB.coerce _ _ _ _); intro x; exact Le.refl _

theorem computeLocalField_le (vid : Vid) (t f : Name) (ctxs : List Ctx) :
    Le (computeLocalField (env.withAdapter A) vid t f ctxs)
       (computeLocalField (env.withAdapter B) vid t f ctxs) := by
  unfold computeLocalField
  apply Le.mapR; intro c
  apply Le.bind' (hAB.prop _ _ _ _); intro x; exact Le.refl _

theorem tagValue_le (comp : Component) (cv : Vid) (r : FieldRef) (c : Ctx) :
    Le (tagValue (env.withAdapter A) comp cv r c) (tagValue (env.withAdapter B) comp cv r c) := by
  unfold tagValue
  repeat' split
  all_goals first
    | exact Le.refl _
    | (apply Le.bind' (Le.refl _); intro t; apply Le.bind' (hAB.prop _ _ _ _); intro x; exact Le.refl _)
    | (apply Le.bind' (hAB.prop _ _ _ _); intro x; exact Le.refl _)

theorem applyFilter_le (comp : Component) (cv : Vid) (f : IRFilter) (ctxs : List Ctx) :
    Le (applyFilter (env.withAdapter A) comp cv f ctxs) (applyFilter (env.withAdapter B) comp cv f ctxs) := by
  unfold applyFilter
  split
  · exact Le.refl _
  · exact Le.refl _
  · apply Le.filterMapR; intro c
    apply Le.bind' (tagValue_le env hAB comp cv _ c); intro t
    exact Le.refl _
  · exact Le.refl _

theorem applyLocalFieldFilter_le (comp : Component) (vid : Vid) (f : IRFilter) (ctxs : List Ctx) :
    Le (applyLocalFieldFilter (env.withAdapter A) comp vid f ctxs)
       (applyLocalFieldFilter (env.withAdapter B) comp vid f ctxs) := by
  unfold applyLocalFieldFilter
  split
  · apply Le.bind (Le.refl _); intro t
    apply Le.bind (computeLocalField_le env hAB _ _ _ _); intro cs
    exact applyFilter_le env hAB comp vid f cs
  · exact Le.refl _

theorem applyLocalFilters_le (comp : Component) (vid : Vid) (fs : List IRFilter) (ctxs : List Ctx) :
    Le (applyLocalFilters (env.withAdapter A) comp vid fs ctxs)
       (applyLocalFilters (env.withAdapter B) comp vid fs ctxs) := by
  induction fs generalizing ctxs with
  | nil => exact Le.refl _
  | cons f fs ih =>
    simp only [applyLocalFilters]
    apply Le.bind (applyLocalFieldFilter_le env hAB comp vid f ctxs); intro cs
    exact ih cs

theorem enterVertex_le (comp : Component) (v : IRVertex) (ctxs : List Ctx) :
    Le (enterVertex (env.withAdapter A) comp v ctxs) (enterVertex (env.withAdapter B) comp v ctxs) := by
  unfold enterVertex
  apply Le.bind (coerceIfNeeded_le env hAB v ctxs); intro cs
  apply Le.bind (applyLocalFilters_le env hAB comp v.vid v.filters cs); intro cs'
  exact Le.refl _


theorem expandNonRecursive_le (fromType : Name) (e : IREdge) (ctxs : List Ctx) :
    Le (expandNonRecursive (env.withAdapter A) fromType e ctxs)
       (expandNonRecursive (env.withAdapter B) fromType e ctxs) := by
  unfold expandNonRecursive
  apply Le.flatMapR; intro c
  apply Le.bind' (Le.refl _); intro c'
  apply Le.bind' (hAB.nbrs _ _ _ _ _); intro ns
  exact Le.refl _

theorem recExpandLevel_le (e : IREdge) (fromType : Name) (ps : List PCtx) :
    Le (recExpandLevel (env.withAdapter A) e fromType ps)
       (recExpandLevel (env.withAdapter B) e fromType ps) := by
  unfold recExpandLevel
  apply Le.flatMapR; intro p
  cases p with
  | mk c piggy =>
    apply Le.bind' (hAB.nbrs _ _ _ _ _); intro ns
    exact Le.refl _

theorem recCoerceLevel_le (e : IREdge) (et ct : Name) (ps : List PCtx) :
    Le (recCoerceLevel (env.withAdapter A) e et ct ps)
       (recCoerceLevel (env.withAdapter B) e et ct ps) := by
  unfold recCoerceLevel
  apply Le.mapR; intro p
  cases p with
  | mk c piggy =>
    apply Le.bind' (hAB.coerce _ _ _ _); intro ns
    exact Le.refl _

theorem recLevels_le (e : IREdge) (et rf : Name) (ct : Option Name) (k : Nat) (ps : List PCtx) :
    Le (recLevels (env.withAdapter A) e et rf ct k ps)
       (recLevels (env.withAdapter B) e et rf ct k ps) := by
  induction k generalizing ps with
  | zero => exact Le.refl _
  | succ k ih =>
    simp only [recLevels]
    apply Le.bind
    · cases ct with
      | none => exact Le.refl _
      | some t => exact recCoerceLevel_le env hAB e et t ps
    · intro ps'
      apply Le.bind (recExpandLevel_le env hAB e rf ps'); intro ps''
      exact ih ps''

theorem recFinish_le (e : IREdge) (r : Recursive) (fromV toV : IRVertex) (init : List Ctx) :
    Le (recFinish (env.withAdapter A) e r fromV toV init)
       (recFinish (env.withAdapter B) e r fromV toV init) := by
  unfold recFinish
  apply Le.bind (recExpandLevel_le env hAB e _ _); intro l1
  apply Le.bind (recLevels_le env hAB e _ _ _ _ l1); intro fin
  exact Le.refl _

theorem expandRecursive_le (e : IREdge) (r : Recursive) (fromV toV : IRVertex) (ctxs : List Ctx) :
    Le (expandRecursive (env.withAdapter A) e r fromV toV ctxs)
       (expandRecursive (env.withAdapter B) e r fromV toV ctxs) := by
  unfold expandRecursive
  apply Le.bind (Le.refl _); intro init
  exact recFinish_le env hAB e r fromV toV init

theorem expandEdge_le (comp : Component) (e : IREdge) (ctxs : List Ctx) :
    Le (expandEdge (env.withAdapter A) comp e ctxs) (expandEdge (env.withAdapter B) comp e ctxs) := by
  unfold expandEdge
  split
  · apply Le.bind
    · cases e.recursive with
      | none => exact expandNonRecursive_le env hAB _ e ctxs
      | some r => exact expandRecursive_le env hAB e r _ _ ctxs
    · intro cs; exact enterVertex_le env hAB comp _ cs
  · exact Le.refl _


omit hAB in
theorem maxLimitOf_indep (A : Adapter) (f : IRFilter) :
    maxLimitOf (env.withAdapter A) f = maxLimitOf env f := by
  unfold maxLimitOf; rfl

omit hAB in
theorem maxFoldLimit_indep (A : Adapter) (fs : List IRFilter) (acc : Option Nat) :
    maxFoldLimit (env.withAdapter A) fs acc = maxFoldLimit env fs acc := by
  induction fs generalizing acc with
  | nil => rfl
  | cons f fs ih => simp only [maxFoldLimit, maxLimitOf_indep, ih]

omit hAB in
theorem minLimitOf_indep (A : Adapter) (f : IRFilter) :
    minLimitOf (env.withAdapter A) f = minLimitOf env f := by
  unfold minLimitOf; rfl

omit hAB in
theorem minFoldLimit_indep (A : Adapter) (fs : List IRFilter) (acc : Option Nat) :
    minFoldLimit (env.withAdapter A) fs acc = minFoldLimit env fs acc := by
  induction fs generalizing acc with
  | nil => rfl
  | cons f fs ih => simp only [minFoldLimit, minLimitOf_indep, ih]

omit hAB in
theorem foldLimits_indep (A : Adapter) (parent : Component) (fold : Fold) :
    foldLimits (env.withAdapter A) parent fold = foldLimits env parent fold := by
  unfold foldLimits effectiveMinLimit
  simp only [maxFoldLimit_indep, minFoldLimit_indep]

theorem importTag_le (parent : Component) (r : FieldRef) (c : Ctx) :
    Le (importTag (env.withAdapter A) parent r c) (importTag (env.withAdapter B) parent r c) := by
  unfold importTag
  repeat' split
  all_goals first
    | exact Le.refl _
    | (apply Le.bind' (Le.refl _); intro c'; apply Le.bind' (hAB.prop _ _ _ _); intro x; exact Le.refl _)

theorem importTags_le (parent : Component) (rs : List FieldRef) (c : Ctx) :
    Le (importTags (env.withAdapter A) parent rs c) (importTags (env.withAdapter B) parent rs c) := by
  induction rs generalizing c with
  | nil => exact Le.refl _
  | cons r rs ih =>
    simp only [importTags]
    apply Le.bind (importTag_le env hAB parent r c); intro c'
    exact ih c'

theorem applyPostFilter_le (parent : Component) (fold : Fold) (f : IRFilter) (c : Ctx) :
    Le (applyPostFilter (env.withAdapter A) parent fold f c)
       (applyPostFilter (env.withAdapter B) parent fold f c) := by
  unfold applyPostFilter
  split
  · apply Le.bind' (applyFilter_le env hAB parent _ f _); intro r
    exact Le.refl _
  · apply Le.bind' (applyFilter_le env hAB parent _ f _); intro r
    exact Le.refl _
  · exact Le.refl _

theorem applyPostFilters_le (parent : Component) (fold : Fold) (fs : List IRFilter) (c : Ctx) :
    Le (applyPostFilters (env.withAdapter A) parent fold fs c)
       (applyPostFilters (env.withAdapter B) parent fold fs c) := by
  induction fs generalizing c with
  | nil => exact Le.refl _
  | cons f fs ih =>
    simp only [applyPostFilters]
    apply Le.bind' (applyPostFilter_le env hAB parent fold f c); intro r
    cases r with
    | none => exact Le.refl _
    | some c' => exact ih c'

theorem foldOutputColumn_le (comp : Component) (o : OutputDef) (es : List Ctx) :
    Le (foldOutputColumn (env.withAdapter A) comp o es) (foldOutputColumn (env.withAdapter B) comp o es) := by
  unfold foldOutputColumn
  apply Le.bind (Le.refl _); intro t
  apply Le.mapR; intro c
  split
  · exact hAB.prop _ _ _ _
  · exact Le.refl _

theorem foldOutputs_le (fold : Fold) (elems : Option (List Ctx)) :
    Le (foldOutputs (env.withAdapter A) fold elems) (foldOutputs (env.withAdapter B) fold elems) := by
  unfold foldOutputs
  split
  · apply Le.bind'
    · apply Le.mapR; intro o
      apply Le.bind' (foldOutputColumn_le env hAB _ o _); intro vals
      exact Le.refl _
    · intro own; exact Le.refl _
  · exact Le.refl _

theorem foldFinish_le (parent : Component) (fold : Fold) (lim : Option Nat × Option Nat) (c : Ctx)
    (computed : List Ctx) :
    Le (foldFinish (env.withAdapter A) parent fold lim c computed)
       (foldFinish (env.withAdapter B) parent fold lim c computed) := by
  unfold foldFinish
  split
  · exact Le.refl _
  next fromV _ =>
    dsimp only
    generalize (if fromV.isSome = true then Option.map some (collectFoldElements computed lim.fst lim.snd)
      else some none) = elemsOpt
    cases elemsOpt with
    | none => exact Le.refl _
    | some elems =>
      dsimp only
      split
      · exact Le.refl _
      · apply Le.bind' (Le.refl _); intro c2
        apply Le.bind' (applyPostFilters_le env hAB parent fold _ c2); intro r
        cases r with
        | none => exact Le.refl _
        | some c3 =>
          apply Le.bind' (foldOutputs_le env hAB fold _); intro news
          exact Le.refl _


/-- `computeComponent` is monotone at fuel `n`. -/
def CompLe (A B : Adapter) (env : Env) (n : Nat) : Prop :=
  ∀ comp ctxs, Le (computeComponent (env.withAdapter A) n comp ctxs)
    (computeComponent (env.withAdapter B) n comp ctxs)

theorem foldOne_le (n : Nat) (ih : CompLe A B env n) (parent : Component) (fold : Fold) (t : Name)
    (lim : Option Nat × Option Nat) (c : Ctx) :
    Le (foldOne (env.withAdapter A) n parent fold t lim c)
       (foldOne (env.withAdapter B) n parent fold t lim c) := by
  simp only [foldOne]
  apply Le.bind (hAB.nbrs _ _ _ _ _); intro ns
  apply Le.bind (ih _ _); intro computed
  exact foldFinish_le env hAB parent fold lim c computed

theorem computeFold_le (n : Nat) (ih : CompLe A B env n) (parent : Component) (fold : Fold)
    (ctxs : List Ctx) :
    Le (computeFold (env.withAdapter A) n parent fold ctxs)
       (computeFold (env.withAdapter B) n parent fold ctxs) := by
  simp only [computeFold]
  split
  · exact Le.refl _
  · apply Le.bind
    · apply Le.mapR; intro c; exact importTags_le env hAB parent _ c
    · intro cs1
      apply Le.bind (Le.refl _); intro cs2
      rw [foldLimits_indep env A, foldLimits_indep env B]
      apply Le.bind (Le.refl _); intro lim
      apply Le.filterMapR; intro c
      exact foldOne_le env hAB n ih parent fold _ lim c

theorem runStages_le (n : Nat) (ih : CompLe A B env n) (comp : Component) (stages : List Stage)
    (visited : List Vid) (ctxs : List Ctx) :
    Le (runStages (env.withAdapter A) n comp stages visited ctxs)
       (runStages (env.withAdapter B) n comp stages visited ctxs) := by
  induction stages generalizing visited ctxs with
  | nil => simp only [runStages]; exact Le.refl _
  | cons st rest ihs =>
    cases st with
    | edge e =>
      simp only [runStages]
      apply Le.bind (Le.refl _); intro v'
      apply Le.bind (expandEdge_le env hAB comp e ctxs); intro cs
      exact ihs v' cs
    | fold f =>
      simp only [runStages]
      apply Le.bind (Le.refl _); intro v'
      apply Le.bind (computeFold_le env hAB n ih comp f ctxs); intro cs
      exact ihs v' cs

theorem computeComponent_le (n : Nat) : CompLe A B env n := by
  induction n with
  | zero => intro comp ctxs; simp only [computeComponent]; exact Le.refl _
  | succ n ih =>
    intro comp ctxs
    simp only [computeComponent]
    split
    · exact Le.refl _
    · apply Le.bind (enterVertex_le env hAB comp _ ctxs); intro cs1
      apply Le.bind (Le.refl _); intro stages
      exact runStages_le env hAB n ih comp stages _ cs1

theorem constructRow_le (comp : Component) (c : Ctx) :
    Le (constructRow (env.withAdapter A) comp c) (constructRow (env.withAdapter B) comp c) := by
  unfold constructRow
  apply Le.bind'
  · apply Le.mapR; intro o
    split
    · apply Le.bind' (Le.refl _); intro t
      apply Le.bind' (hAB.prop _ _ _ _); intro x
      exact Le.refl _
    · exact Le.refl _
  · intro own; exact Le.refl _

theorem interpretFrom_le (ir : IRQuery) (starts : List VertexId) :
    Le (interpretFrom (env.withAdapter A) ir starts) (interpretFrom (env.withAdapter B) ir starts) := by
  unfold interpretFrom
  apply Le.bind (computeComponent_le env hAB _ _ _); intro cs
  apply Le.mapR; intro c
  exact constructRow_le env hAB _ c

/-- The interpreter is monotone in the adapter: with an adapter that answers as `B` does or not at
all (`Miss`), the result is the result with `B`, or the run stops at a call without an answer. -/
theorem interpret_le (ir : IRQuery) :
    Le (interpret (env.withAdapter A) ir) (interpret (env.withAdapter B) ir) := by
  unfold interpret
  apply Le.bind (hAB.start _ _ _); intro starts
  exact interpretFrom_le env hAB ir starts


end mono

/-! ### the replaying adapter is below the adapter it was recorded from -/

mutual
theorem Value.same_eq (a b : Value) (h : Value.same a b = true) : a = b := by
  cases a <;> cases b <;> simp_all [Value.same]
  exact Value.sameList_eq _ _ h
theorem Value.sameList_eq (a b : List Value) (h : Value.sameList a b = true) : a = b := by
  cases a with
  | nil => cases b <;> simp_all [Value.sameList]
  | cons x xs =>
    cases b with
    | nil => simp [Value.sameList] at h
    | cons y ys =>
      simp only [Value.sameList, Bool.and_eq_true] at h
      rw [Value.same_eq x y h.1, Value.sameList_eq xs ys h.2]
end

theorem Params.same_eq (a b : Params) (h : Params.same a b = true) : a = b := by
  induction a generalizing b with
  | nil => cases b <;> simp_all [Params.same]
  | cons x xs ih =>
    obtain ⟨n, v⟩ := x
    cases b with
    | nil => simp [Params.same] at h
    | cons y ys =>
      obtain ⟨m, w⟩ := y
      simp only [Params.same, Bool.and_eq_true, beq_iff_eq] at h
      rw [h.1.1, Value.same_eq v w h.1.2, ih ys h.2]

theorem CallKey.same_eq (a b : CallKey) (h : CallKey.same a b = true) : a = b := by
  cases a <;> cases b <;> simp only [CallKey.same, Bool.and_eq_true, beq_iff_eq] at h <;>
    (try exact absurd h (by decide))
  · obtain ⟨⟨h1, h2⟩, h3⟩ := h; rw [h1, Params.same_eq _ _ h2, h3]
  · obtain ⟨⟨⟨h1, h2⟩, h3⟩, h4⟩ := h; rw [h1, h2, h3, h4]
  · obtain ⟨⟨⟨⟨h1, h2⟩, h3⟩, h4⟩, h5⟩ := h; rw [h1, h2, h3, Params.same_eq _ _ h4, h5]
  · obtain ⟨⟨⟨h1, h2⟩, h3⟩, h4⟩ := h; rw [h1, h2, h3, h4]

/-- Every entry of the table is the adapter's own answer to that call. -/
def Truthful (T : Table) (A : Adapter) : Prop := ∀ k a, (k, a) ∈ T → a = ask A k

theorem Table.lookup_truthful {T : Table} {A : Adapter} (hT : Truthful T A) (k : CallKey)
    (a : CallAnswer) (h : T.lookup k = some a) : a = ask A k := by
  unfold Table.lookup at h
  cases hf : T.find? (fun p => p.1.same k) with
  | none => simp [hf] at h
  | some p =>
    simp only [hf, Option.map_some, Option.some.injEq] at h
    have hmem := List.mem_of_find?_eq_some hf
    have hsame := List.find?_some hf
    have hk : p.1 = k := CallKey.same_eq _ _ hsame
    subst h; subst hk
    exact hT _ _ hmem

theorem miss_missing {α : Type} (k : CallKey) : Miss (missing k : R α) := ⟨k.render, rfl⟩

theorem replayAdapter_below (T : Table) (A : Adapter) (hT : Truthful T A) :
    Below (replayAdapter T) A := by
  constructor
  · intro e ps vid
    simp only [replayAdapter]
    cases h : T.lookup (.start e ps vid) with
    | none => exact Or.inr (miss_missing _)
    | some a =>
      have := Table.lookup_truthful hT _ _ h
      subst this; exact Le.refl _
  · intro vid t f v
    simp only [replayAdapter]
    cases h : T.lookup (.prop vid t f v) with
    | none => exact Or.inr (miss_missing _)
    | some a =>
      have := Table.lookup_truthful hT _ _ h
      subst this; exact Le.refl _
  · intro eid t e ps v
    simp only [replayAdapter]
    cases h : T.lookup (.nbrs eid t e ps v) with
    | none => exact Or.inr (miss_missing _)
    | some a =>
      have := Table.lookup_truthful hT _ _ h
      subst this; exact Le.refl _
  · intro vid t c v
    simp only [replayAdapter]
    cases h : T.lookup (.coerce vid t c v) with
    | none => exact Or.inr (miss_missing _)
    | some a =>
      have := Table.lookup_truthful hT _ _ h
      subst this; exact Le.refl _

theorem Env.withAdapter_self (env : Env) : env.withAdapter env.adapter = env := by
  cases env; rfl

theorem isMissing_of_miss {α : Type} {r : R α} (h : Miss r) : isMissing r = true := by
  obtain ⟨s, rfl⟩ := h
  simp only [isMissing, String.toList_append]
  exact List.isPrefixOf_iff_prefix.mpr (List.prefix_append _ _)

/-- Replaying a truthful table: the result of the direct run, or a stop at a missing call. -/
theorem replay_le (env : Env) (T : Table) (hT : Truthful T env.adapter) (ir : IRQuery) :
    Le (replay env T ir) (interpret env ir) := by
  have := interpret_le env (replayAdapter_below T env.adapter hT) ir
  rwa [Env.withAdapter_self] at this

theorem replay_eq (env : Env) (T : Table) (hT : Truthful T env.adapter) (ir : IRQuery)
    (hcomplete : isMissing (replay env T ir) = false) :
    replay env T ir = interpret env ir := by
  rcases replay_le env T hT ir with h | h
  · exact h
  · rw [isMissing_of_miss h] at hcomplete; exact absurd hcomplete (by decide)

theorem truthful_nil (A : Adapter) : Truthful [] A := by
  intro k a h; simp at h

theorem truthful_append (T : Table) (A : Adapter) (hT : Truthful T A) (k : CallKey) :
    Truthful (T ++ [(k, ask A k)]) A := by
  intro k' a h
  rcases List.mem_append.mp h with h | h
  · exact hT _ _ h
  · simp only [List.mem_singleton, Prod.mk.injEq] at h
    rw [h.1, h.2]

/-- `record` only ever stores answers of the real adapter, and when it reports completeness the
replay from its table did not stop at a missing call. -/
theorem record_spec (env : Env) (ir : IRQuery) (fuel : Nat) (T : Table)
    (hT : Truthful T env.adapter) :
    Truthful (record env ir fuel T).1 env.adapter ∧
      ((record env ir fuel T).2 = true →
        isMissing (replay env (record env ir fuel T).1 ir) = false) := by
  induction fuel generalizing T with
  | zero =>
    simp only [record]
    exact ⟨hT, by intro h; simpa using h⟩
  | succ n ih =>
    simp only [record]
    split
    · split
      · exact ih _ (truthful_append T _ hT _)
      · exact ⟨hT, by intro h; simp at h⟩
    · rename_i hm
      exact ⟨hT, fun _ => by simpa using hm⟩

end TF.Engine
