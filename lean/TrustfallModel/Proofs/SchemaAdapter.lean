/-
Helper lemmas for C20: the model of the schema-introspection adapter (`Model/SchemaAdapter.lean`)
evaluated on the fixed introspection queries, against declarative descriptions of the document.
-/
import TrustfallModel.Proofs.SchemaOrigins
import TrustfallModel.Model.SchemaAdapter
set_option linter.unusedSimpArgs false
namespace TF.SchemaDoc

/-! ### What an accepted document gives -/

/-- `doc` has no panic trigger and `Schema::new` returned the schema `s`. -/
structure Accepted (doc : Doc) (s : Schema) : Prop where
  guard : NoKnownSchemaTrigger doc = true
  accepted : Schema.new doc = .ok (.ok s)

structure AcceptedFacts (doc : Doc) (s : Schema) : Prop where
  vertexTypes : s.vertexTypes = doc.types
  rootBlock : doc.schemaBlocks = [s.queryType.name]
  rootMem : s.queryType ∈ doc.types
  distinct : Distinct doc.types
  clean : FieldsClean doc.types
  valid : ValidSchema doc
  rules : CheckedRules doc.types s.queryType
  notBuiltin : ∀ t ∈ doc.types, isBuiltin t.name = false

theorem Accepted.facts {doc : Doc} {s : Schema} (h : Accepted doc s) : AcceptedFacts doc s := by
  obtain ⟨_, hclean⟩ := guard_unpack h.guard
  rcases schemaNew_spec h.guard with ⟨s', hs', hspec⟩ | ⟨es, hes, _⟩
  · have : s' = s := by
      have := hs'.symm.trans h.accepted
      cases this; rfl
    subst this
    exact ⟨hspec.vertexTypes, hspec.blocks, (findType_some hspec.rootFound).1, hspec.loopOK.distinct, hclean,
      hspec.valid, hspec.rules, hspec.loopOK.typesNotBuiltin⟩
  · rw [h.accepted] at hes; cases hes

/-! ### `Outcome.collect` over mapped lists -/

theorem collect_map {α β γ : Type} (f : β → Outcome (List γ)) (g : α → β) (l : List α) :
    Outcome.collect f (l.map g) = Outcome.collect (fun a => f (g a)) l := by
  induction l with
  | nil => rfl
  | cons a as ih => simp [Outcome.collect, ih]

theorem collect_singletons {α β : Type} (f : α → Outcome (List β)) (g : α → β) (l : List α)
    (h : ∀ a ∈ l, f a = .ok [g a]) : Outcome.collect f l = .ok (l.map g) := by
  rw [collect_ok_of_forall f (fun a => [g a]) l h]
  congr 1
  induction l with
  | nil => rfl
  | cons a as ih => simp [List.flatMap_cons, ih (fun b hb => h b (by simp [hb]))]


/-- The vertex types a schema lists: every definition except the root query type. -/
def listed (doc : Doc) (root : Name) : List TypeDef := doc.types.filter (fun t => t.name != root)

theorem vertexTypeIter_other {doc : Doc} {s : Schema} (h : AcceptedFacts doc s) :
    vertexTypeIter s .other = (listed doc s.queryType.name).map .vertexType := by
  simp [vertexTypeIter, listed, h.vertexTypes]

theorem start_vertexType {doc : Doc} {s : Schema} (h : AcceptedFacts doc s) :
    startingVertices s "VertexType" .other = .ok ((listed doc s.queryType.name).map .vertexType) := by
  simp [startingVertices, vertexTypeIter_other h]

theorem listed_mem {doc : Doc} {root : Name} {t : TypeDef} (ht : t ∈ listed doc root) : t ∈ doc.types :=
  (List.mem_filter.mp ht).1

/-- Rows of a `{ VertexType { name @output  edge { … } } }` query from the rows of each neighbour list. -/
theorem rows_perVertexType {doc : Doc} {s : Schema} (h : AcceptedFacts doc s)
    (f : Vertex → Outcome (List Row)) (g : TypeDef → List Row)
    (hf : ∀ t ∈ listed doc s.queryType.name, f (.vertexType t) = .ok (g t)) :
    ((startingVertices s "VertexType" .other).bind fun vs => Outcome.collect f vs) =
      .ok ((listed doc s.queryType.name).flatMap g) := by
  rw [start_vertexType h]
  simp only [Outcome.bind, collect_map]
  exact collect_ok_of_forall _ g _ hf

theorem flatMap_singleton_map {α β : Type} (g : α → β) (l : List α) :
    l.flatMap (fun a => [g a]) = l.map g := by
  induction l with
  | nil => rfl
  | cons a as ih => simp [List.flatMap_cons, ih]

/-! #### `types` -/

def typeRow (t : TypeDef) : Row :=
  [("name", .str t.name), ("is_interface", .bool t.isInterface), ("docs", .null)]

theorem introspect_types_eq {doc : Doc} {s : Schema} (h : AcceptedFacts doc s) :
    introspect s .types = .ok ((listed doc s.queryType.name).map typeRow) := by
  unfold introspect
  rw [rows_perVertexType h _ (fun t => [typeRow t])]
  · rw [flatMap_singleton_map]
  · intro t _
    simp [leaf, outputs, resolveProperty, asVertexType, Outcome.bind, typeRow]

/-! #### `implements` -/

theorem collect_found_names (vts : List TypeDef) (out : String) (l : List Name)
    (h : ∀ i ∈ l, IsVertex vts i) :
    Outcome.collect (fun n => leaf n "VertexType" [(out, "name")])
        (l.filterMap fun i => (findType vts i).map .vertexType) =
      .ok (l.map fun i => [(out, Cell.str i)]) := by
  induction l with
  | nil => rfl
  | cons i is ih =>
    obtain ⟨d, hd⟩ := Option.isSome_iff_exists.mp ((findType_isSome_iff vts i).mpr (h i (by simp)))
    have hdn := (findType_some hd).2
    have ih' := ih (fun j hj => h j (by simp [hj]))
    simp only [List.filterMap_cons, hd, Option.map_some, Outcome.collect, ih', List.map_cons]
    simp [leaf, outputs, resolveProperty, asVertexType, Outcome.bind, hdn]

def implementsRows (t : TypeDef) : List Row :=
  t.implements.map fun i => [("name", .str t.name), ("implements", .str i)]

theorem introspect_implements_eq {doc : Doc} {s : Schema} (h : AcceptedFacts doc s) :
    introspect s .implements = .ok ((listed doc s.queryType.name).flatMap implementsRows) := by
  unfold introspect
  apply rows_perVertexType h
  intro t ht
  have htm := listed_mem ht
  have hall : ∀ i ∈ t.implements, IsVertex s.vertexTypes i := by
    intro i hi
    obtain ⟨d, hd, hdn, _⟩ := h.valid.implementsInterfaces t htm i hi
    rw [h.vertexTypes]; exact ⟨d, hd, hdn⟩
  simp only [perVertexType, outputs, resolveProperty, asVertexType, Outcome.bind, expand, resolveNeighbors,
    implementsRows]
  simp only [String.reduceBEq, Bool.false_eq_true, if_false, if_true]
  rw [collect_found_names _ _ _ hall]
  simp


theorem flatMap_if_eq_filter_map {α β : Type} (p : α → Bool) (g : α → β) (l : List α) :
    l.flatMap (fun a => if p a = true then [g a] else []) = (l.filter p).map g := by
  induction l with
  | nil => rfl
  | cons a as ih =>
    by_cases h : p a = true <;> simp [List.flatMap_cons, List.filter_cons, h, ih]

/-- In an accepted document a field is an edge (its base type is a vertex type) iff its base type is
not a built-in scalar. -/
theorem isVertex_eq_not_builtin {doc : Doc} {s : Schema} (h : AcceptedFacts doc s) {t : TypeDef}
    (ht : t ∈ doc.types) {f : Field} (hf : f ∈ t.fields) :
    (findType s.vertexTypes f.ty.base).isSome = !isBuiltin f.ty.base := by
  rw [h.vertexTypes]
  rcases h.valid.fieldTypesKnown t ht f hf with hb | hv
  · rw [hb]
    cases hs : (findType doc.types f.ty.base).isSome with
    | false => rfl
    | true =>
      obtain ⟨d, hd, hdn⟩ := (findType_isSome_iff _ _).mp hs
      have := h.notBuiltin d hd
      rw [hdn, hb] at this; cases this
  · obtain ⟨d, hd, hdn⟩ := hv
    have hnb := h.notBuiltin d hd
    rw [hdn] at hnb
    rw [hnb, (findType_isSome_iff _ _).mpr ⟨d, hd, hdn⟩]; rfl

theorem field_shallow {doc : Doc} {s : Schema} (h : AcceptedFacts doc s) {t : TypeDef}
    (ht : t ∈ doc.types) {f : Field} (hf : f ∈ t.fields) : PTy.fromType f.ty = .ok f.ty := by
  have := h.clean t ht f hf
  simp only [Field.clean, Bool.and_eq_true] at this
  exact fromType_ok this.1

theorem propertyNeighbors_eq {doc : Doc} {s : Schema} (h : AcceptedFacts doc s) {t : TypeDef}
    (ht : t ∈ doc.types) :
    propertyNeighbors s t =
      .ok ((t.fields.filter (fun f => isBuiltin f.ty.base)).map fun f => Vertex.property t f.name f.ty) := by
  unfold propertyNeighbors
  rw [collect_ok_of_forall _ (fun f => if isBuiltin f.ty.base = true then [Vertex.property t f.name f.ty] else [])]
  · rw [flatMap_if_eq_filter_map]
  · intro f hf
    simp only [field_shallow h ht hf, isVertex_eq_not_builtin h ht hf]
    cases isBuiltin f.ty.base <;> simp

theorem edgeNeighbors_eq {doc : Doc} {s : Schema} (h : AcceptedFacts doc s) {t : TypeDef}
    (ht : t ∈ doc.types) :
    edgeNeighbors s t = .ok ((t.fields.filter (fun f => !isBuiltin f.ty.base)).map Vertex.edge) := by
  unfold edgeNeighbors
  rw [collect_ok_of_forall _ (fun f => if (!isBuiltin f.ty.base) = true then [Vertex.edge f] else [])]
  · rw [flatMap_if_eq_filter_map]
  · intro f hf
    simp only [field_shallow h ht hf, isVertex_eq_not_builtin h ht hf]
    cases isBuiltin f.ty.base <;> simp

/-! #### `properties` -/

def propertyRows (t : TypeDef) : List Row :=
  (t.fields.filter (fun f => isBuiltin f.ty.base)).map fun f =>
    [("name", .str t.name), ("property", .str f.name), ("type", .str f.ty.display), ("docs", .null)]

theorem introspect_properties_eq {doc : Doc} {s : Schema} (h : AcceptedFacts doc s) :
    introspect s .properties = .ok ((listed doc s.queryType.name).flatMap propertyRows) := by
  unfold introspect
  apply rows_perVertexType h
  intro t ht
  have htm := listed_mem ht
  simp only [perVertexType, outputs, resolveProperty, asVertexType, Outcome.bind, expand, resolveNeighbors,
    String.reduceBEq, Bool.false_eq_true, if_false, if_true, propertyNeighbors_eq h htm]
  rw [collect_map, collect_singletons _ (fun f : Field =>
    [("property", Cell.str f.name), ("type", Cell.str f.ty.display), ("docs", Cell.null)])]
  · simp [propertyRows]
  · intro f _
    simp [leaf, outputs, resolveProperty, asProperty, Outcome.bind]

/-! #### `edges` -/

def edgeCells (f : Field) : Row :=
  [("edge", .str f.name), ("to_many", .bool f.ty.isList), ("at_least_one", .bool f.ty.nonNull)]

theorem edgeWithTarget_eq {doc : Doc} {s : Schema} (h : AcceptedFacts doc s) {t : TypeDef}
    (ht : t ∈ doc.types) {f : Field} (hf : f ∈ t.fields) (he : isBuiltin f.ty.base = false) :
    edgeWithTarget s edgeOuts (.edge f) = .ok [edgeCells f ++ [("target", .str f.ty.base)]] := by
  have hv := isVertex_eq_not_builtin h ht hf
  rw [he] at hv
  obtain ⟨d, hd⟩ := Option.isSome_iff_exists.mp hv
  have hdn := (findType_some hd).2
  simp only [edgeWithTarget, edgeOuts, outputs, resolveProperty, asEdge, Outcome.bind, expand, resolveNeighbors,
    String.reduceBEq, Bool.false_eq_true, if_false, if_true, field_shallow h ht hf, hd]
  simp [Outcome.collect, leaf, outputs, resolveProperty, asVertexType, Outcome.bind, hdn, edgeCells]

def edgeRows (t : TypeDef) : List Row :=
  (t.fields.filter (fun f => !isBuiltin f.ty.base)).map fun f =>
    [("name", .str t.name)] ++ edgeCells f ++ [("target", .str f.ty.base)]

theorem introspect_edges_eq {doc : Doc} {s : Schema} (h : AcceptedFacts doc s) :
    introspect s .edges = .ok ((listed doc s.queryType.name).flatMap edgeRows) := by
  unfold introspect
  apply rows_perVertexType h
  intro t ht
  have htm := listed_mem ht
  simp only [outputs, resolveProperty, asVertexType, Outcome.bind, expand, resolveNeighbors,
    String.reduceBEq, Bool.false_eq_true, if_false, if_true, edgeNeighbors_eq h htm]
  rw [collect_map, collect_singletons _ (fun f : Field => edgeCells f ++ [("target", Cell.str f.ty.base)])]
  · simp [edgeRows]
  · intro f hf
    rw [List.mem_filter] at hf
    exact edgeWithTarget_eq h htm hf.1 (by simpa using hf.2)


/-! #### `params` -/

/-- The documented `default` of a parameter: the declared constant; otherwise `null` (as JSON) for a
nullable parameter and no value for a non-nullable one. -/
def declaredDefault (a : Arg) : Cell :=
  match a.default with
  | some (.val v) => .json v
  | _ => if a.ty.nullable then .json .null else .null

def paramCells (a : Arg) : Row :=
  [("param", .str a.name), ("type", .str a.ty.display), ("default", declaredDefault a)]

theorem defaultCell_eq {doc : Doc} {s : Schema} (h : AcceptedFacts doc s) {t : TypeDef}
    (ht : t ∈ doc.types) {f : Field} (hf : f ∈ t.fields) (he : isBuiltin f.ty.base = false)
    {a : Arg} (ha : a ∈ f.args) : defaultCell a = .ok (declaredDefault a) := by
  unfold defaultCell declaredDefault
  cases hd : a.default with
  | none => cases a.ty.nullable <;> rfl
  | some dv =>
    obtain ⟨v, hv, _⟩ := h.valid.defaultsFit t ht f hf he a ha dv hd
    subst hv; rfl

theorem edgeWithParams_eq {doc : Doc} {s : Schema} (h : AcceptedFacts doc s) {t : TypeDef}
    (ht : t ∈ doc.types) {f : Field} (hf : f ∈ t.fields) (he : isBuiltin f.ty.base = false) :
    edgeWithParams s "edge" (.edge f) = .ok (f.args.map fun a => [("edge", Cell.str f.name)] ++ paramCells a) := by
  simp only [edgeWithParams, outputs, resolveProperty, asEdge, Outcome.bind, expand, resolveNeighbors,
    String.reduceBEq, Bool.false_eq_true, if_false, if_true]
  rw [collect_map, collect_singletons _ paramCells]
  · simp
  · intro a ha
    simp [leaf, paramOuts, outputs, resolveProperty, asEdgeParameter, Outcome.bind, defaultCell_eq h ht hf he ha,
      paramCells]

def paramRows (t : TypeDef) : List Row :=
  (t.fields.filter (fun f => !isBuiltin f.ty.base)).flatMap fun f =>
    f.args.map fun a => [("name", .str t.name), ("edge", .str f.name)] ++ paramCells a

theorem introspect_params_eq {doc : Doc} {s : Schema} (h : AcceptedFacts doc s) :
    introspect s .params = .ok ((listed doc s.queryType.name).flatMap paramRows) := by
  unfold introspect
  apply rows_perVertexType h
  intro t ht
  have htm := listed_mem ht
  simp only [outputs, resolveProperty, asVertexType, Outcome.bind, expand, resolveNeighbors,
    String.reduceBEq, Bool.false_eq_true, if_false, if_true, edgeNeighbors_eq h htm]
  rw [collect_map, collect_ok_of_forall _ (fun f : Field =>
    f.args.map fun a => [("edge", Cell.str f.name)] ++ paramCells a)]
  · simp [paramRows, List.map_flatMap, Function.comp_def]
  · intro f hf
    rw [List.mem_filter] at hf
    exact edgeWithParams_eq h htm hf.1 (by simpa using hf.2)

/-! #### `entrypoints` -/

theorem root_field_is_edge {doc : Doc} {s : Schema} (h : AcceptedFacts doc s) {f : Field}
    (hf : f ∈ s.queryType.fields) : isBuiltin f.ty.base = false :=
  h.valid.rootFieldsAreEdges s.queryType h.rootMem (by simp [h.rootBlock]) f hf

theorem introspect_entrypoints_eq {doc : Doc} {s : Schema} (h : AcceptedFacts doc s) :
    introspect s .entrypoints =
      .ok (s.queryType.fields.map fun f => edgeCells f ++ [("target", .str f.ty.base)]) := by
  unfold introspect
  simp only [startingVertices, String.reduceBEq, Bool.false_eq_true, if_false, if_true, Outcome.bind,
    entrypointsIter]
  rw [collect_map, collect_singletons _ (fun f : Field => edgeCells f ++ [("target", Cell.str f.ty.base)])]
  intro f hf
  exact edgeWithTarget_eq h h.rootMem hf (root_field_is_edge h hf)

theorem introspect_entryParams_eq {doc : Doc} {s : Schema} (h : AcceptedFacts doc s) :
    introspect s .entryParams =
      .ok (s.queryType.fields.flatMap fun f => f.args.map fun a => [("edge", Cell.str f.name)] ++ paramCells a) := by
  unfold introspect
  simp only [startingVertices, String.reduceBEq, Bool.false_eq_true, if_false, if_true, Outcome.bind,
    entrypointsIter]
  rw [collect_map]
  apply collect_ok_of_forall
  intro f hf
  exact edgeWithParams_eq h h.rootMem hf (root_field_is_edge h hf)


/-! #### `implementer`

History (F-27, fixed): `resolve_vertex_type_implementer_edge` used to return all of
`Schema::subtypes(t)`, which includes `t` itself, so every vertex type — object types included —
was its own implementer, against the documentation of `adapter/schema.graphql` ("If this is not an
interface type, this edge is guaranteed to be empty").  The model then had
`reportsImplementer t x := x.name == t.name || x.implements.contains t.name`, the theorem was the
partial `introspect_implementer_partial` (documented pairs plus the reflexive ones) with the
witnesses `implementer_reports_self` / `introspect_implementer_documented_false` /
`object_type_is_its_own_implementer`.  The repair filters the type's own name out; the model
mirrors it and the full documented statement is proved below. -/

theorem filterMap_find_names {vts : List TypeDef} (hnd : (vts.map (·.name)).Nodup) (l : List TypeDef)
    (hl : ∀ x ∈ l, x ∈ vts) :
    (l.map (·.name)).filterMap (fun n => (findType vts n).map Vertex.vertexType) = l.map Vertex.vertexType := by
  induction l with
  | nil => rfl
  | cons x xs ih =>
    simp only [List.map_cons, List.filterMap_cons, findType_of_mem hnd (hl x (by simp)), Option.map_some]
    rw [ih (fun y hy => hl y (by simp [hy]))]

/-- The documented relation: `x` is an implementer (subtype) of `t` when it lists `t` in its
`implements` (the `implements` lists of a valid schema are transitively closed). -/
def isImplementer (t x : TypeDef) : Bool := x.implements.contains t.name

def implementerRow (t x : TypeDef) : Row := [("name", .str t.name), ("implementer", .str x.name)]

/-- In a valid schema no type lists itself (that would be an implementation cycle). -/
theorem not_self_implementer {doc : Doc} {s : Schema} (h : AcceptedFacts doc s) {t x : TypeDef}
    (ht : t ∈ doc.types) (hx : x ∈ doc.types) (himp : isImplementer t x = true) : x.name ≠ t.name := by
  intro hn
  have hxt : x = t := eq_of_name_eq h.distinct.1 hx ht hn
  subst hxt
  have hmem : x.name ∈ x.implements := by simpa [isImplementer] using himp
  exact h.valid.acyclic x.name (.single ⟨x, hx, rfl, hmem, x, hx, rfl⟩)

/-- The neighbours along `implementer`. -/
theorem implementerNeighbors_eq {doc : Doc} {s : Schema} (h : AcceptedFacts doc s) {t : TypeDef}
    (ht : t ∈ doc.types) :
    resolveNeighbors s (.vertexType t) "VertexType" "implementer" .other =
      .ok (((sortByName doc.types).filter (isImplementer t)).map Vertex.vertexType) := by
  have hsub : s.subtypes t.name =
      some (((sortByName doc.types).filter
        (fun x => x.name == t.name || x.implements.contains t.name)).map (·.name)) := by
    simp only [Schema.subtypes, h.vertexTypes, findType_of_mem h.distinct.1 ht, Option.isSome_some, if_true]
  simp only [asVertexType, Outcome.bind, resolveNeighbors,
    String.reduceBEq, Bool.false_eq_true, if_false, if_true, hsub, h.vertexTypes]
  have hfilter : (((sortByName doc.types).filter
        (fun x => x.name == t.name || x.implements.contains t.name)).map (·.name)).filter
        (fun n => n != t.name) =
      ((sortByName doc.types).filter (isImplementer t)).map (·.name) := by
    rw [List.filter_map, List.filter_filter]
    congr 1
    apply List.filter_congr
    intro x hx
    have hxm : x ∈ doc.types := (mem_sortByName _ _).mp hx
    cases himp : isImplementer t x with
    | false =>
      have hc : ¬ t.name ∈ x.implements := by simpa [isImplementer] using himp
      by_cases hn : x.name = t.name <;> simp [Function.comp, hc, hn]
    | true =>
      have hne := not_self_implementer h ht hxm himp
      have hc : t.name ∈ x.implements := by simpa [isImplementer] using himp
      simp [Function.comp, hc, hne]
  rw [hfilter]
  rw [filterMap_find_names h.distinct.1 _ (fun x hx => (mem_sortByName _ _).mp (List.mem_filter.mp hx).1)]

theorem introspect_implementer_eq {doc : Doc} {s : Schema} (h : AcceptedFacts doc s) :
    introspect s .implementer = .ok ((listed doc s.queryType.name).flatMap fun t =>
      ((sortByName doc.types).filter (isImplementer t)).map (implementerRow t)) := by
  unfold introspect
  apply rows_perVertexType h
  intro t ht
  have htm := listed_mem ht
  have hn := implementerNeighbors_eq h htm
  simp only [perVertexType, outputs, resolveProperty, asVertexType, Outcome.bind, expand,
    String.reduceBEq, Bool.false_eq_true, if_false, if_true, hn]
  rw [collect_map, collect_singletons _ (fun x : TypeDef => [("implementer", Cell.str x.name)])]
  · simp [implementerRow]
  · intro x _
    simp [leaf, outputs, resolveProperty, asVertexType, Outcome.bind]

theorem perm_flatMap_of_forall {α β : Type} (l : List α) (f g : α → List β)
    (h : ∀ a ∈ l, (f a).Perm (g a)) : (l.flatMap f).Perm (l.flatMap g) := by
  induction l with
  | nil => exact List.Perm.refl _
  | cons a as ih =>
    simp only [List.flatMap_cons]
    exact List.Perm.append (h a (by simp)) (ih (fun b hb => h b (by simp [hb])))

/-- The same rows, up to the order of the definitions. -/
theorem introspect_implementer_perm {doc : Doc} {s : Schema} (h : AcceptedFacts doc s) :
    ∃ rows, introspect s .implementer = .ok rows ∧
      rows.Perm ((listed doc s.queryType.name).flatMap fun t =>
        (doc.types.filter (isImplementer t)).map (implementerRow t)) := by
  refine ⟨_, introspect_implementer_eq h, ?_⟩
  apply perm_flatMap_of_forall
  intro t _
  exact ((sortByName_perm doc.types).filter _).map _

/-- "If this is not an interface type, this edge is guaranteed to be empty." -/
theorem implementer_empty_of_object {doc : Doc} {s : Schema} (h : AcceptedFacts doc s) {t : TypeDef}
    (ht : t ∈ doc.types) (hobj : t.isInterface = false) :
    resolveNeighbors s (.vertexType t) "VertexType" "implementer" .other = .ok [] := by
  rw [implementerNeighbors_eq h ht]
  have : (sortByName doc.types).filter (isImplementer t) = [] := by
    rw [List.filter_eq_nil_iff]
    intro x hx himp
    have hxm : x ∈ doc.types := (mem_sortByName _ _).mp hx
    have hmem : t.name ∈ x.implements := by simpa [isImplementer] using himp
    obtain ⟨d, hd, hdn, hdi⟩ := h.valid.implementsInterfaces x hxm t.name hmem
    have : d = t := eq_of_name_eq h.distinct.1 hd ht hdn
    subst this
    rw [hobj] at hdi; cases hdi
  rw [this]; rfl

/-! #### The adapter contract on the modelled helpers -/

theorem resolvePropertyWith_spec {κ : Type} (resolver : Vertex → Outcome Cell)
    (ctxs : List (κ × Option Vertex)) (out : List ((κ × Option Vertex) × Cell))
    (h : resolvePropertyWith resolver ctxs = .ok out) :
    out.map (·.1) = ctxs ∧ ∀ e ∈ out, e.1.2 = none → e.2 = Cell.null := by
  induction ctxs generalizing out with
  | nil => simp [resolvePropertyWith] at h; subst h; simp
  | cons c cs ih =>
    unfold resolvePropertyWith at h
    split at h
    · cases h
    · rename_i cell hc
      split at h
      · cases h
      · rename_i rest hrest
        cases h
        obtain ⟨h1, h2⟩ := ih rest hrest
        refine ⟨by simp [h1], ?_⟩
        intro e he hnone
        rcases List.mem_cons.mp he with rfl | he
        · simp only at hnone
          rw [hnone] at hc
          cases hc; rfl
        · exact h2 e he hnone

theorem resolveNeighborsWith_spec {κ : Type} (resolver : Vertex → Outcome (List Vertex))
    (ctxs : List (κ × Option Vertex)) (out : List ((κ × Option Vertex) × List Vertex))
    (h : resolveNeighborsWith resolver ctxs = .ok out) :
    out.map (·.1) = ctxs ∧ ∀ e ∈ out, e.1.2 = none → e.2 = [] := by
  induction ctxs generalizing out with
  | nil => simp [resolveNeighborsWith] at h; subst h; simp
  | cons c cs ih =>
    unfold resolveNeighborsWith at h
    split at h
    · cases h
    · rename_i ns hc
      split at h
      · cases h
      · rename_i rest hrest
        cases h
        obtain ⟨h1, h2⟩ := ih rest hrest
        refine ⟨by simp [h1], ?_⟩
        intro e he hnone
        rcases List.mem_cons.mp he with rfl | he
        · simp only at hnone
          rw [hnone] at hc
          cases hc; rfl
        · exact h2 e he hnone


/-! #### The `name`-candidate shortcut of `vertex_type_iter` -/

theorem filter_name_eq {vts : List TypeDef} (hnd : (vts.map (·.name)).Nodup) (n : Name) :
    vts.filter (fun t => t.name == n) = (findType vts n).toList := by
  induction vts with
  | nil => rfl
  | cons y ys ih =>
    simp only [List.map_cons, List.nodup_cons, List.mem_map, not_exists, not_and] at hnd
    simp only [List.filter_cons, findType, List.find?_cons]
    by_cases hy : y.name = n
    · have hnone : ys.filter (fun t => t.name == n) = [] := by
        rw [List.filter_eq_nil_iff]
        intro x hx
        have := hnd.1 x hx
        simp only [beq_iff_eq]
        intro hxn; exact this (hxn.trans hy.symm)
      simp [hy, hnone]
    · have hb : (y.name == n) = false := by simpa using hy
      rw [hb]
      have := ih hnd.2
      simp only [findType] at this
      simpa using this

def propertyRowsNoDocs (t : TypeDef) : List Row :=
  (t.fields.filter (fun f => isBuiltin f.ty.base)).map fun f =>
    [("name", .str t.name), ("property", .str f.name), ("type", .str f.ty.display)]

theorem perVertexType_property_eq {doc : Doc} {s : Schema} (h : AcceptedFacts doc s) {t : TypeDef}
    (ht : t ∈ doc.types) :
    perVertexType s "property" "Property" [("property", "name"), ("type", "type")] (.vertexType t) =
      .ok (propertyRowsNoDocs t) := by
  simp only [perVertexType, outputs, resolveProperty, asVertexType, Outcome.bind, expand, resolveNeighbors,
    String.reduceBEq, Bool.false_eq_true, if_false, if_true, propertyNeighbors_eq h ht]
  rw [collect_map, collect_singletons _ (fun f : Field =>
    [("property", Cell.str f.name), ("type", Cell.str f.ty.display)])]
  · simp [propertyRowsNoDocs]
  · intro f _
    simp [leaf, outputs, resolveProperty, asProperty, Outcome.bind]

theorem filterMap_eq_flatMap_toList {α β : Type} (f : α → Option β) (l : List α) :
    l.filterMap f = l.flatMap (fun a => (f a).toList) := by
  induction l with
  | nil => rfl
  | cons a as ih => cases h : f a <;> simp [List.filterMap_cons, List.flatMap_cons, h, ih]

/-- The vertex the `name` candidate `n` yields: the listed type of that name, if any. -/
theorem candidate_toList {doc : Doc} {s : Schema} (h : AcceptedFacts doc s) (n : Name) :
    (candidateVertex s n).toList =
      ((listed doc s.queryType.name).filter (fun t => t.name == n)).map Vertex.vertexType := by
  have hlisted : (listed doc s.queryType.name).filter (fun t => t.name == n) =
      ((findType doc.types n).toList).filter (fun t => t.name != s.queryType.name) := by
    unfold listed
    rw [List.filter_filter, ← filter_name_eq h.distinct.1 n, List.filter_filter]
    apply List.filter_congr
    intro x _
    exact Bool.and_comm _ _
  rw [hlisted]
  unfold candidateVertex
  rw [h.vertexTypes]
  cases findType doc.types n with
  | none => rfl
  | some d => by_cases hr : (d.name != s.queryType.name) = true <;> simp [hr]

/-! History (F-C20-1, fixed): with a `Multiple` candidate `vertex_type_iter` used to yield one vertex
per *element* of the candidate list, so a name listed twice in a `one_of` argument made its vertex
type and all rows under it appear twice (`introspect_one_of` then was "one block of rows per
element", `introspect_one_of_partial` needed `ns.Nodup`, witness `one_of_duplicates_rows`).  The
repair drops repeated names; the model mirrors it (`dedupNames`). -/

theorem mem_dedupNames (seen ns : List Name) (n : Name) :
    n ∈ dedupNames seen ns ↔ n ∈ ns ∧ n ∉ seen := by
  induction ns generalizing seen with
  | nil => simp [dedupNames]
  | cons m ms ih =>
    unfold dedupNames
    by_cases hm : seen.contains m = true
    · have hm' : m ∈ seen := by simpa using hm
      simp only [hm, if_true, ih, List.mem_cons]
      constructor
      · rintro ⟨h1, h2⟩; exact ⟨.inr h1, h2⟩
      · rintro ⟨h1 | h1, h2⟩
        · subst h1; exact absurd hm' h2
        · exact ⟨h1, h2⟩
    · have hm' : m ∉ seen := by simpa using hm
      simp only [hm, Bool.false_eq_true, if_false, List.mem_cons, ih, not_or]
      constructor
      · rintro (h | ⟨h1, h2, h3⟩)
        · subst h; exact ⟨.inl rfl, hm'⟩
        · exact ⟨.inr h1, h3⟩
      · rintro ⟨h1 | h1, h2⟩
        · exact .inl h1
        · by_cases hnm : n = m
          · exact .inl hnm
          · exact .inr ⟨h1, hnm, h2⟩

theorem nodup_dedupNames (seen ns : List Name) : (dedupNames seen ns).Nodup := by
  induction ns generalizing seen with
  | nil => simp [dedupNames]
  | cons m ms ih =>
    unfold dedupNames
    by_cases hm : seen.contains m = true
    · simp only [hm, if_true]; exact ih seen
    · simp only [hm, Bool.false_eq_true, if_false, List.nodup_cons]
      refine ⟨?_, ih _⟩
      intro hmem
      have := (mem_dedupNames (m :: seen) ms m).mp hmem
      exact this.2 (by simp)

/-- With a `one_of` list of names, `vertex_type_iter` yields one vertex per *distinct* name of the
list, and the engine's filter keeps them all. -/
theorem introspect_oneOf_eq {doc : Doc} {s : Schema} (h : AcceptedFacts doc s) (ns : List Name) :
    introspect s (.oneOf ns) =
      .ok (((dedupNames [] ns).flatMap fun n =>
        (listed doc s.queryType.name).filter (fun t => t.name == n)).flatMap propertyRowsNoDocs) := by
  unfold introspect
  simp only [startingVertices, String.reduceBEq, Bool.false_eq_true, if_false, if_true, Outcome.bind,
    vertexTypeIter]
  rw [filterMap_eq_flatMap_toList]
  simp only [candidate_toList h]
  rw [← List.map_flatMap]
  have hfilter : (((dedupNames [] ns).flatMap fun n =>
      (listed doc s.queryType.name).filter (fun t => t.name == n)).map Vertex.vertexType).filter (nameIn ns) =
      ((dedupNames [] ns).flatMap fun n =>
        (listed doc s.queryType.name).filter (fun t => t.name == n)).map Vertex.vertexType := by
    rw [List.filter_eq_self]
    intro v hv
    obtain ⟨t, ht, rfl⟩ := List.mem_map.mp hv
    obtain ⟨n, hn, htn⟩ := List.mem_flatMap.mp ht
    have : t.name = n := by simpa using (List.mem_filter.mp htn).2
    have hn' : n ∈ ns := ((mem_dedupNames [] ns n).mp hn).1
    simp [nameIn, this, hn']
  rw [hfilter, collect_map]
  apply collect_ok_of_forall
  intro t ht
  obtain ⟨n, _, htn⟩ := List.mem_flatMap.mp ht
  exact perVertexType_property_eq h (listed_mem (List.mem_filter.mp htn).1)

/-- With a statically known `name`, `vertex_type_iter` looks the type up instead of scanning all
types; the rows are those of the scan followed by the engine's own filter. -/
theorem introspect_byName_eq {doc : Doc} {s : Schema} (h : AcceptedFacts doc s) (n : Name) :
    introspect s (.byName n) =
      .ok (((listed doc s.queryType.name).filter (fun t => t.name == n)).flatMap propertyRowsNoDocs) := by
  unfold introspect
  simp only [startingVertices, String.reduceBEq, Bool.false_eq_true, if_false, if_true, Outcome.bind,
    vertexTypeIter, candidate_toList h]
  have hfilter : (((listed doc s.queryType.name).filter (fun t => t.name == n)).map
      Vertex.vertexType).filter (nameIs n) =
      ((listed doc s.queryType.name).filter (fun t => t.name == n)).map Vertex.vertexType := by
    rw [List.filter_eq_self]
    intro v hv
    obtain ⟨t, ht, rfl⟩ := List.mem_map.mp hv
    have : t.name = n := by simpa using (List.mem_filter.mp ht).2
    simp [nameIs, this]
  rw [hfilter, collect_map]
  apply collect_ok_of_forall
  intro t ht
  exact perVertexType_property_eq h (listed_mem (List.mem_filter.mp ht).1)

theorem filter_or_perm {α : Type} (p q : α → Bool) (l : List α) (h : ∀ x ∈ l, ¬ (p x = true ∧ q x = true)) :
    (l.filter (fun x => p x || q x)).Perm (l.filter p ++ l.filter q) := by
  induction l with
  | nil => exact List.Perm.refl _
  | cons x xs ih =>
    have ih' := ih (fun y hy => h y (by simp [hy]))
    have hx := h x (by simp)
    cases hp : p x <;> cases hq : q x
    · simpa [List.filter_cons, hp, hq] using ih'
    · simp only [List.filter_cons, hp, hq, Bool.or_true, Bool.false_eq_true, if_false, if_true]
      exact (List.Perm.cons x ih').trans List.perm_middle.symm
    · simp only [List.filter_cons, hp, hq, Bool.or_false, Bool.false_eq_true, if_false, if_true, List.cons_append]
      exact List.Perm.cons x ih'
    · exact absurd ⟨hp, hq⟩ hx

/-- For a duplicate-free list of names, one block per element is (up to order) the selection of the
listed types whose name is in the list. -/
theorem oneOf_blocks_perm (l : List TypeDef) (ns : List Name) (hnd : ns.Nodup) :
    (ns.flatMap fun n => l.filter (fun t => t.name == n)).Perm (l.filter (fun t => ns.contains t.name)) := by
  induction ns with
  | nil => simp
  | cons n rest ih =>
    rw [List.nodup_cons] at hnd
    have h1 : l.filter (fun t => (n :: rest).contains t.name) =
        l.filter (fun t => (t.name == n) || rest.contains t.name) := by
      apply List.filter_congr
      intro t _
      simp only [List.contains_cons]
    rw [h1, List.flatMap_cons]
    refine List.Perm.trans ?_ (filter_or_perm _ _ l ?_).symm
    · exact List.Perm.append_left _ (ih hnd.2)
    · intro t _ ⟨ha, hb⟩
      have : t.name = n := by simpa using ha
      rw [this] at hb
      exact hnd.1 (by simpa using hb)


/-- The rows of the `one_of`-filtered query: up to order, those of the listed types whose name is in
the list — for every list, repeated names included. -/
theorem introspect_oneOf_perm {doc : Doc} {s : Schema} (h : AcceptedFacts doc s) (ns : List Name) :
    ∃ rows, introspect s (.oneOf ns) = .ok rows ∧
      rows.Perm (((listed doc s.queryType.name).filter (fun t => ns.contains t.name)).flatMap
        propertyRowsNoDocs) := by
  refine ⟨_, introspect_oneOf_eq h ns, ?_⟩
  have hcongr : (listed doc s.queryType.name).filter (fun t => ns.contains t.name) =
      (listed doc s.queryType.name).filter (fun t => (dedupNames [] ns).contains t.name) := by
    apply List.filter_congr
    intro t _
    have := mem_dedupNames [] ns t.name
    by_cases hm : t.name ∈ ns
    · simp [hm, this.mpr ⟨hm, by simp⟩]
    · have : t.name ∉ dedupNames [] ns := fun h' => hm (this.mp h').1
      simp [hm, this]
  rw [hcongr]
  exact (oneOf_blocks_perm _ _ (nodup_dedupNames [] ns)).flatMap_right _

end TF.SchemaDoc
