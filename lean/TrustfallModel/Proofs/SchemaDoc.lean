/-
Helper lemmas for C19: the model of `Schema::new` (`Model/SchemaDoc.lean`) against the declarative
rules.  Organisation: (1) sorted sets/maps, `sorted_by_key`, `Outcome.collect`; (2) look-ups;
(3) one section per `check_*` function: a rule stated with the model's own look-ups, and
"the check returns no error (and does not panic) iff the rule holds"; (4) `get_field_origins`
(Kahn's algorithm): invariant, termination within the fuel, cycle detection, computed origins;
(5) the first loop of `Schema::new`; (6) translation of the look-up rules into `ValidSchema`.
-/
import TrustfallModel.Model.SchemaDoc
set_option linter.unusedSimpArgs false
namespace TF.SchemaDoc

/-! ### Sets and maps -/

theorem Set.mem_insert {κ : Type} [DecidableEq κ] (lt : κ → κ → Bool) (x y : κ) (l : List κ) :
    y ∈ Set.insert lt x l ↔ y = x ∨ y ∈ l := by
  induction l with
  | nil => simp [Set.insert]
  | cons z zs ih =>
    unfold Set.insert
    split
    · simp
    · split
      · rename_i h; subst h; simp
      · simp [ih]; grind

theorem Set.mem_foldl_insert {κ : Type} [DecidableEq κ] (lt : κ → κ → Bool) (l acc : List κ) (y : κ) :
    y ∈ l.foldl (fun acc x => Set.insert lt x acc) acc ↔ y ∈ l ∨ y ∈ acc := by
  induction l generalizing acc with
  | nil => simp
  | cons z zs ih => simp [ih, Set.mem_insert]; grind

theorem Set.mem_ofList {κ : Type} [DecidableEq κ] (lt : κ → κ → Bool) (l : List κ) (y : κ) :
    y ∈ Set.ofList lt l ↔ y ∈ l := by
  simp [Set.ofList, Set.mem_foldl_insert]

theorem mem_nameSet (l : List Name) (y : Name) : y ∈ nameSet l ↔ y ∈ l := Set.mem_ofList _ _ _

theorem Map.get?_insert {κ ν : Type} [DecidableEq κ] (lt : κ → κ → Bool) (k p : κ) (v : ν) (m : Map κ ν) :
    Map.get? p (Map.insert lt k v m) = if p = k then some v else Map.get? p m := by
  induction m with
  | nil => simp [Map.insert, Map.get?]
  | cons e m ih =>
    obtain ⟨k', v'⟩ := e
    unfold Map.insert
    split
    · simp [Map.get?]
    · split
      · rename_i h; subst h; simp only [Map.get?]; by_cases hpk : p = k <;> simp [hpk]
      · rename_i h1 h2
        simp only [Map.get?, ih]
        by_cases hpk : p = k
        · subst hpk; simp [h2]
        · simp [hpk]

theorem Map.mem_keys_insert {κ ν : Type} [DecidableEq κ] (lt : κ → κ → Bool) (k p : κ) (v : ν) (m : Map κ ν) :
    p ∈ Map.keys (Map.insert lt k v m) ↔ p = k ∨ p ∈ Map.keys m := by
  induction m with
  | nil => simp [Map.insert, Map.keys]
  | cons e m ih =>
    obtain ⟨k', v'⟩ := e
    unfold Map.insert
    split
    · simp [Map.keys]
    · split
      · rename_i h; subst h; simp [Map.keys]
      · simp only [Map.keys, List.map_cons, List.mem_cons] at ih ⊢
        rw [ih]; grind

theorem Map.get?_isSome_iff_mem_keys {κ ν : Type} [DecidableEq κ] (p : κ) (m : Map κ ν) :
    (Map.get? p m).isSome = true ↔ p ∈ Map.keys m := by
  induction m with
  | nil => simp [Map.get?, Map.keys]
  | cons e m ih =>
    obtain ⟨k', v'⟩ := e
    simp only [Map.get?, Map.keys, List.map_cons, List.mem_cons]
    by_cases h : p = k'
    · simp [h]
    · simp only [h, if_false, false_or]; exact ih

theorem Map.mem_of_get? {κ ν : Type} [DecidableEq κ] {p : κ} {v : ν} {m : Map κ ν}
    (h : Map.get? p m = some v) : (p, v) ∈ m := by
  induction m with
  | nil => simp [Map.get?] at h
  | cons e m ih =>
    obtain ⟨k', v'⟩ := e
    simp only [Map.get?] at h
    split at h
    · rename_i hp; subst hp; simp at h; subst h; simp
    · exact List.mem_cons_of_mem _ (ih h)

/-! ### `sorted_by_key` -/

theorem mem_insertByName (t x : TypeDef) (l : List TypeDef) :
    x ∈ insertByName t l ↔ x = t ∨ x ∈ l := by
  induction l with
  | nil => simp [insertByName]
  | cons y ys ih =>
    unfold insertByName
    split
    · simp
    · simp [ih]; grind

theorem mem_sortByName (x : TypeDef) (l : List TypeDef) : x ∈ sortByName l ↔ x ∈ l := by
  induction l with
  | nil => simp [sortByName]
  | cons y ys ih =>
    simp only [sortByName, List.foldr_cons] at ih ⊢
    rw [mem_insertByName, ih]; simp

theorem insertByName_perm (t : TypeDef) (l : List TypeDef) : (insertByName t l).Perm (t :: l) := by
  induction l with
  | nil => simp [insertByName]
  | cons y ys ih =>
    unfold insertByName
    split
    · exact List.Perm.refl _
    · exact (List.Perm.cons y ih).trans (List.Perm.swap t y ys)

theorem sortByName_perm (l : List TypeDef) : (sortByName l).Perm l := by
  induction l with
  | nil => simp [sortByName]
  | cons y ys ih =>
    simp only [sortByName, List.foldr_cons] at ih ⊢
    exact (insertByName_perm y _).trans (List.Perm.cons y ih)

/-! ### `Outcome.collect` -/

theorem collect_ok_of_forall {α β : Type} (f : α → Outcome (List β)) (g : α → List β) (l : List α)
    (h : ∀ a ∈ l, f a = .ok (g a)) : Outcome.collect f l = .ok (l.flatMap g) := by
  induction l with
  | nil => simp [Outcome.collect]
  | cons a as ih =>
    have ha := h a (by simp)
    have ih' := ih (fun b hb => h b (by simp [hb]))
    simp [Outcome.collect, ha, ih']


/-! ### Look-ups -/

theorem findType_some {vts : List TypeDef} {n : Name} {d : TypeDef} (h : findType vts n = some d) :
    d ∈ vts ∧ d.name = n := by
  unfold findType at h
  exact ⟨List.mem_of_find?_eq_some h, by simpa using List.find?_some h⟩

theorem findType_isSome_iff (vts : List TypeDef) (n : Name) :
    (findType vts n).isSome = true ↔ IsVertex vts n := by
  simp [findType, IsVertex, List.find?_isSome]

theorem findType_eq_none_iff (vts : List TypeDef) (n : Name) :
    findType vts n = none ↔ ¬ IsVertex vts n := by
  rw [← findType_isSome_iff]; cases findType vts n <;> simp

theorem findType_of_mem {vts : List TypeDef} (hnd : (vts.map (·.name)).Nodup) {d : TypeDef}
    (hd : d ∈ vts) : findType vts d.name = some d := by
  induction vts with
  | nil => simp at hd
  | cons y ys ih =>
    simp only [List.map_cons, List.nodup_cons, List.mem_map, not_exists, not_and] at hnd
    simp only [findType, List.find?_cons]
    rcases List.mem_cons.mp hd with rfl | hd'
    · simp
    · have hne : y.name ≠ d.name := fun h => hnd.1 d hd' h.symm
      have := ih hnd.2 hd'
      simp only [findType] at this
      have hb : (y.name == d.name) = false := by simpa using hne
      rw [hb]; exact this

/-- With distinct type names, look-up by name is membership. -/
theorem findType_eq_some_iff {vts : List TypeDef} (hnd : (vts.map (·.name)).Nodup) {n : Name} {d : TypeDef} :
    findType vts n = some d ↔ d ∈ vts ∧ d.name = n := by
  constructor
  · exact findType_some
  · rintro ⟨hd, rfl⟩; exact findType_of_mem hnd hd

theorem findField_some {t : TypeDef} {n : Name} {f : Field} (h : findField t n = some f) :
    f ∈ t.fields ∧ f.name = n := by
  unfold findField at h
  exact ⟨List.mem_of_find?_eq_some h, by simpa using List.find?_some h⟩

theorem findField_isSome_iff (t : TypeDef) (n : Name) :
    (findField t n).isSome = true ↔ ∃ x ∈ t.fields, x.name = n := by
  simp [findField, List.find?_isSome]

theorem findField_of_mem {t : TypeDef} (hnd : (t.fields.map (·.name)).Nodup) {f : Field}
    (hf : f ∈ t.fields) : findField t f.name = some f := by
  unfold findField
  generalize t.fields = fs at *
  induction fs with
  | nil => simp at hf
  | cons y ys ih =>
    simp only [List.map_cons, List.nodup_cons, List.mem_map, not_exists, not_and] at hnd
    simp only [List.find?_cons]
    rcases List.mem_cons.mp hf with rfl | hf'
    · simp
    · have hne : y.name ≠ f.name := fun h => hnd.1 f hf' h.symm
      have hb : (y.name == f.name) = false := by simpa using hne
      rw [hb]; exact ih hnd.2 hf'

theorem findField_eq_some_iff {t : TypeDef} (hnd : (t.fields.map (·.name)).Nodup) {n : Name} {f : Field} :
    findField t n = some f ↔ f ∈ t.fields ∧ f.name = n := by
  constructor
  · exact findField_some
  · rintro ⟨hf, rfl⟩; exact findField_of_mem hnd hf

theorem lookupField_of_mem {vts : List TypeDef} (hnd : (vts.map (·.name)).Nodup) {d : TypeDef}
    (hd : d ∈ vts) (f : Name) : lookupField vts d.name f = findField d f := by
  simp [lookupField, findType_of_mem hnd hd]

/-! ### `check_required_transitive_implementations` -/

/-- The rule decided by `check_required_transitive_implementations`: every implemented name is a
defined interface whose own `implements` entries are implemented too — except an entry naming the
type itself (an immediate cycle, left to the cycle check). -/
def TransitiveRule (vts : List TypeDef) : Prop :=
  ∀ t ∈ vts, ∀ i ∈ t.implements, ∃ d, findType vts i = some d ∧ d.isInterface = true ∧
    ∀ e ∈ d.implements, e = t.name ∨ e ∈ t.implements

theorem checkTransitive_nil_iff (vts : List TypeDef) :
    checkTransitive vts = [] ↔ TransitiveRule vts := by
  unfold checkTransitive TransitiveRule
  rw [List.flatMap_eq_nil_iff]
  simp only [mem_sortByName]
  apply forall_congr'; intro t
  apply forall_congr'; intro _
  unfold checkTransitiveFor
  simp only [List.flatMap_eq_nil_iff, mem_nameSet]
  apply forall_congr'; intro i
  apply forall_congr'; intro _
  cases hft : findType vts i with
  | none => simp
  | some d =>
    simp only [Option.some.injEq, exists_eq_left']
    cases hif : d.isInterface
    · simp
    · simp only [Bool.not_true, Bool.false_eq_true, if_false, List.filterMap_eq_nil_iff, true_and]
      apply forall_congr'; intro e
      apply forall_congr'; intro _
      by_cases h1 : e = t.name
      · simp [h1]
      · by_cases h2 : e ∈ t.implements
        · simp [h1, h2, mem_nameSet]
        · simp [h1, h2, mem_nameSet]

/-! ### `check_fields_required_by_interface_implementations` -/

def RequiredFieldsRule (vts : List TypeDef) : Prop :=
  ∀ t ∈ vts, ∀ i ∈ t.implements, ∀ d, findType vts i = some d →
    ∀ pf ∈ d.fields, (lookupField vts t.name pf.name).isSome = true

theorem checkRequiredFields_nil_iff (vts : List TypeDef) :
    checkRequiredFields vts = [] ↔ RequiredFieldsRule vts := by
  unfold checkRequiredFields RequiredFieldsRule
  rw [List.flatMap_eq_nil_iff]
  simp only [mem_sortByName]
  apply forall_congr'; intro t
  apply forall_congr'; intro _
  unfold checkRequiredFieldsFor
  simp only [List.flatMap_eq_nil_iff]
  apply forall_congr'; intro i
  apply forall_congr'; intro _
  cases hft : findType vts i with
  | none => simp
  | some d =>
    simp only [Option.some.injEq, forall_eq', List.filterMap_eq_nil_iff]
    apply forall_congr'; intro pf
    apply forall_congr'; intro _
    cases lookupField vts t.name pf.name <;> simp


/-! ### `Outcome.collect` with specifications -/

theorem collect_spec {α β : Type} {f : α → Outcome (List β)} {P : α → Prop} (l : List α)
    (h : ∀ a ∈ l, ∃ es, f a = .ok es ∧ (es = [] ↔ P a)) :
    ∃ es, Outcome.collect f l = .ok es ∧ (es = [] ↔ ∀ a ∈ l, P a) := by
  induction l with
  | nil => exact ⟨[], by simp [Outcome.collect]⟩
  | cons a as ih =>
    obtain ⟨e1, h1, h1'⟩ := h a (by simp)
    obtain ⟨e2, h2, h2'⟩ := ih (fun b hb => h b (by simp [hb]))
    refine ⟨e1 ++ e2, by simp [Outcome.collect, h1, h2], ?_⟩
    simp [List.append_eq_nil_iff, h1', h2']

/-! ### Types: `from_type`, `is_valid_value` -/

theorem fromType_ok {t : PTy} (h : t.shallow = true) : PTy.fromType t = .ok t := by
  simp [PTy.shallow] at h
  simp [PTy.fromType]; omega

mutual
/-- `is_valid_value` decides `Fits`, for every value — enum constants included (they fit nothing; before
the repair of F-C19-1 this was stated for enum-free values only, the others being a panic). -/
theorem isValidValue_spec (ty : PTy) : (v : Value) → (ty.isValidValue v = true ↔ Fits ty v)
  | .null => by simp [PTy.isValidValue, Fits, PTy.nullable]
  | .int64 _ => by cases ty <;> simp [PTy.isValidValue, Fits, PTy.isList, PTy.base]
  | .uint64 _ => by cases ty <;> simp [PTy.isValidValue, Fits, PTy.isList, PTy.base]
  | .float64 _ => by cases ty <;> simp [PTy.isValidValue, Fits, PTy.isList, PTy.base]
  | .string _ => by cases ty <;> simp [PTy.isValidValue, Fits, PTy.isList, PTy.base]
  | .boolean _ => by cases ty <;> simp [PTy.isValidValue, Fits, PTy.isList, PTy.base]
  | .enum _ => by cases ty <;> simp [PTy.isValidValue, Fits]
  | .list l => by
    cases ty with
    | named n b => simp [PTy.isValidValue, Fits]
    | list inner b =>
      have := allValid_spec inner l
      simpa [PTy.isValidValue, Fits] using this
theorem allValid_spec (ty : PTy) : (vs : List Value) →
    (PTy.allValid ty vs = true ↔ ∀ v ∈ vs, Fits ty v)
  | [] => by simp [PTy.allValid]
  | v :: vs => by
    have h1 := isValidValue_spec ty v
    have h2 := allValid_spec ty vs
    simp only [PTy.allValid, Bool.and_eq_true, List.mem_cons, forall_eq_or_imp, h1, h2]
end


/-! ### `check_type_and_property_and_edge_invariants`, `check_root_query_type_invariants` -/

def DefaultRule (a : Arg) : Prop := ∀ dv, a.default = some dv → ∃ v, dv = .val v ∧ Fits a.ty v

/-- What `check_type_and_property_and_edge_invariants` requires of one field. -/
def FieldRule (vts : List TypeDef) (root : Name) (f : Field) : Prop :=
  reserved f.name = false ∧
  (if isBuiltin f.ty.base = true then f.args = []
   else (findType vts f.ty.base).isSome = true ∧ f.ty.base ≠ root ∧
     (∀ a ∈ f.args, DefaultRule a) ∧ f.ty.depth ≤ 1)

def InvariantsRule (vts : List TypeDef) (root : Name) : Prop :=
  ∀ t ∈ vts, reserved t.name = false ∧ ∀ f ∈ t.fields, FieldRule vts root f

theorem checkDefault_spec (t : TypeDef) (f : Field) (a : Arg) (hc : a.clean = true) :
    ∃ es, checkDefault t f a = .ok es ∧ (es = [] ↔ DefaultRule a) := by
  unfold checkDefault DefaultRule
  simp only [Arg.clean] at hc
  cases hd : a.default with
  | none => exact ⟨[], rfl, by simp⟩
  | some dv =>
    cases dv with
    | bad => exact ⟨_, rfl, by simp⟩
    | val v =>
      have hb' := isValidValue_spec a.ty v
      simp only [fromType_ok hc]
      cases hb : a.ty.isValidValue v with
      | true => exact ⟨[], by simp, by simpa using hb'.mp hb⟩
      | false =>
        refine ⟨_, by simp; rfl, ?_⟩
        have : ¬ Fits a.ty v := fun hf => by simpa [hb] using hb'.mpr hf
        simpa using this

theorem depth_le_one_iff (t : PTy) :
    (match t.asList with
      | some inner => if inner.isList = true then [()] else []
      | none => []) = [] ↔ t.depth ≤ 1 := by
  cases t with
  | named n b => simp [PTy.asList, PTy.depth]
  | list i b => cases i <;> simp [PTy.asList, PTy.depth, PTy.isList]

theorem checkFieldInvariants_spec (vts : List TypeDef) (root : Name) (t : TypeDef) (f : Field)
    (hc : f.clean = true) :
    ∃ es, checkFieldInvariants vts root t f = .ok es ∧ (es = [] ↔ FieldRule vts root f) := by
  unfold checkFieldInvariants FieldRule
  simp only [Field.clean, Bool.and_eq_true, List.all_eq_true] at hc
  simp only [fromType_ok hc.1]
  by_cases hb : isBuiltin f.ty.base = true
  · simp only [hb, if_true]
    refine ⟨_, rfl, ?_⟩
    cases hr : reserved f.name <;> cases hargs : f.args <;> simp
  · simp only [hb]
    by_cases hv : (findType vts f.ty.base).isSome = true
    · simp only [hv, if_true]
      by_cases hroot : (f.ty.base == root) = true
      · simp only [hroot, if_true]
        refine ⟨_, rfl, ?_⟩
        have : f.ty.base = root := by simpa using hroot
        simp [this]
      · simp only [hroot]
        obtain ⟨e1, h1, h1'⟩ := collect_spec (f := checkDefault t f) (P := DefaultRule) f.args
          (fun a ha => checkDefault_spec t f a (hc.2 a ha))
        simp only [h1]
        refine ⟨_, rfl, ?_⟩
        have hne : f.ty.base ≠ root := by simpa using hroot
        have hd := depth_le_one_iff f.ty
        cases hr : reserved f.name
        · simp only [Bool.false_eq_true, if_false, List.nil_append, List.append_eq_nil_iff, h1', true_and, ne_eq, hne,
            not_false_eq_true]
          constructor
          · rintro ⟨ha, hb⟩
            refine ⟨ha, hd.mp ?_⟩
            cases hl : f.ty.asList with
            | none => rfl
            | some inner =>
              rw [hl] at hb
              by_cases hi : inner.isList = true <;> simp_all
          · rintro ⟨ha, hb⟩
            refine ⟨ha, ?_⟩
            have := hd.mpr hb
            cases hl : f.ty.asList with
            | none => rfl
            | some inner =>
              rw [hl] at this
              by_cases hi : inner.isList = true <;> simp_all
        · simp
    · simp only [hv]
      refine ⟨_, rfl, ?_⟩
      simp

theorem checkTypeInvariants_spec (vts : List TypeDef) (root : Name) (t : TypeDef)
    (hc : ∀ f ∈ t.fields, f.clean = true) :
    ∃ es, checkTypeInvariants vts root t = .ok es ∧
      (es = [] ↔ (reserved t.name = false ∧ ∀ f ∈ t.fields, FieldRule vts root f)) := by
  unfold checkTypeInvariants
  obtain ⟨e1, h1, h1'⟩ := collect_spec (f := checkFieldInvariants vts root t) (P := FieldRule vts root)
    t.fields (fun f hf => checkFieldInvariants_spec vts root t f (hc f hf))
  simp only [h1]
  refine ⟨_, rfl, ?_⟩
  cases hr : reserved t.name <;> simp [h1']

def FieldsClean (vts : List TypeDef) : Prop := ∀ t ∈ vts, ∀ f ∈ t.fields, f.clean = true

theorem checkInvariants_spec (vts : List TypeDef) (root : Name) (hc : FieldsClean vts) :
    ∃ es, checkInvariants vts root = .ok es ∧ (es = [] ↔ InvariantsRule vts root) := by
  unfold checkInvariants InvariantsRule
  obtain ⟨es, h, h'⟩ := collect_spec (f := checkTypeInvariants vts root)
    (P := fun t => reserved t.name = false ∧ ∀ f ∈ t.fields, FieldRule vts root f) (sortByName vts)
    (fun t ht => checkTypeInvariants_spec vts root t (hc t ((mem_sortByName _ _).mp ht)))
  exact ⟨es, h, by simpa [mem_sortByName] using h'⟩

def RootRule (q : TypeDef) : Prop := ∀ f ∈ q.fields, isBuiltin f.ty.base = false

theorem checkRoot_spec (q : TypeDef) (hc : ∀ f ∈ q.fields, f.clean = true) :
    ∃ es, checkRoot q = .ok es ∧ (es = [] ↔ RootRule q) := by
  unfold checkRoot RootRule
  apply collect_spec
  intro f hf
  have := hc f hf
  simp only [Field.clean, Bool.and_eq_true] at this
  unfold checkRootField
  simp only [fromType_ok this.1]
  refine ⟨_, rfl, ?_⟩
  cases isBuiltin f.ty.base <;> simp


/-! ### Sortedness of `Map.insert` (no stale entries) -/

structure StrictTotal {κ : Type} (lt : κ → κ → Bool) : Prop where
  irrefl : ∀ a, lt a a = false
  trans : ∀ a b c, lt a b = true → lt b c = true → lt a c = true
  tri : ∀ a b, lt a b = false → a ≠ b → lt b a = true

theorem nameLt_strictTotal : StrictTotal nameLt where
  irrefl a := by simp [nameLt, String.lt_irrefl]
  trans a b c := by simp only [nameLt, decide_eq_true_eq]; exact String.lt_trans
  tri a b := by
    simp only [nameLt, decide_eq_false_iff_not, decide_eq_true_eq]
    intro h1 h2
    have := String.le_total a b
    have := @String.le_antisymm a b
    grind

def Map.Sorted {κ ν : Type} (lt : κ → κ → Bool) (m : Map κ ν) : Prop :=
  m.Pairwise (fun a b => lt a.1 b.1 = true)

theorem Map.mem_insert {κ ν : Type} [DecidableEq κ] (lt : κ → κ → Bool) (k : κ) (v : ν) (m : Map κ ν)
    (e : κ × ν) (h : e ∈ Map.insert lt k v m) : e = (k, v) ∨ e ∈ m := by
  induction m with
  | nil => simpa [Map.insert] using h
  | cons x m ih =>
    obtain ⟨k', v'⟩ := x
    unfold Map.insert at h
    split at h
    · simpa using h
    · split at h
      · rcases List.mem_cons.mp h with h | h
        · exact .inl h
        · exact .inr (List.mem_cons_of_mem _ h)
      · rcases List.mem_cons.mp h with h | h
        · exact .inr (by simp [h])
        · rcases ih h with h | h
          · exact .inl h
          · exact .inr (List.mem_cons_of_mem _ h)

theorem Map.insert_sorted {κ ν : Type} [DecidableEq κ] {lt : κ → κ → Bool} (hlt : StrictTotal lt)
    (k : κ) (v : ν) (m : Map κ ν) (hs : Map.Sorted lt m) : Map.Sorted lt (Map.insert lt k v m) := by
  induction m with
  | nil => simp [Map.insert, Map.Sorted]
  | cons x m ih =>
    obtain ⟨k', v'⟩ := x
    unfold Map.Sorted at hs ih ⊢
    rw [List.pairwise_cons] at hs
    unfold Map.insert
    split
    · rename_i hlk
      rw [List.pairwise_cons]
      refine ⟨?_, List.pairwise_cons.mpr hs⟩
      intro y hy
      rcases List.mem_cons.mp hy with rfl | hy
      · exact hlk
      · exact hlt.trans _ _ _ hlk (hs.1 y hy)
    · split
      · rename_i hkk; subst hkk
        rw [List.pairwise_cons]; exact hs
      · rename_i hlk hne
        rw [List.pairwise_cons]
        refine ⟨?_, ih hs.2⟩
        intro y hy
        rcases Map.mem_insert lt k v m y hy with rfl | hy
        · exact hlt.tri _ _ (by simpa using hlk) hne
        · exact hs.1 y hy

theorem Map.get?_of_mem_sorted {κ ν : Type} [DecidableEq κ] {lt : κ → κ → Bool} (hlt : StrictTotal lt)
    {m : Map κ ν} (hs : Map.Sorted lt m) {e : κ × ν} (he : e ∈ m) : Map.get? e.1 m = some e.2 := by
  induction m with
  | nil => simp at he
  | cons x m ih =>
    obtain ⟨k', v'⟩ := x
    unfold Map.Sorted at hs ih
    rw [List.pairwise_cons] at hs
    rcases List.mem_cons.mp he with rfl | he
    · simp [Map.get?]
    · have hne : e.1 ≠ k' := by
        intro h
        have := hs.1 e he
        simp [← h, hlt.irrefl] at this
      simp only [Map.get?, hne, if_false]
      exact ih hs.2 he


/-! ### `check_field_type_narrowing` -/

theorem get?_paramMap_foldl (args : List Arg) (m : Map Name PTy) (p : Name) :
    Map.get? p (args.foldl (fun m a => Map.insert nameLt a.name a.ty m) m) =
      match argTy args p with
      | some t => some t
      | none => Map.get? p m := by
  induction args generalizing m with
  | nil => simp [argTy]
  | cons a as ih =>
    simp only [List.foldl_cons, ih, argTy, Map.get?_insert]
    cases argTy as p with
    | some t => rfl
    | none =>
      by_cases h : a.name = p
      · simp [h]
      · have : ¬ p = a.name := fun h' => h h'.symm
        simp [h, this]

/-- The `BTreeMap` of parameters maps a name to the type of its last declaration. -/
theorem get?_paramMap (args : List Arg) (p : Name) : Map.get? p (paramMap args) = argTy args p := by
  unfold paramMap
  rw [get?_paramMap_foldl]
  cases argTy args p <;> simp [Map.get?]

theorem argTy_isSome_iff (args : List Arg) (p : Name) :
    (argTy args p).isSome = true ↔ ∃ a ∈ args, a.name = p := by
  induction args with
  | nil => simp [argTy]
  | cons a as ih =>
    simp only [argTy, List.mem_cons, exists_eq_or_imp]
    cases h : argTy as p with
    | some t => simp [← ih, h]
    | none =>
      have : ¬ ∃ a ∈ as, a.name = p := by rw [← ih, h]; simp
      by_cases ha : a.name = p <;> simp [ha, this]

theorem mem_keys_paramMap (args : List Arg) (p : Name) :
    p ∈ Map.keys (paramMap args) ↔ ∃ a ∈ args, a.name = p := by
  rw [← Map.get?_isSome_iff_mem_keys, get?_paramMap, argTy_isSome_iff]


theorem paramMap_sorted_foldl (args : List Arg) (m : Map Name PTy) (hs : Map.Sorted nameLt m) :
    Map.Sorted nameLt (args.foldl (fun m a => Map.insert nameLt a.name a.ty m) m) := by
  induction args generalizing m with
  | nil => exact hs
  | cons a as ih => exact ih _ (Map.insert_sorted nameLt_strictTotal _ _ _ hs)

theorem paramMap_sorted (args : List Arg) : Map.Sorted nameLt (paramMap args) :=
  paramMap_sorted_foldl args [] (by simp [Map.Sorted])

/-- The entries of the parameter map are exactly the (name, type-of-last-declaration) pairs. -/
theorem mem_paramMap_iff (args : List Arg) (e : Name × PTy) :
    e ∈ paramMap args ↔ argTy args e.1 = some e.2 := by
  rw [← get?_paramMap]
  exact ⟨Map.get?_of_mem_sorted nameLt_strictTotal (paramMap_sorted args), Map.mem_of_get?⟩


theorem isScalarOnlySubtype_iff (a b : PTy) : a.isScalarOnlySubtype b = true ↔ ScalarNarrows a b := by
  induction a generalizing b with
  | named p pn =>
    cases b with
    | named s sn =>
      simp only [PTy.isScalarOnlySubtype, Bool.and_eq_true, Bool.not_eq_true', beq_iff_eq]
      constructor
      · rintro ⟨h1, rfl⟩
        exact .named (by cases pn <;> cases sn <;> simp_all)
      · intro h; cases h with
        | named h => exact ⟨by cases pn <;> cases sn <;> simp_all, rfl⟩
    | list si sn => simp only [PTy.isScalarOnlySubtype]; constructor <;> intro h <;> cases h
  | list pi pn ih =>
    cases b with
    | named s sn => simp only [PTy.isScalarOnlySubtype]; constructor <;> intro h <;> cases h
    | list si sn =>
      simp only [PTy.isScalarOnlySubtype, Bool.and_eq_true, Bool.not_eq_true', beq_iff_eq, ih]
      constructor
      · rintro ⟨⟨h1, h2⟩, h3⟩
        exact .list (by cases pn <;> cases sn <;> simp_all) h2 h3
      · intro h; cases h with
        | list h1 h2 h3 => exact ⟨⟨by cases pn <;> cases sn <;> simp_all, h2⟩, h3⟩

/-- `is_named_type_subtype` decides `NamedNarrows` (given distinct type names). -/
theorem isNamedSubtype_iff {vts : List TypeDef} (hnd : (vts.map (·.name)).Nodup) (p s : Name) :
    isNamedSubtype vts p s = true ↔ NamedNarrows vts p s := by
  unfold isNamedSubtype NamedNarrows
  cases hp : findType vts p with
  | none =>
    have hpv : ¬ IsVertex vts p := (findType_eq_none_iff _ _).mp hp
    cases hs : findType vts s with
    | none => simp [hpv]
    | some sd =>
      simp only [Option.isSome_none, hpv, false_and, or_false]
      constructor
      · intro h; cases h
      · rintro rfl; rw [hp] at hs; cases hs
  | some pd =>
    have hpv : IsVertex vts p := (findType_isSome_iff _ _).mp (by simp [hp])
    cases hs : findType vts s with
    | none =>
      simp only [Option.isSome_some]
      constructor
      · intro h; cases h
      · rintro (rfl | ⟨_, d, hd, hdn, _⟩)
        · rw [hp] at hs; cases hs
        · have := findType_of_mem hnd hd; rw [hdn, hs] at this; cases this
    | some sd =>
      simp only [Option.isSome_some, Bool.or_eq_true, beq_iff_eq, List.contains_eq_mem, decide_eq_true_eq, hpv, true_and]
      have hsd := findType_some hs
      constructor
      · rintro (h | h)
        · exact .inl h
        · exact .inr ⟨sd, hsd.1, hsd.2, h⟩
      · rintro (h | ⟨d, hd, hdn, hin⟩)
        · exact .inl h
        · have := findType_of_mem hnd hd; rw [hdn, hs] at this
          cases this; exact .inr hin

theorem isSubtype_iff {vts : List TypeDef} (hnd : (vts.map (·.name)).Nodup) (a b : PTy) :
    isSubtype vts a b = true ↔ Narrows vts a b := by
  induction a generalizing b with
  | named p pn =>
    cases b with
    | named s sn =>
      simp only [isSubtype, Bool.and_eq_true, Bool.not_eq_true', isNamedSubtype_iff hnd]
      constructor
      · rintro ⟨h1, h2⟩
        exact .named (by cases pn <;> cases sn <;> simp_all) h2
      · intro h; cases h with
        | named h1 h2 => exact ⟨by cases pn <;> cases sn <;> simp_all, h2⟩
    | list si sn => simp only [isSubtype]; constructor <;> intro h <;> cases h
  | list pi pn ih =>
    cases b with
    | named s sn => simp only [isSubtype]; constructor <;> intro h <;> cases h
    | list si sn =>
      simp only [isSubtype, Bool.and_eq_true, Bool.not_eq_true', ih]
      constructor
      · rintro ⟨h1, h2⟩
        exact .list (by cases pn <;> cases sn <;> simp_all) h2
      · intro h; cases h with
        | list h1 h2 => exact ⟨by cases pn <;> cases sn <;> simp_all, h2⟩

/-- What `check_field_type_narrowing` requires of a field `f` against the same-named field `pf` of
an implemented type. -/
def NarrowRule (vts : List TypeDef) (pf f : Field) : Prop :=
  Narrows vts pf.ty f.ty ∧
  (∀ p, (∃ a ∈ pf.args, a.name = p) ↔ (∃ a ∈ f.args, a.name = p)) ∧
  (∀ p cty pty, argTy f.args p = some cty → argTy pf.args p = some pty → ScalarNarrows cty pty)

def NarrowingRule (vts : List TypeDef) : Prop :=
  ∀ t ∈ vts, ∀ f ∈ t.fields, ∀ i ∈ t.implements, ∀ pf, lookupField vts i f.name = some pf →
    NarrowRule vts pf f

def ArgsShallow (f : Field) : Prop := ∀ a ∈ f.args, a.ty.shallow = true

theorem argTy_shallow {args : List Arg} (h : ∀ a ∈ args, a.ty.shallow = true) {p : Name} {t : PTy}
    (ht : argTy args p = some t) : t.shallow = true := by
  induction args with
  | nil => simp [argTy] at ht
  | cons a as ih =>
    simp only [argTy] at ht
    cases h' : argTy as p with
    | some t' =>
      rw [h'] at ht; cases ht
      exact ih (fun b hb => h b (by simp [hb])) h'
    | none =>
      rw [h'] at ht
      by_cases ha : a.name = p
      · simp [ha] at ht; subst ht; exact h a (by simp)
      · simp [ha] at ht

theorem checkParamType_spec (t : TypeDef) (f pf : Field) (i : Name)
    (hf : ArgsShallow f) (hpf : ArgsShallow pf) (p : Name × PTy) (hp : p ∈ paramMap f.args) :
    ∃ es, checkParamType t f i (paramMap pf.args) p = .ok es ∧
      (es = [] ↔ ∀ pty, argTy pf.args p.1 = some pty → ScalarNarrows p.2 pty) := by
  unfold checkParamType
  rw [get?_paramMap]
  cases hpty : argTy pf.args p.1 with
  | none => exact ⟨[], rfl, by simp⟩
  | some pty =>
    have h2 : pty.shallow = true := argTy_shallow hpf hpty
    have h1 : p.2.shallow = true := argTy_shallow hf ((mem_paramMap_iff _ _).mp hp)
    simp only [fromType_ok h1, fromType_ok h2]
    refine ⟨_, rfl, ?_⟩
    by_cases hs : p.2.isScalarOnlySubtype pty = true
    · simp [hs, (isScalarOnlySubtype_iff _ _).mp hs]
    · have : ¬ ScalarNarrows p.2 pty := fun h => hs ((isScalarOnlySubtype_iff _ _).mpr h)
      simp [hs, this]


theorem filter_keys_nil_iff (fp pp : Map Name PTy) :
    (Map.keys pp).filter (fun n => !Map.contains n fp) = [] ↔ ∀ p ∈ Map.keys pp, p ∈ Map.keys fp := by
  simp only [List.filter_eq_nil_iff, Bool.not_eq_true, Bool.not_eq_false', Map.contains,
    Map.get?_isSome_iff_mem_keys]

theorem checkNarrowingImpl_spec {vts : List TypeDef} (hnd : (vts.map (·.name)).Nodup)
    (hc : ∀ t ∈ vts, ∀ f ∈ t.fields, ArgsShallow f)
    (t : TypeDef) (f : Field) (hf : ArgsShallow f) (i : Name) :
    ∃ es, checkNarrowingImpl vts t f i = .ok es ∧
      (es = [] ↔ ∀ pf, lookupField vts i f.name = some pf → NarrowRule vts pf f) := by
  unfold checkNarrowingImpl
  cases hl : lookupField vts i f.name with
  | none => exact ⟨[], rfl, by simp⟩
  | some pf =>
    have hpf : ArgsShallow pf := by
      unfold lookupField at hl
      cases hft : findType vts i with
      | none => simp [hft] at hl
      | some d =>
        simp only [hft] at hl
        exact hc d (findType_some hft).1 pf (findField_some hl).1
    obtain ⟨e4, h4, h4'⟩ := collect_spec (f := checkParamType t f i (paramMap pf.args))
      (P := fun p => ∀ pty, argTy pf.args p.1 = some pty → ScalarNarrows p.2 pty) (paramMap f.args)
      (fun p hp => checkParamType_spec t f pf i hf hpf p hp)
    simp only [h4]
    refine ⟨_, rfl, ?_⟩
    simp only [Option.some.injEq, forall_eq', NarrowRule, List.append_eq_nil_iff, h4']
    have h1 : (if isSubtype vts pf.ty f.ty = true then []
        else [SchemaErr.invalidTypeWidening f.name t.name i f.ty pf.ty]) = [] ↔ Narrows vts pf.ty f.ty := by
      rw [← isSubtype_iff hnd]; cases isSubtype vts pf.ty f.ty <;> simp
    have h2 : ∀ (l : List Name) (e : SchemaErr), (if l.isEmpty = true then [] else [e]) = [] ↔ l = [] := by
      intro l e; cases l <;> simp
    rw [h1, h2, h2, filter_keys_nil_iff, filter_keys_nil_iff]
    simp only [mem_keys_paramMap]
    constructor
    · rintro ⟨⟨⟨hn, hm⟩, hu⟩, hp⟩
      refine ⟨hn, fun p => ⟨hm p, hu p⟩, ?_⟩
      intro p cty pty hc hp'
      exact hp (p, cty) ((mem_paramMap_iff _ _).mpr hc) pty hp'
    · rintro ⟨hn, hnames, hp⟩
      refine ⟨⟨⟨hn, fun p => (hnames p).mp⟩, fun p => (hnames p).mpr⟩, ?_⟩
      intro p hp' pty hpty
      exact hp p.1 p.2 pty ((mem_paramMap_iff _ _).mp hp') hpty

theorem checkNarrowing_spec {vts : List TypeDef} (hnd : (vts.map (·.name)).Nodup)
    (hc : ∀ t ∈ vts, ∀ f ∈ t.fields, ArgsShallow f) :
    ∃ es, checkNarrowing vts = .ok es ∧ (es = [] ↔ NarrowingRule vts) := by
  unfold checkNarrowing NarrowingRule
  obtain ⟨es, h, h'⟩ := collect_spec (f := checkNarrowingType vts)
    (P := fun t => ∀ f ∈ t.fields, ∀ i ∈ t.implements, ∀ pf, lookupField vts i f.name = some pf →
      NarrowRule vts pf f) (sortByName vts)
    (fun t ht => by
      have ht' := (mem_sortByName _ _).mp ht
      unfold checkNarrowingType
      apply collect_spec
      intro f hf
      unfold checkNarrowingField
      apply collect_spec
      intro i _
      exact checkNarrowingImpl_spec hnd hc t f (hc t ht' f hf) i)
  exact ⟨es, h, by simpa [mem_sortByName] using h'⟩


/-! ### The first loop of `Schema::new` -/

theorem nodupNames_iff (l : List Name) : nodupNames l = true ↔ l.Nodup := by
  induction l with
  | nil => simp [nodupNames]
  | cons a as ih => simp [nodupNames, ih, List.nodup_cons]

theorem firstDupName_none_iff (seen ns : List Name) :
    firstDupName seen ns = none ↔ ns.Nodup ∧ ∀ n ∈ ns, n ∉ seen := by
  induction ns generalizing seen with
  | nil => simp [firstDupName]
  | cons n ns ih =>
    simp only [firstDupName, List.contains_eq_mem, decide_eq_true_eq, List.nodup_cons, List.mem_cons,
      forall_eq_or_imp]
    by_cases h : n ∈ seen
    · simp [h]
    · simp only [h, if_false, ih, List.mem_cons, not_or, not_false_eq_true, true_and]
      constructor
      · rintro ⟨h1, h2⟩
        exact ⟨⟨fun hx => (h2 n hx).1 rfl, h1⟩, fun x hx => (h2 x hx).2⟩
      · rintro ⟨⟨h1, h2⟩, h3⟩
        exact ⟨h2, fun x hx => ⟨fun hxe => h1 (hxe ▸ hx), h3 x hx⟩⟩

/-- The field loop of one type definition returns no error iff the field names are distinct (and new)
and every field has distinct parameter names. -/
theorem firstFieldErr_none_iff (tname : Name) (seen : List Name) (fs : List Field) :
    firstFieldErr tname seen fs = none ↔
      ((fs.map (·.name)).Nodup ∧ ∀ f ∈ fs, f.name ∉ seen) ∧ ∀ f ∈ fs, (f.args.map (·.name)).Nodup := by
  induction fs generalizing seen with
  | nil => simp [firstFieldErr]
  | cons f fs ih =>
    simp only [firstFieldErr, List.map_cons, List.nodup_cons, List.mem_cons, forall_eq_or_imp]
    cases hp : firstDupName [] (f.args.map (·.name)) with
    | some p =>
      have : ¬ (f.args.map (·.name)).Nodup := by
        intro hnd
        have := (firstDupName_none_iff [] _).mpr ⟨hnd, by simp⟩
        rw [hp] at this; cases this
      simp [this]
    | none =>
      have hnd := ((firstDupName_none_iff [] _).mp hp).1
      by_cases h : f.name ∈ seen
      · simp [h]
      · simp only [List.contains_eq_mem, decide_eq_true_eq, h, if_false, ih, List.mem_cons, not_or,
          not_false_eq_true, true_and, hnd, List.mem_map, not_exists, not_and]
        constructor
        · rintro ⟨⟨h1, h2⟩, h3⟩
          exact ⟨⟨⟨fun x hx hxe => (h2 x hx).1 hxe, h1⟩, fun x hx => (h2 x hx).2⟩, h3⟩
        · rintro ⟨⟨⟨h1, h2⟩, h3⟩, h4⟩
          exact ⟨⟨h2, fun x hx => ⟨fun hxe => h1 x hx hxe, h3 x hx⟩⟩, h4⟩

/-- Type names and, per type, field names are distinct. -/
def Distinct (ts : List TypeDef) : Prop :=
  (ts.map (·.name)).Nodup ∧ ∀ t ∈ ts, (t.fields.map (·.name)).Nodup

/-- The loop state after the definitions `pre`. -/
structure StateOf (pre : Doc) (st : LoopState) : Prop where
  schema : st.schema = pre.schemaBlocks.head?
  directives : st.directives = pre.directiveNames
  scalars : st.scalars = pre.scalarNames
  vertexTypes : st.vertexTypes = pre.types

/-- What the first loop of `Schema::new` requires of the definitions it has read (each violation is
an early `return Err(..)`): at most one `schema` block, no type or scalar named like a built-in
scalar, distinct directive names, distinct custom scalar names, distinct type names, — per type —
distinct field names and — per field — distinct parameter names (F-C10-5).  (Before the repairs of F-16, F-20, F-21, F-21b the first five were a *guard*
of the theorems — `LoopGuard` — because their violation was a panic.) -/
structure LoopOK (d : Doc) : Prop where
  oneBlock : d.schemaBlocks.length ≤ 1
  typesNotBuiltin : ∀ t ∈ d.types, isBuiltin t.name = false
  scalarsNotBuiltin : ∀ n ∈ d.scalarNames, isBuiltin n = false
  directivesNodup : d.directiveNames.Nodup
  scalarsNodup : d.scalarNames.Nodup
  distinct : Distinct d.types
  paramsDistinct : ∀ t ∈ d.types, ∀ f ∈ t.fields, (f.args.map (·.name)).Nodup

theorem Doc.types_append (a b : Doc) : Doc.types (a ++ b) = Doc.types a ++ Doc.types b := by
  simp [Doc.types, List.filterMap_append]
theorem Doc.schemaBlocks_append (a b : Doc) : Doc.schemaBlocks (a ++ b) = Doc.schemaBlocks a ++ Doc.schemaBlocks b := by
  simp [Doc.schemaBlocks, List.filterMap_append]
theorem Doc.directiveNames_append (a b : Doc) : Doc.directiveNames (a ++ b) = Doc.directiveNames a ++ Doc.directiveNames b := by
  simp [Doc.directiveNames, List.filterMap_append]
theorem Doc.scalarNames_append (a b : Doc) : Doc.scalarNames (a ++ b) = Doc.scalarNames a ++ Doc.scalarNames b := by
  simp [Doc.scalarNames, List.filterMap_append]
theorem Doc.unsupportedNames_append (a b : Doc) : Doc.unsupportedNames (a ++ b) = Doc.unsupportedNames a ++ Doc.unsupportedNames b := by
  simp [Doc.unsupportedNames, List.filterMap_append]

theorem Distinct.of_append_left {a b : List TypeDef} (h : Distinct (a ++ b)) : Distinct a := by
  refine ⟨?_, fun t ht => h.2 t (by simp [ht])⟩
  have := h.1
  rw [List.map_append] at this
  exact (List.nodup_append.mp this).1

theorem LoopOK.of_append_left {a b : Doc} (h : LoopOK (a ++ b)) : LoopOK a := by
  obtain ⟨h1, h2, h3, h4, h5, h6, h7⟩ := h
  rw [Doc.schemaBlocks_append, List.length_append] at h1
  rw [Doc.types_append] at h2 h6 h7
  rw [Doc.scalarNames_append] at h3 h5
  rw [Doc.directiveNames_append] at h4
  exact ⟨by omega, fun t ht => h2 t (by simp [ht]), fun n hn => h3 n (by simp [hn]),
    (List.nodup_append.mp h4).1, (List.nodup_append.mp h5).1, h6.of_append_left,
    fun t ht => h7 t (by simp [ht])⟩

theorem LoopOK.nil : LoopOK [] :=
  ⟨by simp [Doc.schemaBlocks], by simp [Doc.types], by simp [Doc.scalarNames],
   by simp [Doc.directiveNames], by simp [Doc.scalarNames], ⟨by simp [Doc.types], by simp [Doc.types]⟩,
   by simp [Doc.types]⟩

/-- The first loop, on documents without `enum`/`union`/`input` definitions: it never panics; it
returns early with an error exactly when the definitions violate `LoopOK`, and otherwise ends in the
state that holds the document's definitions. -/
theorem runLoop_spec (rest : Doc) : ∀ (pre : Doc) (st : LoopState), StateOf pre st → LoopOK pre →
    rest.unsupportedNames = [] →
    (∃ e, runLoop st rest = .ok (.error e) ∧ ¬ LoopOK (pre ++ rest)) ∨
    (∃ st', runLoop st rest = .ok (.ok st') ∧ StateOf (pre ++ rest) st' ∧ LoopOK (pre ++ rest)) := by
  induction rest with
  | nil =>
    intro pre st hst hok _
    exact .inr ⟨st, rfl, by simpa using hst, by simpa using hok⟩
  | cons d rest ih =>
    intro pre st hst hok hun
    have hassoc : pre ++ d :: rest = (pre ++ [d]) ++ rest := by simp
    rw [hassoc]
    have fail : ∀ e, loopStep st d = .ok (.error e) → ¬ LoopOK (pre ++ [d]) →
        (∃ e, runLoop st (d :: rest) = .ok (.error e) ∧ ¬ LoopOK ((pre ++ [d]) ++ rest)) ∨
        (∃ st', runLoop st (d :: rest) = .ok (.ok st') ∧ StateOf ((pre ++ [d]) ++ rest) st' ∧
          LoopOK ((pre ++ [d]) ++ rest)) :=
      fun e he hno => .inl ⟨e, by simp [runLoop, he], fun h => hno h.of_append_left⟩
    have cont : Doc.unsupportedNames rest = [] → ∀ st', loopStep st d = .ok (.ok st') →
        StateOf (pre ++ [d]) st' → LoopOK (pre ++ [d]) →
        (∃ e, runLoop st (d :: rest) = .ok (.error e) ∧ ¬ LoopOK ((pre ++ [d]) ++ rest)) ∨
        (∃ st', runLoop st (d :: rest) = .ok (.ok st') ∧ StateOf ((pre ++ [d]) ++ rest) st' ∧
          LoopOK ((pre ++ [d]) ++ rest)) :=
      fun hun' st' he hs ho => by simpa [runLoop, he] using ih _ _ hs ho hun'
    cases d with
    | schema q =>
      have hun' : Doc.unsupportedNames rest = [] := by simpa [Doc.unsupportedNames] using hun
      have hkeep : (∀ t ∈ Doc.types (pre ++ [Def.schema q]), isBuiltin t.name = false) ∧
          (∀ n ∈ Doc.scalarNames (pre ++ [Def.schema q]), isBuiltin n = false) ∧
          (Doc.directiveNames (pre ++ [Def.schema q])).Nodup ∧
          (Doc.scalarNames (pre ++ [Def.schema q])).Nodup ∧ Distinct (Doc.types (pre ++ [Def.schema q])) ∧
          (∀ t ∈ Doc.types (pre ++ [Def.schema q]), ∀ f ∈ t.fields, (f.args.map (·.name)).Nodup) :=
        ⟨by simpa [Doc.types_append, Doc.types] using hok.typesNotBuiltin,
         by simpa [Doc.scalarNames_append, Doc.scalarNames] using hok.scalarsNotBuiltin,
         by simpa [Doc.directiveNames_append, Doc.directiveNames] using hok.directivesNodup,
         by simpa [Doc.scalarNames_append, Doc.scalarNames] using hok.scalarsNodup,
         by simpa [Doc.types_append, Doc.types] using hok.distinct,
         by simpa [Doc.types_append, Doc.types] using hok.paramsDistinct⟩
      cases hps : pre.schemaBlocks with
      | nil =>
        have hnone : st.schema = none := by rw [hst.schema, hps]; rfl
        refine cont hun' { st with schema := some q } (by simp [loopStep, hnone]) ?_ ?_
        · exact ⟨by rw [Doc.schemaBlocks_append, hps]; rfl,
            by simp [Doc.directiveNames_append, hst.directives, Doc.directiveNames],
            by simp [Doc.scalarNames_append, hst.scalars, Doc.scalarNames],
            by simp [Doc.types_append, hst.vertexTypes, Doc.types]⟩
        · exact ⟨by rw [Doc.schemaBlocks_append, hps]; exact Nat.le_refl 1, hkeep.1, hkeep.2.1,
            hkeep.2.2.1, hkeep.2.2.2.1, hkeep.2.2.2.2.1, hkeep.2.2.2.2.2⟩
      | cons x xs =>
        have hsome : st.schema.isSome = true := by rw [hst.schema, hps]; rfl
        refine fail .duplicateSchemaDefinition (by simp [loopStep, hsome]) ?_
        intro h
        have := h.oneBlock
        have h1 : Doc.schemaBlocks [Def.schema q] = [q] := rfl
        rw [Doc.schemaBlocks_append, hps, h1] at this
        simp at this
    | directive n =>
      have hun' : Doc.unsupportedNames rest = [] := by simpa [Doc.unsupportedNames] using hun
      by_cases hn : n ∈ st.directives
      · refine fail (.duplicateDirectiveDefinition n) (by simp [loopStep, hn]) ?_
        intro h
        have := h.directivesNodup
        rw [Doc.directiveNames_append] at this
        rw [hst.directives] at hn
        exact (List.nodup_append.mp this).2.2 n hn n (by simp [Doc.directiveNames]) rfl
      · refine cont hun' { st with directives := st.directives ++ [n] } (by simp [loopStep, hn]) ?_ ?_
        · exact ⟨by simp [Doc.schemaBlocks_append, hst.schema, Doc.schemaBlocks],
            by simp [Doc.directiveNames_append, hst.directives, Doc.directiveNames],
            by simp [Doc.scalarNames_append, hst.scalars, Doc.scalarNames],
            by simp [Doc.types_append, hst.vertexTypes, Doc.types]⟩
        · rw [hst.directives] at hn
          exact ⟨by simpa [Doc.schemaBlocks_append, Doc.schemaBlocks] using hok.oneBlock,
            by simpa [Doc.types_append, Doc.types] using hok.typesNotBuiltin,
            by simpa [Doc.scalarNames_append, Doc.scalarNames] using hok.scalarsNotBuiltin,
            by
              rw [Doc.directiveNames_append, List.nodup_append]
              refine ⟨hok.directivesNodup, by simp [Doc.directiveNames], ?_⟩
              intro a ha b hb hab
              simp [Doc.directiveNames] at hb; subst hb; subst hab; exact hn ha,
            by simpa [Doc.scalarNames_append, Doc.scalarNames] using hok.scalarsNodup,
            by simpa [Doc.types_append, Doc.types] using hok.distinct,
            by simpa [Doc.types_append, Doc.types] using hok.paramsDistinct⟩
    | scalar n =>
      have hun' : Doc.unsupportedNames rest = [] := by simpa [Doc.unsupportedNames] using hun
      by_cases hbi : isBuiltin n = true
      · refine fail (.builtinScalarRedefinition n) (by simp [loopStep, hbi]) ?_
        intro h
        have := h.scalarsNotBuiltin n (by simp [Doc.scalarNames_append, Doc.scalarNames])
        rw [hbi] at this; cases this
      · have hbi' : isBuiltin n = false := by simpa using hbi
        by_cases hn : n ∈ st.scalars
        · refine fail (.duplicateScalarDefinition n) (by simp [loopStep, hbi', hn]) ?_
          intro h
          have := h.scalarsNodup
          rw [Doc.scalarNames_append] at this
          rw [hst.scalars] at hn
          exact (List.nodup_append.mp this).2.2 n hn n (by simp [Doc.scalarNames]) rfl
        · refine cont hun' { st with scalars := st.scalars ++ [n] } (by simp [loopStep, hbi', hn]) ?_ ?_
          · exact ⟨by simp [Doc.schemaBlocks_append, hst.schema, Doc.schemaBlocks],
              by simp [Doc.directiveNames_append, hst.directives, Doc.directiveNames],
              by simp [Doc.scalarNames_append, hst.scalars, Doc.scalarNames],
              by simp [Doc.types_append, hst.vertexTypes, Doc.types]⟩
          · rw [hst.scalars] at hn
            exact ⟨by simpa [Doc.schemaBlocks_append, Doc.schemaBlocks] using hok.oneBlock,
              by simpa [Doc.types_append, Doc.types] using hok.typesNotBuiltin,
              by
                intro m hm
                rw [Doc.scalarNames_append] at hm
                rcases List.mem_append.mp hm with hm | hm
                · exact hok.scalarsNotBuiltin m hm
                · simp [Doc.scalarNames] at hm; subst hm; exact hbi',
              by simpa [Doc.directiveNames_append, Doc.directiveNames] using hok.directivesNodup,
              by
                rw [Doc.scalarNames_append, List.nodup_append]
                refine ⟨hok.scalarsNodup, by simp [Doc.scalarNames], ?_⟩
                intro a ha b hb hab
                simp [Doc.scalarNames] at hb; subst hb; subst hab; exact hn ha,
              by simpa [Doc.types_append, Doc.types] using hok.distinct,
              by simpa [Doc.types_append, Doc.types] using hok.paramsDistinct⟩
    | unsupported n =>
      simp [Doc.unsupportedNames] at hun
    | type t =>
      have hun' : Doc.unsupportedNames rest = [] := by simpa [Doc.unsupportedNames] using hun
      have hty : Doc.types (pre ++ [Def.type t]) = Doc.types pre ++ [t] := by
        rw [Doc.types_append]; rfl
      by_cases hbi : isBuiltin t.name = true
      · refine fail (.builtinScalarRedefinition t.name) (by simp [loopStep, hbi]) ?_
        intro h
        have := h.typesNotBuiltin t (by simp [hty])
        rw [hbi] at this; cases this
      · have hbi' : isBuiltin t.name = false := by simpa using hbi
        by_cases hdup : (findType st.vertexTypes t.name).isSome = true
        · refine fail (.duplicateTypeDefinition t.name) (by simp [loopStep, hbi', hdup]) ?_
          intro h
          have hdist := h.distinct
          rw [hty] at hdist
          rw [hst.vertexTypes, findType_isSome_iff] at hdup
          obtain ⟨d, hd1, hd2⟩ := hdup
          have := hdist.1
          simp only [List.map_append, List.map_cons] at this
          have := (List.nodup_append.mp this).2.2 d.name (by simp; exact ⟨d, hd1, rfl⟩) t.name (by simp)
          exact this hd2
        · cases hf : firstFieldErr t.name [] t.fields with
          | some e =>
            refine fail e (by simp [loopStep, hbi', hdup, hf]) ?_
            intro h
            have hdist := h.distinct
            have hpar := h.paramsDistinct
            rw [hty] at hdist hpar
            have h2 := (firstFieldErr_none_iff t.name [] t.fields).mpr
              ⟨⟨hdist.2 t (by simp), by simp⟩, hpar t (by simp)⟩
            rw [hf] at h2; cases h2
          | none =>
            have hfn := (firstFieldErr_none_iff t.name [] t.fields).mp hf
            refine cont hun' { st with vertexTypes := st.vertexTypes ++ [t] }
              (by simp [loopStep, hbi', hdup, hf]) ?_ ?_
            · exact ⟨by simp [Doc.schemaBlocks_append, hst.schema, Doc.schemaBlocks],
                by simp [Doc.directiveNames_append, hst.directives, Doc.directiveNames],
                by simp [Doc.scalarNames_append, hst.scalars, Doc.scalarNames],
                by simp [Doc.types_append, hst.vertexTypes, Doc.types]⟩
            · have hd := hok.distinct
              refine ⟨by simpa [Doc.schemaBlocks_append, Doc.schemaBlocks] using hok.oneBlock, ?_,
                by simpa [Doc.scalarNames_append, Doc.scalarNames] using hok.scalarsNotBuiltin,
                by simpa [Doc.directiveNames_append, Doc.directiveNames] using hok.directivesNodup,
                by simpa [Doc.scalarNames_append, Doc.scalarNames] using hok.scalarsNodup, ?_, ?_⟩
              · intro x hx
                rw [hty] at hx
                rcases List.mem_append.mp hx with hx | hx
                · exact hok.typesNotBuiltin x hx
                · simp at hx; subst hx; exact hbi'
              rotate_left
              · intro x hx
                rw [hty] at hx
                rcases List.mem_append.mp hx with hx | hx
                · exact hok.paramsDistinct x hx
                · simp at hx; subst hx; exact hfn.2
              · rw [hty]
                rw [hst.vertexTypes, findType_isSome_iff] at hdup
                refine ⟨?_, ?_⟩
                · rw [List.map_append, List.nodup_append]
                  refine ⟨hd.1, by simp, ?_⟩
                  intro a ha b hb
                  simp at hb; subst hb
                  intro hab
                  simp only [List.mem_map] at ha
                  obtain ⟨x, hx, hxn⟩ := ha
                  exact hdup ⟨x, hx, by rw [hxn, hab]⟩
                · intro x hx
                  rcases List.mem_append.mp hx with hx | hx
                  · exact hd.2 x hx
                  · simp at hx; subst hx; exact hfn.1.1


end TF.SchemaDoc
