/-
Small example documents shared by the witnesses and non-vacuity examples of C19 and C20.
-/
import TrustfallModel.Model.SchemaDoc

namespace TF.SchemaDoc.Examples
open TF.SchemaDoc

def intTy : PTy := .named "Int" false
def tyA : Def := .type { name := "A", isInterface := false, implements := [], fields := [⟨"x", intTy, []⟩] }
def tyQ (fs : List Field) : Def := .type { name := "Q", isInterface := false, implements := [], fields := fs }
def edgeA (args : List Arg) : Field := ⟨"a", .named "A" false, args⟩
/-- `schema { query: Q }  type Q { a: A }  type A { x: Int }` -/
def small : Doc := [.schema "Q", tyQ [edgeA []], tyA]
/-- `n` list levels around `Int`. -/
def deep : Nat → PTy
  | 0 => intTy
  | n + 1 => .list (deep n) false


def strTy : PTy := .named "String" false
def named (n : Name) : PTy := .named n false
def iface (n : Name) (impls : List Name) (fs : List Field) : Def :=
  .type { name := n, isInterface := true, implements := impls, fields := fs }
def obj (n : Name) (impls : List Name) (fs : List Field) : Def :=
  .type { name := n, isInterface := false, implements := impls, fields := fs }
def root : Def := obj "Q" [] [⟨"b", named "B", []⟩]
def fx : Field := ⟨"x", .named "Int" false, []⟩
def withB (ds : List Def) : Doc := [.schema "Q", root] ++ ds


/-- A richer valid schema: interface chain `K implements J`, an implementer of both with a narrowed
property (`Int` → `Int!`), a narrowed edge target (`J` → `B!`), a widened parameter (`Int!` → `Int`)
with default values, the directive prelude and a custom scalar. -/
def rich : Doc :=
  [.directive "filter", .directive "output", .scalar "Date", .schema "Q", root,
   iface "J" [] [⟨"x", .named "Int" false, []⟩, ⟨"next", .named "J" false, [⟨"n", .named "Int" true, some (.val (.int64 1))⟩]⟩],
   iface "K" ["J"] [⟨"x", .named "Int" false, []⟩, ⟨"next", .named "J" false, [⟨"n", .named "Int" true, none⟩]⟩,
      ⟨"tags", .list (.named "String" true) false, []⟩],
   obj "B" ["K", "J"] [⟨"x", .named "Int" true, []⟩,
      ⟨"next", .named "B" true, [⟨"n", .named "Int" false, some (.val .null)⟩]⟩,
      ⟨"tags", .list (.named "String" true) true, []⟩]]


end TF.SchemaDoc.Examples
