/-
Helper lemmas for C14 (schema part): sorting by name is independent of the input order when names
are distinct, hence every function of `Schema::new` that iterates `vertex_types` — modelled with an
explicit iteration-order parameter (`Model/SchemaDoc.lean`, section "Hash iteration order") — equals
its order-free version.
-/
import TrustfallModel.Proofs.SchemaOrigins
namespace TF.SchemaDoc

/-! ### Sorting by name does not depend on the order of the input (distinct names) -/

def NameSorted (l : List TypeDef) : Prop := l.Pairwise (fun a b => nameLt a.name b.name = true)

theorem insertByName_sorted (t : TypeDef) (l : List TypeDef) (hs : NameSorted l)
    (hne : ∀ x ∈ l, x.name ≠ t.name) : NameSorted (insertByName t l) := by
  induction l with
  | nil => simp [insertByName, NameSorted]
  | cons y ys ih =>
    unfold NameSorted at hs ih ⊢
    rw [List.pairwise_cons] at hs
    unfold insertByName
    split
    · rename_i hlt
      rw [List.pairwise_cons]
      refine ⟨?_, List.pairwise_cons.mpr hs⟩
      intro z hz
      rcases List.mem_cons.mp hz with rfl | hz
      · exact hlt
      · exact nameLt_strictTotal.trans _ _ _ hlt (hs.1 z hz)
    · rename_i hlt
      rw [List.pairwise_cons]
      refine ⟨?_, ih hs.2 (fun x hx => hne x (by simp [hx]))⟩
      intro z hz
      rcases (mem_insertByName t z ys).mp hz with rfl | hz
      · exact nameLt_strictTotal.tri _ _ (by simpa using hlt) (fun h => hne y (by simp) h.symm)
      · exact hs.1 z hz

theorem sortByName_sorted (l : List TypeDef) (hnd : (l.map (·.name)).Nodup) : NameSorted (sortByName l) := by
  induction l with
  | nil => simp [sortByName, NameSorted]
  | cons y ys ih =>
    simp only [List.map_cons, List.nodup_cons, List.mem_map, not_exists, not_and] at hnd
    simp only [sortByName, List.foldr_cons] at ih ⊢
    apply insertByName_sorted _ _ (ih hnd.2)
    intro x hx
    have : x ∈ ys := (mem_sortByName x ys).mp hx
    exact hnd.1 x this

/-- Two strictly name-sorted lists with the same elements are equal. -/
theorem eq_of_sorted_perm : ∀ (l₁ l₂ : List TypeDef), NameSorted l₁ → NameSorted l₂ → l₁.Perm l₂ → l₁ = l₂ := by
  intro l₁
  induction l₁ with
  | nil => intro l₂ _ _ hp; exact (List.Perm.nil_eq hp)
  | cons a as ih =>
    intro l₂ h1 h2 hp
    cases l₂ with
    | nil => exact absurd hp.symm (by simp)
    | cons b bs =>
      unfold NameSorted at h1 h2
      rw [List.pairwise_cons] at h1 h2
      have hab : a = b := by
        have ha : a ∈ b :: bs := hp.subset (by simp)
        have hb : b ∈ a :: as := hp.symm.subset (by simp)
        rcases List.mem_cons.mp ha with h | ha
        · exact h
        · rcases List.mem_cons.mp hb with h | hb
          · exact h.symm
          · have hlt1 := h2.1 a ha
            have hlt2 := h1.1 b hb
            have := nameLt_strictTotal.trans _ _ _ hlt1 hlt2
            rw [nameLt_strictTotal.irrefl] at this; cases this
      subst hab
      rw [ih bs h1.2 h2.2 (List.Perm.cons_inv hp)]

theorem sortByName_congr {l l' : List TypeDef} (hnd : (l.map (·.name)).Nodup) (hp : l'.Perm l) :
    sortByName l' = sortByName l := by
  have hnd' : (l'.map (·.name)).Nodup := (hp.map _).nodup_iff.mpr hnd
  exact eq_of_sorted_perm _ _ (sortByName_sorted l' hnd') (sortByName_sorted l hnd)
    ((sortByName_perm l').trans (hp.trans (sortByName_perm l).symm))

theorem sortedTypes_eq (π : HashOrder) (site : Nat) {vts : List TypeDef} (hnd : (vts.map (·.name)).Nodup) :
    sortedTypes π site vts = sortByName vts :=
  sortByName_congr hnd (π.isPerm site vts)

/-! ### The order-parameterised functions equal the plain ones -/

theorem checkTransitiveW_eq (π : HashOrder) {vts : List TypeDef} (hnd : (vts.map (·.name)).Nodup) :
    checkTransitiveW π vts = checkTransitive vts := by
  simp [checkTransitiveW, checkTransitive, sortedTypes_eq π _ hnd]

theorem checkNarrowingW_eq (π : HashOrder) {vts : List TypeDef} (hnd : (vts.map (·.name)).Nodup) :
    checkNarrowingW π vts = checkNarrowing vts := by
  simp [checkNarrowingW, checkNarrowing, sortedTypes_eq π _ hnd]

theorem checkRequiredFieldsW_eq (π : HashOrder) {vts : List TypeDef} (hnd : (vts.map (·.name)).Nodup) :
    checkRequiredFieldsW π vts = checkRequiredFields vts := by
  simp [checkRequiredFieldsW, checkRequiredFields, sortedTypes_eq π _ hnd]

theorem checkInvariantsW_eq (π : HashOrder) {vts : List TypeDef} (hnd : (vts.map (·.name)).Nodup)
    (root : Name) : checkInvariantsW π vts root = checkInvariants vts root := by
  simp [checkInvariantsW, checkInvariants, sortedTypes_eq π _ hnd]

theorem implementersOfW_eq (π : HashOrder) {vts : List TypeDef} (hnd : (vts.map (·.name)).Nodup)
    (n : Name) : implementersOfW π vts n = implementersOf vts n := by
  simp [implementersOfW, implementersOf, sortedTypes_eq π _ hnd]

theorem kInitW_eq (π : HashOrder) {vts : List TypeDef} (hnd : (vts.map (·.name)).Nodup) :
    kInitW π vts = kInit vts := by
  simp [kInitW, kInit, sortedTypes_eq π _ hnd]

theorem kStepW_eq (π : HashOrder) {vts : List TypeDef} (hnd : (vts.map (·.name)).Nodup)
    (st : KState) (t : Name) (rest : List Name) : kStepW π vts st t rest = kStep vts st t rest := by
  simp [kStepW, kStep, implementersOfW_eq π hnd]

theorem kLoopW_eq (π : HashOrder) {vts : List TypeDef} (hnd : (vts.map (·.name)).Nodup) :
    ∀ (fuel : Nat) (st : KState), kLoopW π vts fuel st = kLoop vts fuel st := by
  intro fuel
  induction fuel with
  | zero => intro st; unfold kLoopW kLoop; rfl
  | succ n ih =>
    intro st
    unfold kLoopW kLoop
    cases st.queue with
    | nil => rfl
    | cons t rest =>
      simp only [kStepW_eq π hnd]
      cases kStep vts st t rest with
      | panic s => rfl
      | ok st' => exact ih st'

theorem getFieldOriginsW_eq (π : HashOrder) {vts : List TypeDef} (hnd : (vts.map (·.name)).Nodup) :
    getFieldOriginsW π vts = getFieldOrigins vts := by
  simp [getFieldOriginsW, getFieldOrigins, kLoopW_eq π hnd, kInitW_eq π hnd]

theorem runChecksW_eq (π : HashOrder) {vts : List TypeDef} (hnd : (vts.map (·.name)).Nodup)
    (q : TypeDef) : runChecksW π vts q = runChecks vts q := by
  simp [runChecksW, runChecks, checkTransitiveW_eq π hnd, checkNarrowingW_eq π hnd,
    checkRequiredFieldsW_eq π hnd, checkInvariantsW_eq π hnd, getFieldOriginsW_eq π hnd]

/-! ### The first loop leaves distinct type names (no guard needed) -/

theorem loopStep_nodup {st st' : LoopState} {d : Def} (h : loopStep st d = .ok (.ok st'))
    (hnd : (st.vertexTypes.map (·.name)).Nodup) : (st'.vertexTypes.map (·.name)).Nodup := by
  cases d with
  | schema q => simp only [loopStep] at h; split at h <;> cases h; exact hnd
  | directive n => simp only [loopStep] at h; split at h <;> cases h; exact hnd
  | scalar n =>
    simp only [loopStep] at h
    split at h
    · cases h
    · split at h <;> cases h; exact hnd
  | unsupported n => simp only [loopStep] at h; split at h <;> cases h
  | type t =>
    simp only [loopStep] at h
    split at h
    · cases h
    · split at h
      · cases h
      · rename_i hdup
        split at h
        · cases h
        · cases h
          simp only [List.map_append, List.map_cons, List.map_nil]
          rw [List.nodup_append]
          refine ⟨hnd, by simp, ?_⟩
          intro a ha b hb hab
          simp at hb; subst hb
          obtain ⟨x, hx, hxn⟩ := List.mem_map.mp ha
          apply hdup
          exact (findType_isSome_iff _ _).mpr ⟨x, hx, by rw [hxn, hab]⟩

theorem runLoop_nodup : ∀ (doc : Doc) (st st' : LoopState), runLoop st doc = .ok (.ok st') →
    (st.vertexTypes.map (·.name)).Nodup → (st'.vertexTypes.map (·.name)).Nodup := by
  intro doc
  induction doc with
  | nil => intro st st' h hnd; simp [runLoop] at h; subst h; exact hnd
  | cons d ds ih =>
    intro st st' h hnd
    unfold runLoop at h
    split at h
    · cases h
    · cases h
    · rename_i st1 hstep
      exact ih st1 st' h (loopStep_nodup hstep hnd)

/-- `Schema::new` does not depend on the iteration order of `vertex_types`. -/
theorem newW_eq (π : HashOrder) (doc : Doc) : Schema.newW π doc = Schema.new doc := by
  unfold Schema.newW Schema.new
  cases hl : runLoop {} doc with
  | panic s => rfl
  | ok r =>
    cases r with
    | error e => rfl
    | ok st =>
      have hnd := runLoop_nodup doc {} st hl (by simp)
      simp only [runChecksW_eq π hnd]

theorem subtypesW_eq (π : HashOrder) (s : Schema) (hnd : (s.vertexTypes.map (·.name)).Nodup) (n : Name) :
    Schema.subtypesW π s n = Schema.subtypes s n := by
  simp [Schema.subtypesW, Schema.subtypes, sortedTypes_eq π _ hnd]


end TF.SchemaDoc
