/-
Helper lemmas for C19, part 2: `get_field_origins` (Kahn's algorithm over the `implements` graph)
and `check_ambiguous_field_origins`: loop invariant, termination within the fuel, no internal
panic, "error iff an implementation cycle exists", and the computed origins against `OriginOf`.
-/
import TrustfallModel.Proofs.SchemaDoc
namespace TF.SchemaDoc

/-! ### `Map.modify` -/

theorem Map.keys_modify {κ ν : Type} [DecidableEq κ] (k : κ) (f : ν → ν) (m : Map κ ν) :
    Map.keys (Map.modify k f m) = Map.keys m := by
  induction m with
  | nil => rfl
  | cons e m ih =>
    obtain ⟨k', v'⟩ := e
    unfold Map.modify
    split
    · simp [Map.keys]
    · simp only [Map.keys, List.map_cons] at ih ⊢; rw [ih]

theorem Map.get?_modify {κ ν : Type} [DecidableEq κ] (k p : κ) (f : ν → ν) (m : Map κ ν) :
    Map.get? p (Map.modify k f m) = if p = k then (Map.get? k m).map f else Map.get? p m := by
  induction m with
  | nil => simp [Map.modify, Map.get?]
  | cons e m ih =>
    obtain ⟨k', v'⟩ := e
    unfold Map.modify
    by_cases hk : k = k'
    · subst hk
      by_cases hp : p = k
      · subst hp; simp [Map.get?]
      · simp [Map.get?, hp]
    · simp only [hk, if_false, Map.get?, ih]
      by_cases hp : p = k
      · subst hp; simp [hk]
      · simp [hp]

/-! ### `FieldOrigin` -/

def Origin.toList : Origin → List Name
  | .single n => [n]
  | .multiple s => s

/-- A `MultipleAncestors` set really has two different members. -/
def Origin.WF : Origin → Prop
  | .single _ => True
  | .multiple s => ∃ a ∈ s, ∃ b ∈ s, a ≠ b

theorem Origin.mem_add (o1 o2 : Origin) (a : Name) :
    a ∈ (o1.add o2).toList ↔ a ∈ o1.toList ∨ a ∈ o2.toList := by
  cases o1 with
  | single l =>
    cases o2 with
    | single r =>
      simp only [Origin.add, Origin.toList]
      by_cases h : l = r
      · simp [h, Origin.toList]
      · simp only [h, if_false, Origin.toList, mem_nameSet]; simp
    | multiple m => simp [Origin.add, Origin.toList, Set.mem_insert]
  | multiple m =>
    cases o2 with
    | single r => simp only [Origin.add, Origin.toList, Set.mem_insert]; simp; grind
    | multiple m2 => simp only [Origin.add, Origin.toList, Set.mem_foldl_insert]; grind

theorem Origin.wf_add (o1 o2 : Origin) (h1 : o1.WF) (h2 : o2.WF) : (o1.add o2).WF := by
  cases o1 with
  | single l =>
    cases o2 with
    | single r =>
      simp only [Origin.add]
      by_cases h : l = r
      · simp [h, Origin.WF]
      · simp only [h, if_false, Origin.WF]
        exact ⟨l, by simp [mem_nameSet], r, by simp [mem_nameSet], h⟩
    | multiple m =>
      obtain ⟨a, ha, b, hb, hab⟩ := h2
      exact ⟨a, by simp [Set.mem_insert, ha], b, by simp [Set.mem_insert, hb], hab⟩
  | multiple m =>
    obtain ⟨a, ha, b, hb, hab⟩ := h1
    cases o2 with
    | single r => exact ⟨a, by simp [Set.mem_insert, ha], b, by simp [Set.mem_insert, hb], hab⟩
    | multiple m2 =>
      exact ⟨a, by simp [Set.mem_foldl_insert, ha], b, by simp [Set.mem_foldl_insert, hb], hab⟩

/-- The origin is a `MultipleAncestors` exactly when two different origins exist. -/
theorem Origin.multiple_iff (o : Origin) (h : o.WF) :
    (∃ s, o = .multiple s) ↔ ∃ a ∈ o.toList, ∃ b ∈ o.toList, a ≠ b := by
  cases o with
  | single n => simp [Origin.toList]
  | multiple s => simpa [Origin.toList, Origin.WF] using h


/-! ### `resolveAll`: updating `required_resolutions` and the queue -/

/-- Type `n` becomes ready when `tname` is resolved. -/
def becomesReady (tname : Name) (R : Map Name (List Name)) (n : Name) : Bool :=
  match Map.get? n R with
  | some rem => rem.contains tname && (rem.filter (fun x => x != tname)).isEmpty
  | none => false

theorem resolveAll_spec (tname : Name) (L : List Name) : ∀ (R : Map Name (List Name)) (Q : List Name),
    L.Nodup → (∀ n ∈ L, n ∈ Map.keys R) →
    ∃ R', resolveAll tname (R, Q) L = .ok (R', Q ++ L.filter (becomesReady tname R)) ∧
      Map.keys R' = Map.keys R ∧
      ∀ n, Map.get? n R' =
        if n ∈ L then (Map.get? n R).map (fun rem => rem.filter (fun x => x != tname)) else Map.get? n R := by
  induction L with
  | nil => intro R Q _ _; exact ⟨R, by simp [resolveAll], rfl, by simp⟩
  | cons n ns ih =>
    intro R Q hnd hk
    rw [List.nodup_cons] at hnd
    have hn : n ∈ Map.keys R := hk n (by simp)
    obtain ⟨rem, hrem⟩ : ∃ rem, Map.get? n R = some rem := by
      have := (Map.get?_isSome_iff_mem_keys n R).mpr hn
      exact Option.isSome_iff_exists.mp this
    let R1 := Map.modify n (fun _ => rem.filter (fun x => x != tname)) R
    have hk1 : Map.keys R1 = Map.keys R := Map.keys_modify _ _ _
    have hget1 : ∀ p, p ≠ n → Map.get? p R1 = Map.get? p R := by
      intro p hp; simp [R1, Map.get?_modify, hp]
    have hfilt : ns.filter (becomesReady tname R1) = ns.filter (becomesReady tname R) := by
      apply List.filter_congr
      intro x hx
      have : x ≠ n := fun h => hnd.1 (h ▸ hx)
      simp [becomesReady, hget1 x this]
    by_cases hr : becomesReady tname R n = true
    · obtain ⟨R', h1, h2, h3⟩ := ih R1 (Q ++ [n]) hnd.2 (fun x hx => hk1 ▸ hk x (by simp [hx]))
      refine ⟨R', ?_, h2.trans hk1, ?_⟩
      · have hr' := hr
        simp only [becomesReady, hrem] at hr'
        simp only [resolveAll, resolveOne, hrem, hr', if_true]
        rw [show Map.modify n (fun _ => rem.filter (fun x => x != tname)) R = R1 from rfl, h1, hfilt]
        simp [hr]
      · intro p
        rw [h3]
        by_cases hp : p = n
        · subst hp; simp [hnd.1, R1, Map.get?_modify, hrem]
        · simp [hp, hget1 p hp]
    · obtain ⟨R', h1, h2, h3⟩ := ih R1 Q hnd.2 (fun x hx => hk1 ▸ hk x (by simp [hx]))
      refine ⟨R', ?_, h2.trans hk1, ?_⟩
      · have hr' := hr
        simp only [becomesReady, hrem] at hr'
        have hr'' : (rem.contains tname && (rem.filter (fun x => x != tname)).isEmpty) = false := by
          simpa using hr'
        simp only [resolveAll, resolveOne, hrem, hr'']
        rw [show Map.modify n (fun _ => rem.filter (fun x => x != tname)) R = R1 from rfl]
        simp only [Bool.false_eq_true, if_false]
        rw [h1, hfilt]
        simp [List.filter_cons, hr]
      · intro p
        rw [h3]
        by_cases hp : p = n
        · subst hp; simp [hnd.1, R1, Map.get?_modify, hrem]
        · simp [hp, hget1 p hp]


/-! ### `implemented_fields`: merging the origins of inherited fields -/

/-- The stored origin `o` of field `f` of type `t` is right: its members are exactly the types in
which the field originates. -/
def OriginSpec (vts : List TypeDef) (o : Origin) (t f : Name) : Prop :=
  o.WF ∧ ∀ a, a ∈ o.toList ↔ OriginOf vts t f a

/-- `acc` is the merge of the origins of the (parent, field) pairs `C` seen so far. -/
def AccSpec (vts : List TypeDef) (C : List (Name × Name)) (acc : Map Name Origin) : Prop :=
  ∀ f, (Map.get? f acc = none ∧ ∀ c ∈ C, c.2 ≠ f) ∨
    (∃ o, Map.get? f acc = some o ∧ o.WF ∧ (∃ c ∈ C, c.2 = f) ∧
      ∀ a, a ∈ o.toList ↔ ∃ c ∈ C, c.2 = f ∧ OriginOf vts c.1 f a)

theorem addParentField_spec {vts : List TypeDef} {origins : Origins} {i : Name} {pf : Field}
    {C : List (Name × Name)} {acc : Map Name Origin} {o : Origin}
    (ho : Map.get? (i, pf.name) origins = some o) (hspec : OriginSpec vts o i pf.name)
    (hacc : AccSpec vts C acc) :
    ∃ acc', addParentField origins i acc pf = .ok acc' ∧ AccSpec vts (C ++ [(i, pf.name)]) acc' := by
  unfold addParentField
  simp only [ho]
  rcases hacc pf.name with ⟨hnone, hC⟩ | ⟨prev, hsome, hwf, hex, hmem⟩
  · simp only [hnone]
    refine ⟨_, rfl, ?_⟩
    intro f
    by_cases hf : f = pf.name
    · subst hf
      refine .inr ⟨o, by simp [Map.get?_insert], hspec.1, ⟨(i, pf.name), by simp, rfl⟩, ?_⟩
      intro a
      rw [hspec.2]
      constructor
      · intro h; exact ⟨(i, pf.name), by simp, rfl, h⟩
      · rintro ⟨c, hc, hc2, hco⟩
        rcases List.mem_append.mp hc with hc | hc
        · exact absurd hc2 (hC c hc)
        · simp at hc; subst hc; exact hco
    · rcases hacc f with ⟨h1, h2⟩ | ⟨o', h1, h2, h3, h4⟩
      · refine .inl ⟨by simp [Map.get?_insert, hf, h1], ?_⟩
        intro c hc
        rcases List.mem_append.mp hc with hc | hc
        · exact h2 c hc
        · simp at hc; subst hc; exact fun h => hf h.symm
      · refine .inr ⟨o', by simp [Map.get?_insert, hf, h1], h2, ?_, ?_⟩
        · obtain ⟨c, hc, hcf⟩ := h3; exact ⟨c, by simp [hc], hcf⟩
        · intro a; rw [h4]
          constructor
          · rintro ⟨c, hc, h⟩; exact ⟨c, by simp [hc], h⟩
          · rintro ⟨c, hc, hc2, hco⟩
            rcases List.mem_append.mp hc with hc | hc
            · exact ⟨c, hc, hc2, hco⟩
            · simp at hc; subst hc; exact absurd hc2.symm hf
  · simp only [hsome]
    refine ⟨_, rfl, ?_⟩
    intro f
    by_cases hf : f = pf.name
    · subst hf
      refine .inr ⟨prev.add o, by simp [Map.get?_insert], Origin.wf_add _ _ hwf hspec.1,
        ⟨(i, pf.name), by simp, rfl⟩, ?_⟩
      intro a
      rw [Origin.mem_add, hmem, hspec.2]
      constructor
      · rintro (⟨c, hc, h⟩ | h)
        · exact ⟨c, by simp [hc], h⟩
        · exact ⟨(i, pf.name), by simp, rfl, h⟩
      · rintro ⟨c, hc, hc2, hco⟩
        rcases List.mem_append.mp hc with hc | hc
        · exact .inl ⟨c, hc, hc2, hco⟩
        · simp at hc; subst hc; exact .inr hco
    · rcases hacc f with ⟨h1, h2⟩ | ⟨o', h1, h2, h3, h4⟩
      · refine .inl ⟨by simp [Map.get?_insert, hf, h1], ?_⟩
        intro c hc
        rcases List.mem_append.mp hc with hc | hc
        · exact h2 c hc
        · simp at hc; subst hc; exact fun h => hf h.symm
      · refine .inr ⟨o', by simp [Map.get?_insert, hf, h1], h2, ?_, ?_⟩
        · obtain ⟨c, hc, hcf⟩ := h3; exact ⟨c, by simp [hc], hcf⟩
        · intro a; rw [h4]
          constructor
          · rintro ⟨c, hc, h⟩; exact ⟨c, by simp [hc], h⟩
          · rintro ⟨c, hc, hc2, hco⟩
            rcases List.mem_append.mp hc with hc | hc
            · exact ⟨c, hc, hc2, hco⟩
            · simp at hc; subst hc; exact absurd hc2.symm hf

theorem addParentFields_spec {vts : List TypeDef} {origins : Origins} {i : Name} (fs : List Field) :
    ∀ (C : List (Name × Name)) (acc : Map Name Origin),
    (∀ pf ∈ fs, ∃ o, Map.get? (i, pf.name) origins = some o ∧ OriginSpec vts o i pf.name) →
    AccSpec vts C acc →
    ∃ acc', addParentFields origins i acc fs = .ok acc' ∧
      AccSpec vts (C ++ fs.map (fun pf => (i, pf.name))) acc' := by
  induction fs with
  | nil => intro C acc _ h; exact ⟨acc, rfl, by simpa using h⟩
  | cons pf fs ih =>
    intro C acc ho hacc
    obtain ⟨o, h1, h2⟩ := ho pf (by simp)
    obtain ⟨acc1, h3, h4⟩ := addParentField_spec h1 h2 hacc
    obtain ⟨acc2, h5, h6⟩ := ih _ acc1 (fun x hx => ho x (by simp [hx])) h4
    exact ⟨acc2, by simp [addParentFields, h3, h5], by simpa using h6⟩

/-- The (parent, field) pairs contributed by the implemented types `is`. -/
def contribs (vts : List TypeDef) (is : List Name) : List (Name × Name) :=
  is.flatMap fun i =>
    match findType vts i with
    | some d => d.fields.map (fun pf => (i, pf.name))
    | none => []

theorem implementedFields_spec {vts : List TypeDef} {origins : Origins} (is : List Name) :
    ∀ (C : List (Name × Name)) (acc : Map Name Origin),
    (∀ i ∈ is, ∀ d, findType vts i = some d → ∀ pf ∈ d.fields,
      ∃ o, Map.get? (i, pf.name) origins = some o ∧ OriginSpec vts o i pf.name) →
    AccSpec vts C acc →
    ∃ acc', implementedFields vts origins acc is = .ok acc' ∧ AccSpec vts (C ++ contribs vts is) acc' := by
  induction is with
  | nil => intro C acc _ h; exact ⟨acc, rfl, by simpa [contribs] using h⟩
  | cons i is ih =>
    intro C acc ho hacc
    cases hft : findType vts i with
    | none =>
      obtain ⟨acc2, h5, h6⟩ := ih C acc (fun x hx => ho x (by simp [hx])) hacc
      exact ⟨acc2, by simp [implementedFields, hft, h5], by simpa [contribs, hft] using h6⟩
    | some d =>
      obtain ⟨acc1, h3, h4⟩ := addParentFields_spec d.fields C acc (ho i (by simp) d hft) hacc
      obtain ⟨acc2, h5, h6⟩ := ih _ acc1 (fun x hx => ho x (by simp [hx])) h4
      exact ⟨acc2, by simp [implementedFields, hft, h3, h5], by simpa [contribs, hft] using h6⟩

theorem mem_contribs (vts : List TypeDef) (is : List Name) (c : Name × Name) :
    c ∈ contribs vts is ↔ c.1 ∈ is ∧ ∃ d, findType vts c.1 = some d ∧ ∃ pf ∈ d.fields, pf.name = c.2 := by
  unfold contribs
  simp only [List.mem_flatMap]
  constructor
  · rintro ⟨i, hi, hc⟩
    cases hft : findType vts i with
    | none => simp [hft] at hc
    | some d =>
      simp only [hft, List.mem_map] at hc
      obtain ⟨pf, hpf, rfl⟩ := hc
      exact ⟨hi, d, hft, pf, hpf, rfl⟩
  · rintro ⟨hi, d, hft, pf, hpf, hn⟩
    refine ⟨c.1, hi, ?_⟩
    simp only [hft, List.mem_map]
    exact ⟨pf, hpf, by rw [hn]⟩


end TF.SchemaDoc
