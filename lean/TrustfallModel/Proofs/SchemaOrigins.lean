/-
Helper lemmas for C19, part 2: `get_field_origins` (Kahn's algorithm over the `implements` graph)
and `check_ambiguous_field_origins`: loop invariant, termination within the fuel, no internal
panic, "error iff an implementation cycle exists", and the computed origins against `OriginOf`.
-/
import TrustfallModel.Proofs.SchemaDoc
namespace TF.SchemaDoc

/-! ### `Map.modify` -/

theorem Map.keys_modify {κ ν : Type} [DecidableEq κ] (k : κ) (f : ν → ν) (m : Map κ ν) :
    Map.keys (Map.modify k f m) = Map.keys m := by
  induction m with
  | nil => rfl
  | cons e m ih =>
    obtain ⟨k', v'⟩ := e
    unfold Map.modify
    split
    · simp [Map.keys]
    · simp only [Map.keys, List.map_cons] at ih ⊢; rw [ih]

theorem Map.get?_modify {κ ν : Type} [DecidableEq κ] (k p : κ) (f : ν → ν) (m : Map κ ν) :
    Map.get? p (Map.modify k f m) = if p = k then (Map.get? k m).map f else Map.get? p m := by
  induction m with
  | nil => simp [Map.modify, Map.get?]
  | cons e m ih =>
    obtain ⟨k', v'⟩ := e
    unfold Map.modify
    by_cases hk : k = k'
    · subst hk
      by_cases hp : p = k
      · subst hp; simp [Map.get?]
      · simp [Map.get?, hp]
    · simp only [hk, if_false, Map.get?, ih]
      by_cases hp : p = k
      · subst hp; simp [hk]
      · simp [hp]

/-! ### `FieldOrigin` -/

def Origin.toList : Origin → List Name
  | .single n => [n]
  | .multiple s => s

/-- A `MultipleAncestors` set really has two different members. -/
def Origin.WF : Origin → Prop
  | .single _ => True
  | .multiple s => ∃ a ∈ s, ∃ b ∈ s, a ≠ b

theorem Origin.mem_add (o1 o2 : Origin) (a : Name) :
    a ∈ (o1.add o2).toList ↔ a ∈ o1.toList ∨ a ∈ o2.toList := by
  cases o1 with
  | single l =>
    cases o2 with
    | single r =>
      simp only [Origin.add, Origin.toList]
      by_cases h : l = r
      · simp [h, Origin.toList]
      · simp only [h, if_false, Origin.toList, mem_nameSet]; simp
    | multiple m => simp [Origin.add, Origin.toList, Set.mem_insert]
  | multiple m =>
    cases o2 with
    | single r => simp only [Origin.add, Origin.toList, Set.mem_insert]; simp; grind
    | multiple m2 => simp only [Origin.add, Origin.toList, Set.mem_foldl_insert]; grind

theorem Origin.wf_add (o1 o2 : Origin) (h1 : o1.WF) (h2 : o2.WF) : (o1.add o2).WF := by
  cases o1 with
  | single l =>
    cases o2 with
    | single r =>
      simp only [Origin.add]
      by_cases h : l = r
      · simp [h, Origin.WF]
      · simp only [h, if_false, Origin.WF]
        exact ⟨l, by simp [mem_nameSet], r, by simp [mem_nameSet], h⟩
    | multiple m =>
      obtain ⟨a, ha, b, hb, hab⟩ := h2
      exact ⟨a, by simp [Set.mem_insert, ha], b, by simp [Set.mem_insert, hb], hab⟩
  | multiple m =>
    obtain ⟨a, ha, b, hb, hab⟩ := h1
    cases o2 with
    | single r => exact ⟨a, by simp [Set.mem_insert, ha], b, by simp [Set.mem_insert, hb], hab⟩
    | multiple m2 =>
      exact ⟨a, by simp [Set.mem_foldl_insert, ha], b, by simp [Set.mem_foldl_insert, hb], hab⟩

/-- The origin is a `MultipleAncestors` exactly when two different origins exist. -/
theorem Origin.multiple_iff (o : Origin) (h : o.WF) :
    (∃ s, o = .multiple s) ↔ ∃ a ∈ o.toList, ∃ b ∈ o.toList, a ≠ b := by
  cases o with
  | single n => simp [Origin.toList]
  | multiple s => simpa [Origin.toList, Origin.WF] using h


/-! ### `resolveAll`: updating `required_resolutions` and the queue -/

/-- Type `n` becomes ready when `tname` is resolved. -/
def becomesReady (tname : Name) (R : Map Name (List Name)) (n : Name) : Bool :=
  match Map.get? n R with
  | some rem => rem.contains tname && (rem.filter (fun x => x != tname)).isEmpty
  | none => false

theorem resolveAll_spec (tname : Name) (L : List Name) : ∀ (R : Map Name (List Name)) (Q : List Name),
    L.Nodup → (∀ n ∈ L, n ∈ Map.keys R) →
    ∃ R', resolveAll tname (R, Q) L = .ok (R', Q ++ L.filter (becomesReady tname R)) ∧
      Map.keys R' = Map.keys R ∧
      ∀ n, Map.get? n R' =
        if n ∈ L then (Map.get? n R).map (fun rem => rem.filter (fun x => x != tname)) else Map.get? n R := by
  induction L with
  | nil => intro R Q _ _; exact ⟨R, by simp [resolveAll], rfl, by simp⟩
  | cons n ns ih =>
    intro R Q hnd hk
    rw [List.nodup_cons] at hnd
    have hn : n ∈ Map.keys R := hk n (by simp)
    obtain ⟨rem, hrem⟩ : ∃ rem, Map.get? n R = some rem := by
      have := (Map.get?_isSome_iff_mem_keys n R).mpr hn
      exact Option.isSome_iff_exists.mp this
    let R1 := Map.modify n (fun _ => rem.filter (fun x => x != tname)) R
    have hk1 : Map.keys R1 = Map.keys R := Map.keys_modify _ _ _
    have hget1 : ∀ p, p ≠ n → Map.get? p R1 = Map.get? p R := by
      intro p hp; simp [R1, Map.get?_modify, hp]
    have hfilt : ns.filter (becomesReady tname R1) = ns.filter (becomesReady tname R) := by
      apply List.filter_congr
      intro x hx
      have : x ≠ n := fun h => hnd.1 (h ▸ hx)
      simp [becomesReady, hget1 x this]
    by_cases hr : becomesReady tname R n = true
    · obtain ⟨R', h1, h2, h3⟩ := ih R1 (Q ++ [n]) hnd.2 (fun x hx => hk1 ▸ hk x (by simp [hx]))
      refine ⟨R', ?_, h2.trans hk1, ?_⟩
      · have hr' := hr
        simp only [becomesReady, hrem] at hr'
        simp only [resolveAll, resolveOne, hrem, hr', if_true]
        rw [show Map.modify n (fun _ => rem.filter (fun x => x != tname)) R = R1 from rfl, h1, hfilt]
        simp [hr]
      · intro p
        rw [h3]
        by_cases hp : p = n
        · subst hp; simp [hnd.1, R1, Map.get?_modify, hrem]
        · simp [hp, hget1 p hp]
    · obtain ⟨R', h1, h2, h3⟩ := ih R1 Q hnd.2 (fun x hx => hk1 ▸ hk x (by simp [hx]))
      refine ⟨R', ?_, h2.trans hk1, ?_⟩
      · have hr' := hr
        simp only [becomesReady, hrem] at hr'
        have hr'' : (rem.contains tname && (rem.filter (fun x => x != tname)).isEmpty) = false := by
          simpa using hr'
        simp only [resolveAll, resolveOne, hrem, hr'']
        rw [show Map.modify n (fun _ => rem.filter (fun x => x != tname)) R = R1 from rfl]
        simp only [Bool.false_eq_true, if_false]
        rw [h1, hfilt]
        simp [List.filter_cons, hr]
      · intro p
        rw [h3]
        by_cases hp : p = n
        · subst hp; simp [hnd.1, R1, Map.get?_modify, hrem]
        · simp [hp, hget1 p hp]


/-! ### `implemented_fields`: merging the origins of inherited fields -/

/-- The stored origin `o` of field `f` of type `t` is right: its members are exactly the types in
which the field originates. -/
def OriginSpec (vts : List TypeDef) (o : Origin) (t f : Name) : Prop :=
  o.WF ∧ ∀ a, a ∈ o.toList ↔ OriginOf vts t f a

/-- `acc` is the merge of the origins of the (parent, field) pairs `C` seen so far. -/
def AccSpec (vts : List TypeDef) (C : List (Name × Name)) (acc : Map Name Origin) : Prop :=
  ∀ f, (Map.get? f acc = none ∧ ∀ c ∈ C, c.2 ≠ f) ∨
    (∃ o, Map.get? f acc = some o ∧ o.WF ∧ (∃ c ∈ C, c.2 = f) ∧
      ∀ a, a ∈ o.toList ↔ ∃ c ∈ C, c.2 = f ∧ OriginOf vts c.1 f a)

theorem addParentField_spec {vts : List TypeDef} {origins : Origins} {i : Name} {pf : Field}
    {C : List (Name × Name)} {acc : Map Name Origin} {o : Origin}
    (ho : Map.get? (i, pf.name) origins = some o) (hspec : OriginSpec vts o i pf.name)
    (hacc : AccSpec vts C acc) :
    ∃ acc', addParentField origins i acc pf = .ok acc' ∧ AccSpec vts (C ++ [(i, pf.name)]) acc' := by
  unfold addParentField
  simp only [ho]
  rcases hacc pf.name with ⟨hnone, hC⟩ | ⟨prev, hsome, hwf, hex, hmem⟩
  · simp only [hnone]
    refine ⟨_, rfl, ?_⟩
    intro f
    by_cases hf : f = pf.name
    · subst hf
      refine .inr ⟨o, by simp [Map.get?_insert], hspec.1, ⟨(i, pf.name), by simp, rfl⟩, ?_⟩
      intro a
      rw [hspec.2]
      constructor
      · intro h; exact ⟨(i, pf.name), by simp, rfl, h⟩
      · rintro ⟨c, hc, hc2, hco⟩
        rcases List.mem_append.mp hc with hc | hc
        · exact absurd hc2 (hC c hc)
        · simp at hc; subst hc; exact hco
    · rcases hacc f with ⟨h1, h2⟩ | ⟨o', h1, h2, h3, h4⟩
      · refine .inl ⟨by simp [Map.get?_insert, hf, h1], ?_⟩
        intro c hc
        rcases List.mem_append.mp hc with hc | hc
        · exact h2 c hc
        · simp at hc; subst hc; exact fun h => hf h.symm
      · refine .inr ⟨o', by simp [Map.get?_insert, hf, h1], h2, ?_, ?_⟩
        · obtain ⟨c, hc, hcf⟩ := h3; exact ⟨c, by simp [hc], hcf⟩
        · intro a; rw [h4]
          constructor
          · rintro ⟨c, hc, h⟩; exact ⟨c, by simp [hc], h⟩
          · rintro ⟨c, hc, hc2, hco⟩
            rcases List.mem_append.mp hc with hc | hc
            · exact ⟨c, hc, hc2, hco⟩
            · simp at hc; subst hc; exact absurd hc2.symm hf
  · simp only [hsome]
    refine ⟨_, rfl, ?_⟩
    intro f
    by_cases hf : f = pf.name
    · subst hf
      refine .inr ⟨prev.add o, by simp [Map.get?_insert], Origin.wf_add _ _ hwf hspec.1,
        ⟨(i, pf.name), by simp, rfl⟩, ?_⟩
      intro a
      rw [Origin.mem_add, hmem, hspec.2]
      constructor
      · rintro (⟨c, hc, h⟩ | h)
        · exact ⟨c, by simp [hc], h⟩
        · exact ⟨(i, pf.name), by simp, rfl, h⟩
      · rintro ⟨c, hc, hc2, hco⟩
        rcases List.mem_append.mp hc with hc | hc
        · exact .inl ⟨c, hc, hc2, hco⟩
        · simp at hc; subst hc; exact .inr hco
    · rcases hacc f with ⟨h1, h2⟩ | ⟨o', h1, h2, h3, h4⟩
      · refine .inl ⟨by simp [Map.get?_insert, hf, h1], ?_⟩
        intro c hc
        rcases List.mem_append.mp hc with hc | hc
        · exact h2 c hc
        · simp at hc; subst hc; exact fun h => hf h.symm
      · refine .inr ⟨o', by simp [Map.get?_insert, hf, h1], h2, ?_, ?_⟩
        · obtain ⟨c, hc, hcf⟩ := h3; exact ⟨c, by simp [hc], hcf⟩
        · intro a; rw [h4]
          constructor
          · rintro ⟨c, hc, h⟩; exact ⟨c, by simp [hc], h⟩
          · rintro ⟨c, hc, hc2, hco⟩
            rcases List.mem_append.mp hc with hc | hc
            · exact ⟨c, hc, hc2, hco⟩
            · simp at hc; subst hc; exact absurd hc2.symm hf

theorem addParentFields_spec {vts : List TypeDef} {origins : Origins} {i : Name} (fs : List Field) :
    ∀ (C : List (Name × Name)) (acc : Map Name Origin),
    (∀ pf ∈ fs, ∃ o, Map.get? (i, pf.name) origins = some o ∧ OriginSpec vts o i pf.name) →
    AccSpec vts C acc →
    ∃ acc', addParentFields origins i acc fs = .ok acc' ∧
      AccSpec vts (C ++ fs.map (fun pf => (i, pf.name))) acc' := by
  induction fs with
  | nil => intro C acc _ h; exact ⟨acc, rfl, by simpa using h⟩
  | cons pf fs ih =>
    intro C acc ho hacc
    obtain ⟨o, h1, h2⟩ := ho pf (by simp)
    obtain ⟨acc1, h3, h4⟩ := addParentField_spec h1 h2 hacc
    obtain ⟨acc2, h5, h6⟩ := ih _ acc1 (fun x hx => ho x (by simp [hx])) h4
    exact ⟨acc2, by simp [addParentFields, h3, h5], by simpa using h6⟩

/-- The (parent, field) pairs contributed by the implemented types `is`. -/
def contribs (vts : List TypeDef) (is : List Name) : List (Name × Name) :=
  is.flatMap fun i =>
    match findType vts i with
    | some d => d.fields.map (fun pf => (i, pf.name))
    | none => []

theorem implementedFields_spec {vts : List TypeDef} {origins : Origins} (is : List Name) :
    ∀ (C : List (Name × Name)) (acc : Map Name Origin),
    (∀ i ∈ is, ∀ d, findType vts i = some d → ∀ pf ∈ d.fields,
      ∃ o, Map.get? (i, pf.name) origins = some o ∧ OriginSpec vts o i pf.name) →
    AccSpec vts C acc →
    ∃ acc', implementedFields vts origins acc is = .ok acc' ∧ AccSpec vts (C ++ contribs vts is) acc' := by
  induction is with
  | nil => intro C acc _ h; exact ⟨acc, rfl, by simpa [contribs] using h⟩
  | cons i is ih =>
    intro C acc ho hacc
    cases hft : findType vts i with
    | none =>
      obtain ⟨acc2, h5, h6⟩ := ih C acc (fun x hx => ho x (by simp [hx])) hacc
      exact ⟨acc2, by simp [implementedFields, hft, h5], by simpa [contribs, hft] using h6⟩
    | some d =>
      obtain ⟨acc1, h3, h4⟩ := addParentFields_spec d.fields C acc (ho i (by simp) d hft) hacc
      obtain ⟨acc2, h5, h6⟩ := ih _ acc1 (fun x hx => ho x (by simp [hx])) h4
      exact ⟨acc2, by simp [implementedFields, hft, h3, h5], by simpa [contribs, hft] using h6⟩

theorem mem_contribs (vts : List TypeDef) (is : List Name) (c : Name × Name) :
    c ∈ contribs vts is ↔ c.1 ∈ is ∧ ∃ d, findType vts c.1 = some d ∧ ∃ pf ∈ d.fields, pf.name = c.2 := by
  unfold contribs
  simp only [List.mem_flatMap]
  constructor
  · rintro ⟨i, hi, hc⟩
    cases hft : findType vts i with
    | none => simp [hft] at hc
    | some d =>
      simp only [hft, List.mem_map] at hc
      obtain ⟨pf, hpf, rfl⟩ := hc
      exact ⟨hi, d, hft, pf, hpf, rfl⟩
  · rintro ⟨hi, d, hft, pf, hpf, hn⟩
    refine ⟨c.1, hi, ?_⟩
    simp only [hft, List.mem_map]
    exact ⟨pf, hpf, by rw [hn]⟩


/-! ### Inserting the origins of a type's own fields -/

/-- The origin stored for field `f` of `tname`. -/
def originFor (tname : Name) (inherited : Map Name Origin) (f : Field) : Origin :=
  (Map.get? f.name inherited).getD (.single tname)

theorem insertOrigins_spec (tname : Name) (inherited : Map Name Origin) (fs : List Field) :
    ∀ (origins : Origins), (fs.map (·.name)).Nodup →
    (∀ f ∈ fs, Map.get? (tname, f.name) origins = none) →
    ∃ origins', insertOrigins tname inherited origins fs = .ok origins' ∧
      (∀ f ∈ fs, Map.get? (tname, f.name) origins' = some (originFor tname inherited f)) ∧
      (∀ k, (∀ f ∈ fs, k ≠ (tname, f.name)) → Map.get? k origins' = Map.get? k origins) ∧
      (∀ e ∈ origins', e ∈ origins ∨ ∃ f ∈ fs, e = ((tname, f.name), originFor tname inherited f)) := by
  induction fs with
  | nil => intro origins _ _; exact ⟨origins, rfl, by simp, by simp, by simp⟩
  | cons f fs ih =>
    intro origins hnd hnone
    simp only [List.map_cons, List.nodup_cons, List.mem_map, not_exists, not_and] at hnd
    have hf := hnone f (by simp)
    let o1 := Map.insert pairLt (tname, f.name) (originFor tname inherited f) origins
    have hnone1 : ∀ g ∈ fs, Map.get? (tname, g.name) o1 = none := by
      intro g hg
      have hne : g.name ≠ f.name := fun h => hnd.1 g hg h
      have : (tname, g.name) ≠ (tname, f.name) := fun h => hne (by simpa using h)
      simp only [o1, Map.get?_insert, this, if_false]
      exact hnone g (by simp [hg])
    obtain ⟨o2, h1, h2, h3, h4⟩ := ih o1 hnd.2 hnone1
    refine ⟨o2, ?_, ?_, ?_, ?_⟩
    · simp only [insertOrigins, Map.contains, hf, Option.isSome_none, Bool.false_eq_true, if_false]
      exact h1
    · intro g hg
      rcases List.mem_cons.mp hg with rfl | hg
      · by_cases hin : ∃ x ∈ fs, (tname, g.name) = (tname, x.name)
        · obtain ⟨x, hx, hxe⟩ := hin
          exact absurd (by simpa using hxe : g.name = x.name).symm (hnd.1 x hx)
        · rw [h3 _ (fun x hx h => hin ⟨x, hx, h⟩)]
          simp [o1, Map.get?_insert]
      · exact h2 g hg
    · intro k hk
      rw [h3 k (fun x hx => hk x (by simp [hx]))]
      have := hk f (by simp)
      simp [o1, Map.get?_insert, this]
    · intro e he
      rcases h4 e he with he | ⟨x, hx, hxe⟩
      · rcases Map.mem_insert _ _ _ _ _ he with he | he
        · exact .inr ⟨f, by simp, he⟩
        · exact .inl he
      · exact .inr ⟨x, by simp [hx], hxe⟩


/-! ### Sorted sets have no duplicates -/

theorem Set.insert_sorted {κ : Type} [DecidableEq κ] {lt : κ → κ → Bool} (hlt : StrictTotal lt)
    (x : κ) (l : List κ) (hs : l.Pairwise (fun a b => lt a b = true)) :
    (Set.insert lt x l).Pairwise (fun a b => lt a b = true) := by
  induction l with
  | nil => simp [Set.insert]
  | cons y ys ih =>
    rw [List.pairwise_cons] at hs
    unfold Set.insert
    split
    · rename_i hxy
      rw [List.pairwise_cons]
      refine ⟨?_, List.pairwise_cons.mpr hs⟩
      intro z hz
      rcases List.mem_cons.mp hz with rfl | hz
      · exact hxy
      · exact hlt.trans _ _ _ hxy (hs.1 z hz)
    · split
      · exact List.pairwise_cons.mpr hs
      · rename_i hxy hne
        rw [List.pairwise_cons]
        refine ⟨?_, ih hs.2⟩
        intro z hz
        rcases (Set.mem_insert lt x z ys).mp hz with rfl | hz
        · exact hlt.tri _ _ (by simpa using hxy) hne
        · exact hs.1 z hz

theorem Set.ofList_sorted {κ : Type} [DecidableEq κ] {lt : κ → κ → Bool} (hlt : StrictTotal lt)
    (l : List κ) : (Set.ofList lt l).Pairwise (fun a b => lt a b = true) := by
  unfold Set.ofList
  suffices h : ∀ acc : List κ, acc.Pairwise (fun a b => lt a b = true) →
      (l.foldl (fun acc x => Set.insert lt x acc) acc).Pairwise (fun a b => lt a b = true) from
    h [] List.Pairwise.nil
  induction l with
  | nil => intro acc h; exact h
  | cons x xs ih => intro acc h; exact ih _ (Set.insert_sorted hlt x acc h)

theorem nodup_nameSet (l : List Name) : (nameSet l).Nodup := by
  have := Set.ofList_sorted nameLt_strictTotal l
  refine List.Pairwise.imp ?_ this
  intro a b hab heq
  subst heq
  simp [nameLt_strictTotal.irrefl] at hab

/-! ### The `implements` graph -/

theorem mem_resolutionsOf (vts : List TypeDef) (t : TypeDef) (x : Name) :
    x ∈ resolutionsOf vts t ↔ x ∈ t.implements ∧ IsVertex vts x := by
  simp [resolutionsOf, mem_nameSet, findType_isSome_iff]

theorem mem_implementersOf (vts : List TypeDef) (x n : Name) :
    n ∈ implementersOf vts x ↔ ∃ t ∈ vts, t.name = n ∧ x ∈ t.implements := by
  simp only [implementersOf, mem_nameSet, List.mem_map, List.mem_filter, mem_sortByName,
    List.contains_eq_mem, decide_eq_true_eq]
  constructor
  · rintro ⟨t, ⟨ht, hx⟩, hn⟩; exact ⟨t, ht, hn, hx⟩
  · rintro ⟨t, ht, hn, hx⟩; exact ⟨t, ⟨ht, hx⟩, hn⟩

theorem nodup_implementersOf (vts : List TypeDef) (x : Name) : (implementersOf vts x).Nodup :=
  nodup_nameSet _

/-- With distinct names, the definition named `t.name` is `t`. -/
theorem eq_of_name_eq {vts : List TypeDef} (hnd : (vts.map (·.name)).Nodup) {a b : TypeDef}
    (ha : a ∈ vts) (hb : b ∈ vts) (h : a.name = b.name) : a = b := by
  have h1 := findType_of_mem hnd ha
  have h2 := findType_of_mem hnd hb
  rw [h, h2] at h1
  exact (Option.some.inj h1).symm

theorem hasField_iff {vts : List TypeDef} (hnd : (vts.map (·.name)).Nodup) {t : TypeDef} (ht : t ∈ vts)
    (f : Name) : HasField vts t.name f ↔ ∃ x ∈ t.fields, x.name = f := by
  constructor
  · rintro ⟨d, hd, hdn, hx⟩
    rw [eq_of_name_eq hnd hd ht hdn] at hx; exact hx
  · intro h; exact ⟨t, ht, rfl, h⟩

theorem implStep_iff {vts : List TypeDef} (hnd : (vts.map (·.name)).Nodup) {t : TypeDef} (ht : t ∈ vts)
    (b : Name) : ImplStep vts t.name b ↔ b ∈ resolutionsOf vts t := by
  rw [mem_resolutionsOf]
  constructor
  · rintro ⟨d, hd, hdn, hb, hv⟩
    rw [eq_of_name_eq hnd hd ht hdn] at hb; exact ⟨hb, hv⟩
  · rintro ⟨hb, hv⟩; exact ⟨t, ht, rfl, hb, hv⟩

/-- The origin computed for an own field is right, given the merged origins of the parents. -/
theorem originFor_spec {vts : List TypeDef} (hnd : (vts.map (·.name)).Nodup) {t : TypeDef} (ht : t ∈ vts)
    {inherited : Map Name Origin} (hacc : AccSpec vts (contribs vts t.implements) inherited)
    {f : Field} (hf : f ∈ t.fields) :
    OriginSpec vts (originFor t.name inherited f) t.name f.name := by
  have hHas : HasField vts t.name f.name := ⟨t, ht, rfl, f, hf, rfl⟩
  have hcontrib : ∀ c : Name × Name, c ∈ contribs vts t.implements ↔
      c.1 ∈ t.implements ∧ HasField vts c.1 c.2 := by
    intro c
    rw [mem_contribs]
    constructor
    · rintro ⟨hi, d, hft, pf, hpf, hn⟩
      exact ⟨hi, d, (findType_some hft).1, (findType_some hft).2, pf, hpf, hn⟩
    · rintro ⟨hi, d, hd, hdn, pf, hpf, hn⟩
      exact ⟨hi, d, by rw [← hdn]; exact findType_of_mem hnd hd, pf, hpf, hn⟩
  unfold originFor
  rcases hacc f.name with ⟨hnone, hC⟩ | ⟨o, hsome, hwf, hex, hmem⟩
  · simp only [hnone, Option.getD_none]
    refine ⟨trivial, ?_⟩
    intro a
    simp only [Origin.toList, List.mem_singleton]
    have hno : ∀ i ∈ t.implements, ¬ HasField vts i f.name := by
      intro i hi hh
      exact hC (i, f.name) ((hcontrib _).mpr ⟨hi, hh⟩) rfl
    constructor
    · rintro rfl
      refine .self hHas ?_
      intro d hd hdn i hi
      rw [eq_of_name_eq hnd hd ht hdn] at hi
      exact hno i hi
    · intro h
      cases h with
      | self _ _ => rfl
      | inherited _ hex hhas _ =>
        obtain ⟨d, hd, hdn, hi⟩ := hex
        rw [eq_of_name_eq hnd hd ht hdn] at hi
        exact absurd hhas (hno _ hi)
  · simp only [hsome, Option.getD_some]
    refine ⟨hwf, ?_⟩
    intro a
    rw [hmem]
    constructor
    · rintro ⟨c, hc, hc2, hco⟩
      have := (hcontrib c).mp hc
      rw [hc2] at this
      exact .inherited hHas ⟨t, ht, rfl, this.1⟩ this.2 hco
    · intro h
      cases h with
      | self _ hno =>
        obtain ⟨c, hc, hc2⟩ := hex
        have := (hcontrib c).mp hc
        rw [hc2] at this
        exact absurd this.2 (hno t ht rfl c.1 this.1)
      | @inherited _ _ i _ _ hex' hhas ho =>
        obtain ⟨d, hd, hdn, hi⟩ := hex'
        rw [eq_of_name_eq hnd hd ht hdn] at hi
        exact ⟨(i, f.name), (hcontrib _).mpr ⟨hi, hhas⟩, rfl, ho⟩


/-! ### The loop invariant of `get_field_origins` -/

/-- `P` is the list of types dequeued so far. -/
structure KInv (vts : List TypeDef) (P : List Name) (st : KState) : Prop where
  nodupP : P.Nodup
  nodupQ : st.queue.Nodup
  disj : ∀ n ∈ P, n ∉ st.queue
  subP : ∀ n ∈ P, IsVertex vts n
  subQ : ∀ n ∈ st.queue, IsVertex vts n
  keys : Map.keys st.remaining = (sortByName vts).map (·.name)
  rem : ∀ t ∈ vts, ∀ r, Map.get? t.name st.remaining = some r →
    ∀ x, x ∈ r ↔ (x ∈ resolutionsOf vts t ∧ x ∉ P)
  ready : ∀ t ∈ vts, (t.name ∈ P ∨ t.name ∈ st.queue) ↔ ∀ x ∈ resolutionsOf vts t, x ∈ P
  acc : ∀ n ∈ P, Acc (fun b a => ImplStep vts a b) n
  entries : ∀ e ∈ st.origins, e.1.1 ∈ P ∧ OriginSpec vts e.2 e.1.1 e.1.2
  orig : ∀ t ∈ vts, t.name ∈ P → ∀ f ∈ t.fields,
    ∃ o, Map.get? (t.name, f.name) st.origins = some o ∧ OriginSpec vts o t.name f.name

theorem mem_keys_remaining {vts : List TypeDef} {P : List Name} {st : KState} (h : KInv vts P st)
    {t : TypeDef} (ht : t ∈ vts) : t.name ∈ Map.keys st.remaining := by
  rw [h.keys]; exact List.mem_map.mpr ⟨t, (mem_sortByName _ _).mpr ht, rfl⟩

theorem get?_remaining {vts : List TypeDef} {P : List Name} {st : KState} (h : KInv vts P st)
    {t : TypeDef} (ht : t ∈ vts) : ∃ r, Map.get? t.name st.remaining = some r :=
  Option.isSome_iff_exists.mp ((Map.get?_isSome_iff_mem_keys _ _).mpr (mem_keys_remaining h ht))

theorem kStep_spec {vts : List TypeDef} (hd : Distinct vts) {P : List Name} {st : KState}
    (h : KInv vts P st) {tname : Name} {rest : List Name} (hq : st.queue = tname :: rest) :
    ∃ st', kStep vts st tname rest = .ok st' ∧ KInv vts (P ++ [tname]) st' := by
  have hnd := hd.1
  have htq : tname ∈ st.queue := by rw [hq]; simp
  obtain ⟨t, ht, htn⟩ := h.subQ tname htq
  subst htn
  have hft : findType vts t.name = some t := findType_of_mem hnd ht
  have htP : t.name ∉ P := fun hp => h.disj _ hp htq
  have hres : ∀ x ∈ resolutionsOf vts t, x ∈ P := (h.ready t ht).mp (.inr htq)
  have hqnd : t.name ∉ rest ∧ rest.Nodup := by
    have := h.nodupQ; rw [hq, List.nodup_cons] at this; exact this
  -- inherited origins
  obtain ⟨inherited, hinh, hacc⟩ := implementedFields_spec (vts := vts) (origins := st.origins)
    t.implements [] [] (by
      intro i hi d hfd pf hpf
      have hdv := findType_some hfd
      have : i ∈ P := hres i ((mem_resolutionsOf _ _ _).mpr ⟨hi, d, hdv.1, hdv.2⟩)
      have := h.orig d hdv.1 (hdv.2 ▸ this) pf hpf
      rwa [hdv.2] at this) (by intro f; exact .inl ⟨rfl, by simp⟩)
  simp only [List.nil_append] at hacc
  -- own fields
  obtain ⟨origins', hins, hnew, hold, hmem⟩ := insertOrigins_spec t.name inherited t.fields st.origins
    (hd.2 t ht) (by
      intro f _
      cases hg : Map.get? (t.name, f.name) st.origins with
      | none => rfl
      | some o => exact absurd (h.entries _ (Map.mem_of_get? hg)).1 htP)
  -- implementers
  obtain ⟨R', hres', hkeys', hget'⟩ := resolveAll_spec t.name (implementersOf vts t.name) st.remaining rest
    (nodup_implementersOf _ _) (by
      intro n hn
      obtain ⟨t', ht', htn', _⟩ := (mem_implementersOf _ _ _).mp hn
      rw [← htn']; exact mem_keys_remaining h ht')
  refine ⟨{ origins := origins', remaining := R',
            queue := rest ++ (implementersOf vts t.name).filter (becomesReady t.name st.remaining) },
    by simp only [kStep, hft, hinh, hins, hres'], ?_⟩
  -- facts about newly ready types
  have hready : ∀ n, becomesReady t.name st.remaining n = true → n ∈ implementersOf vts t.name →
      ∃ t' ∈ vts, t'.name = n ∧ t.name ∈ resolutionsOf vts t' ∧
        (∀ x ∈ resolutionsOf vts t', x ∈ P ∨ x = t.name) := by
    intro n hb hn
    obtain ⟨t', ht', htn', _⟩ := (mem_implementersOf _ _ _).mp hn
    obtain ⟨r, hr⟩ := get?_remaining h ht'
    rw [htn'] at hr
    simp only [becomesReady, hr, Bool.and_eq_true, List.contains_eq_mem, decide_eq_true_eq,
      List.isEmpty_iff, List.filter_eq_nil_iff] at hb
    have hrem := h.rem t' ht' r (htn' ▸ hr)
    refine ⟨t', ht', htn', ((hrem _).mp hb.1).1, ?_⟩
    intro x hx
    by_cases hxP : x ∈ P
    · exact .inl hxP
    · have := hb.2 x ((hrem x).mpr ⟨hx, hxP⟩)
      exact .inr (by simpa using this)
  have hnotold : ∀ n, becomesReady t.name st.remaining n = true → n ∈ implementersOf vts t.name →
      n ∉ P ∧ n ∉ st.queue := by
    intro n hb hn
    obtain ⟨t', ht', htn', hin, _⟩ := hready n hb hn
    have : ¬ (t'.name ∈ P ∨ t'.name ∈ st.queue) := by
      rw [h.ready t' ht']
      intro hall; exact htP (hall _ hin)
    rw [htn'] at this
    exact ⟨fun h1 => this (.inl h1), fun h2 => this (.inr h2)⟩
  constructor
  · -- nodupP
    rw [List.nodup_append]
    exact ⟨h.nodupP, by simp, by intro a ha b hb; simp at hb; subst hb; exact fun hab => htP (hab ▸ ha)⟩
  · -- nodupQ
    show (rest ++ (implementersOf vts t.name).filter (becomesReady t.name st.remaining)).Nodup
    rw [List.nodup_append]
    refine ⟨hqnd.2, (nodup_implementersOf _ _).filter _, ?_⟩
    intro a ha b hb hab
    subst hab
    rw [List.mem_filter] at hb
    exact (hnotold a hb.2 hb.1).2 (by rw [hq]; simp [ha])
  · -- disj
    intro n hn
    show n ∉ rest ++ (implementersOf vts t.name).filter (becomesReady t.name st.remaining)
    rw [List.mem_append, List.mem_filter]
    rintro (hr | ⟨h1, h2⟩)
    · rcases List.mem_append.mp hn with hn | hn
      · exact h.disj n hn (by rw [hq]; simp [hr])
      · simp at hn; subst hn; exact hqnd.1 hr
    · rcases List.mem_append.mp hn with hn | hn
      · exact (hnotold n h2 h1).1 hn
      · simp at hn; subst hn; exact (hnotold _ h2 h1).2 htq
  · -- subP
    intro n hn
    rcases List.mem_append.mp hn with hn | hn
    · exact h.subP n hn
    · simp at hn; subst hn; exact ⟨t, ht, rfl⟩
  · -- subQ
    intro n hn
    change n ∈ rest ++ (implementersOf vts t.name).filter (becomesReady t.name st.remaining) at hn
    rcases List.mem_append.mp hn with hn | hn
    · exact h.subQ n (by rw [hq]; simp [hn])
    · obtain ⟨t', ht', htn', _⟩ := (mem_implementersOf _ _ _).mp (List.mem_filter.mp hn).1
      exact ⟨t', ht', htn'⟩
  · -- keys
    exact hkeys'.trans h.keys
  · -- rem
    intro t' ht' r hr x
    change Map.get? t'.name R' = some r at hr
    rw [hget'] at hr
    obtain ⟨r0, hr0⟩ := get?_remaining h ht'
    have hrem := h.rem t' ht' r0 hr0
    by_cases hin : t'.name ∈ implementersOf vts t.name
    · simp only [hin, if_true, hr0, Option.map_some, Option.some.injEq] at hr
      subst hr
      simp only [List.mem_filter, hrem, bne_iff_ne, ne_eq, List.mem_append, List.mem_singleton, not_or]
      grind
    · simp only [hin, if_false, hr0, Option.some.injEq] at hr
      subst hr
      rw [hrem]
      have : x ∈ resolutionsOf vts t' → x ≠ t.name := by
        intro hx hxe
        exact hin ((mem_implementersOf _ _ _).mpr ⟨t', ht', rfl, hxe ▸ ((mem_resolutionsOf _ _ _).mp hx).1⟩)
      simp only [List.mem_append, List.mem_singleton, not_or]
      grind
  · -- ready
    intro t' ht'
    show (t'.name ∈ P ++ [t.name] ∨
      t'.name ∈ rest ++ (implementersOf vts t.name).filter (becomesReady t.name st.remaining)) ↔ _
    constructor
    · rintro (hp | hq')
      · rcases List.mem_append.mp hp with hp | hp
        · intro x hx; exact List.mem_append_left _ ((h.ready t' ht').mp (.inl hp) x hx)
        · simp at hp
          have : t' = t := eq_of_name_eq hnd ht' ht hp
          subst this
          intro x hx; exact List.mem_append_left _ (hres x hx)
      · rcases List.mem_append.mp hq' with hq' | hq'
        · intro x hx
          exact List.mem_append_left _ ((h.ready t' ht').mp (.inr (by rw [hq]; simp [hq'])) x hx)
        · rw [List.mem_filter] at hq'
          obtain ⟨t'', ht'', htn'', _, hall⟩ := hready _ hq'.2 hq'.1
          have : t'' = t' := eq_of_name_eq hnd ht'' ht' htn''
          subst this
          intro x hx
          rcases hall x hx with hxp | hxe
          · exact List.mem_append_left _ hxp
          · simp [hxe]
    · intro hall
      by_cases hold' : ∀ x ∈ resolutionsOf vts t', x ∈ P
      · rcases (h.ready t' ht').mpr hold' with hp | hq'
        · exact .inl (List.mem_append_left _ hp)
        · rw [hq] at hq'
          rcases List.mem_cons.mp hq' with hq' | hq'
          · exact .inl (by simp [hq'])
          · exact .inr (List.mem_append_left _ hq')
      · -- some resolution is not in P: it must be t.name, and t' becomes ready
        have hex : ∃ x ∈ resolutionsOf vts t', x ∉ P := by
          apply Classical.byContradiction
          intro hne
          apply hold'
          intro x hx
          apply Classical.byContradiction
          intro hxP
          exact hne ⟨x, hx, hxP⟩
        obtain ⟨x, hx, hxP⟩ := hex
        have hxe : x = t.name := by
          have := hall x hx
          rcases List.mem_append.mp this with h1 | h1
          · exact absurd h1 hxP
          · simpa using h1
        subst hxe
        have himp : t'.name ∈ implementersOf vts t.name :=
          (mem_implementersOf _ _ _).mpr ⟨t', ht', rfl, ((mem_resolutionsOf _ _ _).mp hx).1⟩
        obtain ⟨r0, hr0⟩ := get?_remaining h ht'
        have hrem := h.rem t' ht' r0 hr0
        refine .inr (List.mem_append_right _ (List.mem_filter.mpr ⟨himp, ?_⟩))
        simp only [becomesReady, hr0, Bool.and_eq_true, List.contains_eq_mem, decide_eq_true_eq,
          List.isEmpty_iff, List.filter_eq_nil_iff]
        refine ⟨(hrem _).mpr ⟨hx, hxP⟩, ?_⟩
        intro y hy
        have hy' := (hrem y).mp hy
        have := hall y hy'.1
        rcases List.mem_append.mp this with h1 | h1
        · exact absurd h1 hy'.2
        · simp at h1; simp [h1]
  · -- acc
    intro n hn
    rcases List.mem_append.mp hn with hn | hn
    · exact h.acc n hn
    · simp at hn; subst hn
      constructor
      intro b hb
      exact h.acc b (hres b ((implStep_iff hnd ht b).mp hb))
  · -- entries
    intro e he
    rcases hmem e he with he | ⟨f, hf, rfl⟩
    · exact ⟨List.mem_append_left _ (h.entries e he).1, (h.entries e he).2⟩
    · exact ⟨by simp, originFor_spec hnd ht hacc hf⟩
  · -- orig
    intro t' ht' hp f hf
    rcases List.mem_append.mp hp with hp | hp
    · obtain ⟨o, ho, hspec⟩ := h.orig t' ht' hp f hf
      refine ⟨o, ?_, hspec⟩
      show Map.get? (t'.name, f.name) origins' = some o
      rw [hold _ (by
        intro g _ heq
        have : t'.name = t.name := by simpa using congrArg Prod.fst heq
        exact htP (this ▸ hp))]
      exact ho
    · simp at hp
      have : t' = t := eq_of_name_eq hnd ht' ht hp
      subst this
      exact ⟨_, hnew f hf, originFor_spec hnd ht' hacc hf⟩


/-! ### Termination within the fuel -/

theorem length_le_of_nodup_subset {α : Type} [DecidableEq α] (l : List α) :
    ∀ (m : List α), l.Nodup → (∀ x ∈ l, x ∈ m) → l.length ≤ m.length := by
  induction l with
  | nil => intro m _ _; simp
  | cons x xs ih =>
    intro m hnd hsub
    rw [List.nodup_cons] at hnd
    have hx : x ∈ m := hsub x (by simp)
    have := ih (m.erase x) hnd.2 (by
      intro y hy
      have hne : y ≠ x := fun h => hnd.1 (h ▸ hy)
      exact (List.mem_erase_of_ne hne).mpr (hsub y (by simp [hy])))
    rw [List.length_erase_of_mem hx] at this
    have hpos : 0 < m.length := List.length_pos_of_mem hx
    simp only [List.length_cons]; omega

theorem get?_map_of_mem {ν : Type} (g : TypeDef → ν) (l : List TypeDef) (hnd : (l.map (·.name)).Nodup)
    {t : TypeDef} (ht : t ∈ l) : Map.get? t.name (l.map (fun t => (t.name, g t))) = some (g t) := by
  induction l with
  | nil => simp at ht
  | cons y ys ih =>
    simp only [List.map_cons, List.nodup_cons, List.mem_map, not_exists, not_and] at hnd
    simp only [List.map_cons, Map.get?]
    rcases List.mem_cons.mp ht with rfl | ht'
    · simp
    · have hne : t.name ≠ y.name := fun h => hnd.1 t ht' h
      simp only [hne, if_false]
      exact ih hnd.2 ht'

theorem nodup_sorted_names {vts : List TypeDef} (hnd : (vts.map (·.name)).Nodup) :
    ((sortByName vts).map (·.name)).Nodup :=
  ((sortByName_perm vts).map _).nodup_iff.mpr hnd

theorem kInit_inv {vts : List TypeDef} (hd : Distinct vts) : KInv vts [] (kInit vts) := by
  have hnd := hd.1
  have hsnd := nodup_sorted_names hnd
  constructor
  · exact List.nodup_nil
  · exact List.Nodup.sublist (List.Sublist.map _ List.filter_sublist) hsnd
  · simp
  · simp
  · intro n hn
    simp only [kInit, List.mem_map, List.mem_filter, mem_sortByName] at hn
    obtain ⟨t, ⟨ht, _⟩, rfl⟩ := hn
    exact ⟨t, ht, rfl⟩
  · simp [kInit, Map.keys, List.map_map, Function.comp_def]
  · intro t ht r hr x
    have := get?_map_of_mem (resolutionsOf vts) (sortByName vts) hsnd ((mem_sortByName _ _).mpr ht)
    simp only [kInit] at hr
    rw [this] at hr
    cases hr; simp
  · intro t ht
    simp only [kInit, List.not_mem_nil, false_or, List.mem_map, List.mem_filter, mem_sortByName]
    constructor
    · rintro ⟨t', ⟨ht', he⟩, hn⟩
      have : t' = t := eq_of_name_eq hnd ht' ht hn
      subst this
      intro x hx
      simp only [List.isEmpty_iff] at he
      rw [he] at hx; simp at hx
    · intro hall
      refine ⟨t, ⟨ht, ?_⟩, rfl⟩
      simp only [List.isEmpty_iff]
      cases hres : resolutionsOf vts t with
      | nil => rfl
      | cons x xs => exact absurd (hall x (by simp [hres])) (by simp)
  · simp
  · simp [kInit]
  · simp

theorem kLoop_spec {vts : List TypeDef} (hd : Distinct vts) : ∀ (fuel : Nat) (P : List Name) (st : KState),
    KInv vts P st → vts.length ≤ fuel + P.length →
    ∃ P' st', kLoop vts fuel st = .ok st' ∧ KInv vts P' st' ∧ st'.queue = [] := by
  intro fuel
  induction fuel with
  | zero =>
    intro P st h hlen
    cases hq : st.queue with
    | nil => exact ⟨P, st, by simp [kLoop, hq], h, hq⟩
    | cons tname rest =>
      -- impossible: P ++ [tname] would be longer than the list of names
      exfalso
      have htq : tname ∈ st.queue := by rw [hq]; simp
      have hnotP : tname ∉ P := fun hp => h.disj _ hp htq
      have hnd' : (P ++ [tname]).Nodup := by
        rw [List.nodup_append]
        exact ⟨h.nodupP, by simp, by intro a ha b hb; simp at hb; subst hb; exact fun hab => hnotP (hab ▸ ha)⟩
      have := length_le_of_nodup_subset (P ++ [tname]) (vts.map (·.name)) hnd' (by
        intro x hx
        rcases List.mem_append.mp hx with hx | hx
        · obtain ⟨t, ht, hn⟩ := h.subP x hx; exact List.mem_map.mpr ⟨t, ht, hn⟩
        · simp at hx; subst hx
          obtain ⟨t, ht, hn⟩ := h.subQ _ htq; exact List.mem_map.mpr ⟨t, ht, hn⟩)
      simp at this; omega
  | succ fuel ih =>
    intro P st h hlen
    cases hq : st.queue with
    | nil => exact ⟨P, st, by simp [kLoop, hq], h, hq⟩
    | cons tname rest =>
      obtain ⟨st', hstep, hinv⟩ := kStep_spec hd h hq
      obtain ⟨P', st'', hloop, hinv', hq'⟩ := ih (P ++ [tname]) st' hinv (by simp; omega)
      exact ⟨P', st'', by simp [kLoop, hq, hstep, hloop], hinv', hq'⟩


/-! ### Cycles -/

theorem TransGen.trans {α : Type} {r : α → α → Prop} {a b c : α} (h1 : TransGen r a b) (h2 : TransGen r b c) :
    TransGen r a c := by
  induction h2 with
  | single h => exact .tail h1 h
  | tail _ h ih => exact .tail ih h

theorem TransGen.head_cases {α : Type} {r : α → α → Prop} {a c : α} (h : TransGen r a c) :
    ∃ b, r a b ∧ (b = c ∨ TransGen r b c) := by
  induction h with
  | single h => exact ⟨_, h, .inl rfl⟩
  | tail _ hr ih =>
    obtain ⟨b, hab, hb⟩ := ih
    rcases hb with rfl | hb
    · exact ⟨_, hab, .inr (.single hr)⟩
    · exact ⟨b, hab, .inr (.tail hb hr)⟩

theorem TransGen.lift {α : Type} {r r' : α → α → Prop} (hsub : ∀ a b, r' a b → TransGen r a b) {a b : α}
    (h : TransGen r' a b) : TransGen r a b := by
  induction h with
  | single h => exact hsub _ _ h
  | tail _ h ih => exact ih.trans (hsub _ _ h)

/-- An accessible element (every descending chain of `r`-successors is finite) is on no cycle. -/
theorem not_transGen_of_acc {α : Type} {r : α → α → Prop} {a : α} (h : Acc (fun b a => r a b) a) :
    ¬ TransGen r a a := by
  induction h with
  | intro a _ ih =>
    intro hc
    obtain ⟨b, hab, hb⟩ := hc.head_cases
    rcases hb with rfl | hb
    · exact ih _ hab hc
    · exact ih b hab (.tail hb hab)

/-- A non-empty finite set in which every element has a successor inside the set contains a cycle. -/
theorem exists_cycle {α : Type} [DecidableEq α] : ∀ (n : Nat) (r : α → α → Prop) (U : List α),
    U.length ≤ n → U ≠ [] → (∀ u ∈ U, ∃ x ∈ U, r u x) → ∃ u, TransGen r u u := by
  intro n
  induction n with
  | zero => intro r U hlen hne _; cases U <;> simp_all
  | succ n ih =>
    intro r U hlen hne hsucc
    cases U with
    | nil => exact absurd rfl hne
    | cons u0 U0 =>
      obtain ⟨x0, hx0, hr0⟩ := hsucc u0 (by simp)
      by_cases hx0e : x0 = u0
      · subst hx0e; exact ⟨_, .single hr0⟩
      · let U' := (u0 :: U0).filter (fun x => x != u0)
        have hmemU' : ∀ x, x ∈ U' ↔ x ∈ (u0 :: U0) ∧ x ≠ u0 := by
          intro x; simp only [U', List.mem_filter, bne_iff_ne, ne_eq]
        have hlen' : U'.length ≤ n := by
          have h1 : U' = U0.filter (fun x => x != u0) := by simp [U']
          have h2 := List.length_filter_le (fun x => x != u0) U0
          rw [h1]; simp only [List.length_cons] at hlen; omega
        have hx0' : x0 ∈ U' := (hmemU' x0).mpr ⟨hx0, hx0e⟩
        let r' : α → α → Prop := fun a b => r a b ∨ (r a u0 ∧ r u0 b)
        have hsucc' : ∀ u ∈ U', ∃ x ∈ U', r' u x := by
          intro u hu
          obtain ⟨x, hx, hrx⟩ := hsucc u ((hmemU' u).mp hu).1
          by_cases hxe : x = u0
          · subst hxe; exact ⟨x0, hx0', .inr ⟨hrx, hr0⟩⟩
          · exact ⟨x, (hmemU' x).mpr ⟨hx, hxe⟩, .inl hrx⟩
        obtain ⟨u, hu⟩ := ih r' U' hlen' (List.ne_nil_of_mem hx0') hsucc'
        refine ⟨u, TransGen.lift ?_ hu⟩
        rintro a b (h | ⟨h1, h2⟩)
        · exact .single h
        · exact .tail (.single h1) h2

/-! ### The result of `get_field_origins` -/

theorem firstUnresolved_none_iff (m : Map Name (List Name)) :
    firstUnresolved m = none ↔ ∀ e ∈ m, e.2 = [] := by
  induction m with
  | nil => simp [firstUnresolved]
  | cons e m ih =>
    obtain ⟨k, r⟩ := e
    cases r with
    | nil => simp [firstUnresolved, ih]
    | cons x xs => simp [firstUnresolved]

theorem Map.get?_of_mem_nodupKeys {κ ν : Type} [DecidableEq κ] {m : Map κ ν} (hnd : (Map.keys m).Nodup)
    {e : κ × ν} (he : e ∈ m) : Map.get? e.1 m = some e.2 := by
  induction m with
  | nil => simp at he
  | cons x m ih =>
    obtain ⟨k', v'⟩ := x
    simp only [Map.keys, List.map_cons, List.nodup_cons, List.mem_map, not_exists, not_and] at hnd
    rcases List.mem_cons.mp he with rfl | he
    · simp [Map.get?]
    · have hne : e.1 ≠ k' := fun h => hnd.1 e he h
      simp only [Map.get?, hne, if_false]
      exact ih hnd.2 he

/-- `get_field_origins` does not panic; it returns the cycle error iff the `implements` relation
between defined types has a cycle; otherwise the origins it returns are right and complete. -/
theorem getFieldOrigins_spec {vts : List TypeDef} (hd : Distinct vts) :
    (∃ e, getFieldOrigins vts = .ok (.error e) ∧ ∃ t, TransGen (ImplStep vts) t t) ∨
    (∃ origins, getFieldOrigins vts = .ok (.ok origins) ∧ (∀ t, ¬ TransGen (ImplStep vts) t t) ∧
      (∀ e ∈ origins, OriginSpec vts e.2 e.1.1 e.1.2) ∧
      (∀ t ∈ vts, ∀ f ∈ t.fields, ∃ o, Map.get? (t.name, f.name) origins = some o ∧
        OriginSpec vts o t.name f.name)) := by
  have hnd := hd.1
  obtain ⟨P, st, hloop, hinv, hq⟩ := kLoop_spec hd vts.length [] (kInit vts) (kInit_inv hd) (by simp)
  unfold getFieldOrigins
  simp only [hloop]
  have hkeysnd : (Map.keys st.remaining).Nodup := by rw [hinv.keys]; exact nodup_sorted_names hnd
  cases hfu : firstUnresolved st.remaining with
  | none =>
    refine .inr ⟨st.origins, rfl, ?_, fun e he => (hinv.entries e he).2, ?_⟩
    · have hall : ∀ t ∈ vts, t.name ∈ P := by
        intro t ht
        obtain ⟨r, hr⟩ := get?_remaining hinv ht
        have hr0 : r = [] := (firstUnresolved_none_iff _).mp hfu _ (Map.mem_of_get? hr)
        have := (hinv.ready t ht).mpr (by
          intro x hx
          apply Classical.byContradiction
          intro hxP
          have := (hinv.rem t ht r hr x).mpr ⟨hx, hxP⟩
          rw [hr0] at this; simp at this)
        simpa [hq] using this
      intro t hc
      obtain ⟨b, ⟨d, hd', hdn, _⟩, _⟩ := hc.head_cases
      exact not_transGen_of_acc (hinv.acc t (hdn ▸ hall d hd')) hc
    · intro t ht f hf
      have hall : t.name ∈ P := by
        obtain ⟨r, hr⟩ := get?_remaining hinv ht
        have hr0 : r = [] := (firstUnresolved_none_iff _).mp hfu _ (Map.mem_of_get? hr)
        have := (hinv.ready t ht).mpr (by
          intro x hx
          apply Classical.byContradiction
          intro hxP
          have := (hinv.rem t ht r hr x).mpr ⟨hx, hxP⟩
          rw [hr0] at this; simp at this)
        simpa [hq] using this
      exact hinv.orig t ht hall f hf
  | some err =>
    refine .inl ⟨err, rfl, ?_⟩
    -- some type is unresolved
    have hex : ∃ e ∈ st.remaining, e.2 ≠ [] := by
      apply Classical.byContradiction
      intro hne
      have : firstUnresolved st.remaining = none := (firstUnresolved_none_iff _).mpr (by
        intro e he
        apply Classical.byContradiction
        intro h; exact hne ⟨e, he, h⟩)
      rw [this] at hfu; cases hfu
    obtain ⟨e, he, hene⟩ := hex
    have hek : e.1 ∈ (sortByName vts).map (·.name) := by
      rw [← hinv.keys]; exact List.mem_map.mpr ⟨e, he, rfl⟩
    obtain ⟨t0, ht0, ht0n⟩ := List.mem_map.mp hek
    have ht0' : t0 ∈ vts := (mem_sortByName _ _).mp ht0
    have hget : Map.get? t0.name st.remaining = some e.2 := by
      rw [ht0n]; exact Map.get?_of_mem_nodupKeys hkeysnd he
    -- the unprocessed types
    let U := (vts.map (·.name)).filter (fun n => !P.contains n)
    have hmemU : ∀ n, n ∈ U ↔ IsVertex vts n ∧ n ∉ P := by
      intro n
      simp only [U, List.mem_filter, List.mem_map, Bool.not_eq_true', List.contains_eq_mem,
        decide_eq_false_iff_not, IsVertex]
    have hsucc : ∀ u ∈ U, ∃ x ∈ U, ImplStep vts u x := by
      intro u hu
      obtain ⟨⟨t, ht, htn⟩, hnP⟩ := (hmemU u).mp hu
      subst htn
      have hnot : ¬ ∀ x ∈ resolutionsOf vts t, x ∈ P := by
        intro hall
        have := (hinv.ready t ht).mpr hall
        rw [hq] at this; simp at this; exact hnP this
      have hex : ∃ x ∈ resolutionsOf vts t, x ∉ P := by
        apply Classical.byContradiction
        intro hne
        apply hnot
        intro x hx
        apply Classical.byContradiction
        intro hxP; exact hne ⟨x, hx, hxP⟩
      obtain ⟨x, hx, hxP⟩ := hex
      exact ⟨x, (hmemU x).mpr ⟨((mem_resolutionsOf _ _ _).mp hx).2, hxP⟩, (implStep_iff hnd ht x).mpr hx⟩
    have hne : U ≠ [] := by
      cases hr : e.2 with
      | nil => exact absurd hr hene
      | cons x xs =>
        have hx := (hinv.rem t0 ht0' e.2 hget x).mp (by rw [hr]; simp)
        exact List.ne_nil_of_mem ((hmemU x).mpr ⟨((mem_resolutionsOf _ _ _).mp hx.1).2, hx.2⟩)
    exact exists_cycle U.length (ImplStep vts) U (Nat.le_refl _) hne hsucc


/-! ### `check_ambiguous_field_origins` -/

theorem OriginOf.hasField {vts : List TypeDef} {t f a : Name} (h : OriginOf vts t f a) : HasField vts t f := by
  cases h with
  | self h _ => exact h
  | inherited h _ _ _ => exact h

/-- "No ambiguous field origins", stated with `OriginOf`. -/
def UnambiguousRule (vts : List TypeDef) : Prop :=
  ∀ t ∈ vts, ∀ f ∈ t.fields, ∀ a b, OriginOf vts t.name f.name a → OriginOf vts t.name f.name b → a = b

theorem checkAmbiguous_spec {vts : List TypeDef} (hd : Distinct vts) {origins : Origins}
    (hent : ∀ e ∈ origins, OriginSpec vts e.2 e.1.1 e.1.2)
    (hall : ∀ t ∈ vts, ∀ f ∈ t.fields, ∃ o, Map.get? (t.name, f.name) origins = some o ∧
      OriginSpec vts o t.name f.name) :
    ∃ es, checkAmbiguous vts origins = .ok es ∧ (es = [] ↔ UnambiguousRule vts) := by
  have hnd := hd.1
  obtain ⟨es, h1, h2⟩ := collect_spec (f := checkAmbiguousOne vts)
    (P := fun e => ∀ s, e.2 ≠ Origin.multiple s) origins (by
      intro e he
      unfold checkAmbiguousOne
      cases ho : e.2 with
      | single n => exact ⟨[], rfl, by simp⟩
      | multiple s =>
        have hspec := hent e he
        rw [ho] at hspec
        obtain ⟨a, ha, _⟩ := hspec.1
        have hof := (hspec.2 a).mp ha
        obtain ⟨d, hd', hdn, x, hx, hxn⟩ := hof.hasField
        have hl : lookupField vts e.1.1 e.1.2 = some x := by
          rw [← hdn, lookupField_of_mem hnd hd', ← hxn]
          exact findField_of_mem (hd.2 d hd') hx
        simp only [hl]
        exact ⟨_, rfl, by simp⟩)
  refine ⟨es, h1, h2.trans ?_⟩
  constructor
  · intro hs t ht f hf a b ha hb
    obtain ⟨o, ho, hspec⟩ := hall t ht f hf
    have := hs _ (Map.mem_of_get? ho)
    cases o with
    | multiple s => exact absurd rfl (this s)
    | single n =>
      have ha' := (hspec.2 a).mpr ha
      have hb' := (hspec.2 b).mpr hb
      simp only [Origin.toList, List.mem_singleton] at ha' hb'
      rw [ha', hb']
  · intro hrule e he s hs
    have hspec := hent e he
    rw [hs] at hspec
    obtain ⟨a, ha, b, hb, hab⟩ := hspec.1
    have hoa := (hspec.2 a).mp ha
    have hob := (hspec.2 b).mp hb
    obtain ⟨d, hd', hdn, x, hx, hxn⟩ := hoa.hasField
    rw [← hdn, ← hxn] at hoa hob
    exact hab (hrule d hd' x hx a b hoa hob)

/-! ### The six checks together -/

def AcyclicRule (vts : List TypeDef) : Prop := ∀ t, ¬ TransGen (ImplStep vts) t t

/-- `runChecks` does not panic on clean definitions, and reports no error iff every rule holds. -/
theorem runChecks_spec {vts : List TypeDef} (hd : Distinct vts) (hc : FieldsClean vts)
    {q : TypeDef} (hq : q ∈ vts) :
    ∃ errors origins, runChecks vts q = .ok (errors, origins) ∧
      (errors = [] → origins.isSome = true) ∧
      (errors = [] ↔ (TransitiveRule vts ∧ NarrowingRule vts ∧ RequiredFieldsRule vts ∧
        InvariantsRule vts q.name ∧ RootRule q ∧ AcyclicRule vts ∧ UnambiguousRule vts)) := by
  have hshallow : ∀ t ∈ vts, ∀ f ∈ t.fields, ArgsShallow f := by
    intro t ht f hf a ha
    have := hc t ht f hf
    simp only [Field.clean, Bool.and_eq_true, List.all_eq_true] at this
    have := this.2 a ha
    simp only [Arg.clean] at this
    exact this
  obtain ⟨e2, h2, h2'⟩ := checkNarrowing_spec hd.1 hshallow
  obtain ⟨e4, h4, h4'⟩ := checkInvariants_spec vts q.name hc
  obtain ⟨e5, h5, h5'⟩ := checkRoot_spec q (hc q hq)
  have h1' := checkTransitive_nil_iff vts
  have h3' := checkRequiredFields_nil_iff vts
  unfold runChecks
  simp only [h2, h4, h5]
  rcases getFieldOrigins_spec hd with ⟨e, hg, hcyc⟩ | ⟨origins, hg, hacyc, hent, hall⟩
  · simp only [hg]
    refine ⟨_, _, rfl, by simp, ?_⟩
    constructor
    · intro h; simp at h
    · rintro ⟨_, _, _, _, _, hac, _⟩
      obtain ⟨t, ht⟩ := hcyc
      exact absurd ht (hac t)
  · simp only [hg]
    obtain ⟨e6, h6, h6'⟩ := checkAmbiguous_spec hd hent hall
    simp only [h6]
    refine ⟨_, _, rfl, by simp, ?_⟩
    simp only [List.append_eq_nil_iff, h1', h2', h3', h4', h5', h6']
    constructor
    · rintro ⟨⟨⟨⟨⟨a, b⟩, c⟩, d⟩, e⟩, f⟩; exact ⟨a, b, c, d, e, hacyc, f⟩
    · rintro ⟨a, b, c, d, e, _, f⟩; exact ⟨⟨⟨⟨⟨a, b⟩, c⟩, d⟩, e⟩, f⟩


/-! ### From the look-up rules to `ValidSchema` -/

/-- All rules decided by the six checks, for the definitions `ts` with root type `qd`. -/
def CheckedRules (ts : List TypeDef) (qd : TypeDef) : Prop :=
  TransitiveRule ts ∧ NarrowingRule ts ∧ RequiredFieldsRule ts ∧ InvariantsRule ts qd.name ∧
    RootRule qd ∧ AcyclicRule ts ∧ UnambiguousRule ts

theorem lookupField_eq_some_iff {ts : List TypeDef} (hd : Distinct ts) {i f : Name} {pf : Field} :
    lookupField ts i f = some pf ↔ ∃ d ∈ ts, d.name = i ∧ pf ∈ d.fields ∧ pf.name = f := by
  unfold lookupField
  constructor
  · intro h
    cases hft : findType ts i with
    | none => simp [hft] at h
    | some d =>
      simp only [hft] at h
      exact ⟨d, (findType_some hft).1, (findType_some hft).2, findField_some h⟩
  · rintro ⟨d, hd', rfl, hpf, rfl⟩
    rw [findType_of_mem hd.1 hd']
    exact findField_of_mem (hd.2 d hd') hpf

theorem validSchema_of_rules {doc : Doc} {q : Name} {qd : TypeDef} (hblocks : doc.schemaBlocks = [q])
    (hq : findType doc.types q = some qd) (hqi : qd.isInterface = false) (hl : LoopOK doc)
    (hr : CheckedRules doc.types qd) : ValidSchema doc := by
  obtain ⟨hT, hN, hR, hI, hRoot, hA, hU⟩ := hr
  have hd : Distinct doc.types := hl.distinct
  have hqd := findType_some hq
  have hqb : isBuiltin q = false := by rw [← hqd.2]; exact hl.typesNotBuiltin qd hqd.1
  have hnd := hd.1
  refine
    { queryType := ⟨q, hblocks, qd, hqd.1, hqd.2, hqi⟩
      typesDistinct := hd.1
      fieldsDistinct := hd.2
      implementsInterfaces := ?_
      implementsTransitive := ?_
      inheritedPresent := ?_
      inheritedNarrowed := ?_
      fieldTypesKnown := ?_
      noReservedNames := ?_
      noEdgeIntoRoot := ?_
      propertiesNoParams := ?_
      defaultsFit := ?_
      edgesNotNested := ?_
      rootFieldsAreEdges := ?_
      acyclic := hA
      unambiguousOrigins := hU
      builtinsNotRedefined := ⟨hl.typesNotBuiltin, hl.scalarsNotBuiltin⟩
      directivesDistinct := hl.directivesNodup
      scalarsDistinct := hl.scalarsNodup
      paramsDistinct := hl.paramsDistinct }
  · intro t ht i hi
    obtain ⟨d, hfd, hdi, _⟩ := hT t ht i hi
    exact ⟨d, (findType_some hfd).1, (findType_some hfd).2, hdi⟩
  · intro t ht i hi d hd' hdn j hj
    obtain ⟨d', hfd, _, hall⟩ := hT t ht i hi
    have : d' = d := by
      have := findType_of_mem hnd hd'; rw [hdn, hfd] at this; exact Option.some.inj this
    subst this
    rcases hall j hj with hjt | hjt
    · exfalso
      subst hjt
      apply hA t.name
      exact .tail (.single ⟨t, ht, rfl, hi, d', hd', hdn⟩) ⟨d', hd', hdn, hj, t, ht, rfl⟩
    · exact hjt
  · intro t ht i hi d hd' hdn pf hpf
    have hfd : findType doc.types i = some d := by rw [← hdn]; exact findType_of_mem hnd hd'
    have := hR t ht i hi d hfd pf hpf
    rw [lookupField_of_mem hnd ht, findField_isSome_iff] at this
    exact this
  · intro t ht f hf i hi d hd' hdn pf hpf hpfn
    exact hN t ht f hf i hi pf ((lookupField_eq_some_iff hd).mpr ⟨d, hd', hdn, hpf, hpfn⟩)
  · intro t ht f hf
    have := ((hI t ht).2 f hf).2
    by_cases hb : isBuiltin f.ty.base = true
    · exact .inl hb
    · simp only [hb, if_false] at this
      exact .inr ((findType_isSome_iff _ _).mp this.1)
  · intro t ht
    exact ⟨(hI t ht).1, fun f hf => ((hI t ht).2 f hf).1⟩
  · intro t ht f hf q' hq'
    rw [hblocks] at hq'; simp at hq'; subst hq'
    have := ((hI t ht).2 f hf).2
    by_cases hb : isBuiltin f.ty.base = true
    · intro heq; rw [heq, hqb] at hb; cases hb
    · simp only [hb, if_false] at this
      rw [← hqd.2]; exact this.2.1
  · intro t ht f hf hb
    have := ((hI t ht).2 f hf).2
    simpa [hb] using this
  · intro t ht f hf hb a ha
    have := ((hI t ht).2 f hf).2
    simp only [hb, Bool.false_eq_true, if_false] at this
    exact this.2.2.1 a ha
  · intro t ht f hf hb
    have := ((hI t ht).2 f hf).2
    simp only [hb, Bool.false_eq_true, if_false] at this
    exact this.2.2.2
  · intro t ht htq f hf
    rw [hblocks] at htq; simp at htq
    have : t = qd := eq_of_name_eq hnd ht hqd.1 (by rw [htq, hqd.2])
    subst this
    exact hRoot f hf

theorem rules_of_validSchema {doc : Doc} {q : Name} {qd : TypeDef} (hblocks : doc.schemaBlocks = [q])
    (hq : findType doc.types q = some qd) (hv : ValidSchema doc) :
    Distinct doc.types ∧ CheckedRules doc.types qd := by
  have hd : Distinct doc.types := ⟨hv.typesDistinct, hv.fieldsDistinct⟩
  have hnd := hd.1
  have hqd := findType_some hq
  refine ⟨hd, ?_, ?_, ?_, ?_, ?_, hv.acyclic, hv.unambiguousOrigins⟩
  · intro t ht i hi
    obtain ⟨d, hd', hdn, hdi⟩ := hv.implementsInterfaces t ht i hi
    refine ⟨d, by rw [← hdn]; exact findType_of_mem hnd hd', hdi, ?_⟩
    intro e he
    exact .inr (hv.implementsTransitive t ht i hi d hd' hdn e he)
  · intro t ht f hf i hi pf hl
    obtain ⟨d, hd', hdn, hpf, hpfn⟩ := (lookupField_eq_some_iff hd).mp hl
    exact hv.inheritedNarrowed t ht f hf i hi d hd' hdn pf hpf hpfn
  · intro t ht i hi d hfd pf hpf
    rw [lookupField_of_mem hnd ht, findField_isSome_iff]
    exact hv.inheritedPresent t ht i hi d (findType_some hfd).1 (findType_some hfd).2 pf hpf
  · intro t ht
    refine ⟨(hv.noReservedNames t ht).1, ?_⟩
    intro f hf
    refine ⟨(hv.noReservedNames t ht).2 f hf, ?_⟩
    by_cases hb : isBuiltin f.ty.base = true
    · simp only [hb, if_true]; exact hv.propertiesNoParams t ht f hf hb
    · simp only [hb, if_false]
      have hb' : isBuiltin f.ty.base = false := by simpa using hb
      refine ⟨?_, ?_, hv.defaultsFit t ht f hf hb', hv.edgesNotNested t ht f hf hb'⟩
      · rcases hv.fieldTypesKnown t ht f hf with h | h
        · exact absurd h hb
        · exact (findType_isSome_iff _ _).mpr h
      · rw [hqd.2]; exact hv.noEdgeIntoRoot t ht f hf q (by simp [hblocks])
  · intro f hf
    exact hv.rootFieldsAreEdges qd hqd.1 (by simp [hblocks, hqd.2]) f hf


/-! ### `Schema::new` under the guard -/

/-- A valid schema passes the first loop. -/
theorem loopOK_of_validSchema {doc : Doc} (hv : ValidSchema doc) : LoopOK doc := by
  obtain ⟨q, hq, _⟩ := hv.queryType
  exact ⟨by simp [hq], hv.builtinsNotRedefined.1, hv.builtinsNotRedefined.2, hv.directivesDistinct,
    hv.scalarsDistinct, ⟨hv.typesDistinct, hv.fieldsDistinct⟩, hv.paramsDistinct⟩

/-- What `NoKnownSchemaTrigger` says, unpacked. -/
theorem guard_unpack {doc : Doc} (h : NoKnownSchemaTrigger doc = true) :
    doc.unsupportedNames = [] ∧ FieldsClean doc.types := by
  simp only [NoKnownSchemaTrigger, Bool.and_eq_true, List.all_eq_true, List.isEmpty_iff] at h
  exact ⟨h.1, h.2⟩

/-- What an accepting run of `Schema::new` establishes. -/
structure AcceptedSpec (doc : Doc) (s : Schema) : Prop where
  vertexTypes : s.vertexTypes = doc.types
  blocks : doc.schemaBlocks = [s.queryType.name]
  rootFound : findType doc.types s.queryType.name = some s.queryType
  rootObject : s.queryType.isInterface = false
  loopOK : LoopOK doc
  rules : CheckedRules doc.types s.queryType

/-- Under the guard (no `enum`/`union`/`input` definition, no type with more than 30 list levels)
`Schema::new` does not panic; it returns `Ok(schema)` — then the first loop's requirements and all
checked rules hold — or `Err(errors)` with a non-empty error list — then the document is not a
`ValidSchema`. -/
theorem schemaNew_spec {doc : Doc} (h : NoKnownSchemaTrigger doc = true) :
    (∃ s, Schema.new doc = .ok (.ok s) ∧ AcceptedSpec doc s) ∨
    (∃ es, Schema.new doc = .ok (.error es) ∧ es ≠ [] ∧ ¬ ValidSchema doc) := by
  obtain ⟨hun, hc⟩ := guard_unpack h
  have hloop := runLoop_spec doc [] {} ⟨rfl, rfl, rfl, rfl⟩ LoopOK.nil hun
  simp only [List.nil_append] at hloop
  unfold Schema.new
  rcases hloop with ⟨e, hl, hno⟩ | ⟨st, hl, hst, hok⟩
  · simp only [hl]
    exact .inr ⟨[e], rfl, by simp, fun hv => hno (loopOK_of_validSchema hv)⟩
  · simp only [hl]
    have hd := hok.distinct
    cases hb : doc.schemaBlocks with
    | nil =>
      have hs : st.schema = none := by rw [hst.schema, hb]; rfl
      simp only [hs]
      refine .inr ⟨_, rfl, by simp, fun hv => ?_⟩
      obtain ⟨q, hq, _⟩ := hv.queryType
      rw [hb] at hq; cases hq
    | cons q more =>
      have hmore : more = [] := by
        have := hok.oneBlock
        rw [hb] at this
        cases more with
        | nil => rfl
        | cons _ _ => simp at this
      subst hmore
      have hs : st.schema = some q := by rw [hst.schema, hb]; rfl
      simp only [hs, hst.vertexTypes]
      cases hq : findType doc.types q with
      | none =>
        refine .inr ⟨_, rfl, by simp, fun hv => ?_⟩
        obtain ⟨q', hq', d, hd1, hd2, _⟩ := hv.queryType
        rw [hb] at hq'; cases hq'
        exact (findType_eq_none_iff _ _).mp hq ⟨d, hd1, hd2⟩
      | some qd =>
        have hqd := findType_some hq
        cases hqi : qd.isInterface with
        | true =>
          simp only [hqi, if_true]
          refine .inr ⟨_, rfl, by simp, fun hv => ?_⟩
          obtain ⟨q', hq', d, hd1, hd2, hd3⟩ := hv.queryType
          rw [hb] at hq'; cases hq'
          have : d = qd := eq_of_name_eq hd.1 hd1 hqd.1 (by rw [hd2, hqd.2])
          subst this
          rw [hqi] at hd3; cases hd3
        | false =>
          simp only [hqi, Bool.false_eq_true, if_false]
          obtain ⟨errors, origins, hrun, hsome, hiff⟩ := runChecks_spec hd hc hqd.1
          simp only [hrun]
          cases errors with
          | nil =>
            have := hsome rfl
            obtain ⟨o, ho⟩ := Option.isSome_iff_exists.mp this
            simp only [ho, List.isEmpty_nil, if_true]
            exact .inl ⟨_, rfl, ⟨rfl, by rw [hqd.2]; exact hb, by rw [hqd.2]; exact hq, hqi, hok, hiff.mp rfl⟩⟩
          | cons e es =>
            simp only [List.isEmpty_cons, Bool.false_eq_true, if_false]
            refine .inr ⟨_, rfl, by simp, fun hv => ?_⟩
            have := (rules_of_validSchema hb hq hv).2
            simpa using hiff.mpr this

/-- An accepted document is a `ValidSchema`. -/
theorem AcceptedSpec.valid {doc : Doc} {s : Schema} (h : AcceptedSpec doc s) : ValidSchema doc :=
  validSchema_of_rules h.blocks h.rootFound h.rootObject h.loopOK h.rules


/-! ### What every accepted schema has, without any guard: distinct parameter names (F-C10-5) -/

/-- Every field of every type has distinct parameter names. -/
def ParamsNodup (vts : List TypeDef) : Prop :=
  ∀ t ∈ vts, ∀ f ∈ t.fields, (f.args.map (·.name)).Nodup

theorem loopStep_paramsNodup {st st' : LoopState} {d : Def} (h : loopStep st d = .ok (.ok st'))
    (hp : ParamsNodup st.vertexTypes) : ParamsNodup st'.vertexTypes := by
  cases d with
  | schema q => simp only [loopStep] at h; split at h <;> cases h; exact hp
  | directive n => simp only [loopStep] at h; split at h <;> cases h; exact hp
  | scalar n =>
    simp only [loopStep] at h
    split at h
    · cases h
    · split at h <;> cases h; exact hp
  | unsupported n => simp only [loopStep] at h; split at h <;> cases h
  | type t =>
    simp only [loopStep] at h
    split at h
    · cases h
    · split at h
      · cases h
      · split at h
        · cases h
        · rename_i hf
          cases h
          intro x hx
          rcases List.mem_append.mp hx with hx | hx
          · exact hp x hx
          · simp at hx; subst hx
            exact ((firstFieldErr_none_iff _ [] _).mp hf).2

theorem runLoop_paramsNodup : ∀ (doc : Doc) (st st' : LoopState), runLoop st doc = .ok (.ok st') →
    ParamsNodup st.vertexTypes → ParamsNodup st'.vertexTypes := by
  intro doc
  induction doc with
  | nil => intro st st' h hp; simp [runLoop] at h; subst h; exact hp
  | cons d ds ih =>
    intro st st' h hp
    unfold runLoop at h
    split at h
    · cases h
    · cases h
    · rename_i st1 hstep
      exact ih st1 st' h (loopStep_paramsNodup hstep hp)

/-- The `vertex_types` of the schema `Schema::new` returns are those the first loop collected. -/
theorem new_ok_loop {doc : Doc} {s : Schema} (h : Schema.new doc = .ok (.ok s)) :
    ∃ st, runLoop {} doc = .ok (.ok st) ∧ s.vertexTypes = st.vertexTypes := by
  unfold Schema.new at h
  split at h
  · cases h
  · cases h
  · rename_i st hl
    refine ⟨st, hl, ?_⟩
    split at h
    · cases h
    · split at h
      · cases h
      · split at h
        · cases h
        · split at h
          · cases h
          · split at h
            · split at h
              · cases h
              · cases h; rfl
            · cases h

/-- **Every** schema `Schema::new` returns — no guard — has distinct parameter names per field: the
frontend's assumption in `make_edge_parameters` ("Duplicates should have been caught at parse time"). -/
theorem new_ok_paramsNodup {doc : Doc} {s : Schema} (h : Schema.new doc = .ok (.ok s)) :
    ParamsNodup s.vertexTypes := by
  obtain ⟨st, hl, hv⟩ := new_ok_loop h
  rw [hv]
  exact runLoop_paramsNodup doc {} st hl (by intro t ht; cases ht)


end TF.SchemaDoc
