/-
Helper lemmas for C16: `Display`/`parse` of types are mutually inverse (text level), and the exact
effect of the round trip of a value through the untagged `TransparentValue` JSON form.
-/
import TrustfallModel.Proofs.Ty
import TrustfallModel.Model.Serial

namespace TF.Serial
open TF Ty Shape

/-! ### Text: `Display` and `parse` -/

theorem stripSuffix_concat_same (x : Bytes) (c : UInt8) : stripSuffix (x ++ [c]) c = some x := by
  simp [stripSuffix]

theorem stripSuffix_concat_ne (x : Bytes) {c d : UInt8} (h : d ≠ c) : stripSuffix (x ++ [d]) c = none := by
  simp [stripSuffix, h]

theorem stripPrefix_cons_same (x : Bytes) (c : UInt8) : stripPrefix (c :: x) c = some x := by
  simp [stripPrefix]

theorem stripSuffix_some {x r : Bytes} {c : UInt8} (h : stripSuffix x c = some r) : x = r ++ [c] := by
  unfold stripSuffix at h
  split at h
  · rename_i y hy
    split at h
    · rename_i hc
      cases h
      have hc' : y = c := by simpa using hc
      subst hc'
      have hne : x ≠ [] := by intro h0; subst h0; simp at hy
      have := List.dropLast_concat_getLast hne
      rw [List.getLast?_eq_some_getLast hne] at hy
      cases hy
      exact this.symm
    · cases h
  · cases h

theorem stripPrefix_some {x r : Bytes} {c : UInt8} (h : stripPrefix x c = some r) : x = c :: r := by
  unfold stripPrefix at h
  split at h
  · split at h
    · rename_i y rest hc
      cases h
      have hy : y = c := by simpa using hc
      subst hy; rfl
    · cases h
  · cases h

/-- The split at the head of `Type::new` loses nothing. -/
theorem splitBang_spec (s : Bytes) : (splitBang s).2 ++ bang (splitBang s).1 = s := by
  unfold splitBang
  split
  · rename_i rest h
    simp [bang, (stripSuffix_some h)]
  · simp [bang]

/-- The parsed type with base name `b` and shape `s`. -/
def gOf (b : Bytes) : Shape → GType
  | .named n => .named b n
  | .list n s => .list (gOf b s) n

theorem gOf_name (b : Bytes) (s : Shape) : (gOf b s).name = b := by
  induction s with
  | named n => rfl
  | list n s ih => simpa [gOf, GType.name] using ih

theorem gOf_shape (b : Bytes) (s : Shape) : (gOf b s).shape = s := by
  induction s with
  | named n => rfl
  | list n s ih => simp [gOf, GType.shape, ih]

theorem gOf_name_shape (g : GType) : gOf g.name g.shape = g := by
  induction g with
  | named b n => rfl
  | list g n ih => simp [gOf, GType.name, GType.shape, ih]

theorem splitBang_display_named {b : Bytes} (hb : validName b = true) (n : Bool) :
    splitBang (b ++ bang n) = (n, b) := by
  simp only [validName, Bool.and_eq_true, Option.isNone_iff_eq_none] at hb
  cases n with
  | true => simp [splitBang, bang, hb.2]
  | false => simp [splitBang, bang, stripSuffix_concat_same]

theorem splitBang_display_list (d : Bytes) (n : Bool) :
    splitBang (LBRACKET :: d ++ [RBRACKET] ++ bang n) = (n, LBRACKET :: d ++ [RBRACKET]) := by
  cases n with
  | true =>
    have : stripSuffix (LBRACKET :: d ++ [RBRACKET]) BANG = none :=
      stripSuffix_concat_ne (LBRACKET :: d) (by decide)
    show splitBang (LBRACKET :: d ++ [RBRACKET] ++ []) = _
    rw [List.append_nil]
    unfold splitBang
    rw [this]
  | false =>
    have : stripSuffix (LBRACKET :: d ++ [RBRACKET] ++ [BANG]) BANG = some (LBRACKET :: d ++ [RBRACKET]) :=
      stripSuffix_concat_same _ _
    show splitBang (LBRACKET :: d ++ [RBRACKET] ++ [BANG]) = _
    unfold splitBang
    rw [this]

/-- The dependency's parser inverts the structural text of any shape (any depth) when the base name
is unambiguous. -/
theorem gparse_display {b : Bytes} (hb : validName b = true) (s : Shape) :
    gparse (Shape.display b s) = some (gOf b s) := by
  induction s with
  | named n =>
    rw [gparse_eq]
    simp only [Shape.display, splitBang_display_named hb]
    simp only [validName, Bool.and_eq_true, Option.isNone_iff_eq_none] at hb
    simp [hb.1, gOf]
  | list n s ih =>
    rw [gparse_eq]
    have e : Shape.display b (.list n s) = LBRACKET :: Shape.display b s ++ [RBRACKET] ++ bang n := by
      simp [Shape.display]
    rw [e, splitBang_display_list]
    simp only []
    rw [show (LBRACKET :: Shape.display b s ++ [RBRACKET]) = LBRACKET :: (Shape.display b s ++ [RBRACKET]) from rfl,
      stripPrefix_cons_same]
    simp only [stripSuffix_concat_same, ih, gOf]

/-- Conversely, whatever the parser accepts is the structural text of what it returns: parsing is
injective and `Display` is a left inverse of it on *all* accepted texts. -/
theorem display_gparse {s : Bytes} {g : GType} (h : gparse s = some g) :
    Shape.display g.name g.shape = s := by
  induction hn : s.length using Nat.strongRecOn generalizing s g with
  | _ n ih =>
    rw [gparse_eq] at h
    split at h
    · rename_i ty h1
      split at h
      · cases h
      · rename_i inner h2
        cases hg : gparse inner with
        | none => simp [hg] at h
        | some g' =>
          simp [hg] at h
          subst h
          have hlen : inner.length < n := by
            have a := splitBang_length s
            have b := stripPrefix_length h1
            have c := stripSuffix_length h2
            omega
          have := ih inner.length hlen hg rfl
          simp only [GType.name, GType.shape, Shape.display, this]
          have e1 := stripPrefix_some h1
          have e2 := stripSuffix_some h2
          have e3 := splitBang_spec s
          rw [e1, e2] at e3
          simpa using e3
    · cases h
      simp only [GType.name, GType.shape, Shape.display]
      exact splitBang_spec s

/-! ### `TransparentValue` -/

mutual
theorem fromT_toT : (v : Value) → fromT (toT v) = v
  | .null | .int64 _ | .uint64 _ | .float64 _ | .string _ | .boolean _ | .enum _ => by simp [toT, fromT]
  | .list l => by simp [toT, fromT, fromTList_toTList l]
theorem fromTList_toTList : (l : List Value) → fromTList (toTList l) = l
  | [] => by simp [toTList, fromTList]
  | v :: vs => by simp [toTList, fromTList, fromT_toT v, fromTList_toTList vs]
end

theorem int64_range (i : Int64) : -(2 ^ 63 : Int) ≤ i.toInt ∧ i.toInt < 2 ^ 63 := by
  have := Int64.le_toInt i
  have := Int64.toInt_lt i
  omega

theorem asInt64_int {z : Int} (h : -(2 ^ 63 : Int) ≤ z ∧ z < 2 ^ 63) :
    asInt64 (.int z) = some (.int64 (Int64.ofInt z)) := by
  show (if _ then _ else _) = _; rw [if_pos h]

theorem asInt64_int_none {z : Int} (h : ¬ (-(2 ^ 63 : Int) ≤ z ∧ z < 2 ^ 63)) :
    asInt64 (.int z) = none := by
  show (if _ then _ else _) = _; rw [if_neg h]

theorem asUint64_int {z : Int} (h : 0 ≤ z ∧ z < 2 ^ 64) :
    asUint64 (.int z) = some (.uint64 (UInt64.ofNat z.toNat)) := by
  show (if _ then _ else _) = _; rw [if_pos h]

theorem untaggedParse_int (z : Int) :
    untaggedParse (.int z) = (asInt64 (.int z) <|> asUint64 (.int z)) := by
  cases h1 : asInt64 (.int z) <;> cases h2 : asUint64 (.int z) <;>
    simp [untaggedParse, asNull, asFloat64, asString, asBoolean, asEnum, h1, h2]

mutual
/-- The round trip through the untagged form, exactly. -/
theorem roundtrip_exact : (v : Value) →
    (untaggedParse (untaggedPrint (toT v))).map fromT = some (normalize v)
  | .null => by simp [toT, untaggedPrint, untaggedParse, asNull, fromT, normalize]
  | .int64 i => by
    have h := int64_range i
    simp only [toT, untaggedPrint, untaggedParse_int, asInt64_int h]
    simp [fromT, normalize]
  | .uint64 u => by
    have hu := UInt64.toNat_lt u
    by_cases h : u.toNat < 2 ^ 63
    · have h1 : -(2 ^ 63 : Int) ≤ (u.toNat : Int) ∧ (u.toNat : Int) < 2 ^ 63 := by omega
      simp only [toT, untaggedPrint, untaggedParse_int, asInt64_int h1, normalize, if_pos h]
      simp [fromT]
    · have h1 : ¬ (-(2 ^ 63 : Int) ≤ (u.toNat : Int) ∧ (u.toNat : Int) < 2 ^ 63) := by omega
      have h2 : (0 : Int) ≤ (u.toNat : Int) ∧ (u.toNat : Int) < 2 ^ 64 := by omega
      simp only [toT, untaggedPrint, untaggedParse_int, asInt64_int_none h1, asUint64_int h2, normalize, if_neg h]
      simp [fromT]
  | .float64 k => by
    simp [toT, untaggedPrint, untaggedParse, asNull, asInt64, asUint64, asFloat64, fromT, normalize]
  | .string s => by
    simp [toT, untaggedPrint, untaggedParse, asNull, asInt64, asUint64, asFloat64, asString, fromT, normalize]
  | .boolean b => by
    simp [toT, untaggedPrint, untaggedParse, asNull, asInt64, asUint64, asFloat64, asString, asBoolean, fromT, normalize]
  | .enum s => by
    simp [toT, untaggedPrint, untaggedParse, asNull, asInt64, asUint64, asFloat64, asString, fromT, normalize]
  | .list l => by
    have := roundtripList_exact l
    simp only [toT, untaggedPrint, untaggedParse, asNull, asInt64, asUint64, asFloat64, asString, asBoolean, asEnum, normalize]
    cases h : untaggedParseList (untaggedPrintList (toTList l)) with
    | none => simp [h] at this
    | some vs => simp [h] at this; simp [fromT, this]
theorem roundtripList_exact : (l : List Value) →
    (untaggedParseList (untaggedPrintList (toTList l))).map fromTList = some (normalizeList l)
  | [] => by simp [toTList, untaggedPrintList, untaggedParseList, fromTList, normalizeList]
  | v :: vs => by
    have h1 := roundtrip_exact v
    have h2 := roundtripList_exact vs
    simp only [toTList, untaggedPrintList, untaggedParseList, normalizeList]
    cases a : untaggedParse (untaggedPrint (toT v)) with
    | none => simp [a] at h1
    | some x =>
      cases b : untaggedParseList (untaggedPrintList (toTList vs)) with
      | none => simp [b] at h2
      | some xs => simp [a, b] at h1 h2; simp [fromTList, h1, h2]
end

mutual
theorem beq_self : (v : Value) → Value.beq v v = true
  | .null => by simp [Value.beq, Value.disc]
  | .int64 _ | .uint64 _ | .float64 _ | .string _ | .boolean _ | .enum _ => by simp [Value.beq]
  | .list l => by simp [Value.beq, beqList_self l]
theorem beqList_self : (l : List Value) → Value.beqList l l = true
  | [] => by simp [Value.beqList]
  | v :: vs => by simp [Value.beqList, beq_self v, beqList_self vs]
end

mutual
/-- On enum-free values the normal form is `==` to the original. -/
theorem normalize_beq : (v : Value) → v.enumFree = true → Value.beq (normalize v) v = true
  | .null => fun _ => by simp [normalize, Value.beq, Value.disc]
  | .int64 _ | .float64 _ | .string _ | .boolean _ => fun _ => by simp [normalize, Value.beq]
  | .enum _ => fun h => by simp [Value.enumFree] at h
  | .uint64 u => fun _ => by
    by_cases h : u.toNat < 2 ^ 63
    · simp only [normalize, if_pos h, Value.beq, Value.cmpI64U64]
      have e : (Int64.ofInt (u.toNat : Int)).toInt = (u.toNat : Int) :=
        Int64.toInt_ofInt_of_le (by omega) (by omega)
      simp [e]
    · simp [normalize, h, Value.beq]
  | .list l => fun h => by
    simp only [Value.enumFree] at h
    simp only [normalize, Value.beq]
    exact normalizeList_beq l h
theorem normalizeList_beq : (l : List Value) → Value.enumFreeList l = true →
    Value.beqList (normalizeList l) l = true
  | [] => fun _ => by simp [normalizeList, Value.beqList]
  | v :: vs => fun h => by
    simp only [Value.enumFreeList, Bool.and_eq_true] at h
    simp [normalizeList, Value.beqList, normalize_beq v h.1, normalizeList_beq vs h.2]
end

mutual
/-- A value with an enum leaf is never `==` to its normal form. -/
theorem normalize_not_beq : (v : Value) → v.enumFree = false → Value.beq (normalize v) v = false
  | .null | .int64 _ | .uint64 _ | .float64 _ | .string _ | .boolean _ => fun h => by
    simp [Value.enumFree] at h
  | .enum _ => fun _ => by simp [normalize, Value.beq, Value.disc]
  | .list l => fun h => by
    simp only [Value.enumFree] at h
    simp only [normalize, Value.beq]
    exact normalizeList_not_beq l h
theorem normalizeList_not_beq : (l : List Value) → Value.enumFreeList l = false →
    Value.beqList (normalizeList l) l = false
  | [] => fun h => by simp [Value.enumFreeList] at h
  | v :: vs => fun h => by
    simp only [Value.enumFreeList, Bool.and_eq_false_iff] at h
    simp only [normalizeList, Value.beqList, Bool.and_eq_false_iff]
    cases h with
    | inl h => exact Or.inl (normalize_not_beq v h)
    | inr h => exact Or.inr (normalizeList_not_beq vs h)
end

end TF.Serial
